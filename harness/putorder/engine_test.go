// Engine `putorder` (C01, C14): concurrent submissions of versions of one alert to the REAL
// mem.Alerts provider feeding a REAL dispatcher.  Storing a version and publishing it to the
// subscribers must be one atomic step: whatever order the provider stored the versions in is the
// order the dispatcher sees them in, so after quiescence every aggregation group holds the version
// the provider holds.  The store callback (AlertStoreCallback.PostStore) of the first submission
// signals a second submitter and then dawdles: code that keeps the provider lock across the callback
// (as the pinned code does) serialises the two; code that releases it lets the second submission
// overtake the first between its store and its publish.
//
// Real time, real goroutines (a mutex wait is not durable under synctest); a case takes ~10 ms.
package putorder

import (
	"context"
	"fmt"
	"log/slog"
	"math/rand/v2"
	"sort"
	"strconv"
	"strings"
	"sync"
	"testing"
	"time"

	"github.com/prometheus/client_golang/prometheus"
	"github.com/prometheus/common/model"
	"github.com/prometheus/common/promslog"
	"go.opentelemetry.io/otel"
	"go.opentelemetry.io/otel/propagation"

	"github.com/prometheus/alertmanager/alert"
	"github.com/prometheus/alertmanager/config"
	"github.com/prometheus/alertmanager/dispatch"
	"github.com/prometheus/alertmanager/eventrecorder"
	"github.com/prometheus/alertmanager/marker"
	"github.com/prometheus/alertmanager/notify"
	"github.com/prometheus/alertmanager/provider/mem"

	"verif/harness/hx"
)

type hook struct {
	mtx    sync.Mutex
	armed  map[string]chan struct{} // version tag -> closed when that version has been stored
	inject chan struct{}            // closed when the next message header is being injected (after the store)
	dawdle time.Duration
}

func tagOf(a *alert.Alert) string { return string(a.Annotations["v"]) }

func (h *hook) PreStore(*alert.Alert, bool) error { return nil }
func (h *hook) PostStore(a *alert.Alert, _ bool) {
	h.mtx.Lock()
	ch := h.armed[tagOf(a)]
	delete(h.armed, tagOf(a))
	d := h.dawdle
	h.mtx.Unlock()
	if ch != nil {
		close(ch)
		time.Sleep(d)
	}
}
func (h *hook) PostDelete(*alert.Alert)     {}
func (h *hook) PostGC(model.Fingerprints) {}

// dawdlingPropagator: mem.Alerts.Put injects the tracing header of every published message through the global
// propagator it captured at construction — a second seam between "stored" and "published".
type dawdlingPropagator struct {
	propagation.TextMapPropagator
	h *hook
}

func (p dawdlingPropagator) Inject(ctx context.Context, c propagation.TextMapCarrier) {
	p.h.mtx.Lock()
	ch, d := p.h.inject, p.h.dawdle
	p.h.inject = nil
	p.h.mtx.Unlock()
	if ch != nil {
		close(ch)
		time.Sleep(d)
	}
	p.TextMapPropagator.Inject(ctx, c)
}

func labelsOf(id int) model.LabelSet {
	return model.LabelSet{"alertname": "A", "id": model.LabelValue(strconv.Itoa(id))}
}

func runCase(t *testing.T, tr *hx.Trace, id int, script []string, r *rand.Rand) {
	logger := promslog.NewNopLogger()
	rec := eventrecorder.NopRecorder()
	ctx, cancel := context.WithCancel(context.Background())
	defer cancel()
	h := &hook{armed: map[string]chan struct{}{}, dawdle: 3 * time.Millisecond}
	prev := otel.GetTextMapPropagator()
	// wrap a concrete propagator: the global one is a delegate that would forward back to this wrapper
	otel.SetTextMapPropagator(dawdlingPropagator{propagation.TraceContext{}, h})
	defer otel.SetTextMapPropagator(prev)
	alerts, err := mem.NewAlerts(ctx, time.Hour, 0, h, logger, rec, prometheus.NewRegistry(), nil)
	if err != nil {
		t.Fatal(err)
	}
	defer alerts.Close()
	conf, err := config.Load("route:\n  receiver: r\n  group_by: [alertname]\n  group_wait: 1h\n  group_interval: 1h\n  repeat_interval: 1h\nreceivers:\n- name: r\n")
	if err != nil {
		t.Fatal(err)
	}
	route := dispatch.NewRoute(conf.Route, nil)
	disp := dispatch.NewDispatcher(alerts, route, notify.StageFunc(func(ctx context.Context, _ *slog.Logger, as ...*alert.Alert) (context.Context, []*alert.Alert, error) {
		return ctx, as, nil
	}), marker.NewGroupMarker(), nil, time.Hour, nil, logger, rec, nil, nil)
	go disp.Run(time.Now())
	disp.WaitForLoading()
	defer disp.Stop()

	header := ""
	var ops []string
	if script != nil {
		header, ops = script[0], script[1:]
	} else {
		header = fmt.Sprintf("case %d", id)
		// race a b: submit version a; when the provider has stored it, submit version b concurrently
		n := 1 + r.IntN(3)
		v := 0
		for range n {
			aid := 1 + r.IntN(2)
			ka, kb := hx.Pick(r, []string{"f", "r"}), hx.Pick(r, []string{"f", "r"})
			switch r.IntN(3) {
			case 0:
				ops = append(ops, fmt.Sprintf("race %d %s%d %s%d", aid, ka, v+1, kb, v+2))
			case 1:
				// same race, the first submission held up at the header injection instead of the store callback
				ops = append(ops, fmt.Sprintf("racei %d %s%d %s%d", aid, ka, v+1, kb, v+2))
			default:
				// no concurrency: the later submission carries an OLDER UpdatedAt (clients stamp before they submit)
				ops = append(ops, fmt.Sprintf("stale %d %s%d %s%d", aid, ka, v+1, kb, v+2))
			}
			v += 2
		}
	}
	tr.Linef("%s", header)
	t0 := time.Now()
	stale := map[string]bool{}
	mk := func(aid int, tag string) *alert.Alert {
		a := &alert.Alert{Alert: model.Alert{Labels: labelsOf(aid), Annotations: model.LabelSet{"v": model.LabelValue(tag)}, StartsAt: t0.Add(-time.Minute)}, UpdatedAt: time.Now()}
		if stale[tag] {
			a.UpdatedAt = a.UpdatedAt.Add(-10 * time.Second)
		}
		if tag[0] == 'r' {
			a.EndsAt = time.Now().Add(-time.Second)
		} else {
			a.EndsAt = time.Now().Add(time.Hour)
		}
		return a
	}
	for _, op := range ops {
		f := strings.Fields(op)
		aid, _ := strconv.Atoi(f[1])
		switch f[0] {
		case "stale":
			alerts.Put(context.Background(), mk(aid, f[2]))
			stale[f[3]] = true
			alerts.Put(context.Background(), mk(aid, f[3]))
		case "race", "racei":
			stored := make(chan struct{})
			h.mtx.Lock()
			if f[0] == "race" {
				h.armed[f[2]] = stored
			} else {
				h.inject = stored
			}
			h.mtx.Unlock()
			var wg sync.WaitGroup
			wg.Add(2)
			go func() { defer wg.Done(); alerts.Put(context.Background(), mk(aid, f[2])) }()
			go func() {
				defer wg.Done()
				select {
				case <-stored:
				case <-time.After(2 * time.Second):
				}
				alerts.Put(context.Background(), mk(aid, f[3]))
			}()
			wg.Wait()
		default:
			t.Fatalf("bad op %q", op)
		}
		// quiescence: give the dispatcher up to 5 s (real time, generous under machine load) to hold the version
		// the provider holds; a reordered publish never converges, a slow machine does
		st, err := alerts.Get(labelsOf(aid).Fingerprint())
		pv := "none"
		if err == nil {
			pv = tagOf(st)
		}
		want := fmt.Sprintf("%d=%s", aid, pv)
		var seen string
		deadline := time.Now().Add(5 * time.Second)
		for {
			seen = groupVersions(disp)
			ok := false
			for _, kv := range strings.Split(seen, ",") {
				if kv == want {
					ok = true
				}
			}
			if ok || time.Now().After(deadline) {
				break
			}
			time.Sleep(2 * time.Millisecond)
		}
		if seen != "" {
			// one more look after a pause: a stale version published late would overwrite the right one
			time.Sleep(10 * time.Millisecond)
			seen = groupVersions(disp)
		}
		tr.Linef("%s -> %s %s", op, pv, seen)
	}
}

func groupVersions(d *dispatch.Dispatcher) string {
	gs, _, err := d.Groups(context.Background(), func(*dispatch.Route) bool { return true }, func(*alert.Alert, time.Time) bool { return true })
	if err != nil {
		return "error"
	}
	var parts []string
	for _, g := range gs {
		for _, a := range g.Alerts {
			parts = append(parts, fmt.Sprintf("%s=%s", a.Labels["id"], tagOf(a)))
		}
	}
	sort.Strings(parts)
	return hx.Join(parts, ",")
}

func TestEngine(t *testing.T) {
	tr := hx.Open()
	defer tr.Close()
	if s := hx.Script(); s != nil {
		var cur []string
		n := 0
		flush := func() {
			if cur != nil {
				runCase(t, tr, n, cur, nil)
				n++
			}
		}
		for _, l := range s {
			if strings.HasPrefix(l, "case ") {
				flush()
				cur = []string{l}
			} else if cur != nil {
				cur = append(cur, l)
			}
		}
		flush()
		return
	}
	r := hx.Rand(31)
	for id := range hx.Cases(150, 3000) {
		runCase(t, tr, id, nil, r)
	}
}
