// Engine `sys` (C01, C04, C05): the REAL provider (mem.Alerts) + Dispatcher +
// full notification pipeline (inhibitor without rules, real Silences/Silencer,
// time stages, Dedup/Retry/SetNotifies) + real nflog, assembled as
// app/reloader.go does, under testing/synctest virtual time with scripted
// notifiers.  A recording stage wrapped around the pipeline observes every
// flush (tick, wall instant, the alerts handed to the pipeline, outcome).
package sys

import (
	"context"
	"errors"
	"fmt"
	"log/slog"
	"math/rand/v2"
	"sort"
	"strconv"
	"strings"
	"sync"
	"testing"
	"testing/synctest"
	"time"

	"github.com/cespare/xxhash/v2"
	"github.com/prometheus/client_golang/prometheus"
	"github.com/prometheus/common/model"
	"github.com/prometheus/common/promslog"

	"github.com/prometheus/alertmanager/alert"
	"github.com/prometheus/alertmanager/config"
	"github.com/prometheus/alertmanager/dispatch"
	"github.com/prometheus/alertmanager/eventrecorder"
	"github.com/prometheus/alertmanager/featurecontrol"
	"github.com/prometheus/alertmanager/inhibit"
	"github.com/prometheus/alertmanager/marker"
	"github.com/prometheus/alertmanager/nflog"
	"github.com/prometheus/alertmanager/notify"
	"github.com/prometheus/alertmanager/provider/mem"
	"github.com/prometheus/alertmanager/silence"
	pbn "github.com/prometheus/alertmanager/nflog/nflogpb"
	pbs "github.com/prometheus/alertmanager/silence/silencepb"
	"github.com/prometheus/alertmanager/timeinterval"
	"google.golang.org/protobuf/types/known/timestamppb"

	"verif/harness/hx"
)

const nAlerts = 4

// maintenanceInterval is incommensurable with every op instant and timer of a case (those are whole
// milliseconds plus a few nanoseconds): the dispatcher's maintenance never ties with a flush, whose
// relative order would otherwise decide whether a destroyed group still counts against the group limit.
const maintenanceInterval = 15*time.Second + 7*time.Millisecond + 618033*time.Nanosecond

func labelsOf(id int) model.LabelSet {
	// two groups: ids 1,2 → g=a ; ids 3,4 → g=b
	g := "a"
	if id > 2 {
		g = "b"
	}
	return model.LabelSet{"alertname": "A", "id": model.LabelValue(strconv.Itoa(id)), "g": model.LabelValue(g)}
}

type event struct {
	wall int64
	gkey string
	fl   int // number of flushes of this group started so far (the flush this event belongs to)
	seq  int
	kind string // flush | sent | end
	idx  int
	text string
}

type world struct {
	t0     time.Time
	mtx    sync.Mutex
	events  []event
	seq     int
	flushes map[string]int

	gw, gi, repeat, retention time.Duration
	srs                       []bool
	limit                     int // MaxNumberOfAggregationGroups (0 = unlimited)
	inh                       string // inhibition rules "s>t.s>t" (source id, target id) or "-"
	mute, active              string // minute-of-day range "a-b" of the route's mute / active time interval, or "-"

	nots     []*fakeNotifier
	alerts   *mem.Alerts
	sil      *silence.Silences
	log      *nflog.Log
	disp     *dispatch.Dispatcher
	inhr     *inhibit.Inhibitor
	cancel   context.CancelFunc
	silIDs   map[int]string
	pipeline notify.Stage
	gm       marker.GroupMarker // the group marker of the running dispatcher (what the API's GroupMutedFunc reads)
}

func (w *world) abs(off int64) time.Time { return w.t0.Add(time.Duration(off)) }
func (w *world) rel(t time.Time) int64 {
	if t.IsZero() {
		return -1
	}
	return int64(t.Sub(w.t0))
}

func (w *world) record(gkey, kind string, idx int, text string) {
	w.mtx.Lock()
	defer w.mtx.Unlock()
	w.seq++
	if w.flushes == nil {
		w.flushes = map[string]int{}
	}
	if kind == "flush" {
		w.flushes[gkey]++
	}
	w.events = append(w.events, event{wall: w.rel(time.Now()), gkey: gkey, fl: w.flushes[gkey], seq: w.seq, kind: kind, idx: idx, text: text})
}

func gshort(gkey string) string {
	// `{}:{g="a"}` → a
	if i := strings.Index(gkey, `g="`); i >= 0 {
		return gkey[i+3 : i+4]
	}
	return "?"
}

type fakeNotifier struct {
	w       *world
	idx     int
	mtx     sync.Mutex
	mode    string // ok | rec (recoverable error) | unrec | hang
	latency time.Duration
}

func (n *fakeNotifier) Notify(ctx context.Context, as ...*alert.Alert) (bool, error) {
	n.mtx.Lock()
	mode, d := n.mode, n.latency
	n.mtx.Unlock()
	gkey, _ := notify.GroupKey(ctx)
	if mode == "hang" {
		<-ctx.Done()
		return true, ctx.Err()
	}
	if d > 0 {
		select {
		case <-time.After(d):
		case <-ctx.Done():
			return true, ctx.Err()
		}
	}
	switch mode {
	case "rec":
		n.w.record(gshort(gkey), "try", n.idx, "rec")
		return true, errors.New("temporary failure")
	case "unrec":
		n.w.record(gshort(gkey), "try", n.idx, "unrec")
		return false, errors.New("permanent failure")
	}
	var f, r []string
	for _, a := range as {
		id := string(a.Labels["id"])
		if a.Resolved() {
			r = append(r, id+"@"+strconv.FormatInt(n.w.rel(a.EndsAt), 10))
		} else {
			f = append(f, id)
		}
	}
	sort.Strings(f)
	sort.Strings(r)
	n.w.record(gshort(gkey), "sent", n.idx, hx.Join(f, ".")+"/"+hx.Join(r, "."))
	return false, nil
}

type groupLimit int

func (l groupLimit) MaxNumberOfAggregationGroups() int { return int(l) }

type sr bool

func (s sr) SendResolved() bool { return bool(s) }

// recStage wraps the real pipeline: it sees exactly what aggrGroup.flush hands over.
type recStage struct {
	w     *world
	inner notify.Stage
}

func (s recStage) Exec(ctx context.Context, l *slog.Logger, as ...*alert.Alert) (context.Context, []*alert.Alert, error) {
	gkey, _ := notify.GroupKey(ctx)
	now, _ := notify.Now(ctx)
	var parts []string
	for _, a := range as {
		st := "f"
		if !a.EndsAt.IsZero() {
			st = "r"
		}
		parts = append(parts, fmt.Sprintf("%s:%s:%d:%d", a.Labels["id"], st, s.w.rel(a.EndsAt), s.w.rel(a.UpdatedAt)))
	}
	sort.Strings(parts)
	s.w.record(gshort(gkey), "flush", 0, fmt.Sprintf("%d %s", s.w.rel(now), hx.Join(parts, ",")))
	c, out, err := s.inner.Exec(ctx, l, as...)
	res := "ok"
	if err != nil {
		res = "err"
	}
	// the group's muted marker as GET /api/v2/alerts/groups reads it (GroupMarker.Muted(routeID, groupKey)), right after the flush
	mk := "0"
	if rid, ok := notify.RouteID(ctx); ok {
		if _, muted := s.w.gm.Muted(rid, gkey); muted {
			mk = "1"
		}
	}
	s.w.record(gshort(gkey), "end", 0, res+" "+s.w.entries(gkey)+" "+mk)
	return c, out, err
}

// entries renders the log entries of one group, one per integration: ts,firing,resolved | none
func (w *world) entries(gkey string) string {
	if len(w.srs) == 0 {
		return "-" // a receiver without integrations (blackhole) has no log entries
	}
	out := make([]string, len(w.srs))
	for i := range w.srs {
		es, err := w.log.Query(nflog.QGroupKey(gkey), nflog.QReceiver(&pbn.Receiver{GroupName: "r", Integration: "fake", Idx: uint32(i)}))
		if err != nil || len(es) != 1 {
			out[i] = "none"
			continue
		}
		out[i] = fmt.Sprintf("%d,%s,%s", w.rel(es[0].Timestamp.AsTime()), idsOf(es[0].FiringAlerts), idsOf(es[0].ResolvedAlerts))
	}
	return strings.Join(out, ";")
}

func hashOf(ls model.LabelSet) uint64 {
	names := make([]string, 0, len(ls))
	for n := range ls {
		names = append(names, string(n))
	}
	sort.Strings(names)
	var b []byte
	for _, n := range names {
		b = append(b, n...)
		b = append(b, 0xff)
		b = append(b, ls[model.LabelName(n)]...)
		b = append(b, 0xff)
	}
	return xxhash.Sum64(b)
}

var idOfHash = func() map[uint64]int {
	m := map[uint64]int{}
	for i := 1; i <= nAlerts; i++ {
		m[hashOf(labelsOf(i))] = i
	}
	return m
}()

func idsOf(hs []uint64) string {
	var l []int
	for _, h := range hs {
		if id, ok := idOfHash[h]; ok {
			l = append(l, id)
		} else {
			l = append(l, 0)
		}
	}
	sort.Ints(l)
	s := make([]string, len(l))
	for i, v := range l {
		s[i] = strconv.Itoa(v)
	}
	return hx.Join(s, ".")
}

func (w *world) start() {
	logger := promslog.NewNopLogger()
	rec := eventrecorder.NopRecorder()
	var err error
	ctx, cancel := context.WithCancel(context.Background())
	w.cancel = cancel
	w.alerts, err = mem.NewAlerts(ctx, 100*time.Hour, 0, nil, logger, rec, prometheus.NewRegistry(), nil)
	if err != nil {
		panic(err)
	}
	w.sil, err = silence.New(silence.Options{Retention: time.Hour, Logger: logger, Metrics: prometheus.NewRegistry()})
	if err != nil {
		panic(err)
	}
	w.log, err = nflog.New(nflog.Options{Retention: w.retention, Metrics: prometheus.NewRegistry()})
	if err != nil {
		panic(err)
	}
	w.startDispatcher()
}

func (w *world) startDispatcher() {
	logger := promslog.NewNopLogger()
	rec := eventrecorder.NopRecorder()
	yml := fmt.Sprintf("route:\n  receiver: r\n  group_by: [g]\n  group_wait: %dms\n  group_interval: %dms\n  repeat_interval: %dms\n",
		w.gw.Milliseconds(), w.gi.Milliseconds(), w.repeat.Milliseconds())
	// the root route cannot carry time intervals: with a mute / active interval every alert goes through one child route
	hhmm := func(r string, i int) string {
		m, _ := strconv.Atoi(strings.Split(r, "-")[i])
		return fmt.Sprintf("'%02d:%02d'", m/60, m%60)
	}
	tiYml := ""
	if w.mute != "" && w.mute != "-" || w.active != "" && w.active != "-" {
		yml += "  routes:\n  - matchers: [ alertname = A ]\n"
		if w.mute != "" && w.mute != "-" {
			yml += "    mute_time_intervals: [m]\n"
			tiYml += fmt.Sprintf("- name: m\n  time_intervals:\n  - times:\n    - start_time: %s\n      end_time: %s\n", hhmm(w.mute, 0), hhmm(w.mute, 1))
		}
		if w.active != "" && w.active != "-" {
			yml += "    active_time_intervals: [a]\n"
			tiYml += fmt.Sprintf("- name: a\n  time_intervals:\n  - times:\n    - start_time: %s\n      end_time: %s\n", hhmm(w.active, 0), hhmm(w.active, 1))
		}
	}
	yml += "receivers:\n- name: r\n"
	if tiYml != "" {
		yml += "time_intervals:\n" + tiYml
	}
	if w.inh != "" && w.inh != "-" {
		yml += "inhibit_rules:\n"
		for _, r := range strings.Split(w.inh, ".") {
			st := strings.Split(r, ">")
			yml += fmt.Sprintf("- source_matchers: [ id = %s ]\n  target_matchers: [ id = %s ]\n", st[0], st[1])
		}
	}
	conf, err := config.Load(yml)
	if err != nil {
		panic(err.Error() + "\n" + yml)
	}
	tis := make(map[string][]timeinterval.TimeInterval)
	for _, ti := range conf.TimeIntervals {
		tis[ti.Name] = ti.TimeIntervals
	}
	route := dispatch.NewRoute(conf.Route, nil)
	w.inhr = inhibit.NewInhibitor(w.alerts, conf.InhibitRules, logger, rec)
	silencer := silence.NewSilencer(w.sil, logger, rec)
	var ints []notify.Integration
	for i, s := range w.srs {
		ints = append(ints, notify.NewIntegration(w.nots[i], sr(s), "fake", i, "r"))
	}
	gm := marker.NewGroupMarker()
	w.gm = gm
	pbld := notify.NewPipelineBuilder(prometheus.NewRegistry(), featurecontrol.NoopFlags{}, rec)
	pipe := pbld.New(map[string][]notify.Integration{"r": ints}, func() time.Duration { return 0 },
		w.inhr, silencer, timeinterval.NewIntervener(tis), gm, w.log, nil)
	timeout := func(d time.Duration) time.Duration {
		if d < notify.MinTimeout {
			d = notify.MinTimeout
		}
		return d
	}
	w.disp = dispatch.NewDispatcher(w.alerts, route, recStage{w, pipe}, gm, timeout, maintenanceInterval, groupLimit(w.limit), logger, rec, nil, nil)
	go w.inhr.Run()
	w.inhr.WaitForLoading()
	go w.disp.Run(time.Now())
	w.disp.WaitForLoading()
	synctest.Wait()
}

func (w *world) stopDispatcher() {
	w.disp.Stop()
	w.inhr.Stop()
	synctest.Wait()
}

func (w *world) stop() {
	w.stopDispatcher()
	w.alerts.Close()
	w.cancel()
	synctest.Wait()
}

func (w *world) sleepTo(off int64) {
	if d := w.abs(off).Sub(time.Now()); d > 0 {
		time.Sleep(d)
	}
	synctest.Wait()
}

// drain returns the events recorded so far in canonical order.
func (w *world) drain() []string {
	w.mtx.Lock()
	ev := w.events
	w.events = nil
	w.mtx.Unlock()
	sort.SliceStable(ev, func(i, j int) bool {
		if ev[i].wall != ev[j].wall {
			return ev[i].wall < ev[j].wall
		}
		if ev[i].gkey != ev[j].gkey {
			return ev[i].gkey < ev[j].gkey
		}
		// inside one group at one instant: flush by flush (causal), and inside one flush:
		// start, then the concurrent integrations of the fan-out by index, then the end
		if ev[i].fl != ev[j].fl {
			return ev[i].fl < ev[j].fl
		}
		rank := func(k string) int {
			switch k {
			case "flush":
				return 0
			case "end":
				return 2
			}
			return 1
		}
		if rank(ev[i].kind) != rank(ev[j].kind) {
			return rank(ev[i].kind) < rank(ev[j].kind)
		}
		if ev[i].idx != ev[j].idx {
			return ev[i].idx < ev[j].idx
		}
		return ev[i].seq < ev[j].seq
	})
	out := make([]string, len(ev))
	for i, e := range ev {
		out[i] = fmt.Sprintf("ev %s %d %s %d %s", e.kind, e.wall, e.gkey, e.idx, e.text)
	}
	return out
}

func (w *world) groups() string {
	gs, _, err := w.disp.Groups(context.Background(), func(*dispatch.Route) bool { return true }, func(*alert.Alert, time.Time) bool { return true })
	if err != nil {
		return "error"
	}
	var parts []string
	for _, g := range gs {
		var as []string
		for _, a := range g.Alerts {
			as = append(as, fmt.Sprintf("%s:%d:%d", a.Labels["id"], w.rel(a.EndsAt), w.rel(a.UpdatedAt)))
		}
		sort.Strings(as)
		parts = append(parts, gshort(g.GroupKey)+"="+hx.Join(as, ","))
	}
	sort.Strings(parts)
	return hx.Join(parts, ";")
}

// exec runs one op; returns the op's own observation. Events are drained by the caller.
func (w *world) exec(line string) string {
	t := strings.Fields(line)
	switch t[0] {
	case "post": // post <now> <id> <start> <end>
		w.sleepTo(hx.Atoi64(t[1]))
		id, _ := strconv.Atoi(t[2])
		a := &alert.Alert{Alert: model.Alert{Labels: labelsOf(id), StartsAt: w.abs(hx.Atoi64(t[3])), EndsAt: w.abs(hx.Atoi64(t[4]))}, UpdatedAt: time.Now()}
		if err := w.alerts.Put(context.Background(), a); err != nil {
			return "error"
		}
		synctest.Wait()
		st, err := w.alerts.Get(a.Fingerprint())
		if err != nil {
			return "notstored"
		}
		return fmt.Sprintf("%d %d %d", w.rel(st.StartsAt), w.rel(st.EndsAt), w.rel(st.UpdatedAt))
	case "adv": // adv <now>
		w.sleepTo(hx.Atoi64(t[1]))
		return "ok"
	case "sil": // sil <now> <id> <dur>   silence alert id for dur
		w.sleepTo(hx.Atoi64(t[1]))
		id, _ := strconv.Atoi(t[2])
		s := &pbs.Silence{
			Matchers: []*pbs.Matcher{{Name: "id", Pattern: t[2], Type: pbs.Matcher_EQUAL}},
			StartsAt: timestamppb.New(time.Now()), EndsAt: timestamppb.New(time.Now().Add(time.Duration(hx.Atoi64(t[3])))),
			CreatedBy: "x", Comment: "y",
		}
		if err := w.sil.Set(context.Background(), s); err != nil {
			return "error:" + err.Error()
		}
		w.silIDs[id] = s.Id
		return "ok"
	case "unsil": // unsil <now> <id>
		w.sleepTo(hx.Atoi64(t[1]))
		id, _ := strconv.Atoi(t[2])
		sid, ok := w.silIDs[id]
		if !ok {
			return "nosilence"
		}
		if err := w.sil.Expire(context.Background(), sid); err != nil {
			return "error"
		}
		return "ok"
	case "mode": // mode <now> <integration> <ok|rec|unrec|hang> <latency>
		w.sleepTo(hx.Atoi64(t[1]))
		i, _ := strconv.Atoi(t[2])
		n := w.nots[i]
		n.mtx.Lock()
		n.mode = t[3]
		n.latency = time.Duration(hx.Atoi64(t[4]))
		n.mtx.Unlock()
		return "ok"
	case "nfgc": // nfgc <now>
		w.sleepTo(hx.Atoi64(t[1]))
		n, _ := w.log.GC()
		return strconv.Itoa(n)
	case "restart": // restart <now>   dispatcher restart (config reload)
		w.sleepTo(hx.Atoi64(t[1]))
		w.stopDispatcher()
		w.startDispatcher()
		return "ok"
	case "groups": // groups <now>
		w.sleepTo(hx.Atoi64(t[1]))
		return w.groups()
	}
	panic("bad op " + line)
}

func runCase(t *testing.T, tr *hx.Trace, id int, r *rand.Rand, script []string) {
	synctest.Test(t, func(t *testing.T) {
		w := &world{t0: time.Now(), silIDs: map[int]string{}}
		ms := int64(time.Millisecond)
		sec := int64(time.Second)
		var header string
		if script != nil {
			header = script[0]
			for _, f := range strings.Fields(header) {
				kv := strings.SplitN(f, "=", 2)
				if len(kv) != 2 {
					continue
				}
				switch kv[0] {
				case "gw":
					w.gw = time.Duration(hx.Atoi64(kv[1]))
				case "gi":
					w.gi = time.Duration(hx.Atoi64(kv[1]))
				case "repeat":
					w.repeat = time.Duration(hx.Atoi64(kv[1]))
				case "retention":
					w.retention = time.Duration(hx.Atoi64(kv[1]))
				case "limit":
					w.limit, _ = strconv.Atoi(kv[1])
				case "inh":
					w.inh = kv[1]
				case "mute":
					w.mute = kv[1]
				case "active":
					w.active = kv[1]
				case "sr": // empty: the receiver has no integrations (a blackhole receiver)
					for _, c := range kv[1] {
						w.srs = append(w.srs, c == '1')
					}
				}
			}
		} else {
			w.gw = time.Duration(int64(r.IntN(4)) * 5 * sec)
			w.gi = time.Duration(int64(1+r.IntN(4)) * 10 * sec)
			if r.IntN(4) == 0 {
				// shorter than the minimum flush timeout (10 s): a slow or failing delivery overruns the next tick,
				// which is then handled late and carries a tick older than the wall clock
				w.gi = time.Duration(int64(2+r.IntN(4)) * sec)
			}
			w.repeat = time.Duration(int64(1+r.IntN(5)) * 30 * sec)
			w.retention = time.Duration(int64(2+r.IntN(6)) * 60 * sec)
			srs := ""
			nint := 1 + r.IntN(2)
			if r.IntN(12) == 0 {
				nint = 0 // a receiver without any integration (`- name: blackhole`): every flush succeeds, nothing is sent
			}
			for range nint {
				b := r.IntN(3) > 0
				w.srs = append(w.srs, b)
				if b {
					srs += "1"
				} else {
					srs += "0"
				}
			}
			// the aggregation-group limit: with two possible groups a limit of 2 or 3 never binds in a correct
			// dispatcher (the counter follows the map); a limit of 1 makes the second group wait for the first to go
			w.limit = hx.Pick(r, []int{0, 0, 1, 2, 2, 3})
			// suppression other than silences: inhibition rules between the four alerts (within a group, across groups,
			// chains), a mute and/or an active time interval of the route on the minute grid the case runs over
			w.inh, w.mute, w.active = "-", "-", "-"
			if r.IntN(3) == 0 {
				w.inh = hx.Pick(r, []string{"1>2", "1>2.3>4", "1>3", "1>2.2>1", "1>2.2>3", "4>1.4>2.4>3"})
			}
			if r.IntN(4) == 0 {
				a := 1 + r.IntN(8)
				w.mute = fmt.Sprintf("%d-%d", a, a+1+r.IntN(5))
			}
			if r.IntN(6) == 0 {
				a := r.IntN(4)
				w.active = fmt.Sprintf("%d-%d", a, a+3+r.IntN(12))
			}
			header = fmt.Sprintf("case %d gw=%d gi=%d repeat=%d retention=%d limit=%d sr=%s inh=%s mute=%s active=%s", id, int64(w.gw), int64(w.gi), int64(w.repeat), int64(w.retention), w.limit, srs, w.inh, w.mute, w.active)
		}
		for i := range w.srs {
			w.nots = append(w.nots, &fakeNotifier{w: w, idx: i, mode: "ok"})
		}
		w.start()
		defer w.stop()
		tr.Linef("%s", header)
		storedEnd := map[int]int64{} // per alert id: the end the provider stored at its last post
		do := func(line string) {
			// everything that happens while the clock advances to the op's instant precedes the op
			w.sleepTo(hx.Atoi64(strings.Fields(line)[1]))
			for _, e := range w.drain() {
				tr.Linef("%s", e)
			}
			obs := w.exec(line)
			synctest.Wait()
			tr.Linef("%s -> %s", line, obs)
			if f := strings.Fields(line); f[0] == "post" {
				if o := strings.Fields(obs); len(o) == 3 {
					id, _ := strconv.Atoi(f[2])
					storedEnd[id] = hx.Atoi64(o[1])
				}
			}
			for _, e := range w.drain() {
				tr.Linef("%s", e)
			}
		}
		if script != nil {
			for _, l := range script[1:] {
				if strings.HasPrefix(l, "ev ") {
					continue
				}
				do(l)
			}
			return
		}
		// generator: alert timelines on a 1 ms-offset grid so that op instants never tie with timers
		now := int64(0)
		uniq := int64(0)
		step := func(maxSec int) {
			uniq++
			now += int64(r.IntN(maxSec*4)+1)*sec/4 + uniq*ms%7 + 1*ms
			_ = uniq
		}
		nops := 10 + r.IntN(25)
		for range nops {
			step(12)
			switch x := r.IntN(100); {
			case x < 45:
				id := 1 + r.IntN(nAlerts)
				start := now - int64(r.IntN(3))*20*sec
				var end int64
				switch r.IntN(6) {
				case 0:
					end = now - 1*ms // explicit resolve
				case 1:
					end = now + int64(1+r.IntN(20))*sec // short timeout: resolves soon
				default:
					end = now + 5*60*sec
				}
				if e, ok := storedEnd[id]; ok && e <= now && r.IntN(3) == 0 {
					// the alert fires again, starting at the very instant its stored (resolved) episode ended: no overlap,
					// a new episode with its own start (a group re-created for it gets a fresh group_wait)
					start = e
					if end < start {
						end = now + 5*60*sec
					}
				}
				do(fmt.Sprintf("post %d %d %d %d", now, id, start, end))
			case x < 60:
				now += int64(r.IntN(60)) * sec
				do(fmt.Sprintf("adv %d", now))
			case x < 68:
				if (w.mute != "-" || w.active != "-") && r.IntN(2) == 0 {
					// a route with time intervals: silence a whole group for a long while, so that flushes in which
					// every alert is silenced happen on both sides of the interval's boundaries (the muted marker must follow)
					b := 1 + 2*r.IntN(2)
					d := int64(120+r.IntN(480)) * sec
					do(fmt.Sprintf("sil %d %d %d", now, b, d))
					do(fmt.Sprintf("sil %d %d %d", now, b+1, d))
					break
				}
				do(fmt.Sprintf("sil %d %d %d", now, 1+r.IntN(nAlerts), int64(10+r.IntN(120))*sec))
			case x < 73:
				do(fmt.Sprintf("unsil %d %d", now, 1+r.IntN(nAlerts)))
			case x < 85 && len(w.srs) > 0:
				mode := hx.Pick(r, []string{"ok", "ok", "ok", "rec", "unrec", "hang"})
				lat := int64(0)
				if r.IntN(3) == 0 {
					lat = int64(1+r.IntN(15)) * sec
				}
				do(fmt.Sprintf("mode %d %d %s %d", now, r.IntN(len(w.srs)), mode, lat))
			case x < 90:
				do(fmt.Sprintf("nfgc %d", now))
			case x < 93 && w.limit != 1:
				// a config reload cancels in-flight flushes; the generator restarts only when
				// every integration answers at once, so that no flush is in flight
				for i := range w.srs {
					do(fmt.Sprintf("mode %d %d ok 0", now, i))
				}
				now += int64(notify.MinTimeout) + int64(w.gi)
				do(fmt.Sprintf("adv %d", now))
				step(3)
				do(fmt.Sprintf("restart %d", now))
			default:
				do(fmt.Sprintf("groups %d", now))
			}
		}
		// let everything settle: all integrations accept, run past a repeat interval
		for i := range w.srs {
			do(fmt.Sprintf("mode %d %d ok 0", now, i))
		}
		now += int64(w.gw+w.gi+w.repeat) + 20*sec
		do(fmt.Sprintf("adv %d", now))
		do(fmt.Sprintf("groups %d", now))
	})
}

func TestEngine(t *testing.T) {
	tr := hx.Open()
	defer tr.Close()
	if s := hx.Script(); s != nil {
		var cur []string
		n := 0
		flush := func() {
			if cur != nil {
				runCase(t, tr, n, nil, cur)
				n++
			}
		}
		for _, l := range s {
			if strings.HasPrefix(l, "case ") {
				flush()
				cur = []string{l}
			} else if cur != nil {
				cur = append(cur, l)
			}
		}
		flush()
		return
	}
	r := hx.Rand(1)
	for id := range hx.Cases(400, 8000) {
		runCase(t, tr, id, r, nil)
	}
}
