// Engine `limits` (C18): drives the real per-alert-name limit — store.Alerts with
// WithPerAlertLimit (which owns real limit.Bucket heaps) directly, and mem.Alerts
// (Put + its own GC loop + alertmanager_alerts_limited_total) — under virtual
// time with generated or replayed admission / re-send / wait / GC sequences.
package limits

import (
	"context"
	"fmt"
	"math/rand/v2"
	"sort"
	"strconv"
	"strings"
	"testing"
	"testing/synctest"
	"time"

	"github.com/prometheus/client_golang/prometheus"
	"github.com/prometheus/client_golang/prometheus/testutil"
	"github.com/prometheus/common/model"
	"github.com/prometheus/common/promslog"

	"github.com/prometheus/alertmanager/eventrecorder"
	"github.com/prometheus/alertmanager/provider/mem"
	"github.com/prometheus/alertmanager/store"
	"github.com/prometheus/alertmanager/types"

	"verif/harness/hx"
)

var (
	names = []string{"A", "B", "N"} // N = no alertname label at all: such alerts share the name "" and its limit
	nIDs  = 7
)

type world struct {
	t0    time.Time
	layer string
	st    *store.Alerts
	mem   *mem.Alerts
	reg   *prometheus.Registry
	stop  context.CancelFunc
}

func (w *world) abs(off int64) time.Time { return w.t0.Add(time.Duration(off)) }
func (w *world) rel(t time.Time) int64    { return int64(t.Sub(w.t0)) }

func lset(name string, id int) model.LabelSet {
	if name == "N" {
		return model.LabelSet{"i": model.LabelValue(strconv.Itoa(id))}
	}
	return model.LabelSet{"alertname": model.LabelValue(name), "i": model.LabelValue(strconv.Itoa(id))}
}

func nameTok(n string) string {
	if n == "" {
		return "N"
	}
	return n
}

func (w *world) alert(name string, id int, ends int64) *types.Alert {
	return &types.Alert{
		Alert: model.Alert{
			Labels:   lset(name, id),
			StartsAt: w.t0.Add(-time.Hour),
			EndsAt:   w.abs(ends),
		},
		UpdatedAt: time.Now(),
	}
}

func (w *world) sleepTo(off int64) {
	if d := w.abs(off).Sub(time.Now()); d > 0 {
		time.Sleep(d)
	}
	synctest.Wait()
}

func (w *world) dump() string {
	var rows []string
	if w.layer == "store" {
		for _, a := range w.st.List() {
			rows = append(rows, fmt.Sprintf("%s:%s:%d", nameTok(a.Name()), a.Labels["i"], w.rel(a.EndsAt)))
		}
	} else {
		for _, n := range names {
			for id := range nIDs {
				if a, err := w.mem.Get(lset(n, id).Fingerprint()); err == nil {
					rows = append(rows, fmt.Sprintf("%s:%d:%d", n, id, w.rel(a.EndsAt)))
				}
			}
		}
	}
	sort.Strings(rows) // names are one letter, ids one digit: string order = (name,id) order
	return hx.Join(rows, ";")
}

func (w *world) limited() float64 {
	mfs, err := w.reg.Gather()
	if err != nil {
		panic(err)
	}
	for _, mf := range mfs {
		if mf.GetName() == "alertmanager_alerts_limited_total" {
			var s float64
			for _, m := range mf.Metric {
				s += m.GetCounter().GetValue()
			}
			return s
		}
	}
	return 0
}

func (w *world) exec(line string) string {
	t := strings.Fields(line)
	now := hx.Atoi64(t[1])
	w.sleepTo(now)
	switch t[0] {
	case "set":
		id, _ := strconv.Atoi(t[3])
		err := w.st.Set(w.alert(t[2], id, hx.Atoi64(t[4])))
		switch err {
		case nil:
			return "ok " + w.dump()
		case store.ErrLimited:
			return "limited " + w.dump()
		}
		return "error:" + hx.Hex(err.Error()) + " " + w.dump()
	case "gc":
		w.st.GC()
		return w.dump()
	case "mput":
		id, _ := strconv.Atoi(t[3])
		a := w.alert(t[2], id, hx.Atoi64(t[4]))
		c0 := w.limited()
		if err := w.mem.Put(context.Background(), a); err != nil {
			return "error:" + hx.Hex(err.Error())
		}
		synctest.Wait()
		delta := int(w.limited() - c0)
		got, err := w.mem.Get(a.Fingerprint())
		if err == nil && got.UpdatedAt.Equal(a.UpdatedAt) {
			return fmt.Sprintf("stored %d %d %s", w.rel(got.EndsAt), delta, w.dump())
		}
		return fmt.Sprintf("dropped - %d %s", delta, w.dump())
	case "mputb":
		// one Put call with several alerts of one name (a scrape batch): each is admitted or refused on its own
		var as []*types.Alert
		for _, it := range strings.Split(t[3], ";") {
			f := strings.Split(it, ",")
			id, _ := strconv.Atoi(f[0])
			as = append(as, w.alert(t[2], id, hx.Atoi64(f[1])))
		}
		c0 := w.limited()
		if err := w.mem.Put(context.Background(), as...); err != nil {
			return "error:" + hx.Hex(err.Error())
		}
		synctest.Wait()
		delta := int(w.limited() - c0)
		res := make([]string, len(as))
		for i, a := range as {
			got, err := w.mem.Get(a.Fingerprint())
			if err == nil && got.UpdatedAt.Equal(a.UpdatedAt) {
				res[i] = fmt.Sprintf("s:%d", w.rel(got.EndsAt))
			} else {
				res[i] = "d"
			}
		}
		return fmt.Sprintf("%s %d %s", strings.Join(res, ","), delta, w.dump())
	case "wait":
		return w.dump()
	}
	panic("bad op " + line)
}

const minute = int64(time.Minute)

func runCase(t *testing.T, tr *hx.Trace, id int, r *rand.Rand, script []string) {
	synctest.Test(t, func(t *testing.T) {
		w := &world{t0: time.Now()}
		var header string
		capN, gcint := 0, int64(0)
		if script != nil {
			header = script[0]
			for _, f := range strings.Fields(header) {
				if v, ok := strings.CutPrefix(f, "cap="); ok {
					capN, _ = strconv.Atoi(v)
				}
				if v, ok := strings.CutPrefix(f, "layer="); ok {
					w.layer = v
				}
				if v, ok := strings.CutPrefix(f, "gcint="); ok {
					gcint = hx.Atoi64(v)
				}
			}
		} else {
			capN = 1 + r.IntN(4)
			if r.IntN(25) == 0 {
				capN = 0 // no limit configured
			}
			w.layer = "store"
			if r.IntN(4) == 0 {
				w.layer = "mem"
				gcint = int64(1+r.IntN(3)) * minute
			}
			header = fmt.Sprintf("case %d cap=%d layer=%s gcint=%d", id, capN, w.layer, gcint)
		}
		tr.Linef("%s", header)
		if w.layer == "store" {
			w.st = store.NewAlerts().WithPerAlertLimit(capN)
		} else {
			ctx, cancel := context.WithCancel(context.Background())
			w.stop = cancel
			w.reg = prometheus.NewRegistry()
			m, err := mem.NewAlerts(ctx, time.Duration(gcint), capN, nil, promslog.NewNopLogger(), eventrecorder.NopRecorder(), w.reg, nil)
			if err != nil {
				panic(err)
			}
			w.mem = m
			_ = testutil.ToFloat64
		}
		defer func() {
			if w.stop != nil {
				w.stop()
				w.mem.Close()
				synctest.Wait()
			}
		}()
		do := func(line string) { tr.Linef("%s -> %s", line, w.exec(line)) }
		if script != nil {
			for _, l := range script[1:] {
				do(l)
			}
			return
		}
		now := int64(0)
		nops := 6 + r.IntN(16)
		offs := []int64{-minute, 0, minute, 2 * minute, 5 * minute, 30 * minute}
		for range nops {
			// advance: stay, +1ms, or whole minutes (so that ends == now happens)
			switch r.IntN(6) {
			case 0, 1:
				now += int64(time.Millisecond)
			case 2:
				now += minute
			case 3:
				now += int64(1+r.IntN(5)) * minute
			case 4:
				now = (now/minute + 1) * minute // next grid instant
			}
			if w.layer == "mem" && now%gcint == 0 {
				now += int64(time.Millisecond) // never operate exactly at a GC tick
			}
			name := names[0]
			switch r.IntN(8) {
			case 0, 1:
				name = names[1]
			case 2:
				name = names[2]
			}
			aid := r.IntN(nIDs)
			ends := (now/minute)*minute + hx.Pick(r, offs)
			if r.IntN(5) == 0 {
				ends = now
			}
			if w.layer == "store" {
				if r.IntN(5) == 0 {
					do(fmt.Sprintf("gc %d", now))
				} else {
					do(fmt.Sprintf("set %d %s %d %d", now, name, aid, ends))
				}
			} else {
				do(fmt.Sprintf("wait %d", now))
				if r.IntN(4) == 0 {
					// a batch: 2-4 distinct alerts of the name, new ones and re-sends mixed in random order
					perm := r.Perm(nIDs)[:2+r.IntN(3)]
					items := make([]string, len(perm))
					for i, x := range perm {
						items[i] = fmt.Sprintf("%d,%d", x, (now/minute)*minute+hx.Pick(r, offs))
					}
					do(fmt.Sprintf("mputb %d %s %s", now, name, strings.Join(items, ";")))
				} else {
					do(fmt.Sprintf("mput %d %s %d %d", now, name, aid, ends))
				}
			}
			now += int64(time.Millisecond)
		}
	})
}

func TestEngine(t *testing.T) {
	tr := hx.Open()
	defer tr.Close()
	if s := hx.Script(); s != nil {
		var cur []string
		n := 0
		flush := func() {
			if cur != nil {
				runCase(t, tr, n, nil, cur)
				n++
			}
		}
		for _, l := range s {
			if strings.HasPrefix(l, "case ") {
				flush()
				cur = []string{l}
			} else if cur != nil {
				cur = append(cur, l)
			}
		}
		flush()
		return
	}
	r := hx.Rand(18)
	for id := range hx.Cases(2500, 60000) {
		runCase(t, tr, id, r, nil)
	}
}
