//go:build verif

// Engine `gossip` (C19): the real cluster.delegate (NotifyMsg / LocalState /
// MergeRemoteState / GetBroadcasts, through the tagged export
// cluster.NewVerifDelegate — fixes/hook-cluster-export.diff) and the real
// cluster.Channel (Broadcast, size threshold, oversize queue + drop counter)
// over small last-writer-wins test states.  Byte level: payload sizes straddle
// the 700 byte threshold, arbitrary bytes are fed to the receive path.
package gossip

import (
	"bytes"
	"errors"
	"fmt"
	"math/rand/v2"
	"sort"
	"strconv"
	"strings"
	"sync"
	"testing"
	"testing/synctest"

	"github.com/hashicorp/memberlist"
	"github.com/prometheus/client_golang/prometheus"
	"github.com/prometheus/common/promslog"
	"google.golang.org/protobuf/proto"

	"github.com/prometheus/alertmanager/cluster"
	"github.com/prometheus/alertmanager/cluster/clusterpb"

	"verif/harness/hx"
)

// kvState is a cluster.State: id -> version, newer version wins.
// wire form: "id=ver,id=ver#padding"; anything else is rejected by Merge.
type kvState struct {
	mu sync.Mutex
	m  map[string]uint64
}

func (s *kvState) MarshalBinary() ([]byte, error) {
	s.mu.Lock()
	defer s.mu.Unlock()
	return []byte(showKV(s.m)), nil
}

func showKV(m map[string]uint64) string {
	var ks []string
	for k := range m {
		ks = append(ks, k)
	}
	sort.Strings(ks)
	for i, k := range ks {
		ks[i] = k + "=" + strconv.FormatUint(m[k], 10)
	}
	return strings.Join(ks, ",")
}

func (s *kvState) Merge(b []byte) error {
	if i := bytes.IndexByte(b, '#'); i >= 0 {
		b = b[:i]
	}
	type e struct {
		k string
		v uint64
	}
	var es []e
	if len(b) > 0 {
		for _, p := range strings.Split(string(b), ",") {
			kv := strings.Split(p, "=")
			if len(kv) != 2 || kv[0] == "" {
				return errors.New("kvState: malformed payload")
			}
			v, err := strconv.ParseUint(kv[1], 10, 64)
			if err != nil {
				return errors.New("kvState: malformed version")
			}
			es = append(es, e{kv[0], v})
		}
	}
	s.mu.Lock()
	defer s.mu.Unlock()
	for _, x := range es {
		if w, ok := s.m[x.k]; !ok || w < x.v {
			s.m[x.k] = x.v
		}
	}
	return nil
}

type node struct {
	states map[string]*kvState
	d      *cluster.VerifDelegate
}

func newNode(keys []string) *node {
	n := &node{states: map[string]*kvState{}}
	reg := map[string]cluster.State{}
	for _, k := range keys {
		n.states[k] = &kvState{m: map[string]uint64{}}
		reg[k] = n.states[k]
	}
	n.d = cluster.NewVerifDelegate(reg, 2, promslog.NewNopLogger())
	return n
}

func (n *node) dump() string {
	var ks []string
	for k := range n.states {
		ks = append(ks, k)
	}
	sort.Strings(ks)
	for i, k := range ks {
		ks[i] = k + "{" + showKV(n.states[k].m) + "}"
	}
	return hx.Join(ks, ";")
}

func payloadBytes(tok string, pad int) []byte {
	if tok == "bad" {
		return append([]byte("\xff\x00not a state"), bytes.Repeat([]byte("x"), pad)...)
	}
	b := []byte(tok[2:])
	if pad > 0 {
		b = append(append(b, '#'), bytes.Repeat([]byte("p"), pad)...)
	}
	return b
}

type world struct {
	nodes   [2]*node
	ch      *cluster.Channel
	reg     *prometheus.Registry
	stopc   chan struct{}
	mu      sync.Mutex
	held    bool
	release chan struct{}
	sends   int
	toB     [][]byte // reliable sends addressed to peer 0 (= node B), handed to B.NotifyMsg at `deliver`
	gossip  int
	peers   []*memberlist.Node
}

func (w *world) dropped() int {
	mfs, _ := w.reg.Gather()
	for _, mf := range mfs {
		if mf.GetName() == "alertmanager_oversized_gossip_message_dropped_total" {
			return int(mf.Metric[0].GetCounter().GetValue())
		}
	}
	return -1
}

func (w *world) exec(line string) string {
	t := strings.Fields(line)
	switch t[0] {
	case "notify":
		n := w.nodes[t[1][0]-'0']
		if t[2] == "raw" {
			n.d.NotifyMsg([]byte(hx.Unhex(t[3])))
			return n.dump()
		}
		b, err := proto.Marshal(&clusterpb.Part{Key: t[3], Data: payloadBytes(t[4], 0)})
		if err != nil {
			panic(err)
		}
		n.d.NotifyMsg(b)
		return n.dump()
	case "mergefull":
		n := w.nodes[t[1][0]-'0']
		if t[2] == "raw" {
			n.d.MergeRemoteState([]byte(hx.Unhex(t[3])), false)
			return n.dump()
		}
		fs := &clusterpb.FullState{}
		for _, p := range hx.Split(t[2], ";") {
			kp := strings.SplitN(p, "/", 2)
			fs.Parts = append(fs.Parts, &clusterpb.Part{Key: kp[0], Data: payloadBytes(kp[1], 0)})
		}
		b, err := proto.Marshal(fs)
		if err != nil {
			panic(err)
		}
		n.d.MergeRemoteState(b, true)
		return n.dump()
	case "exchange":
		from, to := w.nodes[t[1][0]-'0'], w.nodes[t[2][0]-'0']
		to.d.MergeRemoteState(from.d.LocalState(true), true)
		return to.dump()
	case "pushpull":
		// the PERIODIC push/pull of memberlist (join=false): what keeps two connected members equal when a gossip
		// packet was lost.  memberlist skips MergeRemoteState when the remote user state is empty.
		from, to := w.nodes[t[1][0]-'0'], w.nodes[t[2][0]-'0']
		if b := from.d.LocalState(false); len(b) > 0 {
			to.d.MergeRemoteState(b, false)
		}
		return to.dump()
	case "lose":
		// every update queued for gossip at A is transmitted into the void (packet loss): the queue is emptied, B sees nothing
		g := 0
		for {
			msgs := w.nodes[0].d.GetBroadcasts(0, 1<<20)
			if len(msgs) == 0 {
				break
			}
			g += len(msgs)
		}
		return fmt.Sprintf("lost=%d", g)
	case "bcast":
		pad, _ := strconv.Atoi(t[3])
		data := payloadBytes(t[2], pad)
		wrapped, _ := proto.Marshal(&clusterpb.Part{Key: t[1], Data: data})
		g0, d0 := w.gossip, w.dropped()
		w.ch.Broadcast(data)
		synctest.Wait()
		path := "oversize"
		if w.gossip > g0 {
			path = "gossip"
		} else if w.dropped() > d0 {
			path = "dropped"
		}
		w.mu.Lock()
		defer w.mu.Unlock()
		return fmt.Sprintf("%s size=%d dropped=%d sends=%d", path, len(wrapped), w.dropped(), w.sends)
	case "hold":
		w.mu.Lock()
		if t[1] == "1" && !w.held {
			w.held, w.release = true, make(chan struct{})
		} else if t[1] == "0" && w.held {
			w.held = false
			close(w.release)
		}
		w.mu.Unlock()
		synctest.Wait()
		return "ok"
	case "deliver":
		w.mu.Lock()
		if w.held {
			w.held = false
			close(w.release)
		}
		w.mu.Unlock()
		synctest.Wait()
		g := 0
		for {
			msgs := w.nodes[0].d.GetBroadcasts(0, 1<<20)
			if len(msgs) == 0 {
				break
			}
			for _, m := range msgs {
				w.nodes[1].d.NotifyMsg(m)
				g++
			}
		}
		w.mu.Lock()
		ov := w.toB
		w.toB = nil
		w.mu.Unlock()
		for _, m := range ov {
			w.nodes[1].d.NotifyMsg(m)
		}
		w.mu.Lock()
		snd := w.sends
		w.mu.Unlock()
		return fmt.Sprintf("gossiped=%d oversize=%d sends=%d %s", g, len(ov), snd, w.nodes[1].dump())
	}
	panic("bad op " + line)
}

func runCase(t *testing.T, tr *hx.Trace, id int, r *rand.Rand, script []string) {
	synctest.Test(t, func(t *testing.T) {
		var header string
		keysA, keysB := "sil.nfl", "sil.nfl"
		npeers := 2
		failFirst := false
		if script != nil {
			header = script[0]
			for _, f := range strings.Fields(header) {
				if v, ok := strings.CutPrefix(f, "keysA="); ok {
					keysA = v
				}
				if v, ok := strings.CutPrefix(f, "keysB="); ok {
					keysB = v
				}
				if v, ok := strings.CutPrefix(f, "peers="); ok {
					npeers, _ = strconv.Atoi(v)
				}
			}
		} else {
			ks := []string{"sil.nfl", "sil.nfl", "sil.nfl", "sil", "nfl", "nfl.sil.xtra"}
			keysA, keysB = hx.Pick(r, ks), hx.Pick(r, ks)
			npeers = r.IntN(3)
			if npeers >= 1 && r.IntN(3) == 0 {
				// one more member that is down but still listed: the reliable send to it fails; it is the first one tried
				npeers++
				failFirst = true
			}
			header = fmt.Sprintf("case %d keysA=%s keysB=%s peers=%d", id, keysA, keysB, npeers)
			if failFirst {
				header += " failfirst=1"
			}
		}
		tr.Linef("%s", header)
		w := &world{reg: prometheus.NewRegistry(), stopc: make(chan struct{})}
		w.nodes[0] = newNode(hx.Split(keysA, "."))
		w.nodes[1] = newNode(hx.Split(keysB, "."))
		if strings.Contains(header, " failfirst=1") {
			failFirst = true
		}
		if failFirst {
			w.peers = append(w.peers, &memberlist.Node{Name: "down"})
		}
		for i := range npeers {
			if failFirst && i == npeers-1 {
				break
			}
			w.peers = append(w.peers, &memberlist.Node{Name: strconv.Itoa(i)})
		}
		send := func(b []byte) {
			w.gossip++
			w.nodes[0].d.QueueBroadcast(b)
		}
		sendOversize := func(n *memberlist.Node, b []byte) error {
			w.mu.Lock()
			w.sends++
			rel := w.release
			held := w.held
			w.mu.Unlock()
			if held {
				<-rel
			}
			if n.Name == "down" {
				return errors.New("member is down")
			}
			if n.Name == "0" {
				w.mu.Lock()
				w.toB = append(w.toB, b)
				w.mu.Unlock()
			}
			return nil
		}
		w.ch = cluster.NewChannel("sil", send, func() []*memberlist.Node { return w.peers }, sendOversize, promslog.NewNopLogger(), w.stopc, w.reg)
		defer func() {
			w.mu.Lock()
			if w.held {
				w.held = false
				close(w.release)
			}
			w.mu.Unlock()
			close(w.stopc)
			synctest.Wait()
		}()
		do := func(line string) { tr.Linef("%s -> %s", line, w.exec(line)) }
		if script != nil {
			for _, l := range script[1:] {
				do(l)
			}
			return
		}
		ids := []string{"a", "b", "c", "d"}
		allKeys := []string{"sil", "nfl", "xtra", "zzz"}
		genPayload := func() string {
			if r.IntN(6) == 0 {
				return "bad"
			}
			n := 1 + r.IntN(3)
			if r.IntN(10) == 0 {
				n = 0
			}
			var es []string
			seen := map[string]bool{}
			for range n {
				k := hx.Pick(r, ids)
				if seen[k] {
					continue
				}
				seen[k] = true
				es = append(es, fmt.Sprintf("%s=%d", k, 1+r.IntN(5)))
			}
			return "e:" + strings.Join(es, ",")
		}
		flood := r.IntN(25) == 0
		nops := 6 + r.IntN(12)
		for range nops {
			node := r.IntN(2)
			switch x := r.IntN(20); {
			case x < 5:
				do(fmt.Sprintf("notify %d part %s %s", node, hx.Pick(r, allKeys[:3]), genPayload()))
			case x < 6:
				b := make([]byte, r.IntN(12))
				for i := range b {
					b[i] = byte(r.IntN(256))
				}
				if r.IntN(2) == 0 {
					do(fmt.Sprintf("notify %d raw %s", node, hx.Hex(string(b))))
				} else {
					do(fmt.Sprintf("mergefull %d raw %s", node, hx.Hex(string(b))))
				}
			case x < 11:
				n := 1 + r.IntN(3)
				var ps []string
				for range n {
					ps = append(ps, hx.Pick(r, allKeys)+"/"+genPayload())
				}
				do(fmt.Sprintf("mergefull %d %s", node, strings.Join(ps, ";")))
			case x < 13:
				if r.IntN(2) == 0 {
					do(fmt.Sprintf("exchange %d %d", node, 1-node))
				} else {
					do(fmt.Sprintf("pushpull %d %d", node, 1-node))
				}
			case x < 17:
				pad := []int{0, 0, 600, 670 + r.IntN(31), 670 + r.IntN(31), 670 + r.IntN(31), 675 + r.IntN(12), 700, 800, 2000}[r.IntN(10)]
				p := genPayload()
				if p == "bad" {
					p = "e:a=9"
				}
				do(fmt.Sprintf("bcast sil %s %d", p, pad))
			case x < 18:
				do(fmt.Sprintf("hold %d", r.IntN(2)))
			default:
				do("deliver")
			}
		}
		if !flood && r.IntN(5) == 0 {
			// an update A holds and gossips, the packet is lost, B stays connected: only the periodic exchange repairs it
			v := 6 + r.IntN(4)
			id := hx.Pick(r, ids)
			do(fmt.Sprintf("notify 0 part sil e:%s=%d", id, v))
			do(fmt.Sprintf("bcast sil e:%s=%d 0", id, v))
			do("lose")
			do("pushpull 0 1")
		}
		if flood && npeers > 0 {
			do("hold 1")
			for i := range 204 {
				do(fmt.Sprintf("bcast sil e:a=%d 800", 10+i))
			}
		}
		do("deliver")
	})
}

func TestEngine(t *testing.T) {
	tr := hx.Open()
	defer tr.Close()
	if s := hx.Script(); s != nil {
		var cur []string
		n := 0
		flush := func() {
			if cur != nil {
				runCase(t, tr, n, nil, cur)
				n++
			}
		}
		for _, l := range s {
			if strings.HasPrefix(l, "case ") {
				flush()
				cur = []string{l}
			} else if cur != nil {
				cur = append(cur, l)
			}
		}
		flush()
		return
	}
	r := hx.Rand(191)
	for id := range hx.Cases(1200, 30000) {
		runCase(t, tr, id, r, nil)
	}
}
