// Engine `inhibit` (C03): the real mem.Alerts provider and the real
// inhibit.Inhibitor run under virtual time; generated or replayed histories of
// fire / refresh / resolve / wait (past ends, past the provider GC and past the
// 15-minute source-cache GC); after each step `Mutes` for a panel of label sets.
// The Lean driver replays the trace on AM.Inhibit and evaluates the documented
// rule on the provider's own dump.
//
//	case <id> pgc=<ns> igc=<ns> rules=<R;R;…>        R = src/tgt/equal, matcher = name:op:hexvalue
//	rematch <hexpattern> <hexvalue>                   -> 0|1            (Go regexp, oracle for the driver's matcher)
//	put <now> <labels> <start> <end> <timeout>        -> <dump>
//	wait <now>                                        -> <dump>
//	mutes <now> <labels>                              -> <0|1> <inhibitedBy labels|->
//	fresh <now> <labels>                              -> <0|1> <0|1>    (verdict of a new inhibitor on the same provider; of the long-lived one)
//	burst <now> <n> <labels> <start> <end> <timeout>  -> <dump>         (ONE Put call: n new filler alerts {alertname="F", n="<now>x<i>"} firing for 10 min, then the given alert; back-pressure on the subscribers)
//	reload <now>                                      -> <dump>         (configuration reload: the inhibitor and a dispatcher-like second subscriber are stopped, new ones subscribe to the same provider)
//
// labels = name=hexvalue,… sorted by name; dump = labels@start@end@updated@timeout;… sorted
package inhibit

import (
	"context"
	"fmt"
	"math/rand/v2"
	"regexp"
	"runtime"
	"sort"
	"strings"
	"testing"
	"testing/synctest"
	"time"

	"github.com/prometheus/client_golang/prometheus"
	"github.com/prometheus/common/model"
	"github.com/prometheus/common/promslog"

	amcommoncfg "github.com/prometheus/alertmanager/config/common"
	"github.com/prometheus/alertmanager/eventrecorder"
	"github.com/prometheus/alertmanager/inhibit"
	"github.com/prometheus/alertmanager/marker"
	"github.com/prometheus/alertmanager/pkg/labels"
	"github.com/prometheus/alertmanager/provider/mem"
	"github.com/prometheus/alertmanager/types"

	"verif/harness/hx"
)

const (
	minute = int64(time.Minute)
	ms     = int64(time.Millisecond)
	igc    = 15 * minute // hard-wired in Inhibitor.Run
)

// ---- encoding ----

func encLabels(ls model.LabelSet) string {
	var p []string
	for n, v := range ls {
		p = append(p, string(n)+"="+hx.Hex(string(v)))
	}
	sort.Strings(p)
	return hx.Join(p, ",")
}

func decLabels(s string) model.LabelSet {
	ls := model.LabelSet{}
	for _, p := range hx.Split(s, ",") {
		i := strings.Index(p, "=")
		ls[model.LabelName(p[:i])] = model.LabelValue(hx.Unhex(p[i+1:]))
	}
	return ls
}

type mspec struct{ name, op, value string }

func (m mspec) String() string { return m.name + ":" + m.op + ":" + hx.Hex(m.value) }

type rspec struct {
	src, tgt []mspec
	equal    []string
}

func encMatchers(ms []mspec) string {
	p := make([]string, len(ms))
	for i, m := range ms {
		p[i] = m.String()
	}
	return hx.Join(p, ",")
}

func (r rspec) String() string {
	return encMatchers(r.src) + "/" + encMatchers(r.tgt) + "/" + hx.Join(r.equal, ".")
}

func decMatchers(s string) []mspec {
	var out []mspec
	for _, p := range hx.Split(s, ",") {
		f := strings.SplitN(p, ":", 3)
		out = append(out, mspec{f[0], f[1], hx.Unhex(f[2])})
	}
	return out
}

func decRules(s string) []rspec {
	var out []rspec
	for _, p := range hx.Split(s, ";") {
		f := strings.Split(p, "/")
		out = append(out, rspec{decMatchers(f[0]), decMatchers(f[1]), hx.Split(f[2], ".")})
	}
	return out
}

func toMatchers(ms []mspec) amcommoncfg.Matchers {
	var out amcommoncfg.Matchers
	for _, m := range ms {
		t := map[string]labels.MatchType{"eq": labels.MatchEqual, "ne": labels.MatchNotEqual, "re": labels.MatchRegexp, "nre": labels.MatchNotRegexp}[m.op]
		x, err := labels.NewMatcher(t, m.name, m.value)
		if err != nil {
			panic(err)
		}
		out = append(out, x)
	}
	return out
}

// mixedRule: the rule of the header; every other rule carries the first matcher of a side in the deprecated
// source_match / source_match_re / target_match / target_match_re fields when a side has at least two matchers and the
// first one is positive (the deprecated forms have no negation) — a rule is the conjunction of all three forms
func mixedRule(k int, x rspec) amcommoncfg.InhibitRule {
	r := amcommoncfg.InhibitRule{Equal: x.equal}
	split := func(ms []mspec) (map[string]string, map[string]string, []mspec) {
		if k%2 == 1 || len(ms) < 2 || (ms[0].op != "eq" && ms[0].op != "re") {
			return nil, nil, ms
		}
		for _, o := range ms[1:] {
			if o.name == ms[0].name {
				return nil, nil, ms // the deprecated forms are maps: one entry per label name
			}
		}
		if ms[0].op == "eq" {
			return map[string]string{ms[0].name: ms[0].value}, nil, ms[1:]
		}
		return nil, map[string]string{ms[0].name: ms[0].value}, ms[1:]
	}
	eq, re, rest := split(x.src)
	r.SourceMatch, r.SourceMatchers = eq, toMatchers(rest)
	r.SourceMatchRE = toRegexps(re)
	eq, re, rest = split(x.tgt)
	r.TargetMatch, r.TargetMatchers = eq, toMatchers(rest)
	r.TargetMatchRE = toRegexps(re)
	return r
}

func toRegexps(m map[string]string) amcommoncfg.MatchRegexps {
	if m == nil {
		return nil
	}
	out := amcommoncfg.MatchRegexps{}
	for k, v := range m {
		re, err := regexp.Compile("^(?:" + v + ")$")
		if err != nil {
			panic(err)
		}
		out[k] = amcommoncfg.Regexp{Regexp: re, Original: v}
	}
	return out
}

// ---- world ----

type world struct {
	t0     time.Time
	cancel context.CancelFunc
	alerts *mem.Alerts
	ih     *inhibit.Inhibitor
	rules  []amcommoncfg.InhibitRule
	known  map[model.Fingerprint]string // fingerprint -> encoded labels of everything put or asked
	sub    interface{ Close() }          // the second subscriber of the provider (stands for the dispatcher)
}

type drainSub struct {
	it   interface{ Close() }
	done chan struct{}
}

func (d *drainSub) Close() {
	close(d.done)
	d.it.Close()
}

func (w *world) sleepTo(off int64) {
	if d := w.t0.Add(time.Duration(off)).Sub(time.Now()); d > 0 {
		time.Sleep(d)
	}
	synctest.Wait()
}

func (w *world) dump() string {
	it := w.alerts.GetPending()
	var p []string
	for a := range it.Next() {
		d := a.Data
		to := 0
		if d.Timeout {
			to = 1
		}
		p = append(p, fmt.Sprintf("%s@%d@%d@%d@%d", encLabels(d.Labels), d.StartsAt.Sub(w.t0), d.EndsAt.Sub(w.t0), d.UpdatedAt.Sub(w.t0), to))
	}
	it.Close()
	sort.Strings(p)
	return hx.Join(p, ";")
}

func mutesOf(ih *inhibit.Inhibitor, ls model.LabelSet) (bool, []string) {
	m := marker.NewAlertMarker()
	v := ih.Mutes(marker.WithContext(context.Background(), m), ls)
	return v, m.Status(ls.Fingerprint()).InhibitedBy
}

func (w *world) exec(line string) string {
	t := strings.Fields(line)
	switch t[0] {
	case "rematch":
		if regexp.MustCompile("^(?:" + hx.Unhex(t[1]) + ")$").MatchString(hx.Unhex(t[2])) {
			return "1"
		}
		return "0"
	case "put":
		now := hx.Atoi64(t[1])
		w.sleepTo(now)
		ls := decLabels(t[2])
		w.known[ls.Fingerprint()] = t[2]
		a := &types.Alert{
			Alert: model.Alert{Labels: ls, StartsAt: w.t0.Add(time.Duration(hx.Atoi64(t[3]))), EndsAt: w.t0.Add(time.Duration(hx.Atoi64(t[4])))},
			UpdatedAt: w.t0.Add(time.Duration(now)), Timeout: t[5] == "1",
		}
		if err := w.alerts.Put(context.Background(), a); err != nil {
			return "error"
		}
		synctest.Wait()
		return w.dump()
	case "burst":
		// back-pressure on the inhibitor's subscription (a 200-slot channel): n distinct new alerts and, in the same Put call
		// right behind them, an update of an alert the provider already knows.  The provider -> inhibitor path is lossless:
		// whatever the state of the channel, the update reaches the inhibitor (checked by the following `mutes`).
		// With a single P the subscriber does not run while Put fills its channel (1 handed over + 200 buffered = 201).
		now := hx.Atoi64(t[1])
		w.sleepTo(now)
		n := int(hx.Atoi64(t[2]))
		var batch []*types.Alert
		for i := range n {
			fl := model.LabelSet{"alertname": "F", "n": model.LabelValue(fmt.Sprintf("%dx%d", now, i))}
			w.known[fl.Fingerprint()] = encLabels(fl)
			batch = append(batch, &types.Alert{
				Alert: model.Alert{Labels: fl,
					StartsAt: w.t0.Add(time.Duration(now)), EndsAt: w.t0.Add(time.Duration(now + 10*minute))},
				UpdatedAt: w.t0.Add(time.Duration(now)),
			})
		}
		ls := decLabels(t[3])
		w.known[ls.Fingerprint()] = t[3]
		batch = append(batch, &types.Alert{
			Alert:     model.Alert{Labels: ls, StartsAt: w.t0.Add(time.Duration(hx.Atoi64(t[4]))), EndsAt: w.t0.Add(time.Duration(hx.Atoi64(t[5])))},
			UpdatedAt: w.t0.Add(time.Duration(now)), Timeout: t[6] == "1",
		})
		old := runtime.GOMAXPROCS(1)
		err := w.alerts.Put(context.Background(), batch...)
		runtime.GOMAXPROCS(old)
		if err != nil {
			return "error"
		}
		synctest.Wait()
		return w.dump()
	case "wait":
		w.sleepTo(hx.Atoi64(t[1]))
		return w.dump()
	case "mutes":
		w.sleepTo(hx.Atoi64(t[1]))
		ls := decLabels(t[2])
		w.known[ls.Fingerprint()] = t[2]
		v, by := mutesOf(w.ih, ls)
		var bys []string
		for _, b := range by {
			fp, err := model.FingerprintFromString(b)
			if e, ok := w.known[fp]; ok && err == nil {
				bys = append(bys, e)
			} else {
				bys = append(bys, "?"+b)
			}
		}
		r := "0"
		if v {
			r = "1"
		}
		return r + " " + hx.Join(bys, "|")
	case "reload":
		// as app.reloader does: the old inhibitor and dispatcher are stopped, new ones subscribe to the same provider
		w.sleepTo(hx.Atoi64(t[1]))
		w.ih.Stop()
		if w.sub != nil {
			w.sub.Close()
		}
		synctest.Wait()
		w.ih = inhibit.NewInhibitor(w.alerts, w.rules, promslog.NewNopLogger(), eventrecorder.NopRecorder())
		go w.ih.Run()
		w.ih.WaitForLoading()
		_, it := w.alerts.SlurpAndSubscribe("dispatcher")
		ds := &drainSub{it: it, done: make(chan struct{})}
		go func() {
			for {
				select {
				case <-it.Next():
				case <-ds.done:
					return
				}
			}
		}()
		w.sub = ds
		synctest.Wait()
		return w.dump()
	case "fresh":
		w.sleepTo(hx.Atoi64(t[1]))
		ls := decLabels(t[2])
		ih := inhibit.NewInhibitor(w.alerts, w.rules, promslog.NewNopLogger(), eventrecorder.NopRecorder())
		go ih.Run()
		// WaitForLoading is the contract app/reloader.go relies on: once it returns, the alerts the provider held are
		// in the inhibitor (no further settling here)
		ih.WaitForLoading()
		v, _ := mutesOf(ih, ls)
		ih.Stop()
		synctest.Wait()
		live, _ := mutesOf(w.ih, ls)
		b := map[bool]string{false: "0", true: "1"}
		return b[v] + " " + b[live]
	}
	panic("bad op " + line)
}

// ---- generator ----

var (
	sevs  = []string{"crit", "warn", "info"}
	roles = []string{"src", "tgt", "both"}
	// matcher templates per label, all four operators
	tmpl = []mspec{
		{"sev", "eq", "crit"}, {"sev", "ne", "info"}, {"sev", "re", "crit|warn"}, {"sev", "nre", "info|warn"},
		{"sev", "re", "warn|info"}, {"sev", "eq", "warn"}, {"sev", "re", ".+"}, {"sev", "ne", "crit"},
		{"role", "re", "src|both"}, {"role", "eq", "tgt"}, {"role", "ne", ""}, {"role", "re", "tgt|both"},
		{"role", "eq", "src"}, {"role", "nre", "src"}, {"role", "eq", ""}, {"role", "re", "(s|t).*"},
		{"x", "re", "1|2"}, {"x", "ne", "3"}, {"e", "re", ".*"}, {"e", "ne", ""},
	}
	vocab = map[string][]string{"sev": {"", "crit", "warn", "info"}, "role": {"", "src", "tgt", "both"}, "x": {"", "1", "2", "3"}, "e": {"", "1", "2"}, "f": {"", "1"}}
)

func genMatchers(r *rand.Rand) []mspec {
	n := 1 + r.IntN(2)
	var out []mspec
	for range n {
		out = append(out, hx.Pick(r, tmpl))
	}
	return out
}

func genRules(r *rand.Rand) []rspec {
	n := 1 + r.IntN(3)
	var out []rspec
	for range n {
		var eq []string
		switch r.IntN(6) {
		case 0:
		case 1, 2, 3:
			eq = []string{"e"}
		case 4:
			eq = []string{"e", "f"}
		default:
			eq = []string{"f"}
		}
		out = append(out, rspec{genMatchers(r), genMatchers(r), eq})
	}
	return out
}

func genLabels(r *rand.Rand) model.LabelSet {
	ls := model.LabelSet{"sev": model.LabelValue(hx.Pick(r, sevs))}
	if r.IntN(4) > 0 {
		ls["role"] = model.LabelValue(hx.Pick(r, roles))
	}
	if r.IntN(5) > 0 {
		ls["e"] = model.LabelValue(hx.Pick(r, []string{"1", "1", "2"}))
	}
	if r.IntN(3) == 0 {
		ls["f"] = "1"
	}
	if r.IntN(3) > 0 {
		ls["x"] = model.LabelValue(hx.Pick(r, []string{"1", "2", "3"}))
	}
	return ls
}

func runCase(t *testing.T, tr *hx.Trace, id int, r *rand.Rand, script []string) {
	synctest.Test(t, func(t *testing.T) {
		var (
			pgc    int64
			rules  []rspec
			header string
		)
		if script != nil {
			header = script[0]
			for _, f := range strings.Fields(header) {
				if strings.HasPrefix(f, "pgc=") {
					pgc = hx.Atoi64(f[4:])
				}
				if strings.HasPrefix(f, "rules=") {
					rules = decRules(f[6:])
				}
			}
		} else {
			pgc = hx.Pick(r, []int64{4 * minute, 30 * minute, 7 * minute, 120 * minute})
			if id >= 0 {
				rules = genRules(r)
			}
			rs := make([]string, len(rules))
			for i, x := range rules {
				rs[i] = x.String()
			}
			header = fmt.Sprintf("case %d pgc=%d igc=%d rules=%s", id, pgc, igc, strings.Join(rs, ";"))
		}
		tr.Linef("%s", header)

		ctx, cancel := context.WithCancel(context.Background())
		w := &world{t0: time.Now(), cancel: cancel, known: map[model.Fingerprint]string{}}
		var err error
		w.alerts, err = mem.NewAlerts(ctx, time.Duration(pgc), 0, nil, promslog.NewNopLogger(), eventrecorder.NopRecorder(), prometheus.NewRegistry(), nil)
		if err != nil {
			t.Fatal(err)
		}
		for k, x := range rules {
			w.rules = append(w.rules, mixedRule(k, x))
		}
		w.ih = inhibit.NewInhibitor(w.alerts, w.rules, promslog.NewNopLogger(), eventrecorder.NopRecorder())
		go w.ih.Run()
		w.ih.WaitForLoading()
		synctest.Wait()
		defer func() {
			w.ih.Stop()
			if w.sub != nil {
				w.sub.Close()
			}
			w.alerts.Close()
			cancel()
			synctest.Wait()
		}()

		do := func(line string) { tr.Linef("%s -> %s", line, w.exec(line)) }
		if script != nil {
			for _, l := range script[1:] {
				do(l)
			}
			return
		}
		if id < 0 {
			// regex oracle: every pattern of the templates against every value of its label
			seen := map[string]bool{}
			for _, m := range tmpl {
				if m.op == "re" || m.op == "nre" {
					for _, v := range vocab[m.name] {
						if k := m.value + "\x00" + v; !seen[k] {
							seen[k] = true
							do(fmt.Sprintf("rematch %s %s", hx.Hex(m.value), hx.Hex(v)))
						}
					}
				}
			}
			return
		}
		// a pool of label sets; several share equal-label values by construction
		var pool []model.LabelSet
		for range 4 + r.IntN(4) {
			pool = append(pool, genLabels(r))
		}
		ends := map[string]int64{}
		now := int64(0)
		seq := int64(0)
		nops := 3 + r.IntN(8)
		for range nops {
			seq++
			switch x := r.IntN(10); {
			case x < 6:
				now += int64(r.IntN(3))*minute + ms
				ls := hx.Pick(r, pool)
				start := now - int64(r.IntN(3))*minute
				var end int64
				switch y := r.IntN(8); {
				case y == 0:
					end = now // explicit resolve
				case y == 1:
					end = now - int64(r.IntN(2))*minute
					if end < start {
						start = end
					}
				default:
					end = now + int64(1+r.IntN(20))*minute
					if r.IntN(3) == 0 {
						end = (now/minute + int64(1+r.IntN(20))) * minute // on the minute grid: ties with GC ticks
					}
				}
				to := r.IntN(3) == 0
				toS := "0"
				if to {
					toS = "1"
				}
				ends[encLabels(ls)] = end
				do(fmt.Sprintf("put %d %s %d %d %s", now, encLabels(ls), start, end, toS))
			case x < 9:
				switch r.IntN(4) {
				case 0: // exactly to an end instant
					var cands []int64
					for _, e := range ends {
						if e > now {
							cands = append(cands, e)
						}
					}
					if len(cands) > 0 {
						sort.Slice(cands, func(i, j int) bool { return cands[i] < cands[j] })
						now = hx.Pick(r, cands)
						break
					}
					fallthrough
				case 1:
					now += int64(1+r.IntN(6))*minute + ms
				case 2:
					now += int64(10+r.IntN(12))*minute + ms // past the cache GC
				default:
					now += int64(1+r.IntN(40))*minute + ms
				}
				do(fmt.Sprintf("wait %d", now))
			default:
				now += ms
				if r.IntN(2) == 0 {
					do(fmt.Sprintf("reload %d", now))
				} else {
					do(fmt.Sprintf("wait %d", now))
				}
			}
			// panel
			np := 2 + r.IntN(3)
			for range np {
				ls := hx.Pick(r, pool)
				if r.IntN(6) == 0 {
					ls = genLabels(r)
				}
				do(fmt.Sprintf("mutes %d %s", now, encLabels(ls)))
				if r.IntN(6) == 0 {
					do(fmt.Sprintf("fresh %d %s", now, encLabels(ls)))
				}
			}
		}
		if r.IntN(50) == 0 {
			// back-pressure: a known source resolves, then fires again, each time right behind 201 new alerts in one Put call
			// (the inhibitor's subscription channel is full when the update is handed over)
			src := hx.Pick(r, pool)
			var srcs []model.LabelSet
			for _, q := range pool {
				for _, rl := range rules {
					if labels.Matchers(toMatchers(rl.src)).Matches(q) {
						srcs = append(srcs, q)
						break
					}
				}
			}
			if len(srcs) > 0 {
				src = hx.Pick(r, srcs)
			}
			now += ms
			start := now
			do(fmt.Sprintf("put %d %s %d %d 0", now, encLabels(src), start, now+20*minute))
			for _, q := range pool {
				do(fmt.Sprintf("mutes %d %s", now, encLabels(q)))
			}
			now += int64(r.IntN(3))*minute + ms
			do(fmt.Sprintf("burst %d 201 %s %d %d 0", now, encLabels(src), start, now))
			for _, q := range pool {
				do(fmt.Sprintf("mutes %d %s", now, encLabels(q)))
			}
			now += int64(r.IntN(2))*minute + ms
			do(fmt.Sprintf("burst %d 201 %s %d %d 0", now, encLabels(src), now, now+20*minute))
			for _, q := range pool {
				do(fmt.Sprintf("mutes %d %s", now, encLabels(q)))
			}
		}
		if r.IntN(5) == 0 {
			// reloads around a provider GC (stopped subscribers are collected there), then sources fire / resolve:
			// the inhibitor of the last reload must still see every later alert
			for range 1 + r.IntN(2) {
				now += ms
				do(fmt.Sprintf("reload %d", now))
				now += pgc + int64(r.IntN(3))*minute + ms
				do(fmt.Sprintf("wait %d", now))
				now += ms
				if r.IntN(2) == 0 {
					do(fmt.Sprintf("reload %d", now))
				} else {
					do(fmt.Sprintf("fresh %d %s", now, encLabels(hx.Pick(r, pool))))
				}
			}
			for range 2 + r.IntN(3) {
				now += int64(r.IntN(2))*minute + ms
				ls := hx.Pick(r, pool)
				end := now + int64(1+r.IntN(20))*minute
				if r.IntN(4) == 0 {
					end = now
				}
				do(fmt.Sprintf("put %d %s %d %d 0", now, encLabels(ls), now, end))
				for _, q := range pool {
					do(fmt.Sprintf("mutes %d %s", now, encLabels(q)))
				}
			}
		}
	})
}

func TestEngine(t *testing.T) {
	tr := hx.Open()
	defer tr.Close()
	if s := hx.Script(); s != nil {
		var cur []string
		n := 0
		flush := func() {
			if cur != nil {
				runCase(t, tr, n, nil, cur)
				n++
			}
		}
		for _, l := range s {
			if strings.HasPrefix(l, "case ") {
				flush()
				cur = []string{l}
			} else if cur != nil {
				cur = append(cur, l)
			}
		}
		flush()
		return
	}
	r := hx.Rand(3)
	runCase(t, tr, -1, r, nil)
	for id := range hx.Cases(8000, 100000) {
		runCase(t, tr, id, r, nil)
	}
}
