// Engine `nflograce` (C10): the real nflog.Log with real goroutines and real time (no virtual clock, no seam).
//
//	mergerace <k> <n> -> <firing of the raced key afterwards> <stored0 ts> <batch ts> <local ts>   (ts relative to the stored entry)
//	   the log holds n entries; a Merge of a full state of another instance that holds a NEWER entry for every key
//	   (milliseconds of work) races a local Log call for one of the keys.  Whatever the interleaving, the key ends up
//	   with the newest of the three entries, the local one: an older entry never overwrites a newer one.
//	bigentry <n> -> <merge ok|refused> <firing at the peer: big/small> <after restart: big/small | refused>
//	renamefault <k> -> <entries after restart> <ticks while blocked>
//	   the Maintenance loop (20 ms) cannot install its snapshot for a while (a directory sits at the snapshot path, the
//	   rename fails), then the obstacle goes away; later ticks and the shutdown run must write the file: a restart from
//	   it still has the entry.
package nflograce

import (
	"fmt"
	"math/rand/v2"
	"os"
	"path/filepath"
	"strconv"
	"strings"
	"sync"
	"testing"
	"time"

	"github.com/prometheus/client_golang/prometheus"

	"github.com/prometheus/alertmanager/nflog"
	pb "github.com/prometheus/alertmanager/nflog/nflogpb"

	"verif/harness/hx"
)

var recv = &pb.Receiver{GroupName: "r", Integration: "webhook", Idx: 0}

func newLog(snap string) *nflog.Log {
	l, err := nflog.New(nflog.Options{Retention: time.Hour, Metrics: prometheus.NewRegistry(), SnapshotFile: snap})
	if err != nil {
		panic(err)
	}
	return l
}

func firingOf(l *nflog.Log, gk string) (string, int64) {
	es, err := l.Query(nflog.QGroupKey(gk), nflog.QReceiver(recv))
	if err != nil || len(es) != 1 {
		return "none", 0
	}
	var p []string
	for _, f := range es[0].FiringAlerts {
		p = append(p, strconv.FormatUint(f, 10))
	}
	return hx.Join(p, "."), es[0].Timestamp.AsTime().UnixNano()
}

func mergeRaceOnce(k, n int, delay time.Duration, took *time.Duration) string {
	a, b := newLog(""), newLog("")
	key := func(i int) string { return fmt.Sprintf("gk%d", i) }
	for i := 0; i < n; i++ {
		if err := a.Log(recv, key(i), []uint64{1}, nil, nil, 0); err != nil {
			panic(err)
		}
	}
	victim := key((k * 7) % n)
	_, ts0 := firingOf(a, victim)
	time.Sleep(time.Millisecond)
	for i := 0; i < n; i++ {
		if err := b.Log(recv, key(i), []uint64{1, 2}, nil, nil, 0); err != nil {
			panic(err)
		}
	}
	_, tsB := firingOf(b, victim)
	batch, err := b.MarshalBinary()
	if err != nil {
		panic(err)
	}
	time.Sleep(time.Millisecond)
	var wg sync.WaitGroup
	started := make(chan struct{})
	wg.Add(2)
	go func() {
		defer wg.Done()
		close(started)
		t0 := time.Now()
		if err := a.Merge(batch); err != nil {
			panic(err)
		}
		*took = time.Since(t0)
	}()
	go func() {
		defer wg.Done()
		<-started
		if delay > 0 {
			time.Sleep(delay)
		}
		if err := a.Log(recv, victim, []uint64{1, 2, 3}, nil, nil, 0); err != nil {
			panic(err)
		}
	}()
	wg.Wait()
	f, ts := firingOf(a, victim)
	tsL := ts
	if f != "1.2.3" {
		tsL = time.Now().UnixNano()
	}
	return fmt.Sprintf("%s 0 %d %d", f, tsB-ts0, tsL-ts0)
}

func exec(line string) string {
	t := strings.Fields(line)
	switch t[0] {
	case "mergerace":
		k, _ := strconv.Atoi(t[1])
		n, _ := strconv.Atoi(t[2])
		var took time.Duration
		out := mergeRaceOnce(k, n, 0, &took)
		// the local Log has to arrive while Merge is at work: sweep its start over the measured duration of a Merge
		for j := 1; j <= 16 && strings.HasPrefix(out, "1.2.3 "); j++ {
			var t2 time.Duration
			out = mergeRaceOnce(k+j, n, took*time.Duration(j)/16, &t2)
		}
		return out
	case "bigentry":
		// a group with thousands of firing alerts: its log entry is large (≈ 10 bytes per alert) but far below the 4 MiB
		// record limit of the snapshot format; peers must accept it (gossip / full state) and a restart must reload it
		n, _ := strconv.Atoi(t[1])
		fs := make([]uint64, n)
		for i := range fs {
			fs[i] = uint64(1)<<40 + uint64(i)*7919
		}
		dir, err := os.MkdirTemp("", "verif-nflograce-")
		if err != nil {
			panic(err)
		}
		defer os.RemoveAll(dir)
		snap := filepath.Join(dir, "nflog")
		a, b := newLog(snap), newLog("")
		if err := a.Log(recv, "big", fs, nil, nil, 0); err != nil {
			return "logerror 0 0"
		}
		if err := a.Log(recv, "small", []uint64{1}, nil, nil, 0); err != nil {
			return "logerror 0 0"
		}
		st, err := a.MarshalBinary()
		if err != nil {
			return "marshalerror 0 0"
		}
		merged := "ok"
		if err := b.Merge(st); err != nil {
			merged = "refused"
		}
		count := func(l *nflog.Log, gk string) int {
			es, err := l.Query(nflog.QGroupKey(gk), nflog.QReceiver(recv))
			if err != nil || len(es) != 1 {
				return -1
			}
			return len(es[0].FiringAlerts)
		}
		atB := fmt.Sprintf("%d/%d", count(b, "big"), count(b, "small"))
		// shutdown snapshot of a, then the next start
		stopc := make(chan struct{})
		done := make(chan struct{})
		go func() { defer close(done); a.Maintenance(time.Hour, snap, stopc, nil) }()
		close(stopc)
		<-done
		reloaded := "refused"
		if l2, err := nflog.New(nflog.Options{Retention: time.Hour, Metrics: prometheus.NewRegistry(), SnapshotFile: snap}); err == nil {
			reloaded = fmt.Sprintf("%d/%d", count(l2, "big"), count(l2, "small"))
		}
		return fmt.Sprintf("%s %s %s", merged, atB, reloaded)
	case "renamefault":
		dir, err := os.MkdirTemp("", "verif-nflograce-")
		if err != nil {
			panic(err)
		}
		defer os.RemoveAll(dir)
		snap := filepath.Join(dir, "nflog")
		l := newLog(snap)
		if err := l.Log(recv, "gk", []uint64{1}, nil, nil, 0); err != nil {
			panic(err)
		}
		// a non-empty directory at the snapshot path: os.Rename(temp, path) fails
		if err := os.MkdirAll(filepath.Join(snap, "x"), 0o700); err != nil {
			panic(err)
		}
		stopc := make(chan struct{})
		done := make(chan struct{})
		go func() {
			defer close(done)
			l.Maintenance(20*time.Millisecond, snap, stopc, nil)
		}()
		time.Sleep(120 * time.Millisecond)
		if err := os.RemoveAll(snap); err != nil {
			panic(err)
		}
		time.Sleep(120 * time.Millisecond)
		close(stopc)
		<-done
		// the next start
		n := 0
		if _, err := os.Stat(snap); err == nil {
			l2 := newLog(snap)
			if f, _ := firingOf(l2, "gk"); f == "1" {
				n = 1
			}
		}
		return fmt.Sprintf("%d 6", n)
	}
	panic("bad op " + line)
}

func runCase(tr *hx.Trace, header string, ops []string) {
	tr.Linef("%s", header)
	for _, op := range ops {
		tr.Linef("%s -> %s", op, exec(op))
	}
}

func TestEngine(t *testing.T) {
	tr := hx.Open()
	defer tr.Close()
	if s := hx.Script(); s != nil {
		var hdr string
		var ops []string
		for _, l := range s {
			if strings.HasPrefix(l, "case ") {
				if hdr != "" {
					runCase(tr, hdr, ops)
				}
				hdr, ops = l, nil
			} else if hdr != "" {
				ops = append(ops, l)
			}
		}
		if hdr != "" {
			runCase(tr, hdr, ops)
		}
		return
	}
	r := hx.Rand(101)
	var _ = rand.Int
	for id := range hx.Cases(12, 200) {
		var ops []string
		for k := 0; k < 3; k++ {
			ops = append(ops, fmt.Sprintf("mergerace %d %d", id*3+k, []int{300, 2000}[r.IntN(2)]))
		}
		if id%4 == 0 {
			ops = append(ops, fmt.Sprintf("renamefault %d", id))
		}
		if id%4 == 1 {
			ops = append(ops, fmt.Sprintf("bigentry %d", []int{12000, 20000, 40000}[r.IntN(3)]))
		}
		runCase(tr, fmt.Sprintf("case %d", id), ops)
	}
}
