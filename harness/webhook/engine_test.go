// Engine `webhook` (C20): the real notify/webhook Notifier (real net/http
// client, loopback httptest server) with a per-request `timeout`, alone and
// inside the real notify.RetryStage.  Real time.
//
// The endpoint follows a per-request script: `hang` = the handler does not
// answer until the client has given up (it returns when the connection goes
// away), a number = that status code at once.  Requests beyond the script are
// answered 200.
//
//	notify <timeout_ms> <behaviour>           -> retry=<0|1> err=<0|1> reqs=<n> alive=<0|1>
//	stage <timeout_ms> <D_ms> <script>        -> res=<ok|unrec:N|deadline:N|other:hex> reqs=<n> ret=<ns> starts=<ns '.'-joined>
//
// `notify` is one Notifier.Notify call under a flush context whose deadline is a
// minute away (alive = that context was still alive when the call returned);
// `stage` is RetryStage.Exec over the notifier under a flush deadline of D ms
// (starts = arrival instants of the requests at the endpoint, relative to Exec).
//
// Robust under machine load: the only timing the expectations rest on is
// "a request that is answered at once completes within 30 s" and "a flush
// deadline of >= 20 s outlasts one or two backoff intervals (<= 1.2 s each)";
// the driver makes no claim about a stage that ran into its deadline.
package webhook

import (
	"context"
	"fmt"
	"io"
	"net/http"
	"net/http/httptest"
	"net/url"
	"regexp"
	"strconv"
	"strings"
	"sync"
	"testing"
	"time"

	"github.com/prometheus/client_golang/prometheus"
	commoncfg "github.com/prometheus/common/config"
	"github.com/prometheus/common/model"
	"github.com/prometheus/common/promslog"

	amcommoncfg "github.com/prometheus/alertmanager/config/common"
	"github.com/prometheus/alertmanager/eventrecorder"
	"github.com/prometheus/alertmanager/featurecontrol"
	"github.com/prometheus/alertmanager/notify"
	"github.com/prometheus/alertmanager/notify/webhook"
	"github.com/prometheus/alertmanager/template"
	"github.com/prometheus/alertmanager/types"

	"verif/harness/hx"
)

type endpoint struct {
	mu     sync.Mutex
	script []string
	t0     time.Time
	starts []int64
	srv    *httptest.Server
}

func newEndpoint(script []string) *endpoint {
	e := &endpoint{script: script, t0: time.Now()}
	e.srv = httptest.NewServer(http.HandlerFunc(func(rw http.ResponseWriter, req *http.Request) {
		io.Copy(io.Discard, req.Body) // the server notices a vanished client only once the body is consumed
		e.mu.Lock()
		k := len(e.starts)
		e.starts = append(e.starts, int64(time.Since(e.t0)))
		e.mu.Unlock()
		b := "200"
		if k < len(e.script) {
			b = e.script[k]
		}
		if b == "hang" {
			select {
			case <-req.Context().Done(): // the client went away
			case <-time.After(45 * time.Second):
			}
			return
		}
		code, _ := strconv.Atoi(b)
		rw.WriteHeader(code)
	}))
	return e
}

func (e *endpoint) close() {
	e.srv.CloseClientConnections()
	e.srv.Close()
}

func (e *endpoint) snapshot() []int64 {
	e.mu.Lock()
	defer e.mu.Unlock()
	return append([]int64(nil), e.starts...)
}

type world struct {
	tmpl *template.Template
}

func (w *world) notifier(e *endpoint, timeoutMs int64) *webhook.Notifier {
	n, err := webhook.New(&webhook.WebhookConfig{
		URL:        amcommoncfg.SecretTemplateURL(e.srv.URL),
		HTTPConfig: &commoncfg.HTTPClientConfig{},
		Timeout:    time.Duration(timeoutMs) * time.Millisecond,
	}, w.tmpl, promslog.NewNopLogger(), commoncfg.WithKeepAlivesDisabled())
	if err != nil {
		panic(err)
	}
	return n
}

func flushCtx(d time.Duration) (context.Context, context.CancelFunc) {
	ctx, cancel := context.WithTimeout(context.Background(), d)
	ctx = notify.WithGroupKey(ctx, "gk")
	ctx = notify.WithReceiverName(ctx, "recv")
	ctx = notify.WithGroupLabels(ctx, model.LabelSet{"g": "1"})
	ctx = notify.WithNow(ctx, time.Now())
	ctx = notify.WithRepeatInterval(ctx, time.Hour)
	return ctx, cancel
}

func batch() []*types.Alert {
	now := time.Now()
	return []*types.Alert{{Alert: model.Alert{Labels: model.LabelSet{"alertname": "x"}, StartsAt: now.Add(-time.Hour), EndsAt: now.Add(time.Hour)}, UpdatedAt: now}}
}

type sendResolved bool

func (s sendResolved) SendResolved() bool { return bool(s) }

var errRe = regexp.MustCompile(`notify retry canceled (due to unrecoverable error after|after) (\d+) attempts`)

func (w *world) exec(line string) string {
	t := strings.Fields(line)
	switch t[0] {
	case "notify":
		e := newEndpoint([]string{t[2]})
		defer e.close()
		ctx, cancel := flushCtx(time.Minute)
		defer cancel()
		retry, err := w.notifier(e, hx.Atoi64(t[1])).Notify(ctx, batch()...)
		alive := ctx.Err() == nil
		return fmt.Sprintf("retry=%d err=%d reqs=%d alive=%d", b2i(retry), b2i(err != nil), len(e.snapshot()), b2i(alive))
	case "stage":
		e := newEndpoint(hx.Split(t[3], ","))
		defer e.close()
		n := w.notifier(e, hx.Atoi64(t[1]))
		st := notify.NewRetryStage(notify.NewIntegration(n, sendResolved(true), "webhook", 0, "recv"), "recv",
			notify.NewMetrics(prometheus.NewRegistry(), featurecontrol.NoopFlags{}), eventrecorder.NopRecorder())
		ctx, cancel := flushCtx(time.Duration(hx.Atoi64(t[2])) * time.Millisecond)
		defer cancel()
		e.mu.Lock()
		e.t0 = time.Now()
		e.mu.Unlock()
		_, _, err := st.Exec(ctx, promslog.NewNopLogger(), batch()...)
		ret := int64(time.Since(e.t0))
		res := "ok"
		if err != nil {
			if m := errRe.FindStringSubmatch(err.Error()); m != nil {
				if strings.HasPrefix(m[1], "due") {
					res = "unrec:" + m[2]
				} else {
					res = "deadline:" + m[2]
				}
			} else {
				res = "other:" + hx.Hex(err.Error())
			}
		}
		starts := e.snapshot()
		ss := make([]string, len(starts))
		for i, v := range starts {
			ss[i] = strconv.FormatInt(v, 10)
		}
		return fmt.Sprintf("res=%s reqs=%d ret=%d starts=%s", res, len(starts), ret, hx.Join(ss, "."))
	}
	panic("bad op " + line)
}

func b2i(b bool) int {
	if b {
		return 1
	}
	return 0
}

func TestEngine(t *testing.T) {
	tr := hx.Open()
	defer tr.Close()
	w := &world{}
	var err error
	w.tmpl, err = template.FromGlobs(nil)
	if err != nil {
		t.Fatal(err)
	}
	w.tmpl.ExternalURL, _ = url.Parse("http://am.example")
	do := func(line string) { tr.Linef("%s -> %s", line, w.exec(line)) }
	if s := hx.Script(); s != nil {
		for _, l := range s {
			if strings.HasPrefix(l, "case ") {
				tr.Linef("%s", l)
				continue
			}
			do(l)
		}
		return
	}
	r := hx.Rand(2041)
	statuses := []string{"200", "201", "204", "500", "502", "503", "400", "404", "410", "429"}
	id := 0
	// single calls: a per-request timeout that expires (30-120 ms, endpoint hangs) / an endpoint that answers at once
	// (no timeout, or one far beyond any scheduling delay)
	for range hx.Cases(24, 200) {
		tr.Linef("case %d", id)
		id++
		if r.IntN(3) == 0 {
			do(fmt.Sprintf("notify %d hang", 30+10*r.IntN(10)))
		} else {
			do(fmt.Sprintf("notify %d %s", []int{0, 30000}[r.IntN(2)], hx.Pick(r, statuses)))
		}
	}
	// the retry loop around it: at most two recoverable failures (<= 2 backoff intervals of real time) before the
	// attempt that ends the loop; the flush deadline is far away
	tails := []string{"200", "400", "204", "404"}
	for range hx.Cases(3, 24) {
		tr.Linef("case %d", id)
		id++
		var sc []string
		if r.IntN(4) > 0 { // the first attempt mostly runs into the per-request timeout
			sc = append(sc, "hang")
		} else {
			sc = append(sc, "502")
		}
		if r.IntN(3) == 0 {
			sc = append(sc, []string{"hang", "500", "503"}[r.IntN(3)])
		}
		sc = append(sc, hx.Pick(r, tails))
		do(fmt.Sprintf("stage %d %d %s", 30+10*r.IntN(8), 20000+1000*r.IntN(10), strings.Join(sc, ",")))
	}
}
