// Engine `retry` (C20): the real receiver pipeline built by
// notify.PipelineBuilder.New (… → FanoutStage of MultiStage{Wait, Dedup, Retry,
// SetNotifies}) with scripted Notifiers and a fake NotificationLog under
// testing/synctest: per-attempt outcomes (ok / recoverable / unrecoverable /
// hang until the context ends), observed per attempt at its virtual instant.
// Also: a go/ast fact check pinning the stage ORDER in createReceiverStage and
// PipelineBuilder.New.
package retry

import (
	"context"
	"errors"
	"fmt"
	"go/ast"
	"go/parser"
	"go/token"
	"math/rand/v2"
	"os"
	"path/filepath"
	"regexp"
	"sort"
	"strconv"
	"strings"
	"sync"
	"testing"
	"testing/synctest"
	"time"

	"github.com/prometheus/client_golang/prometheus"
	"github.com/prometheus/common/model"
	"github.com/prometheus/common/promslog"

	"github.com/prometheus/alertmanager/eventrecorder"
	"github.com/prometheus/alertmanager/featurecontrol"
	"github.com/prometheus/alertmanager/inhibit"
	"github.com/prometheus/alertmanager/marker"
	"github.com/prometheus/alertmanager/nflog"
	"github.com/prometheus/alertmanager/nflog/nflogpb"
	"github.com/prometheus/alertmanager/notify"
	"github.com/prometheus/alertmanager/provider/mem"
	"github.com/prometheus/alertmanager/silence"
	"github.com/prometheus/alertmanager/timeinterval"
	"github.com/prometheus/alertmanager/types"

	"verif/harness/hx"
)

type scriptStep struct {
	out string
	dur time.Duration
}

type att struct {
	start, end         int64
	ret                string
	nalerts, nresolved int
}

type world struct {
	mu   sync.Mutex
	t0   time.Time
	atts map[int][]att
	logs map[int][]int64
	prev bool
}

func (w *world) rel() int64 { return int64(time.Since(w.t0)) }

type scripted struct {
	w      *world
	idx    int
	sr     bool
	script []scriptStep
	calls  int
}

func (s *scripted) SendResolved() bool { return s.sr }

var (
	errRecoverable   = errors.New("scripted recoverable failure")
	errUnrecoverable = errors.New("scripted unrecoverable failure")
)

func (s *scripted) Notify(ctx context.Context, alerts ...*types.Alert) (bool, error) {
	s.w.mu.Lock()
	k := s.calls
	s.calls++
	s.w.mu.Unlock()
	st := scriptStep{"rec", 10 * time.Millisecond}
	if k < len(s.script) {
		st = s.script[k]
	}
	a := att{start: s.w.rel(), nalerts: len(alerts)}
	for _, al := range alerts {
		if al.Resolved() {
			a.nresolved++
		}
	}
	var (
		retry bool
		err   error
	)
	cut := false
	if st.out == "hang" {
		<-ctx.Done()
		cut = true
	} else {
		tm := time.NewTimer(st.dur)
		select {
		case <-tm.C:
		case <-ctx.Done():
			tm.Stop()
			cut = true
		}
	}
	switch {
	case cut:
		a.ret, retry, err = "ctx", true, fmt.Errorf("scripted call interrupted: %w", ctx.Err())
	case st.out == "ok":
		a.ret = "ok"
	case st.out == "unrec":
		a.ret, retry, err = "unrec", false, errUnrecoverable
	default:
		a.ret, retry, err = "rec", true, errRecoverable
	}
	a.end = s.w.rel()
	s.w.mu.Lock()
	s.w.atts[s.idx] = append(s.w.atts[s.idx], a)
	s.w.mu.Unlock()
	return retry, err
}

type fakeLog struct{ w *world }

func (l *fakeLog) Log(r *nflogpb.Receiver, _ string, _, _ []uint64, _ *nflog.Store, _ time.Duration) error {
	l.w.mu.Lock()
	defer l.w.mu.Unlock()
	l.w.logs[int(r.Idx)] = append(l.w.logs[int(r.Idx)], l.w.rel())
	return nil
}

func (l *fakeLog) Query(...nflog.QueryParam) ([]*nflogpb.Entry, error) {
	if l.w.prev {
		// a previous notification about an alert that is not in the batch: Dedup always lets the batch through
		return []*nflogpb.Entry{{FiringAlerts: []uint64{424242}}}, nil
	}
	return nil, nflog.ErrNotFound
}

type integDecl struct {
	idx    int
	sr     bool
	script []scriptStep
	raw    string
}

var errRe = regexp.MustCompile(`^recv/int\[(\d+)\]: notify retry canceled (due to unrecoverable error after|after) (\d+) attempts: (.*)$`)

func flatten(err error, out *[]error) {
	if j, ok := err.(interface{ Unwrap() []error }); ok {
		for _, e := range j.Unwrap() {
			flatten(e, out)
		}
		return
	}
	*out = append(*out, err)
}

// classify attributes the joined errors to integrations.  The cluster-wait stage returns the bare
// context error (no integration prefix): those are counted in out[-2].
func classify(err error) (map[int]string, int) {
	out := map[int]string{}
	bare := 0
	if err == nil {
		return out, 0
	}
	var list []error
	flatten(err, &list)
	for _, e := range list {
		if e.Error() == context.DeadlineExceeded.Error() {
			bare++
			continue
		}
		m := errRe.FindStringSubmatch(e.Error())
		if m == nil {
			out[-1] = "unparsed:" + hx.Hex(e.Error())
			continue
		}
		idx, _ := strconv.Atoi(m[1])
		switch {
		case strings.HasPrefix(m[2], "due"):
			out[idx] = "unrec:" + m[3]
		case strings.Contains(m[4], "scripted recoverable"):
			out[idx] = "deadline:" + m[3] + ":last"
		default:
			out[idx] = "deadline:" + m[3] + ":ctx"
		}
	}
	return out, bare
}

func runCase(t *testing.T, tr *hx.Trace, header string, decls []integDecl) {
	synctest.Test(t, func(t *testing.T) {
		var D, wait int64
		var alertsTok string
		w := &world{atts: map[int][]att{}, logs: map[int][]int64{}}
		for _, f := range strings.Fields(header) {
			if v, ok := strings.CutPrefix(f, "D="); ok {
				D = hx.Atoi64(v)
			}
			if v, ok := strings.CutPrefix(f, "wait="); ok {
				wait = hx.Atoi64(v)
			}
			if v, ok := strings.CutPrefix(f, "alerts="); ok {
				alertsTok = v
			}
			if f == "prev=1" {
				w.prev = true
			}
		}
		tr.Linef("%s", header)
		bg, cancelBg := context.WithCancel(context.Background())
		prov, err := mem.NewAlerts(bg, time.Hour, 0, nil, promslog.NewNopLogger(), eventrecorder.NopRecorder(), prometheus.NewRegistry(), nil)
		if err != nil {
			panic(err)
		}
		sils, err := silence.New(silence.Options{Metrics: prometheus.NewRegistry(), EventRecorder: eventrecorder.NopRecorder()})
		if err != nil {
			panic(err)
		}
		defer func() {
			cancelBg()
			prov.Close()
			synctest.Wait()
		}()
		var integs []notify.Integration
		for _, d := range decls {
			s := &scripted{w: w, idx: d.idx, sr: d.sr, script: d.script}
			integs = append(integs, notify.NewIntegration(s, s, "int", d.idx, "recv"))
			tr.Linef("integ %d %s %s -> ok", d.idx, map[bool]string{true: "1", false: "0"}[d.sr], d.raw)
		}
		pb := notify.NewPipelineBuilder(prometheus.NewRegistry(), featurecontrol.NoopFlags{}, eventrecorder.NopRecorder())
		stage := pb.New(
			map[string][]notify.Integration{"recv": integs},
			func() time.Duration { return time.Duration(wait) },
			inhibit.NewInhibitor(prov, nil, promslog.NewNopLogger(), eventrecorder.NopRecorder()),
			silence.NewSilencer(sils, promslog.NewNopLogger(), eventrecorder.NopRecorder()),
			timeinterval.NewIntervener(nil),
			marker.NewGroupMarker(),
			&fakeLog{w},
			nil,
		)
		now := time.Now()
		var alerts []*types.Alert
		for i, s := range hx.Split(alertsTok, ".") {
			a := &types.Alert{Alert: model.Alert{
				Labels:   model.LabelSet{"alertname": "x", "i": model.LabelValue(strconv.Itoa(i))},
				StartsAt: now.Add(-2 * time.Hour), EndsAt: now.Add(time.Hour),
			}, UpdatedAt: now}
			if s == "r" {
				a.EndsAt = now.Add(-time.Hour)
			}
			alerts = append(alerts, a)
		}
		ctx, cancel := context.WithTimeout(context.Background(), time.Duration(D))
		defer cancel()
		ctx = notify.WithReceiverName(ctx, "recv")
		ctx = notify.WithGroupKey(ctx, "gk")
		ctx = notify.WithRepeatInterval(ctx, time.Hour)
		ctx = notify.WithNow(ctx, now)
		ctx = notify.WithGroupLabels(ctx, model.LabelSet{"alertname": "x"})
		ctx = notify.WithRouteID(ctx, "r0")
		ctx = notify.WithMuteTimeIntervals(ctx, nil)
		ctx = notify.WithActiveTimeIntervals(ctx, nil)
		w.t0 = time.Now()
		tr.Linef("exec -> started")
		_, _, execErr := stage.Exec(ctx, promslog.NewNopLogger(), alerts...)
		ret := w.rel()
		synctest.Wait()
		cls, bare := classify(execErr)
		for _, d := range decls {
			for k, a := range w.atts[d.idx] {
				tr.Linef("att %d %d -> %d %d %s %d %d", d.idx, k, a.start, a.end, a.ret, a.nalerts, a.nresolved)
			}
			res, ok := cls[d.idx]
			if !ok {
				res = "noerror"
				if bare > 0 && len(w.atts[d.idx]) == 0 {
					res, bare = "waitctx", bare-1
				}
			}
			lt := int64(-1)
			if len(w.logs[d.idx]) > 0 {
				lt = w.logs[d.idx][0]
			}
			tr.Linef("res %d -> %s nlog=%d logtime=%d", d.idx, res, len(w.logs[d.idx]), lt)
		}
		if u, ok := cls[-1]; ok {
			tr.Linef("res -1 -> %s nlog=0 logtime=-1", u)
		}
		e := 0
		if execErr != nil {
			e = 1
		}
		tr.Linef("done -> err=%d ret=%d", e, ret)
	})
}

func parseDecl(l string) integDecl {
	t := strings.Fields(l)
	idx, _ := strconv.Atoi(t[1])
	d := integDecl{idx: idx, sr: t[2] == "1", raw: t[3]}
	for _, s := range hx.Split(t[3], ",") {
		p := strings.Split(s, ":")
		d.script = append(d.script, scriptStep{p[0], time.Duration(hx.Atoi64(p[1]))})
	}
	return d
}

// ---- stage order fact check (go/ast) ----

func repoDir() string {
	b, err := os.ReadFile("../go.mod")
	if err != nil {
		panic(err)
	}
	for _, l := range strings.Split(string(b), "\n") {
		if strings.HasPrefix(l, "replace github.com/prometheus/alertmanager =>") {
			return strings.TrimSpace(strings.SplitN(l, "=>", 2)[1])
		}
	}
	panic("no replace line in harness/go.mod")
}

var short = map[string]string{
	"NewClusterWaitStage": "wait", "NewDedupStage": "dedup", "NewRetryStage": "retry", "NewSetNotifiesStage": "setnotifies",
	"NewClusterGossipSettleStage": "gossipsettle", "NewTimeActiveStage": "timeactive", "NewTimeMuteStage": "timemute",
	"createReceiverStage": "receiver",
}

func callName(e ast.Expr) (string, *ast.CallExpr) {
	c, ok := e.(*ast.CallExpr)
	if !ok {
		return "", nil
	}
	if id, ok := c.Fun.(*ast.Ident); ok {
		return id.Name, c
	}
	return "", nil
}

func stageOrder(which string) string {
	fset := token.NewFileSet()
	f, err := parser.ParseFile(fset, filepath.Join(repoDir(), "notify", "notify.go"), nil, 0)
	if err != nil {
		return "parse-error"
	}
	var out []string
	for _, d := range f.Decls {
		fn, ok := d.(*ast.FuncDecl)
		if !ok {
			continue
		}
		switch {
		case which == "createReceiverStage" && fn.Name.Name == "createReceiverStage":
			// the sequence of `s = append(s, NewXStage(…))`
			ast.Inspect(fn.Body, func(n ast.Node) bool {
				as, ok := n.(*ast.AssignStmt)
				if !ok || len(as.Rhs) != 1 {
					return true
				}
				if name, c := callName(as.Rhs[0]); name == "append" && len(c.Args) == 2 {
					if inner, _ := callName(c.Args[1]); inner != "" {
						if s, ok := short[inner]; ok {
							out = append(out, s)
						} else {
							out = append(out, inner)
						}
					}
				}
				return true
			})
		case which == "pipeline" && fn.Name.Name == "New" && fn.Recv != nil:
			binds := map[string]string{}
			ast.Inspect(fn.Body, func(n ast.Node) bool {
				switch x := n.(type) {
				case *ast.AssignStmt:
					if len(x.Lhs) == 1 && len(x.Rhs) == 1 {
						if id, ok := x.Lhs[0].(*ast.Ident); ok {
							if name, c := callName(x.Rhs[0]); name != "" {
								s, ok := short[name]
								if name == "NewMuteStage" && len(c.Args) > 0 {
									if a, ok2 := c.Args[0].(*ast.Ident); ok2 {
										s, ok = map[string]string{"inhibitor": "inhibit", "silencer": "silence"}[a.Name], true
									}
								}
								if ok {
									binds[id.Name] = s
								}
							}
						}
					}
				case *ast.CompositeLit:
					if id, ok := x.Type.(*ast.Ident); ok && id.Name == "MultiStage" {
						for _, e := range x.Elts {
							if eid, ok := e.(*ast.Ident); ok {
								out = append(out, binds[eid.Name])
							}
						}
					}
				}
				return true
			})
		}
	}
	return hx.Join(out, ",")
}

// ---- generator ----

func genScript(r *rand.Rand, D int64) string {
	n := r.IntN(5)
	var out []string
	durs := []int64{0, int64(time.Millisecond), 20 * int64(time.Millisecond), 300 * int64(time.Millisecond), 2 * int64(time.Second), D / 2, D + int64(time.Second)}
	for range n {
		o := []string{"ok", "rec", "rec", "rec", "unrec", "hang"}[r.IntN(6)]
		out = append(out, fmt.Sprintf("%s:%d", o, hx.Pick(r, durs)+int64(r.IntN(1000))*1000+1))
	}
	if r.IntN(2) == 0 {
		out = append(out, fmt.Sprintf("%s:%d", []string{"ok", "unrec", "hang"}[r.IntN(3)], hx.Pick(r, durs)+int64(r.IntN(1000))*1000+1))
	}
	return hx.Join(out, ",")
}

func TestEngine(t *testing.T) {
	tr := hx.Open()
	defer tr.Close()
	if s := hx.Script(); s != nil {
		var header string
		var decls []integDecl
		flush := func() {
			if header != "" && len(decls) > 0 {
				runCase(t, tr, header, decls)
			}
			header, decls = "", nil
		}
		for _, l := range s {
			switch {
			case strings.HasPrefix(l, "case "):
				flush()
				header = l
				if strings.HasPrefix(l, "case order") {
					tr.Linef("%s", l)
				}
			case strings.HasPrefix(l, "integ "):
				decls = append(decls, parseDecl(l))
			case strings.HasPrefix(l, "order "):
				w := strings.Fields(l)[1]
				tr.Linef("order %s -> %s", w, stageOrder(w))
			}
		}
		flush()
		return
	}
	tr.Linef("case order")
	tr.Linef("order createReceiverStage -> %s", stageOrder("createReceiverStage"))
	tr.Linef("order pipeline -> %s", stageOrder("pipeline"))
	r := hx.Rand(203)
	Ds := []int64{300 * int64(time.Millisecond), int64(time.Second), 3 * int64(time.Second), 10 * int64(time.Second), 40 * int64(time.Second), 3 * int64(time.Minute)}
	for id := range hx.Cases(1200, 25000) {
		D := hx.Pick(r, Ds) + int64(r.IntN(1000))*1000 + 7
		wait := []int64{0, 50 * int64(time.Millisecond), 500 * int64(time.Millisecond)}[r.IntN(3)]
		na := 1 + r.IntN(4)
		as := make([]string, na)
		allResolved := r.IntN(5) == 0
		for i := range as {
			as[i] = "f"
			if allResolved || r.IntN(3) == 0 {
				as[i] = "r"
			}
		}
		prev := r.IntN(2)
		header := fmt.Sprintf("case %d D=%d wait=%d alerts=%s prev=%d", id, D, wait, strings.Join(as, "."), prev)
		n := 1 + r.IntN(3)
		// wide receivers: 5-8 integrations, of which at least four that hang or fail recoverably until the flush
		// deadline come before a healthy one in configuration order (the others are random)
		healthy, spare := -1, 0
		if r.IntN(8) == 0 {
			n = 5 + r.IntN(4)
			healthy = 4 + r.IntN(n-4)
			spare = healthy - 4
		}
		var decls []integDecl
		for i := range n {
			sr := "1"
			if r.IntN(3) == 0 {
				sr = "0"
			}
			script := genScript(r, D)
			switch {
			case i == healthy:
				sr, script = "1", fmt.Sprintf("ok:%d", hx.Pick(r, []int64{1, int64(time.Millisecond), 20 * int64(time.Millisecond)}))
			case i < healthy && spare > 0 && r.IntN(3) == 0:
				spare--
			case i < healthy:
				sr = "1"
				script = hx.Pick(r, []string{"hang:1", "-", fmt.Sprintf("rec:%d,hang:1", D/3), fmt.Sprintf("rec:%d,rec:%d", 300*int64(time.Millisecond), 2*int64(time.Second))})
			}
			decls = append(decls, parseDecl(fmt.Sprintf("integ %d %s %s", i, sr, script)))
		}
		runCase(t, tr, header, decls)
	}
	_ = sort.Strings
}
