// Engine `tmpldata` (C20): the real template.Template.Data and the real webhook
// notifier (JSON payload incl. max_alerts truncation, posted to a loopback
// httptest server) on generated batches.  Real time: alerts end an hour ago, in
// an hour, or never, so their status cannot flip during a case; an upper-case
// end token sets the alert's Timeout flag (EndsAt came from resolve_timeout).
//
//	webhookp <recvhex> <alerts>  -> trunc=0 <dump>
//
// `webhookp`: ONE webhook notifier per case, configured with a custom `payload` (a YAML list holding a
// map, a template string and a nested list, decoded by the YAML decoder as the configuration loader
// does); every webhookp of the case goes through that same notifier, with another batch.  The dump is
// rebuilt from the rendered custom payload: it must describe the batch of that very notification.
package tmpldata

import (
	"context"
	"encoding/json"
	"fmt"
	"io"
	"math/rand/v2"
	"net/http"
	"net/http/httptest"
	"net/url"
	"sort"
	"strconv"
	"strings"
	"testing"
	"testing/synctest"
	"time"

	commoncfg "github.com/prometheus/common/config"
	"github.com/prometheus/common/model"
	"github.com/prometheus/common/promslog"
	"gopkg.in/yaml.v2"

	amcommoncfg "github.com/prometheus/alertmanager/config/common"
	"github.com/prometheus/alertmanager/notify"
	"github.com/prometheus/alertmanager/notify/webhook"
	"github.com/prometheus/alertmanager/template"
	"github.com/prometheus/alertmanager/types"

	"verif/harness/hx"
)

func parsePairs(s string) model.LabelSet {
	ls := model.LabelSet{}
	for _, p := range hx.Split(s, ",") {
		kv := strings.SplitN(p, ":", 2)
		ls[model.LabelName(kv[0])] = model.LabelValue(kv[1])
	}
	return ls
}

func showPairs(m map[string]string) string {
	var out []string
	for k, v := range m {
		out = append(out, k+":"+v)
	}
	sort.Strings(out) // keys are distinct: sorted by key
	return hx.Join(out, ",")
}

func parseAlerts(s string) []*types.Alert {
	now := time.Now()
	var out []*types.Alert
	for _, tok := range hx.Split(s, ";") {
		p := strings.Split(tok, "|")
		a := &types.Alert{Alert: model.Alert{Labels: parsePairs(p[1]), Annotations: parsePairs(p[2]), StartsAt: now.Add(-2 * time.Hour)}, UpdatedAt: now}
		switch p[0] {
		case "p":
			a.EndsAt = now.Add(-time.Hour)
		case "f":
			a.EndsAt = now.Add(time.Hour)
		case "t": // ends at this very instant (only inside a synctest bubble, where the clock stands still): resolved, like everywhere else in the pipeline
			a.EndsAt = now
		case "P": // resolved by running into resolve_timeout: the API filled EndsAt in and flagged it
			a.EndsAt = now.Add(-time.Hour)
			a.Timeout = true
		case "F": // posted without endsAt, resolve_timeout not reached yet
			a.EndsAt = now.Add(time.Hour)
			a.Timeout = true
		}
		out = append(out, a)
	}
	return out
}

func dump(d *template.Data) string {
	items := make([]string, len(d.Alerts))
	for i, a := range d.Alerts {
		items[i] = a.Status + "|" + showPairs(a.Labels) + "|" + showPairs(a.Annotations)
	}
	return fmt.Sprintf("recv=%s status=%s alerts=%s cl=%s ca=%s nf=%d nr=%d", hx.Hex(d.Receiver), d.Status, hx.Join(items, ";"),
		showPairs(d.CommonLabels), showPairs(d.CommonAnnotations), len(d.Alerts.Firing()), len(d.Alerts.Resolved()))
}

type world struct {
	t      *testing.T
	tmpl   *template.Template
	srv    *httptest.Server
	last   []byte
	custom *webhook.Notifier // the case's notifier with a custom payload (created by the first webhookp)
}

// every rendered string starts with a letter and '=' so that the YAML re-parse of rendered strings in
// template.DeepCopyWithTemplate always sees a plain string
const customPayload = `
- recv: 'R={{ .Receiver }}'
  status: 'S={{ .Status }}'
- 'A={{ range .Alerts }}{{ .Status }}|{{ range .Labels.SortedPairs }}{{ .Name }}:{{ .Value }},{{ end }}|{{ range .Annotations.SortedPairs }}{{ .Name }}:{{ .Value }},{{ end }};{{ end }}'
- - 'L={{ range .CommonLabels.SortedPairs }}{{ .Name }}:{{ .Value }},{{ end }}'
  - 'N={{ range .CommonAnnotations.SortedPairs }}{{ .Name }}:{{ .Value }},{{ end }}'
- count: ['F={{ len .Alerts.Firing }}', 'Z={{ len .Alerts.Resolved }}']
`

func trimPairs(s string) string {
	s = strings.TrimSuffix(s, ",")
	if s == "" {
		return "-"
	}
	return s
}

// customDump rebuilds the dump line from the rendered custom payload.
func customDump(body []byte) string {
	var p []any
	if err := json.Unmarshal(body, &p); err != nil || len(p) != 4 {
		return "badjson:" + hx.Hex(string(body))
	}
	str := func(v any, tag string) string {
		s, _ := v.(string)
		if !strings.HasPrefix(s, tag+"=") {
			return "?" + hx.Hex(fmt.Sprint(v))
		}
		return s[len(tag)+1:]
	}
	m, _ := p[0].(map[string]any)
	cm, _ := p[2].([]any)
	cnt, _ := p[3].(map[string]any)
	cl, _ := cnt["count"].([]any)
	if m == nil || len(cm) != 2 || len(cl) != 2 {
		return "badshape:" + hx.Hex(string(body))
	}
	var items []string
	for _, it := range strings.Split(str(p[1], "A"), ";") {
		if it == "" {
			continue
		}
		f := strings.Split(it, "|")
		if len(f) != 3 {
			return "baditem:" + hx.Hex(it)
		}
		items = append(items, f[0]+"|"+trimPairs(f[1])+"|"+trimPairs(f[2]))
	}
	return fmt.Sprintf("trunc=0 recv=%s status=%s alerts=%s cl=%s ca=%s nf=%s nr=%s", hx.Hex(str(m["recv"], "R")), str(m["status"], "S"),
		hx.Join(items, ";"), trimPairs(str(cm[0], "L")), trimPairs(str(cm[1], "N")), str(cl[0], "F"), str(cl[1], "Z"))
}

func (w *world) exec(line string) string {
	t := strings.Fields(line)
	switch t[0] {
	case "data":
		if len(t) > 4 && t[4] == "tie" {
			// the same op under a standing clock, so that "ends now" is exact
			var out string
			synctest.Test(w.t, func(*testing.T) { out = w.exec(strings.Join(t[:4], " ")) })
			return out
		}
		d := w.tmpl.Data(hx.Unhex(t[1]), model.LabelSet{"g": "1"}, nil, "first_notification", parseAlerts(t[3])...)
		// an integration renders several templates on the same data (subject, then body, then URL …): rendering must
		// not change what the next template sees
		for _, text := range []string{
			`{{ template "__subject" . }}`,
			`{{ (.CommonLabels.Remove (stringSlice "a" "b")).Names }} {{ (.CommonAnnotations.Remove (stringSlice "a")).Values }}`,
			`{{ (.GroupLabels.Remove (stringSlice "g")).SortedPairs }} {{ range .Alerts.Firing }}{{ (.Labels.Remove (stringSlice "a" "c")).Names }}{{ end }}{{ range .Alerts.Resolved }}{{ (.Annotations.Remove (stringSlice "b")).Names }}{{ end }}`,
		} {
			if _, err := w.tmpl.ExecuteTextString(text, d); err != nil {
				return "error:" + hx.Hex(err.Error())
			}
		}
		return dump(d)
	case "webhook":
		mx, _ := strconv.ParseUint(t[1], 10, 64)
		u := amcommoncfg.SecretTemplateURL(w.srv.URL)
		n, err := webhook.New(&webhook.WebhookConfig{URL: u, MaxAlerts: mx, HTTPConfig: &commoncfg.HTTPClientConfig{}}, w.tmpl, promslog.NewNopLogger())
		if err != nil {
			panic(err)
		}
		ctx := notify.WithGroupKey(context.Background(), "gk")
		ctx = notify.WithReceiverName(ctx, hx.Unhex(t[2]))
		ctx = notify.WithGroupLabels(ctx, model.LabelSet{"g": "1"})
		w.last = nil
		if _, err := n.Notify(ctx, parseAlerts(t[3])...); err != nil {
			return "error:" + hx.Hex(err.Error())
		}
		var msg webhook.Message
		if err := json.Unmarshal(w.last, &msg); err != nil {
			return "badjson:" + hx.Hex(err.Error())
		}
		return fmt.Sprintf("trunc=%d %s", msg.TruncatedAlerts, dump(msg.Data))
	case "webhookp":
		if w.custom == nil {
			var payload any
			if err := yaml.Unmarshal([]byte(customPayload), &payload); err != nil {
				panic(err)
			}
			n, err := webhook.New(&webhook.WebhookConfig{URL: amcommoncfg.SecretTemplateURL(w.srv.URL), HTTPConfig: &commoncfg.HTTPClientConfig{}, Payload: payload},
				w.tmpl, promslog.NewNopLogger())
			if err != nil {
				panic(err)
			}
			w.custom = n
		}
		ctx := notify.WithGroupKey(context.Background(), "gk")
		ctx = notify.WithReceiverName(ctx, hx.Unhex(t[1]))
		ctx = notify.WithGroupLabels(ctx, model.LabelSet{"g": "1"})
		w.last = nil
		if _, err := w.custom.Notify(ctx, parseAlerts(t[2])...); err != nil {
			return "error:" + hx.Hex(err.Error())
		}
		return customDump(w.last)
	}
	panic("bad op " + line)
}

var (
	keys = []string{"a", "b", "c"}
	vals = []string{"0", "1", "2"}
)

func genPairs(r *rand.Rand, allowEmpty bool, base map[string]string) string {
	m := map[string]string{}
	for k, v := range base {
		if r.IntN(5) > 0 {
			m[k] = v // mostly shared with the batch's base: common pairs are frequent
		}
	}
	for range r.IntN(3) {
		v := hx.Pick(r, vals)
		if allowEmpty && r.IntN(5) == 0 {
			v = ""
		}
		m[hx.Pick(r, keys)] = v
	}
	return showPairs(m)
}

func genAlerts(r *rand.Rand) string {
	n := 1 + r.IntN(5)
	if r.IntN(12) == 0 {
		n = 0
	}
	base := map[string]string{}
	for range r.IntN(3) {
		base[hx.Pick(r, keys)] = hx.Pick(r, vals)
	}
	abase := map[string]string{}
	if r.IntN(2) == 0 {
		abase[hx.Pick(r, keys)] = []string{"0", "1", ""}[r.IntN(3)]
	}
	out := make([]string, n)
	allResolved := r.IntN(5) == 0
	for i := range out {
		e := []string{"p", "f", "z"}[r.IntN(3)]
		if allResolved {
			e = "p"
		}
		// the Timeout flag (EndsAt filled in by the API from resolve_timeout) must not matter: status is EndsAt vs now
		if e != "z" && r.IntN(3) == 0 {
			e = strings.ToUpper(e)
		}
		out[i] = e + "|" + genPairs(r, false, base) + "|" + genPairs(r, true, abase)
	}
	return hx.Join(out, ";")
}

func TestEngine(t *testing.T) {
	tr := hx.Open()
	defer tr.Close()
	w := &world{t: t}
	var err error
	w.tmpl, err = template.FromGlobs(nil)
	if err != nil {
		t.Fatal(err)
	}
	w.tmpl.ExternalURL, _ = url.Parse("http://am.example")
	w.srv = httptest.NewServer(http.HandlerFunc(func(rw http.ResponseWriter, req *http.Request) {
		w.last, _ = io.ReadAll(req.Body)
		rw.WriteHeader(http.StatusOK)
	}))
	defer w.srv.Close()
	do := func(line string) { tr.Linef("%s -> %s", line, w.exec(line)) }
	if s := hx.Script(); s != nil {
		for _, l := range s {
			if strings.HasPrefix(l, "case ") {
				tr.Linef("%s", l)
				w.custom = nil
				continue
			}
			do(l)
		}
		return
	}
	r := hx.Rand(202)
	recvs := []string{"team", "r.1", "a+b(c)"}
	for id := range hx.Cases(1500, 30000) {
		tr.Linef("case %d", id)
		w.custom = nil
		as := genAlerts(r)
		if r.IntN(6) == 0 {
			// two or three consecutive notifications with different batches through the case's one custom-payload notifier
			for range 2 + r.IntN(2) {
				do(fmt.Sprintf("webhookp %s %s", hx.Hex(hx.Pick(r, recvs)), genAlerts(r)))
			}
		} else if r.IntN(3) == 0 {
			do(fmt.Sprintf("webhook %d %s %s", r.IntN(5), hx.Hex(hx.Pick(r, recvs)), as))
		} else if r.IntN(4) == 0 {
			// some alerts end at the very instant of the notification
			toks := strings.Split(as, ";")
			for i := range toks {
				if r.IntN(2) == 0 && (strings.HasPrefix(toks[i], "p|") || strings.HasPrefix(toks[i], "f|") || strings.HasPrefix(toks[i], "z|")) {
					toks[i] = "t" + toks[i][1:]
				}
			}
			do(fmt.Sprintf("data %s 1 %s tie", hx.Hex(hx.Pick(r, recvs)), strings.Join(toks, ";")))
		} else {
			do(fmt.Sprintf("data %s 1 %s", hx.Hex(hx.Pick(r, recvs)), as))
		}
	}
}
