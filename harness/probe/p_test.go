package probe

import (
	"fmt"
	"testing"

	"github.com/prometheus/alertmanager/config"
)

func try(t *testing.T, name, y string) {
	defer func() {
		if p := recover(); p != nil {
			t.Logf("%s: PANIC %v", name, p)
		}
	}()
	c, err := config.Load(y)
	if err != nil {
		t.Logf("%s: err %v", name, err)
		return
	}
	t.Logf("%s: ok\n%s", name, c.String())
}

func TestProbe(t *testing.T) {
	try(t, "nullhttp", "global:\n  http_config: null\nreceivers:\n- name: a\n  slack_configs:\n  - api_url: http://x\n    channel: c\nroute:\n  receiver: a\n")
	try(t, "nullhttp-teams", "global:\n  http_config: null\nreceivers:\n- name: a\n  msteamsv2_configs:\n  - webhook_url: http://x\nroute:\n  receiver: a\n")
	try(t, "slackapp", "global:\n  slack_app_token: tok\n  slack_api_url_file: /x\nreceivers:\n- name: a\nroute:\n  receiver: a\n")
	try(t, "slackappurlnull", "global:\n  slack_app_url: null\n  slack_app_token: tok\n  slack_api_url: http://x\nreceivers:\n- name: a\nroute:\n  receiver: a\n")
	try(t, "f8", "receivers:\n- name: a\nroute:\n  receiver: a\n  group_by: [a, b]\n  routes:\n  - group_by: []\n    matchers: [x=y]\n")
	try(t, "nullroute", "receivers:\n- name: a\nroute:\n  receiver: a\n  routes:\n  - null\n")
	try(t, "nullrecv", "receivers:\n- null\nroute:\n  receiver: a\n")
	try(t, "dots", "receivers:\n- name: a\nroute:\n  receiver: a\n  group_by: ['...', '...']\n")
	fmt.Println()
}
