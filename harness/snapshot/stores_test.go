// Store adapters of engine `snapshot` (C11): the real nflog.Log and
// silence.Silences behind one small interface, generated contents, canonical
// dumps, frame walking (oracle for the model's abstract payload codec).
package snapshot

import (
	"bytes"
	"context"
	"crypto/sha256"
	"encoding/hex"
	"errors"
	"fmt"
	"math"
	"math/rand/v2"
	"os"
	"sort"
	"strings"
	"time"

	"github.com/prometheus/client_golang/prometheus"
	"google.golang.org/protobuf/encoding/protodelim"
	"google.golang.org/protobuf/encoding/protowire"
	"google.golang.org/protobuf/proto"
	"google.golang.org/protobuf/types/known/timestamppb"

	"github.com/prometheus/alertmanager/nflog"
	npb "github.com/prometheus/alertmanager/nflog/nflogpb"
	"github.com/prometheus/alertmanager/silence"
	spb "github.com/prometheus/alertmanager/silence/silencepb"
)

const maxRecord = 4 << 20 // protodelim's default MaxSize, the value the model is run with

var (
	farFuture = time.Date(2100, 1, 1, 0, 0, 0, 0, time.UTC)
	epoch     = time.Date(2020, 6, 1, 12, 0, 0, 0, time.UTC)
)

func det(m proto.Message) string {
	b, err := proto.MarshalOptions{Deterministic: true}.Marshal(m)
	if err != nil {
		panic(err)
	}
	return hex.EncodeToString(b)
}

func hashLines(parts ...[]string) string {
	h := sha256.New()
	for _, p := range parts {
		sort.Strings(p)
		for _, l := range p {
			h.Write([]byte(l))
			h.Write([]byte{'\n'})
		}
		h.Write([]byte{'|'})
	}
	return hex.EncodeToString(h.Sum(nil)[:8])
}

// store is what the engine needs of a persistent component.
type store interface {
	fill(r *rand.Rand, n int, shape string) (expect string, ok bool) // expect = dump computed from the descriptors
	dump() (string, int)                                             // dump of the live store through its query API
	snapshot() []byte                                                // Snapshot(w)
	maintain(path string)                                            // real Maintenance: GC + snapshot to path (final run on closed stop channel)
	maintainEvery(path string, every time.Duration, stop chan struct{}) // real Maintenance with its ticker, until stop closes
}

type kindOps struct {
	name     string
	fresh    func() store
	fromRead func(b []byte) (store, error)
	fromFile func(path string) (store, error)
	classify func(payload []byte) (cls, key string) // oracle for one record payload
}

// ---------------------------------------------------------------- nflog

type nfStore struct{ l *nflog.Log }

func nfNew(o nflog.Options) (store, error) {
	o.Metrics = prometheus.NewRegistry()
	o.Retention = time.Hour
	l, err := nflog.New(o)
	if l == nil {
		return nil, err
	}
	return &nfStore{l}, err
}

var weird = []string{"", "a", "{}:{alertname=\"x\"}", "é√∫", "with space", "a:b/c", strings.Repeat("k", 130), "\x00\x01", "{}/{team=~\"a|b\"}:{alertname=\"High:Load\"}"}

func genEntry(r *rand.Rand, i int, shape string) *npb.MeshEntry {
	e := &npb.Entry{
		GroupKey: []byte(fmt.Sprintf("g%d/%s", i, hxPick(r, weird))),
		Receiver: &npb.Receiver{GroupName: hxPick(r, weird), Integration: hxPick(r, []string{"webhook", "email", "", "slack"}), Idx: uint32(r.IntN(4))},
	}
	m := &npb.MeshEntry{Entry: e, ExpiresAt: timestamppb.New(farFuture.Add(time.Duration(r.IntN(1000)) * time.Second))}
	if shape == "min" {
		return m
	}
	e.Timestamp = &timestamppb.Timestamp{Seconds: epoch.Unix() + int64(r.IntN(100000)), Nanos: int32(r.IntN(1e9))}
	nf, nr, nd := r.IntN(4), r.IntN(3), r.IntN(3)
	if shape == "multi" {
		nf, nr, nd = 20+r.IntN(200), r.IntN(50), 3+r.IntN(6)
	}
	if shape == "big" {
		nf = 1500 + r.IntN(2000) // > 16 KiB payloads: three-byte length prefixes
	}
	for range nf {
		e.FiringAlerts = append(e.FiringAlerts, pickU64(r))
	}
	for range nr {
		e.ResolvedAlerts = append(e.ResolvedAlerts, pickU64(r))
	}
	if r.IntN(4) == 0 {
		e.GroupHash = []byte{0, 1, 2, byte(r.IntN(256))} // deprecated fields still round-trip
		e.Resolved = r.IntN(2) == 0
	}
	if nd > 0 {
		e.ReceiverData = map[string]*npb.ReceiverDataValue{}
		for j := range nd {
			k := fmt.Sprintf("k%d%s", j, hxPick(r, weird))
			switch r.IntN(4) {
			case 0:
				e.ReceiverData[k] = &npb.ReceiverDataValue{Value: &npb.ReceiverDataValue_StrVal{StrVal: hxPick(r, weird)}}
			case 1:
				e.ReceiverData[k] = &npb.ReceiverDataValue{Value: &npb.ReceiverDataValue_IntVal{IntVal: int64(pickU64(r))}}
			case 2:
				e.ReceiverData[k] = &npb.ReceiverDataValue{Value: &npb.ReceiverDataValue_DoubleVal{DoubleVal: hxPick(r, []float64{0, -1.5, math.Inf(1), math.MaxFloat64, 1e-300})}}
			default:
				e.ReceiverData[k] = &npb.ReceiverDataValue{} // value not set
			}
		}
	}
	if shape == "huge" && i == 0 {
		e.ReceiverData = map[string]*npb.ReceiverDataValue{"blob": {Value: &npb.ReceiverDataValue_StrVal{StrVal: strings.Repeat("x", maxRecord+1000)}}}
	}
	return m
}

func pickU64(r *rand.Rand) uint64 {
	switch r.IntN(5) {
	case 0:
		return 0
	case 1:
		return math.MaxUint64
	case 2:
		return uint64(r.IntN(128))
	default:
		return r.Uint64()
	}
}

func hxPick[T any](r *rand.Rand, l []T) T { return l[r.IntN(len(l))] }

func nfKey(e *npb.Entry) string {
	return fmt.Sprintf("%s:%s/%s/%d", e.GroupKey, e.Receiver.GroupName, e.Receiver.Integration, e.Receiver.Idx)
}

func nfDump(ms []*npb.MeshEntry, q func(*npb.Entry) string) (string, int) {
	var a, b []string
	for _, m := range ms {
		a = append(a, det(m))
		b = append(b, q(m.Entry))
	}
	return hashLines(a, b), len(ms)
}

func (s *nfStore) fill(r *rand.Rand, n int, shape string) (string, bool) {
	if sp, ok := parseSized(shape); ok {
		m := sizedEntry(r, sp)
		if sp.via == "api" { // the notification pipeline's own write: Log() of a large group / large receiver data
			st := nflog.NewStore(nil)
			for k, v := range m.Entry.ReceiverData {
				st.SetStr(k, v.GetStrVal())
			}
			if err := s.l.Log(m.Entry.Receiver, string(m.Entry.GroupKey), m.Entry.FiringAlerts, m.Entry.ResolvedAlerts, st, 0); err != nil {
				panic(err)
			}
		} else {
			var buf bytes.Buffer
			if _, err := protodelim.MarshalTo(&buf, m); err != nil {
				panic(err)
			}
			if err := s.l.Merge(buf.Bytes()); err != nil {
				return "mergefail:" + hxHex(err.Error()), false
			}
		}
		for i := 1; i < n; i++ {
			var buf bytes.Buffer
			if _, err := protodelim.MarshalTo(&buf, genEntry(r, i, "mix")); err != nil {
				panic(err)
			}
			if err := s.l.Merge(buf.Bytes()); err != nil {
				panic(fmt.Sprintf("nflog merge: %v", err))
			}
		}
		d, _ := s.dump()
		return d, true
	}
	if shape == "log" { // through the write API of the notification pipeline
		for i := range n {
			st := nflog.NewStore(nil)
			st.SetStr("thread", hxPick(r, weird))
			st.SetInt("n", int64(i))
			st.SetFloat("f", 0.5)
			rc := &npb.Receiver{GroupName: "r", Integration: "webhook", Idx: uint32(i % 3)}
			if err := s.l.Log(rc, fmt.Sprintf("g%d", i), []uint64{1, uint64(i)}, []uint64{pickU64(r)}, st, 0); err != nil {
				panic(err)
			}
		}
		d, _ := s.dump()
		return d, true
	}
	var ms []*npb.MeshEntry
	var buf bytes.Buffer
	flush := func() {
		if buf.Len() > 0 {
			if err := s.l.Merge(buf.Bytes()); err != nil {
				panic(fmt.Sprintf("nflog merge: %v", err))
			}
			buf.Reset()
		}
	}
	for i := range n {
		m := genEntry(r, i, shape)
		if shape == "huge" && i == 0 {
			// too large for a gossip message; the pipeline's own write API takes it
			injectNflog(s.l, m)
			continue
		}
		ms = append(ms, m)
		if _, err := protodelim.MarshalTo(&buf, m); err != nil {
			panic(err)
		}
		if buf.Len() > 1<<20 {
			flush()
		}
	}
	flush()
	if shape == "huge" {
		d, _ := s.dump()
		return d, true
	}
	d, _ := nfDump(ms, func(e *npb.Entry) string { return det(e) })
	return d, true
}

// injectNflog stores an entry that is too large for a gossip message through
// the pipeline's own write API: Log() with the large receiver data.
func injectNflog(l *nflog.Log, m *npb.MeshEntry) {
	st := nflog.NewStore(nil)
	st.SetStr("blob", m.Entry.ReceiverData["blob"].GetStrVal())
	if err := l.Log(m.Entry.Receiver, string(m.Entry.GroupKey), m.Entry.FiringAlerts, m.Entry.ResolvedAlerts, st, 0); err != nil {
		panic(err)
	}
}

func decodeNf(b []byte) []*npb.MeshEntry {
	var out []*npb.MeshEntry
	br := bytes.NewReader(b)
	for br.Len() > 0 {
		m := &npb.MeshEntry{}
		if err := (protodelim.UnmarshalOptions{MaxSize: -1}).UnmarshalFrom(br, m); err != nil {
			panic(err)
		}
		out = append(out, m)
	}
	return out
}

func (s *nfStore) dump() (string, int) {
	b, err := s.l.MarshalBinary()
	if err != nil {
		panic(err)
	}
	return nfDump(decodeNf(b), func(e *npb.Entry) string {
		es, err := s.l.Query(nflog.QGroupKey(string(e.GroupKey)), nflog.QReceiver(e.Receiver))
		if err != nil || len(es) != 1 {
			return "missing"
		}
		return det(es[0])
	})
}

func (s *nfStore) snapshot() []byte {
	var buf bytes.Buffer
	if _, err := s.l.Snapshot(&buf); err != nil {
		panic(err)
	}
	return buf.Bytes()
}

func closedChan() chan struct{} { c := make(chan struct{}); close(c); return c }

func (s *nfStore) maintain(path string) { s.l.Maintenance(time.Hour, path, closedChan(), nil) }
func (s *nfStore) maintainEvery(path string, every time.Duration, stop chan struct{}) {
	s.l.Maintenance(every, path, stop, nil)
}

var nfKind = kindOps{
	name:  "nflog",
	fresh: func() store { s, _ := nfNew(nflog.Options{}); return s },
	fromRead: func(b []byte) (store, error) {
		return nfNew(nflog.Options{SnapshotReader: bytes.NewReader(b)})
	},
	fromFile: func(p string) (store, error) { return nfNew(nflog.Options{SnapshotFile: p}) },
	classify: func(p []byte) (string, string) {
		var m npb.MeshEntry
		if err := proto.Unmarshal(p, &m); err != nil {
			return "u", ""
		}
		if m.Entry == nil || m.Entry.Receiver == nil {
			return "i", ""
		}
		return "v", nfKey(m.Entry)
	},
}

// ---------------------------------------------------------------- silences

type silStore struct{ s *silence.Silences }

func silNew(o silence.Options) (store, error) {
	o.Metrics = prometheus.NewRegistry()
	o.Retention = time.Hour
	s, err := silence.New(o)
	if s == nil {
		return nil, err
	}
	return &silStore{s}, err
}

var names = []string{"alertname", "job", "instance", "team", "a_b", "x9"}

func genMatcher(r *rand.Rand) *spb.Matcher {
	t := spb.Matcher_Type(r.IntN(4))
	m := &spb.Matcher{Type: t, Name: hxPick(r, names)}
	if t == spb.Matcher_REGEXP || t == spb.Matcher_NOT_REGEXP {
		m.Pattern = hxPick(r, []string{"a.*", "(x|y)+", "", "é+", "[0-9]{1,3}"})
	} else {
		m.Pattern = hxPick(r, weird)
	}
	return m
}

func genSets(r *rand.Rand, n, per int) []*spb.MatcherSet {
	var out []*spb.MatcherSet
	for range n {
		ms := &spb.MatcherSet{}
		for range 1 + r.IntN(per) {
			ms.Matchers = append(ms.Matchers, genMatcher(r))
		}
		out = append(out, ms)
	}
	return out
}

func genSilence(r *rand.Rand, i int, shape string) *spb.MeshSilence {
	s := &spb.Silence{Id: fmt.Sprintf("%08x-%04d-id", r.Uint32(), i)}
	m := &spb.MeshSilence{Silence: s, ExpiresAt: timestamppb.New(farFuture.Add(time.Duration(r.IntN(1000)) * time.Second))}
	if shape == "min" {
		return m // no matcher sets at all, no times: still a state the store can hold (via gossip)
	}
	nsets, per, nann, nrecv := 1+r.IntN(2), 3, r.IntN(3), r.IntN(2)
	if shape == "multi" {
		nsets, per, nann, nrecv = 2+r.IntN(6), 6, 2+r.IntN(8), 1+r.IntN(3)
	}
	if shape == "big" {
		nsets, per, nann = 40, 12, 30
	}
	s.MatcherSets = genSets(r, nsets, per)
	s.ReceiverMatcherSets = genSets(r, nrecv, per)
	s.StartsAt = &timestamppb.Timestamp{Seconds: epoch.Unix() + int64(r.IntN(100000)), Nanos: int32(r.IntN(1e9))}
	s.EndsAt = timestamppb.New(farFuture.Add(-time.Hour))
	s.UpdatedAt = &timestamppb.Timestamp{Seconds: epoch.Unix() + int64(r.IntN(100000))}
	s.CreatedBy = hxPick(r, weird)
	s.Comment = hxPick(r, weird)
	if nann > 0 {
		s.Annotations = map[string]string{}
		for j := range nann {
			s.Annotations[fmt.Sprintf("a%d%s", j, hxPick(r, weird))] = hxPick(r, weird)
		}
	}
	if shape == "huge" && i == 0 {
		s.Comment = strings.Repeat("c", maxRecord+1000)
	}
	return m
}

func silDump(ms []*spb.MeshSilence, all []*spb.Silence) (string, int) {
	var a, b []string
	for _, m := range ms {
		c := proto.Clone(m).(*spb.MeshSilence)
		// the marshalled form repeats the first matcher set in the legacy field; that copy is not content
		if len(c.Silence.MatcherSets) > 0 && proto.Equal(&spb.MatcherSet{Matchers: c.Silence.Matchers}, c.Silence.MatcherSets[0]) {
			c.Silence.Matchers = nil
		}
		a = append(a, det(c))
	}
	for _, s := range all {
		b = append(b, det(s))
	}
	return hashLines(a, b), len(ms)
}

func (s *silStore) fill(r *rand.Rand, n int, shape string) (string, bool) {
	if sp, ok := parseSized(shape); ok {
		m := sizedSilence(r, sp)
		if sp.via == "api" { // the API's own write: Set() of a silence with many matchers / long annotations
			m.Silence.Id = ""
			m.Silence.StartsAt = nil
			if err := s.s.Set(context.Background(), m.Silence); err != nil {
				panic(fmt.Sprintf("set sized: %v", err))
			}
		} else {
			var buf bytes.Buffer
			if _, err := protodelim.MarshalTo(&buf, m); err != nil {
				panic(err)
			}
			if err := s.s.Merge(buf.Bytes()); err != nil {
				return "mergefail:" + hxHex(err.Error()), false
			}
		}
		for i := 1; i < n; i++ {
			var buf bytes.Buffer
			if _, err := protodelim.MarshalTo(&buf, genSilence(r, i, "mix")); err != nil {
				panic(err)
			}
			if err := s.s.Merge(buf.Bytes()); err != nil {
				panic(fmt.Sprintf("silence merge: %v", err))
			}
		}
		d, _ := s.dump()
		return d, true
	}
	if shape == "set" { // through the API's write path
		for i := range n {
			sil := genSilence(r, i, "mix").Silence
			sil.Id = ""
			sil.StartsAt = nil
			for _, ms := range append(sil.MatcherSets, sil.ReceiverMatcherSets...) {
				ms.Matchers = append(ms.Matchers, &spb.Matcher{Name: "alertname", Pattern: fmt.Sprintf("a%d", i)})
				for _, m := range ms.Matchers {
					if m.Type == spb.Matcher_EQUAL || m.Type == spb.Matcher_NOT_EQUAL {
						m.Pattern = strings.ToValidUTF8(m.Pattern, "?")
					}
				}
			}
			if err := s.s.Set(context.Background(), sil); err != nil {
				panic(fmt.Sprintf("set: %v", err))
			}
		}
		d, _ := s.dump()
		return d, true
	}
	var ms []*spb.MeshSilence
	var sils []*spb.Silence
	var buf bytes.Buffer
	flush := func() {
		if buf.Len() > 0 {
			if err := s.s.Merge(buf.Bytes()); err != nil {
				panic(fmt.Sprintf("silence merge: %v", err))
			}
			buf.Reset()
		}
	}
	for i := range n {
		m := genSilence(r, i, shape)
		if shape == "huge" && i == 0 {
			// too large for gossip; the API accepts it (no size limit by default)
			m.Silence.Id = ""
			m.Silence.StartsAt = nil
			m.Silence.MatcherSets = []*spb.MatcherSet{{Matchers: []*spb.Matcher{{Name: "alertname", Pattern: "huge"}}}}
			m.Silence.ReceiverMatcherSets = nil
			if err := s.s.Set(context.Background(), m.Silence); err != nil {
				panic(fmt.Sprintf("set huge: %v", err))
			}
			continue
		}
		ms = append(ms, m)
		sils = append(sils, m.Silence)
		if _, err := protodelim.MarshalTo(&buf, m); err != nil {
			panic(err)
		}
		if buf.Len() > 1<<20 {
			flush()
		}
	}
	flush()
	if shape == "huge" {
		d, _ := s.dump()
		return d, true
	}
	d, _ := silDump(ms, sils)
	return d, true
}

func decodeSil(b []byte) []*spb.MeshSilence {
	var out []*spb.MeshSilence
	br := bytes.NewReader(b)
	for br.Len() > 0 {
		m := &spb.MeshSilence{}
		if err := (protodelim.UnmarshalOptions{MaxSize: -1}).UnmarshalFrom(br, m); err != nil {
			panic(err)
		}
		out = append(out, m)
	}
	return out
}

func (s *silStore) dump() (string, int) {
	b, err := s.s.MarshalBinary()
	if err != nil {
		panic(err)
	}
	all, _, err := s.s.Query(context.Background())
	if err != nil {
		panic(err)
	}
	return silDump(decodeSil(b), all)
}

func (s *silStore) snapshot() []byte {
	var buf bytes.Buffer
	if _, err := s.s.Snapshot(&buf); err != nil {
		panic(err)
	}
	return buf.Bytes()
}

func (s *silStore) maintain(path string) { s.s.Maintenance(time.Hour, path, closedChan(), nil) }
func (s *silStore) maintainEvery(path string, every time.Duration, stop chan struct{}) {
	s.s.Maintenance(every, path, stop, nil)
}

var silKind = kindOps{
	name:  "silence",
	fresh: func() store { s, _ := silNew(silence.Options{}); return s },
	fromRead: func(b []byte) (store, error) {
		return silNew(silence.Options{SnapshotReader: bytes.NewReader(b)})
	},
	fromFile: func(p string) (store, error) { return silNew(silence.Options{SnapshotFile: p}) },
	classify: func(p []byte) (string, string) {
		var m spb.MeshSilence
		if err := proto.Unmarshal(p, &m); err != nil {
			return "u", ""
		}
		if m.Silence == nil {
			return "i", ""
		}
		return "v", m.Silence.Id
	},
}

func kindOf(name string) kindOps {
	if name == "silence" {
		return silKind
	}
	return nfKind
}

// ---------------------------------------------------------------- frames

// lens walks a well-formed snapshot and returns the payload lengths.
func lens(b []byte) []uint64 {
	var out []uint64
	for len(b) > 0 {
		n, k := protowire.ConsumeVarint(b)
		if k < 0 || uint64(len(b)-k) < n {
			panic("own snapshot does not frame")
		}
		out = append(out, n)
		b = b[k+int(n):]
	}
	return out
}

// oracle announces every frame an independent walk finds, with the verdict of
// the trusted field codec and of the validity test on its payload.
func oracle(k kindOps, b []byte) string {
	var out []string
	off := 0
	for off < len(b) {
		head := b[off:]
		if len(head) > 10 {
			head = head[:10]
		}
		n, w := protowire.ConsumeVarint(head)
		if w < 0 || n > maxRecord || uint64(len(b)-off-w) < n {
			break
		}
		p := b[off+w : off+w+int(n)]
		cls, key := k.classify(p)
		out = append(out, fmt.Sprintf("%d:%d:%s:%s", off+w, n, cls, hxHex(key)))
		if cls != "v" {
			break
		}
		off += w + int(n)
	}
	if len(out) == 0 {
		return "-"
	}
	return strings.Join(out, ",")
}

func hxHex(s string) string {
	if s == "" {
		return "-"
	}
	return hex.EncodeToString([]byte(s))
}

// load runs the real loader; never lets a panic escape.
func load(k kindOps, b []byte, path string) (st store, res string) {
	defer func() {
		if p := recover(); p != nil {
			st, res = nil, "panic"
		}
	}()
	var err error
	if path != "" {
		st, err = k.fromFile(path)
	} else {
		st, err = k.fromRead(b)
	}
	switch {
	case err == nil:
		return st, "ok"
	case errors.Is(err, nflog.ErrInvalidState) || errors.Is(err, silence.ErrInvalidState):
		return nil, "invalid"
	default:
		return nil, "error"
	}
}

func mustWrite(path string, b []byte) {
	if err := os.WriteFile(path, b, 0o644); err != nil {
		panic(err)
	}
}
