// Records of a chosen encoded size (engine `snapshot`, C11): one record of the
// store is inflated through ONE of its fields until its length-delimited
// payload has the requested length — everything the writer emits must be read
// back by the loader, whatever the field that made it large.
//
// shape  sz:<field>:<target bytes>:<merge|api>
//   nflog    fields: firing (alert hashes of a large group), resolved, rdata (receiver data string), gkey
//   silence  fields: matchers (one set with many matchers), sets (many matcher sets), annot (annotation value), comment
//   merge = the exact record arrives as a peer's state (Merge), its payload is exactly <target> bytes
//   api   = through the store's own write API (Log / Set), payload within a few bytes of <target>
package snapshot

import (
	"fmt"
	"math"
	"math/rand/v2"
	"strconv"
	"strings"

	"google.golang.org/protobuf/proto"
	"google.golang.org/protobuf/types/known/timestamppb"

	npb "github.com/prometheus/alertmanager/nflog/nflogpb"
	spb "github.com/prometheus/alertmanager/silence/silencepb"
)

type sizedSpec struct {
	field  string
	target int
	via    string
}

func parseSized(shape string) (sizedSpec, bool) {
	p := strings.Split(shape, ":")
	if len(p) != 4 || p[0] != "sz" {
		return sizedSpec{}, false
	}
	n, err := strconv.Atoi(p[2])
	if err != nil || n < 64 {
		return sizedSpec{}, false
	}
	return sizedSpec{p[1], n, p[3]}, true
}

// fit searches the filler amount for which size(fill) == target; size must be
// non-decreasing in fill with steps of at most `step` bytes.  It returns the
// largest fill whose size does not exceed the target.
func fit(target int, size func(fill int) int) int {
	lo, hi := 0, target+16
	for lo < hi {
		mid := (lo + hi + 1) / 2
		if size(mid) <= target {
			lo = mid
		} else {
			hi = mid - 1
		}
	}
	return lo
}

// hashes returns alert hashes whose packed varint encoding is exactly `bytes` long.
func hashes(bytes int) []uint64 {
	var out []uint64
	for bytes >= 10 {
		out = append(out, math.MaxUint64-uint64(len(out))) // ten-byte varints, all distinct
		bytes -= 10
	}
	if bytes > 0 {
		out = append(out, uint64(1)<<(7*uint(bytes-1))) // a varint of exactly `bytes` bytes
	}
	return out
}

func sizedEntry(r *rand.Rand, sp sizedSpec) *npb.MeshEntry {
	build := func(fill, pad int) *npb.MeshEntry {
		e := &npb.Entry{
			GroupKey:  []byte("{}/{team=\"sized\"}:{alertname=\"Big\"}"),
			Receiver:  &npb.Receiver{GroupName: "sized" + strings.Repeat("p", pad), Integration: "webhook", Idx: 1},
			Timestamp: &timestamppb.Timestamp{Seconds: epoch.Unix() + 7, Nanos: 5},
		}
		switch sp.field {
		case "firing":
			e.FiringAlerts = hashes(fill)
		case "resolved":
			e.FiringAlerts = []uint64{1, 2, 3}
			e.ResolvedAlerts = hashes(fill)
		case "gkey":
			e.GroupKey = []byte(strings.Repeat("g", fill))
		default: // rdata
			e.ReceiverData = map[string]*npb.ReceiverDataValue{"thread": {Value: &npb.ReceiverDataValue_StrVal{StrVal: strings.Repeat("x", fill)}}}
		}
		return &npb.MeshEntry{Entry: e, ExpiresAt: timestamppb.New(farFuture)}
	}
	_ = r
	fill := fit(sp.target, func(f int) int { return proto.Size(build(f, 0)) })
	pad := fit(sp.target, func(p int) int { return proto.Size(build(fill, p)) })
	return build(fill, pad)
}

// writtenSize is the payload length the silence store writes for m: the first
// matcher set is repeated in the legacy field (prepareSilenceForMarshalling).
func writtenSize(m *spb.MeshSilence) int {
	c := proto.Clone(m).(*spb.MeshSilence)
	if len(c.Silence.MatcherSets) > 0 {
		c.Silence.Matchers = c.Silence.MatcherSets[0].Matchers
	}
	return proto.Size(c)
}

func sizedSilence(r *rand.Rand, sp sizedSpec) *spb.MeshSilence {
	_ = r
	build := func(fill, pad int) *spb.MeshSilence {
		s := &spb.Silence{
			Id:          "51ced000-0000-4000-8000-000000000001",
			MatcherSets: []*spb.MatcherSet{{Matchers: []*spb.Matcher{{Name: "alertname", Pattern: "Sized"}}}},
			StartsAt:    &timestamppb.Timestamp{Seconds: epoch.Unix()},
			EndsAt:      timestamppb.New(farFuture.Add(-1)),
			UpdatedAt:   &timestamppb.Timestamp{Seconds: epoch.Unix() + 1},
			CreatedBy:   "sized" + strings.Repeat("p", pad),
			Comment:     "c",
		}
		switch sp.field {
		case "matchers": // many matchers in a second set (40 bytes each, the last one takes the remainder)
			ms := &spb.MatcherSet{}
			for fill > 0 {
				k := max(32, sp.target/4096)
				if fill < 2*k {
					k = fill
				}
				ms.Matchers = append(ms.Matchers, &spb.Matcher{Type: spb.Matcher_REGEXP, Name: "instance", Pattern: strings.Repeat("a", k)})
				fill -= k
			}
			s.MatcherSets = append(s.MatcherSets, ms)
		case "sets": // many small matcher sets
			for i := 0; fill > 0; i++ {
				k := max(24, sp.target/4096)
				if fill < 2*k {
					k = fill
				}
				s.MatcherSets = append(s.MatcherSets, &spb.MatcherSet{Matchers: []*spb.Matcher{{Name: "job", Pattern: strings.Repeat("j", k)}}})
				fill -= k
			}
		case "comment":
			s.Comment = strings.Repeat("c", fill)
		default: // annot
			s.Annotations = map[string]string{"runbook": strings.Repeat("r", fill)}
		}
		return &spb.MeshSilence{Silence: s, ExpiresAt: timestamppb.New(farFuture)}
	}
	fill := fit(sp.target, func(f int) int { return writtenSize(build(f, 0)) })
	pad := fit(sp.target, func(p int) int { return writtenSize(build(fill, p)) })
	return build(fill, pad)
}

func sizeClass(n uint64) string {
	switch {
	case n > maxRecord:
		return "over-4MiB"
	case n == maxRecord:
		return "at-4MiB"
	case n >= 1<<20:
		return "1MiB-4MiB"
	case n > 64<<10:
		return "64KiB-1MiB"
	case n > 16<<10:
		return "16KiB-64KiB"
	}
	return "small"
}

// sizedTargets: the sizes every run visits (both sides of 64 KiB, 1 MiB, just
// under and exactly at protodelim's default limit) and a few log-uniform ones.
func sizedTargets(r *rand.Rand, extra int) []int {
	out := []int{60 << 10, 70 << 10, 1 << 20, maxRecord - 1 - r.IntN(4096), maxRecord}
	for range extra {
		lg := 15.0 + r.Float64()*(22.0-15.0) // 32 KiB … 4 MiB
		n := int(math.Pow(2, lg))
		if n >= maxRecord {
			n = maxRecord - 1 - r.IntN(1000)
		}
		out = append(out, n)
	}
	return out
}

var sizedFields = map[string][]string{
	"nflog":   {"firing", "rdata", "resolved", "gkey"},
	"silence": {"matchers", "annot", "sets", "comment"},
}

func sizedShape(field string, target int, via string) string {
	return fmt.Sprintf("sz:%s:%d:%s", field, target, via)
}
