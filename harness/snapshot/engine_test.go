// Engine `snapshot` (C11): real nflog.Log / silence.Silences snapshots —
// (a) write → load → compare dumps, (b) the loader on every prefix and
// single-byte corruption, (c) the system-call order of a real maintenance
// snapshot (strace: order, open flags, temp names; shutdown and periodic path),
// (d) the real loader on every crash state of that order, (e) histories: the
// temp file of an attempt that crashed is left on the disk under the name the
// real code used, then the REAL code snapshots a smaller state and the result
// is loaded.  The Lean driver replays the trace on AM.Snapshot / AM.CrashFS.
package snapshot

import (
	"bytes"
	"encoding/hex"
	"fmt"
	"math/rand/v2"
	"os"
	"os/exec"
	"path/filepath"
	"regexp"
	"strconv"
	"strings"
	"testing"
	"time"

	"google.golang.org/protobuf/encoding/protowire"
	"google.golang.org/protobuf/types/known/timestamppb"

	spb "github.com/prometheus/alertmanager/silence/silencepb"

	"verif/harness/hx"
)

type world struct {
	k       kindOps
	mode    string
	dir     string
	a, b, c store
	base    []byte
	absent  bool
	hashA   string
	hash2   string
	hash3   string
	gen2    string // args of gen2 / gen3, for the strace child
	gen3    string
	ops     []fsop // the last attempt of `ops`
	newB    []byte
	ops2    []fsop
	new2    []byte
	seq     int
	suffix  map[string]string // temp token (T1, T2, …) -> the real suffix after the target path
	tokenOf map[string]string // real suffix -> token
}

// token names a temp path by the order in which the case first saw it.
func (w *world) token(suffix string) string {
	if w.tokenOf == nil {
		w.tokenOf, w.suffix = map[string]string{}, map[string]string{}
	}
	if t, ok := w.tokenOf[suffix]; ok {
		return t
	}
	t := fmt.Sprintf("T%d", len(w.tokenOf)+1)
	w.tokenOf[suffix], w.suffix[t] = t, suffix
	return t
}

// realName is the file name under which a path token is materialised next to the target `nflog`.
func (w *world) realName(tok string) string {
	if tok == "F" {
		return "nflog"
	}
	if s, ok := w.suffix[tok]; ok {
		return "nflog" + s
	}
	return "nflog.model-" + tok
}

func hexOrDash(b []byte) string {
	if len(b) == 0 {
		return "-"
	}
	return hex.EncodeToString(b)
}

func u64s(l []uint64) string {
	s := make([]string, len(l))
	for i, v := range l {
		s[i] = strconv.FormatUint(v, 10)
	}
	return hx.Join(s, ".")
}

func (w *world) loadRes(b []byte) (string, store) {
	st, res := load(w.k, b, "")
	if res != "ok" {
		return res, nil
	}
	_, n := st.dump()
	return fmt.Sprintf("ok %d", n), st
}

func (w *world) exec(line string) string {
	t := strings.Fields(line)
	switch t[0] {
	case "gen", "gen2", "gen3":
		seed, _ := strconv.ParseUint(t[1], 10, 64)
		n, _ := strconv.Atoi(t[2])
		if t[3] == "absent" {
			w.absent = true
			return "- 0"
		}
		st := w.k.fresh()
		exp, ok := st.fill(rand.New(rand.NewPCG(seed, 11)), n, t[3])
		if !ok { // the store refused a record a peer's store wrote (Merge runs the same decodeState as the loader)
			return exp + " 0"
		}
		_, cnt := st.dump()
		switch t[0] {
		case "gen":
			w.a = st
		case "gen2":
			w.b, w.hash2, w.gen2 = st, exp, strings.Join(t[1:], " ")
		default:
			w.c, w.hash3, w.gen3 = st, exp, strings.Join(t[1:], " ")
		}
		return fmt.Sprintf("%s %d", exp, cnt)
	case "snapshot":
		if w.absent {
			return "absent - 0 -"
		}
		if w.a == nil {
			return "noctx - 0 -"
		}
		if t[1] == "file" {
			p := filepath.Join(w.dir, "S")
			w.a.maintain(p)
			b, err := os.ReadFile(p)
			if err != nil {
				return "nofile - 0 -"
			}
			w.base = b
		} else {
			w.base = w.a.snapshot()
		}
		w.hashA, _ = w.a.dump()
		h := hexOrDash(w.base)
		if len(w.base) > 64<<10 {
			h = "big"
		}
		return fmt.Sprintf("%s %s %d %s", h, u64s(lens(w.base)), len(w.base), w.hashA)
	case "reload":
		var st store
		var res string
		if t[1] == "file" {
			p := filepath.Join(w.dir, "L")
			mustWrite(p, w.base)
			st, res = load(w.k, nil, p)
		} else {
			st, res = load(w.k, w.base, "")
		}
		if res != "ok" {
			return res + " 0 -"
		}
		h, n := st.dump()
		return fmt.Sprintf("ok %d %s", n, h)
	case "prefix":
		k, _ := strconv.Atoi(t[1])
		if k > len(w.base) {
			k = len(w.base)
		}
		in := w.base[:k]
		r, _ := w.loadRes(in)
		return oracle(w.k, in) + " " + r
	case "corrupt":
		pos, _ := strconv.Atoi(t[1])
		x, _ := strconv.Atoi(t[2])
		in := append([]byte(nil), w.base...)
		if pos < len(in) {
			in[pos] ^= byte(x)
		}
		r, _ := w.loadRes(in)
		return oracle(w.k, in) + " " + r
	case "raw":
		in := []byte(hx.Unhex(t[1]))
		r, st := w.loadRes(in)
		if st != nil {
			h, _ := st.dump()
			return fmt.Sprintf("%s %s %s", oracle(w.k, in), r, h)
		}
		return fmt.Sprintf("%s %s -", oracle(w.k, in), r)
	case "ops":
		if w.b == nil {
			return "noctx -"
		}
		if t[1] == "strace" {
			att, nb, err := w.strace(straceReq{gen: w.gen2, mode: t[2], base: w.base, absent: w.absent})
			if err != nil {
				return "strace-failed:" + hx.Hex(err.Error()) + " -"
			}
			w.newB = nb
			w.ops = nil
			if len(att) > 0 {
				w.ops = parseTokens(strings.Join(att[len(att)-1], ","), nb)
			}
			return joinAttempts(att) + " " + hexOrDash(nb)
		}
		w.newB = w.b.snapshot()
		var toks []string
		toks = append(toks, "c:"+w.token(".model-tmp")+":t")
		rest := len(w.newB)
		for _, c := range hx.Split(t[2], ".") {
			n, _ := strconv.Atoi(c)
			if n > rest {
				n = rest
			}
			rest -= n
			toks = append(toks, fmt.Sprintf("w:%d", n))
		}
		if rest > 0 {
			toks = append(toks, fmt.Sprintf("w:%d", rest))
		}
		toks = append(toks, "s", "x", "r:"+w.token(".model-tmp")+":F")
		s := strings.Join(toks, ",")
		w.ops = parseTokens(s, w.newB)
		return s + " " + hexOrDash(w.newB)
	case "ops2":
		// the attempt AFTER a crashed one, by a new process (the restarted Alertmanager), traced in a directory
		// that still holds the temp file of the crashed attempt: all its writes done, nothing synced, no rename
		if w.c == nil || w.ops == nil {
			return "noctx -"
		}
		left := map[string][]byte{}
		fs := runOps(w.absent, w.base, w.ops, max(0, len(w.ops)-3)) // before fsync, close, rename
		for name, id := range fs.dirAt(len(fs.log)) {
			if name != "F" && id < len(fs.inodes) {
				left[w.suffix[name]] = fs.inodes[id].data
			}
		}
		att, nb, err := w.strace(straceReq{gen: w.gen3, mode: "shutdown", base: w.base, absent: w.absent, left: left})
		if err != nil {
			return "strace-failed:" + hx.Hex(err.Error()) + " -"
		}
		w.new2 = w.c.snapshot() // n ≤ 1 record: the serialisation is deterministic
		w.ops2 = nil
		if len(att) > 0 {
			w.ops2 = parseTokens(strings.Join(att[len(att)-1], ","), w.new2)
		}
		_ = nb
		return joinAttempts(att) + " " + hexOrDash(w.new2)
	case "hcrash":
		if w.ops == nil || w.c == nil {
			return "noctx noctx 0"
		}
		i, _ := strconv.Atoi(t[1])
		j, _ := strconv.Atoi(t[2])
		m, _ := strconv.Atoi(t[3])
		return w.hcrash(i, j, m)
	case "hdone":
		return strconv.Itoa(len(histPoints(w.absent, w.base, w.ops)))
	case "crash":
		if w.ops == nil {
			return "noctx noctx"
		}
		i, _ := strconv.Atoi(t[1])
		j, _ := strconv.Atoi(t[2])
		m, _ := strconv.Atoi(t[3])
		return w.crash(i, j, m)
	case "crashdone":
		nw, ns := 0, 0
		for _, c := range crashPoints(w.absent, w.base, w.ops) {
			nw++
			if c.strong {
				ns++
			}
		}
		return fmt.Sprintf("%d %d", nw, ns)
	}
	panic("bad op " + line)
}

// crash materialises one crash state as real files and runs the real loader on it.
func (w *world) crash(i, j, m int) string {
	fs := runOps(w.absent, w.base, w.ops, i)
	w.seq++
	d := filepath.Join(w.dir, fmt.Sprintf("c%d", w.seq))
	if err := os.Mkdir(d, 0o755); err != nil {
		panic(err)
	}
	defer os.RemoveAll(d)
	content := "absent"
	for name, id := range fs.dirAt(j) {
		if id >= len(fs.inodes) {
			continue
		}
		data := fs.inodes[id].crashData(m)
		mustWrite(filepath.Join(d, w.realName(name)), data)
		if name == "F" {
			content = hexOrDash(data)
		}
	}
	st, res := load(w.k, nil, filepath.Join(d, "nflog"))
	if res != "ok" {
		if res == "invalid" {
			res = "error"
		}
		return content + " " + res
	}
	h, _ := st.dump()
	oldHash := w.hashA
	if w.absent {
		oldHash, _ = w.k.fresh().dump()
	}
	switch h {
	case oldHash:
		return content + " old"
	case w.hash2:
		return content + " new"
	}
	return content + " other"
}

// hcrash: the machine crashed at (i, j, m) of the attempt in `ops` and restarted — whatever reached the disk is
// there, the temp file under the name the real code gave it.  Now the REAL code snapshots the (smaller) state of
// gen3 over that directory, to completion; the target is read back and loaded by the real loader.
func (w *world) hcrash(i, j, m int) string {
	fs := runOps(w.absent, w.base, w.ops, i)
	w.seq++
	d := filepath.Join(w.dir, fmt.Sprintf("h%d", w.seq))
	if err := os.Mkdir(d, 0o755); err != nil {
		panic(err)
	}
	defer os.RemoveAll(d)
	for name, id := range fs.dirAt(j) {
		if id < len(fs.inodes) {
			mustWrite(filepath.Join(d, w.realName(name)), fs.inodes[id].crashData(m))
		}
	}
	target := filepath.Join(d, "nflog")
	w.c.maintain(target)
	content := "absent"
	if b, err := os.ReadFile(target); err == nil {
		content = hexOrDash(b)
	}
	left := 0
	if es, err := os.ReadDir(d); err == nil {
		left = len(es)
	}
	st, res := load(w.k, nil, target)
	if res != "ok" {
		if res == "invalid" {
			res = "error"
		}
		return fmt.Sprintf("%s %s %d", content, res, left)
	}
	h, _ := st.dump()
	oldHash := w.hashA
	if w.absent {
		oldHash, _ = w.k.fresh().dump()
	}
	cls := "other"
	switch h {
	case w.hash3:
		cls = "new2"
	case w.hash2:
		cls = "new1"
	case oldHash:
		cls = "old"
	}
	return fmt.Sprintf("%s %s %d", content, cls, left)
}

// histPoints: the crash points of the first attempt that a history case materialises — every (i, j), and of the
// unsynced byte counts the extremes, the middle and their neighbours.
func histPoints(absent bool, old []byte, ops []fsop) []crashPt {
	var out []crashPt
	for i := 0; i <= len(ops); i++ {
		fs := runOps(absent, old, ops, i)
		un := 0
		for _, n := range fs.inodes {
			if d := len(n.data) - n.synced; d > un {
				un = d
			}
		}
		seen := map[int]bool{}
		for j := 0; j <= len(fs.log); j++ {
			for _, m := range []int{0, 1, un / 2, un - 1, un} {
				if m < 0 || m > un || seen[j*(un+2)+m] {
					continue
				}
				seen[j*(un+2)+m] = true
				out = append(out, crashPt{i, j, m, j == len(fs.log)})
			}
		}
	}
	return out
}

func joinAttempts(att [][]string) string {
	if len(att) == 0 {
		return "-"
	}
	parts := make([]string, len(att))
	for i, a := range att {
		parts[i] = strings.Join(a, ",")
	}
	return strings.Join(parts, ";")
}

// ---- the harness's own copy of the crash model (the driver checks it against AM.CrashFS) ----

type fsop struct {
	kind  byte // c w s x r
	a, b  string
	trunc bool
	data  []byte
}
type inode struct {
	data   []byte
	synced int
}

func (n inode) crashData(m int) []byte {
	k := n.synced + m
	if k > len(n.data) {
		k = len(n.data)
	}
	return n.data[:k]
}

type dirop struct {
	link bool
	p, q string
	id   int
}
type fsState struct {
	inodes []inode
	dir0   map[string]int
	log    []dirop
	fd     int
	off    int
}

func (fs *fsState) dirAt(j int) map[string]int {
	d := map[string]int{}
	for k, v := range fs.dir0 {
		d[k] = v
	}
	for i, o := range fs.log {
		if i >= j {
			break
		}
		if o.link {
			d[o.p] = o.id
		} else if id, ok := d[o.p]; ok {
			delete(d, o.p)
			d[o.q] = id
		}
	}
	return d
}

func runOps(absent bool, old []byte, ops []fsop, i int) *fsState {
	fs := &fsState{dir0: map[string]int{}, fd: -1}
	if !absent {
		fs.inodes = []inode{{data: old, synced: len(old)}}
		fs.dir0["F"] = 0
	}
	for k, o := range ops {
		if k >= i {
			break
		}
		switch o.kind {
		case 'c':
			if id, ok := fs.dirAt(len(fs.log))[o.a]; ok {
				if id < len(fs.inodes) && o.trunc {
					fs.inodes[id] = inode{}
				}
				fs.fd = id
			} else {
				fs.inodes = append(fs.inodes, inode{})
				fs.log = append(fs.log, dirop{link: true, p: o.a, id: len(fs.inodes) - 1})
				fs.fd = len(fs.inodes) - 1
			}
			fs.off = 0
		case 'w':
			if fs.fd >= 0 && fs.fd < len(fs.inodes) {
				n := &fs.inodes[fs.fd]
				d := append([]byte(nil), n.data[:min(fs.off, len(n.data))]...)
				d = append(d, o.data...)
				if e := fs.off + len(o.data); e < len(n.data) {
					d = append(d, n.data[e:]...) // written in place: what lies beyond stays
				}
				n.data = d
				n.synced = min(n.synced, fs.off)
				fs.off += len(o.data)
			}
		case 's':
			if fs.fd >= 0 && fs.fd < len(fs.inodes) {
				fs.inodes[fs.fd].synced = len(fs.inodes[fs.fd].data)
			}
		case 'x':
			fs.fd = -1
		case 'r':
			fs.log = append(fs.log, dirop{p: o.a, q: o.b})
		}
	}
	return fs
}

type crashPt struct {
	i, j, m int
	strong  bool
}

func crashPoints(absent bool, old []byte, ops []fsop) []crashPt {
	var out []crashPt
	for i := 0; i <= len(ops); i++ {
		fs := runOps(absent, old, ops, i)
		un := 0
		for _, n := range fs.inodes {
			if d := len(n.data) - n.synced; d > un {
				un = d
			}
		}
		for j := 0; j <= len(fs.log); j++ {
			for m := 0; m <= un; m++ {
				out = append(out, crashPt{i, j, m, j == len(fs.log)})
			}
		}
	}
	return out
}

func parseTokens(s string, data []byte) []fsop {
	ops := []fsop{}
	for _, t := range hx.Split(s, ",") {
		p := strings.Split(t, ":")
		switch p[0] {
		case "c":
			o := fsop{kind: 'c', a: p[1]}
			if len(p) > 2 {
				o.trunc = strings.Contains(p[2], "t")
			}
			ops = append(ops, o)
		case "w":
			n, _ := strconv.Atoi(p[1])
			if n > len(data) {
				n = len(data)
			}
			ops = append(ops, fsop{kind: 'w', data: data[:n]})
			data = data[n:]
		case "s", "d":
			ops = append(ops, fsop{kind: 's'})
		case "x":
			ops = append(ops, fsop{kind: 'x'})
		case "r":
			ops = append(ops, fsop{kind: 'r', a: p[1], b: p[2]})
		}
	}
	return ops
}

// ---- (c) the system calls of a real maintenance snapshot ----

// TestStraceChild is what runs under strace: fill a store and run the real
// Maintenance — mode shutdown: stop channel already closed (GC + the final
// snapshot only); mode periodic: the ticker path first (wait until a periodic
// snapshot has replaced the target), then stop (the final snapshot as well).
func TestStraceChild(t *testing.T) {
	dir := os.Getenv("VERIF_STRACE_DIR")
	if dir == "" {
		t.Skip("helper of TestEngine")
	}
	k := kindOf(os.Getenv("VERIF_STRACE_KIND"))
	a := strings.Fields(os.Getenv("VERIF_STRACE_GEN"))
	seed, _ := strconv.ParseUint(a[0], 10, 64)
	n, _ := strconv.Atoi(a[1])
	st := k.fresh()
	st.fill(rand.New(rand.NewPCG(seed, 11)), n, a[2])
	target := filepath.Join(dir, "F")
	if os.Getenv("VERIF_STRACE_MODE") != "periodic" {
		st.maintain(target)
		return
	}
	before, _ := os.Stat(target)
	stop, done := make(chan struct{}), make(chan struct{})
	go func() { st.maintainEvery(target, 25*time.Millisecond, stop); close(done) }()
	for deadline := time.Now().Add(20 * time.Second); time.Now().Before(deadline); time.Sleep(2 * time.Millisecond) {
		if fi, err := os.Stat(target); err == nil && (before == nil || !os.SameFile(before, fi)) {
			break
		}
	}
	close(stop)
	<-done
}

var (
	reCall    = regexp.MustCompile(`^(\d+)\s+(\w+)\((.*)$`)
	reResumed = regexp.MustCompile(`^(\d+)\s+<\.\.\. (\w+) resumed>(.*)$`)
	reRet     = regexp.MustCompile(`\)\s+= (-?\d+)`)
	reStr     = regexp.MustCompile(`"((?:[^"\\]|\\.)*)"`)
)

type straceReq struct {
	gen    string            // generator arguments of the state to snapshot
	mode   string            // shutdown | periodic
	base   []byte            // the target before the run
	absent bool              // … or no target
	left   map[string][]byte // files already lying next to the target: suffix -> content
}

// strace runs the real Maintenance in a child under strace and returns the
// file operations on the scratch directory, one token list per snapshot
// attempt (an attempt starts at each open-for-writing), and the final target.
func (w *world) strace(req straceReq) ([][]string, []byte, error) {
	d := filepath.Join(w.dir, fmt.Sprintf("s%d", w.seq))
	w.seq++
	if err := os.Mkdir(d, 0o755); err != nil {
		return nil, nil, err
	}
	defer os.RemoveAll(d)
	target := filepath.Join(d, "F")
	if !req.absent {
		mustWrite(target, req.base)
	}
	for suf, b := range req.left {
		mustWrite(target+suf, b)
	}
	mode := req.mode
	if mode != "periodic" {
		mode = "shutdown"
	}
	out := filepath.Join(d, "strace.out")
	cmd := exec.Command("strace", "-f", "-o", out, "-s", "0",
		"-e", "trace=openat,open,creat,write,pwrite64,writev,fsync,fdatasync,sync_file_range,close,rename,renameat,renameat2,ftruncate,truncate,unlink,unlinkat",
		os.Args[0], "-test.run", "^TestStraceChild$", "-test.count=1")
	cmd.Env = append(os.Environ(), "VERIF_STRACE_DIR="+d, "VERIF_STRACE_KIND="+w.k.name, "VERIF_STRACE_GEN="+req.gen,
		"VERIF_STRACE_MODE="+mode, "VERIF_OUT=", "VERIF_SCRIPT=")
	if b, err := cmd.CombinedOutput(); err != nil {
		return nil, nil, fmt.Errorf("%v: %s", err, b)
	}
	raw, err := os.ReadFile(out)
	if err != nil {
		return nil, nil, err
	}
	name := func(p string) string {
		switch {
		case p == target:
			return "F"
		case p == out:
			return ""
		case strings.HasPrefix(p, target+"."):
			return w.token(p[len(target):])
		case strings.HasPrefix(p, d+"/"):
			return "O"
		}
		return ""
	}
	pending := map[string]string{} // pid -> "call(args" of an unfinished call
	fds := map[string]bool{}       // fds open on a file in the scratch directory
	var toks []string
	nTrash := 0
	for _, l := range strings.Split(string(raw), "\n") {
		var pid, call, rest string
		if m := reResumed.FindStringSubmatch(l); m != nil {
			pid, call = m[1], m[2]
			rest = pending[pid] + m[3]
			delete(pending, pid)
		} else if m := reCall.FindStringSubmatch(l); m != nil {
			pid, call, rest = m[1], m[2], m[3]
			if strings.Contains(rest, "<unfinished ...>") {
				pending[pid] = strings.Replace(rest, "<unfinished ...>", "", 1)
				continue
			}
		} else {
			continue
		}
		rm := reRet.FindStringSubmatch(rest)
		if rm == nil {
			continue
		}
		ret, _ := strconv.Atoi(rm[1])
		strs := reStr.FindAllStringSubmatch(rest, -1)
		fdArg := strings.TrimSpace(strings.SplitN(rest, ",", 2)[0])
		fdArg = strings.TrimSuffix(strings.SplitN(fdArg, ")", 2)[0], " ")
		switch call {
		case "openat", "open", "creat":
			if len(strs) == 0 {
				continue
			}
			n := name(strs[0][1])
			if n == "" {
				continue
			}
			writing := strings.Contains(rest, "O_WRONLY") || strings.Contains(rest, "O_RDWR") || call == "creat"
			if !writing {
				continue
			}
			if ret < 0 {
				toks = append(toks, "openfailed:"+n)
				continue
			}
			fl := ""
			if strings.Contains(rest, "O_TRUNC") || call == "creat" {
				fl += "t"
			}
			if strings.Contains(rest, "O_EXCL") {
				fl += "e"
			}
			if strings.Contains(rest, "O_APPEND") {
				fl += "a"
			}
			if fl == "" {
				fl = "-"
			}
			if strings.Contains(rest, "O_CREAT") || call == "creat" {
				toks = append(toks, "c:"+n+":"+fl)
			} else {
				toks = append(toks, "o:"+n+":"+fl)
			}
			fds[strconv.Itoa(ret)] = true
		case "write", "pwrite64", "writev":
			if fds[fdArg] && ret > 0 {
				toks = append(toks, fmt.Sprintf("w:%d", ret))
			}
		case "fsync":
			if fds[fdArg] && ret == 0 {
				toks = append(toks, "s")
			}
		case "fdatasync":
			if fds[fdArg] && ret == 0 {
				toks = append(toks, "d")
			}
		case "close":
			if fds[fdArg] {
				toks = append(toks, "x")
				delete(fds, fdArg)
			}
		case "rename", "renameat", "renameat2":
			if len(strs) >= 2 && ret == 0 {
				a, b := name(strs[0][1]), name(strs[1][1])
				if a != "" || b != "" {
					toks = append(toks, fmt.Sprintf("r:%s:%s", a, b))
				}
			}
		case "unlink", "unlinkat":
			// removing a directory entry = renaming it to a name nobody reads (the crash model has no other use for it)
			if len(strs) > 0 && ret == 0 {
				if n := name(strs[len(strs)-1][1]); n != "" {
					nTrash++
					toks = append(toks, fmt.Sprintf("r:%s:U%d", n, nTrash))
				}
			}
		case "ftruncate", "truncate", "sync_file_range":
			if (len(strs) > 0 && name(strs[0][1]) != "") || fds[fdArg] {
				toks = append(toks, "?"+call)
			}
		}
	}
	var att [][]string
	for _, t := range toks {
		if strings.HasPrefix(t, "c:") || strings.HasPrefix(t, "o:") || len(att) == 0 {
			att = append(att, nil)
		}
		att[len(att)-1] = append(att[len(att)-1], t)
	}
	nb, err := os.ReadFile(target)
	if err != nil {
		nb = nil
	}
	return att, nb, nil
}

// ---- hand-made legacy silence file (format before matcher sets, with the old comment list) ----

func legacySilenceFile() (file []byte, expN int, expHash string) {
	ts := func(sec int64) []byte {
		var b []byte
		b = protowire.AppendTag(b, 1, protowire.VarintType)
		return protowire.AppendVarint(b, uint64(sec))
	}
	matcher := func(typ uint64, name, pat string) []byte {
		var b []byte
		if typ != 0 {
			b = protowire.AppendTag(b, 1, protowire.VarintType)
			b = protowire.AppendVarint(b, typ)
		}
		b = protowire.AppendTag(b, 2, protowire.BytesType)
		b = protowire.AppendString(b, name)
		b = protowire.AppendTag(b, 3, protowire.BytesType)
		return protowire.AppendString(b, pat)
	}
	var exp []*spb.MeshSilence
	for i, id := range []string{"legacy-1", "legacy-2"} {
		var comment []byte
		comment = protowire.AppendTag(comment, 1, protowire.BytesType)
		comment = protowire.AppendString(comment, "alice")
		comment = protowire.AppendTag(comment, 2, protowire.BytesType)
		comment = protowire.AppendString(comment, "why "+id)
		var s []byte
		s = protowire.AppendTag(s, 1, protowire.BytesType)
		s = protowire.AppendString(s, id)
		s = protowire.AppendTag(s, 2, protowire.BytesType)
		s = protowire.AppendBytes(s, matcher(0, "alertname", "Foo"))
		s = protowire.AppendTag(s, 2, protowire.BytesType)
		s = protowire.AppendBytes(s, matcher(1, "job", "a.*"))
		s = protowire.AppendTag(s, 3, protowire.BytesType)
		s = protowire.AppendBytes(s, ts(1500000000))
		s = protowire.AppendTag(s, 4, protowire.BytesType)
		s = protowire.AppendBytes(s, ts(4100000000))
		s = protowire.AppendTag(s, 5, protowire.BytesType)
		s = protowire.AppendBytes(s, ts(1500000001))
		if i == 0 {
			s = protowire.AppendTag(s, 7, protowire.BytesType)
			s = protowire.AppendBytes(s, comment)
		} else {
			s = protowire.AppendTag(s, 8, protowire.BytesType)
			s = protowire.AppendString(s, "bob")
			s = protowire.AppendTag(s, 9, protowire.BytesType)
			s = protowire.AppendString(s, "plain comment")
		}
		var m []byte
		m = protowire.AppendTag(m, 1, protowire.BytesType)
		m = protowire.AppendBytes(m, s)
		m = protowire.AppendTag(m, 2, protowire.BytesType)
		m = protowire.AppendBytes(m, ts(4100003600))
		file = protowire.AppendVarint(file, uint64(len(m)))
		file = append(file, m...)

		e := &spb.Silence{
			Id: id,
			MatcherSets: []*spb.MatcherSet{{Matchers: []*spb.Matcher{
				{Type: spb.Matcher_EQUAL, Name: "alertname", Pattern: "Foo"},
				{Type: spb.Matcher_REGEXP, Name: "job", Pattern: "a.*"},
			}}},
			StartsAt: &timestamppb.Timestamp{Seconds: 1500000000}, EndsAt: &timestamppb.Timestamp{Seconds: 4100000000},
			UpdatedAt: &timestamppb.Timestamp{Seconds: 1500000001},
		}
		if i == 0 {
			e.CreatedBy, e.Comment = "alice", "why "+id
		} else {
			e.CreatedBy, e.Comment = "bob", "plain comment"
		}
		exp = append(exp, &spb.MeshSilence{Silence: e, ExpiresAt: &timestamppb.Timestamp{Seconds: 4100003600}})
	}
	var sils []*spb.Silence
	for _, m := range exp {
		sils = append(sils, m.Silence)
	}
	h, n := silDump(exp, sils)
	return file, n, h
}

// ---- cases ----

type caseGen struct {
	r  *rand.Rand
	tr *hx.Trace
	id int
}

func runCase(t *testing.T, tr *hx.Trace, header string, script []string, gen func(w *world, do func(string) string)) {
	dir, err := os.MkdirTemp("", "verif-snapshot-")
	if err != nil {
		t.Fatal(err)
	}
	defer os.RemoveAll(dir)
	w := &world{dir: dir}
	for _, f := range strings.Fields(header) {
		if strings.HasPrefix(f, "kind=") {
			w.k = kindOf(f[5:])
		}
		if strings.HasPrefix(f, "mode=") {
			w.mode = f[5:]
		}
	}
	tr.Linef("%s", header)
	do := func(line string) string {
		obs := w.exec(line)
		tr.Linef("%s -> %s", line, obs)
		return obs
	}
	if script != nil {
		for _, l := range script {
			do(l)
		}
		return
	}
	gen(w, do)
}

func (g *caseGen) header(kind, mode string) string {
	g.id++
	return fmt.Sprintf("case %d kind=%s mode=%s max=%d", g.id, kind, mode, maxRecord)
}

func TestEngine(t *testing.T) {
	tr := hx.Open()
	defer tr.Close()
	if s := hx.Script(); s != nil {
		var hdr string
		var cur []string
		flush := func() {
			if hdr != "" {
				runCase(t, tr, hdr, append([]string{}, cur...), nil)
			}
		}
		for _, l := range s {
			if strings.HasPrefix(l, "case ") {
				flush()
				hdr, cur = l, nil
			} else if hdr != "" {
				cur = append(cur, l)
			}
		}
		flush()
		return
	}
	r := hx.Rand(11)
	g := &caseGen{r: r, tr: tr}
	kinds := []string{"nflog", "silence"}
	writeShape := map[string]string{"nflog": "log", "silence": "set"}

	// (a) write → load → compare
	sizes := []int{0, 1, 2, 3, 5, 17, 64, 200}
	nrt := hx.Cases(70, 500)
	for c := range nrt {
		kind := kinds[c%2]
		shape := hx.Pick(r, []string{"mix", "mix", "min", "multi", "big", writeShape[kind]})
		n := hx.Pick(r, sizes)
		if hx.Thorough() && c%25 == 0 {
			n = 1000 + r.IntN(4000)
		}
		if shape == "big" && n > 17 {
			n = 17
		}
		via := hx.Pick(r, []string{"reader", "file"})
		seed := r.Uint64() >> 1
		runCase(t, tr, g.header(kind, "rt"), nil, func(w *world, do func(string) string) {
			do(fmt.Sprintf("gen %d %d %s", seed, n, shape))
			do("snapshot " + via)
			do("reload " + hx.Pick(r, []string{"reader", "file"}))
		})
	}
	// one record over protodelim's limit per store (finding F9)
	for _, kind := range kinds {
		runCase(t, tr, g.header(kind, "rt"), nil, func(w *world, do func(string) string) {
			do(fmt.Sprintf("gen %d 3 huge", r.Uint64()>>1))
			do("snapshot reader")
			do("reload reader")
		})
	}

	// one record of every size class up to the limit, inflated through each field in turn, arriving as a peer's
	// state (exact size) or through the store's own write API: whatever the writer emits, the loader must read
	for ki, kind := range kinds {
		fields := sizedFields[kind]
		for ti, target := range sizedTargets(r, hx.Cases(2, 24)) {
			field := fields[(ti+ki+int(hx.Seed()))%len(fields)]
			via := []string{"api", "merge"}[(ti+ki)%2]
			if target == maxRecord {
				via = "merge" // exactly at the limit: only a peer's state gives the exact size
			}
			if via == "api" && target > maxRecord-64 {
				target = maxRecord - 64 - r.IntN(64) // the write APIs add a few bytes of their own (id, timestamps)
			}
			seed := r.Uint64() >> 1
			n := 1 + r.IntN(3)
			rel := hx.Pick(r, []string{"reader", "file"})
			runCase(t, tr, g.header(kind, "rt"), nil, func(w *world, do func(string) string) {
				if strings.HasPrefix(do(fmt.Sprintf("gen %d %d %s", seed, n, sizedShape(field, target, via))), "mergefail") {
					return
				}
				do("snapshot reader")
				do("reload " + rel)
			})
		}
	}

	// (b) the loader on every prefix and single-byte corruption of small real snapshots
	for c := range hx.Cases(8, 60) {
		kind := kinds[c%2]
		shape := hx.Pick(r, []string{"mix", "min", "multi", "mix"})
		n := 1 + r.IntN(4)
		seed := r.Uint64() >> 1
		runCase(t, tr, g.header(kind, "load"), nil, func(w *world, do func(string) string) {
			do(fmt.Sprintf("gen %d %d %s", seed, n, shape))
			do("snapshot reader")
			step := 1 + len(w.base)/1500
			for k := 0; k <= len(w.base); k += step {
				do(fmt.Sprintf("prefix %d", k))
			}
			for pos := 0; pos < len(w.base); pos += step {
				do(fmt.Sprintf("corrupt %d %d", pos, 1+r.IntN(255)))
				if hx.Thorough() {
					do(fmt.Sprintf("corrupt %d 128", pos))
					do(fmt.Sprintf("corrupt %d 255", pos))
				}
			}
		})
	}
	// hand-made files
	runCase(t, tr, g.header("silence", "load"), nil, func(w *world, do func(string) string) {
		f, n, h := legacySilenceFile()
		do(fmt.Sprintf("raw %s %d %s", hex.EncodeToString(f), n, h))
		for k := 1; k < len(f); k += 7 {
			do(fmt.Sprintf("raw %s - -", hex.EncodeToString(f[:k])))
		}
	})
	for _, kind := range kinds {
		runCase(t, tr, g.header(kind, "load"), nil, func(w *world, do func(string) string) {
			for _, h := range []string{
				"00",                     // empty payload: no Entry / no Silence
				"0000",                   // twice
				"80",                     // size cut inside the varint
				"8080808080808080808001", // eleven-byte size
				"ffffffffffffffffff7f",   // ten-byte size with an overflowing last byte
				"ffffffffffffffffff01",   // 2^64-1
				"8080800200",             // 4 MiB + 1 announced
				"80808002",               // 4 MiB announced, nothing there
				"0a",                     // ten bytes announced, none there
				"020a00",                 // Entry/Silence present but empty
				"02ffff",                 // payload that is not protobuf
			} {
				do(fmt.Sprintf("raw %s - -", h))
			}
			for range hx.Cases(150, 3000) {
				b := make([]byte, 1+r.IntN(24))
				for i := range b {
					b[i] = byte(r.IntN(256))
					if r.IntN(3) == 0 {
						b[i] = byte(r.IntN(12))
					}
				}
				do(fmt.Sprintf("raw %s - -", hex.EncodeToString(b)))
			}
		})
	}

	// (c)+(d) system-call order of the real maintenance snapshot; the real loader on every crash state
	crashCase := func(kind, src string, oldN, newN int, chunks string) {
		oldShape, newShape := "mix", hx.Pick(r, []string{"mix", "min"})
		if oldN < 0 {
			oldShape, oldN = "absent", 0
		}
		s1, s2 := r.Uint64()>>1, r.Uint64()>>1
		runCase(t, tr, g.header(kind, "crash"), nil, func(w *world, do func(string) string) {
			do(fmt.Sprintf("gen %d %d %s", s1, oldN, oldShape))
			do("snapshot reader")
			do(fmt.Sprintf("gen2 %d %d %s", s2, newN, newShape))
			do(fmt.Sprintf("ops %s %s", src, chunks))
			for _, c := range crashPoints(w.absent, w.base, w.ops) {
				do(fmt.Sprintf("crash %d %d %d", c.i, c.j, c.m))
			}
			do("crashdone")
		})
	}
	// (e) a history: attempt 1 (a larger state) crashes at every point and leaves its temp file under the name the
	// real code gave it; the restarted process — the REAL code — snapshots a smaller state; load the result
	histCase := func(kind string, oldN, bigN, smallN int) {
		oldShape := "mix"
		if oldN < 0 {
			oldShape, oldN = "absent", 0
		}
		s1, s2, s3 := r.Uint64()>>1, r.Uint64()>>1, r.Uint64()>>1
		bigShape := hx.Pick(r, []string{"mix", "multi"})
		runCase(t, tr, g.header(kind, "hist"), nil, func(w *world, do func(string) string) {
			do(fmt.Sprintf("gen %d %d %s", s1, oldN, oldShape))
			do("snapshot reader")
			do(fmt.Sprintf("gen2 %d %d %s", s2, bigN, bigShape))
			do("ops strace shutdown")
			do(fmt.Sprintf("gen3 %d %d min", s3, smallN))
			do("ops2 strace")
			for _, c := range histPoints(w.absent, w.base, w.ops) {
				do(fmt.Sprintf("hcrash %d %d %d", c.i, c.j, c.m))
			}
			do("hdone")
		})
	}
	for _, kind := range kinds {
		histCase(kind, 1, 2+r.IntN(2), 1)
		histCase(kind, -1, 1+r.IntN(3), r.IntN(2))
		for range hx.Cases(0, 6) {
			histCase(kind, r.IntN(4)-1, 1+r.IntN(4), r.IntN(2))
		}
	}
	for _, kind := range kinds {
		crashCase(kind, "strace", 2, 1+r.IntN(2), "shutdown")
		crashCase(kind, "strace", -1, 1, "periodic")
		crashCase(kind, "strace", 1, 0, "shutdown")
		crashCase(kind, "strace", 1, 1, "periodic")
		crashCase(kind, "model", 1+r.IntN(2), 1, "-")
		crashCase(kind, "model", -1, 2, fmt.Sprintf("%d.%d", 1+r.IntN(40), 1+r.IntN(40)))
		crashCase(kind, "model", 0, 1, fmt.Sprintf("%d", 1+r.IntN(60)))
		for range hx.Cases(0, 12) {
			src := hx.Pick(r, []string{"strace", "model"})
			ch := "-"
			if src == "strace" {
				ch = hx.Pick(r, []string{"shutdown", "periodic"})
			}
			if src == "model" && r.IntN(2) == 0 {
				ch = fmt.Sprintf("%d.%d.%d", r.IntN(50), r.IntN(50), r.IntN(50))
			}
			crashCase(kind, src, r.IntN(4)-1, r.IntN(3), ch)
		}
	}
	_ = bytes.MinRead
}
