// Engine `config` (C17): generated raw configurations → YAML → the real
// config.Load; Config.String() searched for canaries; Load(String()) compared;
// the real config.Coordinator on a file rewritten to an invalid configuration;
// a malformed-input stream with recover and a time bound (a test, not a
// theorem); the reflect walk over config.Config's secret-bearing fields.
package config

import (
	"encoding/hex"
	"fmt"
	"log/slog"
	"math/rand/v2"
	"os"
	"path/filepath"
	"reflect"
	"regexp"
	"runtime/debug"
	"sort"
	"strconv"
	"strings"
	"testing"
	"time"

	"github.com/prometheus/client_golang/prometheus"
	"github.com/prometheus/common/promslog"

	"github.com/prometheus/alertmanager/config"
	"github.com/prometheus/alertmanager/config/receiver"
	"github.com/prometheus/alertmanager/dispatch"
	"github.com/prometheus/alertmanager/template"

	hxp "verif/harness/hx"
)

// classify maps a Load error to the model's error class.
func classify(err error) string {
	if err == nil {
		return "ok"
	}
	m := err.Error()
	has := func(s string) bool { return strings.Contains(m, s) }
	switch {
	case has("no route provided in config"), has("no routes provided"):
		return "noRoute"
	case has("cannot have continue in root route"):
		return "rootContinue"
	case has("root route must specify a default receiver"):
		return "rootNoReceiver"
	case has("root route must not have any matchers"):
		return "rootMatchers"
	case has("root route must not have any mute time intervals"):
		return "rootMute"
	case has("root route must not have any active time intervals"):
		return "rootActive"
	case has("undefined receiver"):
		return "undefinedReceiver"
	case has("undefined time interval"):
		return "undefinedInterval"
	case has("is not unique") && has("notification config name"):
		return "dupReceiver"
	case has("time interval") && has("is not unique"):
		return "dupInterval"
	case has("missing name in receiver"):
		return "receiverNoName"
	case has("receiver label \"name\" must match"):
		return "receiverLabelName"
	case has("missing name in mute time interval"), has("missing name in time interval"):
		return "intervalNoName"
	case has("in group_by list"):
		return "groupByLabel"
	case has("cannot have wildcard group_by"):
		return "groupByMix"
	case has("duplicated label") && has("in group_by"):
		return "groupByDup"
	case has("group_interval cannot be zero"):
		return "groupIntervalZero"
	case has("repeat_interval cannot be zero"):
		return "repeatIntervalZero"
	case has("at most one of") && !has("yaml:"):
		return "globalConflict"
	case has("no global SMTP smarthost set"), has("no global SMTP from set"):
		return "integrationDefault"
	case has("invalid label name") && !has("group_by") && !has("route labels"):
		return "matchName"
	}
	return "decode"
}

// safeLoad runs config.Load with recover and a time bound.
func safeLoad(y string) (c *config.Config, class string, site string) {
	type res struct {
		c     *config.Config
		class string
		site  string
	}
	ch := make(chan res, 1)
	go func() {
		defer func() {
			if p := recover(); p != nil {
				ch <- res{nil, "panic", panicSite(string(debug.Stack()))}
			}
		}()
		c, err := config.Load(y)
		ch <- res{c, classify(err), ""}
	}()
	select {
	case r := <-ch:
		return r.c, r.class, r.site
	case <-time.After(5 * time.Second):
		return nil, "timeout", ""
	}
}

var reFrame = regexp.MustCompile(`/((?:config|notify|timeinterval|matcher|tracing|eventrecorder|dispatch)/[A-Za-z0-9_/]*\.go):(\d+)`)

// panicSite names the first frame inside the repository below the panic.
func panicSite(stack string) string {
	i := strings.Index(stack, "panic(")
	if i < 0 {
		i = 0
	}
	for _, l := range strings.Split(stack[i:], "\n") {
		if strings.Contains(l, "harness/") || strings.Contains(l, "/runtime/") {
			continue
		}
		if m := reFrame.FindStringSubmatch(l); m != nil {
			return m[1] + ":" + m[2]
		}
	}
	return "unknown"
}

func (w *world) cfg(seed uint64, profile string) string {
	r := rand.New(rand.NewPCG(seed, 17))
	var y, desc string
	var canaries map[string]string
	nullEntry := false
	switch profile {
	case "yaml": // hand-written text (corpus witnesses): no raw description, the model is not consulted
		y, desc = w.text, "? ~ ~ ~ ~"
	case "secrets":
		y, canaries = secretsConfig(seed)
		desc = "- 0:" + hx("all") + ":~:~:0:~:~:0:~:~:- " + hxName("all") + ":~:0 ~ ~"
	default:
		c := genTree(r)
		legacyMix(rand.New(rand.NewPCG(seed, 99)), c)
		if rn := rand.New(rand.NewPCG(seed, 101)); rn.IntN(8) == 0 {
			c.nullKind = 1 + rn.IntN(4)
			nullEntry = true
		}
		y, desc = c.yaml(), c.encode()
	}
	c, class, _ := safeLoad(y)
	if os.Getenv("VERIF_DEBUG_YAML") != "" {
		fmt.Fprintf(os.Stderr, "---- %d %s -> %s\n%s\n", seed, profile, class, y)
	}
	if class != "ok" {
		if profile == "secrets" && os.Getenv("VERIF_DEBUG") != "" {
			_, err := config.Load(y)
			fmt.Fprintln(os.Stderr, "secrets profile rejected:", err)
		}
		return fmt.Sprintf("%s %s - - - - - - - - - -", desc, class)
	}
	tree, recvs, mutes, tis, rules := encodeLoaded(c)
	str := c.String()
	strhex, cans := "-", "-"
	tree2, x1, x2 := "-", "-", "-"
	// applying a configuration builds its routing tree (reloader.reload, api.Update): the loaded configuration is an input of
	// that, its text afterwards is what it was before
	// the receivers' integrations are built (HTTP clients and all: milliseconds) for hand-written texts, the secrets profile,
	// configurations with a null integration entry, and every eighth generated one
	built := treeBuildKeepsText(c, str, profile == "yaml" || profile == "secrets" || nullEntry || seed%8 == 0)
	if profile == "secrets" {
		strhex = hex.EncodeToString([]byte(str))
		var l []string
		for k, v := range canaries {
			l = append(l, k+":"+hex.EncodeToString([]byte(v)))
			// every canary must have arrived in the loaded configuration, or the leak check is vacuous
			if !containsValue(reflect.ValueOf(c), v, 0) {
				l = append(l, "LOST."+k+":"+hex.EncodeToString([]byte("receivers")))
			}
		}
		sort.Strings(l)
		cans = strings.Join(l, ",")
	} else {
		c2, class2, _ := safeLoad(str)
		if class2 != "ok" {
			tree2 = "err"
		} else {
			tree2, _, _, _, x2 = encodeLoaded(c2)
			x1 = rules
		}
	}
	return fmt.Sprintf("%s ok %s %s %s %s %s %s %s %s %s %s", desc, tree, recvs, mutes, tis, strhex, cans, tree2, x1, x2, built)
}

var applyTmpl = func() *template.Template {
	t, err := template.FromGlobs(nil)
	if err != nil {
		panic(err)
	}
	return t
}()

// treeBuildKeepsText builds the routing tree of c the way applying it does and reports whether Config.String() still is `before`.
func treeBuildKeepsText(c *config.Config, before string, buildReceivers bool) (res string) {
	if c.Route == nil {
		return "-"
	}
	defer func() {
		if recover() != nil {
			res = "panic"
		}
	}()
	dispatch.NewRoute(c.Route, nil)
	res = "changed"
	if c.String() == before {
		res = "same"
	}
	// … and the integrations of every receiver (reloader.reload: receiver.BuildReceiverIntegrations): an error is a rejected
	// reload, a panic kills the process.  (Only the panic is looked at: notifier constructors fill defaults into their own
	// configuration, which the statement about the routing-tree build does not cover.)
	if buildReceivers {
		for _, rc := range c.Receivers {
			_, _ = receiver.BuildReceiverIntegrations(rc, applyTmpl, promslog.NewNopLogger())
		}
	}
	return res
}

// containsValue reports whether some string reachable from v contains s.
func containsValue(v reflect.Value, s string, depth int) bool {
	if depth > 30 {
		return false
	}
	switch v.Kind() {
	case reflect.String:
		return strings.Contains(v.String(), s)
	case reflect.Pointer, reflect.Interface:
		if v.IsNil() {
			return false
		}
		if v.Kind() == reflect.Pointer && v.Type().String() == "*url.URL" {
			if u, ok := v.Interface().(fmt.Stringer); ok && v.CanInterface() {
				return strings.Contains(u.String(), s)
			}
		}
		return containsValue(v.Elem(), s, depth+1)
	case reflect.Struct:
		for i := range v.NumField() {
			if !v.Type().Field(i).IsExported() {
				continue
			}
			if containsValue(v.Field(i), s, depth+1) {
				return true
			}
		}
	case reflect.Slice, reflect.Array:
		for i := range v.Len() {
			if containsValue(v.Index(i), s, depth+1) {
				return true
			}
		}
	case reflect.Map:
		it := v.MapRange()
		for it.Next() {
			if containsValue(it.Key(), s, depth+1) || containsValue(it.Value(), s, depth+1) {
				return true
			}
		}
	}
	return false
}

// ---- coordinator ----

type world struct {
	text    string
	dir     string
	coord   *config.Coordinator
	calls   int
	applied string
	lastCfg *config.Config // what the subscribers were handed last: the configuration in force
	failSub bool
}

func (w *world) reload(kind string, seed uint64) string {
	path := filepath.Join(w.dir, "alertmanager.yml")
	if w.coord == nil {
		w.coord = config.NewCoordinator(path, prometheus.NewRegistry(), slog.New(slog.DiscardHandler))
		w.coord.Subscribe(func(c *config.Config) error {
			w.calls++
			w.applied = shortHash(c.String())
			w.lastCfg = c
			return nil
		}, func(c *config.Config) error {
			if w.failSub {
				return fmt.Errorf("subscriber refuses")
			}
			return nil
		})
	}
	r := rand.New(rand.NewPCG(seed, 18))
	file := "-"
	var y string
	if kind == "i" {
		for {
			c := genTree(r)
			y = c.yaml()
			if _, cl, _ := safeLoad(y); cl != "ok" && cl != "panic" && cl != "timeout" {
				break
			}
		}
		if r.IntN(4) == 0 {
			y = "route: [unclosed"
		}
	} else {
		for {
			c := genTree(r)
			y = c.yaml()
			if cfg, cl, _ := safeLoad(y); cl == "ok" {
				file = shortHash(cfg.String())
				break
			}
		}
	}
	if err := os.WriteFile(path, []byte(y), 0o644); err != nil {
		panic(err)
	}
	before := coordConfigPtr(w.coord)
	calls0 := w.calls
	w.failSub = kind == "s"
	err := w.coord.Reload()
	after := coordConfigPtr(w.coord)
	ptr := "new"
	switch {
	case after == before:
		ptr = "same"
	case after == 0:
		ptr = "nil"
	}
	e := "0"
	if err != nil {
		e = "1"
	}
	a := w.applied
	if a == "" {
		a = "-"
	}
	// the configuration in force, as text, after this reload: a rejected reload must not have touched it
	running := "-"
	if w.lastCfg != nil {
		running = shortHash(w.lastCfg.String())
	}
	return fmt.Sprintf("%s %d %s %s %s %s", e, w.calls-calls0, ptr, a, file, running)
}

// coordConfigPtr reads the identity of the coordinator's current configuration (unexported field; identity only).
func coordConfigPtr(c *config.Coordinator) uintptr {
	f := reflect.ValueOf(c).Elem().FieldByName("config")
	if !f.IsValid() {
		return 1
	}
	return f.Pointer()
}

// ---- malformed-input stream ----

func mutate(r *rand.Rand, base string) string {
	lines := strings.Split(base, "\n")
	switch r.IntN(12) {
	case 0, 1, 2: // null injection: the value of one key / one list item becomes null
		for range 20 {
			i := r.IntN(len(lines))
			l := lines[i]
			if k := strings.Index(l, ": "); k >= 0 {
				lines[i] = l[:k+2] + pick(r, []string{"null", "~", ""})
				return strings.Join(lines, "\n")
			}
			if k := strings.Index(l, "- "); k >= 0 && strings.TrimSpace(l[:k]) == "" {
				lines[i] = l[:k+2] + "null"
				return strings.Join(lines, "\n")
			}
			if strings.HasSuffix(l, ":") { // a block: drop its body by nulling the key
				lines[i] = l + " null"
				j := i + 1
				ind := len(l) - len(strings.TrimLeft(l, " "))
				for j < len(lines) && (len(lines[j])-len(strings.TrimLeft(lines[j], " ")) > ind || strings.TrimSpace(lines[j]) == "") {
					j++
				}
				return strings.Join(append(lines[:i+1:i+1], lines[j:]...), "\n")
			}
		}
	case 3: // drop a line
		i := r.IntN(len(lines))
		return strings.Join(append(lines[:i:i], lines[i+1:]...), "\n")
	case 4: // duplicate a line
		i := r.IntN(len(lines))
		return strings.Join(append(lines[:i+1:i+1], lines[i:]...), "\n")
	case 5: // scalar becomes a list / map
		i := r.IntN(len(lines))
		if k := strings.Index(lines[i], ": "); k >= 0 {
			lines[i] = lines[i][:k+2] + pick(r, []string{"[]", "{}", "[1, [2]]", "{a: {b: c}}", "0", "-1", "99999999999999999999", "true", "'...'", "\"\""})
		}
		return strings.Join(lines, "\n")
	case 6: // indentation
		i := r.IntN(len(lines))
		lines[i] = pick(r, []string{" ", "\t", "    "}) + lines[i]
		return strings.Join(lines, "\n")
	case 7: // truncate
		return base[:r.IntN(len(base)+1)]
	case 8: // splice random bytes
		b := []byte(base)
		for range 1 + r.IntN(4) {
			if len(b) == 0 {
				break
			}
			b[r.IntN(len(b))] = byte(r.IntN(256))
		}
		return string(b)
	case 9: // anchors / aliases
		i := r.IntN(len(lines))
		if k := strings.Index(lines[i], ": "); k >= 0 {
			lines[i] = lines[i][:k+2] + pick(r, []string{"&a [*a]", "*nope", "&x {y: *x}", "!!binary abc", "!!float 1e999", "<<: *a"})
		}
		return strings.Join(lines, "\n")
	case 10: // random bytes only
		b := make([]byte, r.IntN(64))
		for i := range b {
			b[i] = byte(r.IntN(256))
		}
		return string(b)
	}
	// swap two lines
	i, j := r.IntN(len(lines)), r.IntN(len(lines))
	lines[i], lines[j] = lines[j], lines[i]
	return strings.Join(lines, "\n")
}

// yamlKeys lists the yaml keys of a struct type.
func yamlKeys(t reflect.Type) []string {
	var out []string
	for i := range t.NumField() {
		tag := strings.Split(t.Field(i).Tag.Get("yaml"), ",")[0]
		if tag != "" && tag != "-" {
			out = append(out, tag)
		}
	}
	return out
}

// integrationKeys maps "<kind>_configs" to the yaml keys of that integration's config struct.
var integrationKeys = func() map[string][]string {
	m := map[string][]string{}
	t := reflect.TypeOf(config.Receiver{})
	for i := range t.NumField() {
		f := t.Field(i)
		tag := strings.Split(f.Tag.Get("yaml"), ",")[0]
		if f.Type.Kind() == reflect.Slice && f.Type.Elem().Kind() == reflect.Pointer && f.Type.Elem().Elem().Kind() == reflect.Struct {
			m[tag] = yamlKeys(f.Type.Elem().Elem())
		}
	}
	return m
}()

var (
	globalKeys   = yamlKeys(reflect.TypeOf(config.GlobalConfig{}))
	receiverKeys = yamlKeys(reflect.TypeOf(config.Receiver{}))
	scalarPool   = []string{"null", "'x'", "/tmp/f", "'http://x.example.org'", "5", "true", "{}", "[]", "''"}
)

// inject adds known keys with values of arbitrary kinds to the global block and to the first receiver.
func inject(r *rand.Rand, base string) string {
	var g strings.Builder
	for range 1 + r.IntN(3) {
		fmt.Fprintf(&g, "  %s: %s\n", pick(r, globalKeys), pick(r, scalarPool))
	}
	if strings.HasPrefix(base, "global:\n") {
		base = "global:\n" + g.String() + base[len("global:\n"):]
	} else {
		base = "global:\n" + g.String() + base
	}
	if r.IntN(3) > 0 {
		k := pick(r, receiverKeys)
		body := pick(r, []string{"- null", "- {}", "- http_config: null", "null", "- send_resolved: null"})
		if ks := integrationKeys[k]; len(ks) > 0 && r.IntN(4) > 0 {
			// an item of that integration with some of its own keys set to values of arbitrary kinds
			var b strings.Builder
			for i := range 1 + r.IntN(4) {
				if i == 0 {
					b.WriteString("- ")
				} else {
					b.WriteString("    ")
				}
				fmt.Fprintf(&b, "%s: %s\n", pick(r, ks), pick(r, scalarPool))
			}
			body = strings.TrimSuffix(b.String(), "\n")
		}
		if i := strings.Index(base, "receivers:\n- name: "); i >= 0 {
			j := i + len("receivers:\n") + strings.Index(base[i+len("receivers:\n"):], "\n") + 1
			base = base[:j] + "  " + k + ":\n  " + body + "\n" + base[j:]
		}
	}
	return base
}

func (w *world) fuzz(seed uint64, n int) string {
	r := rand.New(rand.NewPCG(seed, 19))
	sy, _ := secretsConfig(seed)
	npanic, ntimeout := 0, 0
	sites := map[string]string{}
	for i := range n {
		var base string
		if i%3 == 0 {
			base = sy
		} else {
			base = genTree(r).yaml()
		}
		var in string
		if i%2 == 0 {
			in = inject(r, base)
			if r.IntN(3) == 0 {
				in = mutate(r, in)
			}
		} else {
			in = mutate(r, base)
			if r.IntN(4) == 0 {
				in = mutate(r, in)
			}
		}
		_, cl, site := safeLoad(in)
		switch cl {
		case "panic":
			npanic++
			if _, ok := sites[site]; !ok {
				sites[site] = in
				if d := os.Getenv("VERIF_FUZZ_DUMP"); d != "" {
					os.WriteFile(filepath.Join(d, strings.NewReplacer("/", "_", ":", "_").Replace(site)+".yml"), []byte(in), 0o644)
				}
			}
		case "timeout":
			ntimeout++
		}
	}
	var l []string
	for s := range sites {
		l = append(l, s)
	}
	sort.Strings(l)
	return fmt.Sprintf("%d %d %s", npanic, ntimeout, hxp.Join(l, ","))
}

func (w *world) exec(line string) string {
	t := strings.Fields(line)
	switch t[0] {
	case "cfg":
		seed, _ := strconv.ParseUint(t[1], 10, 64)
		return w.cfg(seed, t[2])
	case "yaml":
		w.text = hxp.Unhex(t[1])
		return w.cfg(0, "yaml")
	case "reload":
		seed, _ := strconv.ParseUint(t[2], 10, 64)
		return w.reload(t[1], seed)
	case "fuzz":
		seed, _ := strconv.ParseUint(t[1], 10, 64)
		n, _ := strconv.Atoi(t[2])
		return w.fuzz(seed, n)
	case "fields":
		n, missing, unpinned, unmasked := checkFields()
		return fmt.Sprintf("%d %s %s %s", n, hxp.Join(missing, ","), hxp.Join(unpinned, ","), hxp.Join(unmasked, ","))
	}
	panic("bad op " + line)
}

func runCase(t *testing.T, tr *hxp.Trace, header string, lines []string) {
	dir, err := os.MkdirTemp("", "verif-config-")
	if err != nil {
		t.Fatal(err)
	}
	defer os.RemoveAll(dir)
	w := &world{dir: dir}
	tr.Linef("%s", header)
	for _, l := range lines {
		tr.Linef("%s -> %s", l, w.exec(l))
	}
}

func TestEngine(t *testing.T) {
	if os.Getenv("VERIF_REGEN") != "" {
		if err := writePinned("secret_fields.txt"); err != nil {
			t.Fatal(err)
		}
		return
	}
	tr := hxp.Open()
	defer tr.Close()
	if s := hxp.Script(); s != nil {
		var hdr string
		var cur []string
		flush := func() {
			if hdr != "" {
				runCase(t, tr, hdr, cur)
			}
		}
		for _, l := range s {
			if strings.HasPrefix(l, "case ") {
				flush()
				hdr, cur = l, nil
			} else if hdr != "" {
				cur = append(cur, l)
			}
		}
		flush()
		return
	}
	r := hxp.Rand(17)
	id := 0
	hdr := func(mode string) string { id++; return fmt.Sprintf("case %d mode=%s", id, mode) }
	runCase(t, tr, hdr("fields"), []string{"fields"})
	for range hxp.Cases(4000, 60000) {
		runCase(t, tr, hdr("tree"), []string{fmt.Sprintf("cfg %d tree", r.Uint64()>>1)})
	}
	for range hxp.Cases(20, 300) {
		runCase(t, tr, hdr("secrets"), []string{fmt.Sprintf("cfg %d secrets", r.Uint64()>>1)})
	}
	for range hxp.Cases(40, 600) {
		var l []string
		for range 3 + r.IntN(6) {
			l = append(l, fmt.Sprintf("reload %s %d", pick(r, []string{"v", "v", "i", "i", "s"}), r.Uint64()>>1))
		}
		runCase(t, tr, hdr("coord"), l)
	}
	for range hxp.Cases(4, 40) {
		runCase(t, tr, hdr("fuzz"), []string{fmt.Sprintf("fuzz %d %d", r.Uint64()>>1, hxp.Cases(1500, 6000))})
	}
}
