// The `secrets` profile of engine `config` (C17): every integration kind of
// config/notifiers.go and notify/*/config.go with every inline secret-bearing
// field set to a unique canary, and the reflect walk that regenerates the list
// of secret-bearing fields (pinned in secret_fields.txt).
package config

import (
	"fmt"
	"os"
	"reflect"
	"regexp"
	"sort"
	"strings"

	"github.com/prometheus/alertmanager/config"
)

// %S:name% is replaced by a canary string, %U:name% by a canary URL.
const secretsYAML = `global:
  smtp_from: 'am@example.org'
  smtp_smarthost: 'smtp.example.org:587'
  smtp_auth_username: 'user'
  smtp_auth_password: '%S:global.smtp_auth_password%'
  smtp_auth_secret: '%S:global.smtp_auth_secret%'
  slack_api_url: '%U:global.slack_api_url%'
  opsgenie_api_key: '%S:global.opsgenie_api_key%'
  wechat_api_secret: '%S:global.wechat_api_secret%'
  wechat_api_corp_id: 'corp'
  victorops_api_key: '%S:global.victorops_api_key%'
  telegram_bot_token: '%S:global.telegram_bot_token%'
  rocketchat_token: '%S:global.rocketchat_token%'
  rocketchat_token_id: '%S:global.rocketchat_token_id%'
  mattermost_webhook_url: '%U:global.mattermost_webhook_url%'
  jira_api_url: 'https://bot:%S:global.jira_api_url.userinfo%@jira.example.org'
  http_config:
    basic_auth:
      username: 'u'
      password: '%S:global.http_config.basic_auth.password%'
    proxy_url: 'http://proxy.example.org'
    proxy_connect_header:
      X-Auth: ['%S:global.http_config.proxy_connect_header%']
route:
  receiver: 'all'
receivers:
- name: 'all'
  discord_configs:
  - webhook_url: '%U:discord.webhook_url%'
    http_config:
      authorization:
        type: Bearer
        credentials: '%S:discord.http_config.authorization.credentials%'
  email_configs:
  - to: 'x@example.org'
    auth_password: '%S:email.auth_password%'
    auth_secret: '%S:email.auth_secret%'
  incidentio_configs:
  - url: 'https://bot:%S:incidentio.url.userinfo%@incident.example.org/hook'
    alert_source_token: '%S:incidentio.alert_source_token%'
  pagerduty_configs:
  - routing_key: '%S:pagerduty.routing_key%'
    service_key: '%S:pagerduty.service_key%'
    http_config:
      bearer_token: '%S:pagerduty.http_config.bearer_token%'
  slack_configs:
  - api_url: '%U:slack.api_url%'
    channel: '#a'
  - app_token: '%S:slack.app_token%'
    channel: '#b'
  webhook_configs:
  - url: '%U:webhook.url%'
    http_config:
      oauth2:
        client_id: 'id'
        client_secret: '%S:webhook.http_config.oauth2.client_secret%'
        token_url: 'https://auth.example.org/token'
        tls_config:
          cert: 'CERT'
          key: '%S:webhook.http_config.oauth2.tls_config.key%'
  opsgenie_configs:
  - api_key: '%S:opsgenie.api_key%'
    http_config:
      tls_config:
        cert: 'CERT'
        key: '%S:opsgenie.http_config.tls_config.key%'
  wechat_configs:
  - api_secret: '%S:wechat.api_secret%'
    corp_id: 'c'
  pushover_configs:
  - user_key: '%S:pushover.user_key%'
    token: '%S:pushover.token%'
  victorops_configs:
  - api_key: '%S:victorops.api_key%'
    routing_key: 'team'
  sns_configs:
  - topic_arn: 'arn:aws:sns:us-east-1:1:t'
    sigv4:
      access_key: 'AK'
      secret_key: '%S:sns.sigv4.secret_key%'
  telegram_configs:
  - bot_token: '%S:telegram.bot_token%'
    chat_id: 42
  webex_configs:
  - room_id: 'r'
    http_config:
      authorization:
        credentials: '%S:webex.http_config.authorization.credentials%'
  msteams_configs:
  - webhook_url: '%U:msteams.webhook_url%'
  msteamsv2_configs:
  - webhook_url: '%U:msteamsv2.webhook_url%'
  jira_configs:
  - project: 'P'
    issue_type: 'Bug'
    http_config:
      basic_auth:
        username: 'u'
        password: '%S:jira.http_config.basic_auth.password%'
      http_headers:
        X-Token:
          secrets: ['%S:jira.http_config.http_headers.secrets%']
  rocketchat_configs:
  - token: '%S:rocketchat.token%'
    token_id: '%S:rocketchat.token_id%'
  mattermost_configs:
  - webhook_url: '%U:mattermost.webhook_url%'
tracing:
  endpoint: 'localhost:4317'
  headers:
    x-trace-token:
      secrets: ['%S:tracing.headers%']
  tls_config:
    cert: 'CERT'
    key: '%S:tracing.tls_config.key%'
`

var rePlaceholder = regexp.MustCompile(`%([SU]):([^%]+)%`)

// secretsConfig instantiates the template: returns YAML and the canaries (field -> value).
func secretsConfig(seed uint64) (string, map[string]string) {
	can := map[string]string{}
	i := 0
	y := rePlaceholder.ReplaceAllStringFunc(secretsYAML, func(m string) string {
		p := rePlaceholder.FindStringSubmatch(m)
		i++
		v := fmt.Sprintf("CANARY%dx%dQ", seed%100000, i)
		if p[1] == "U" {
			v = fmt.Sprintf("https://canary%dx%dq.example.org/hook/SECRETPATH%d", seed%100000, i, i)
		}
		can[p[2]] = v
		return v
	})
	return y, can
}

// ---- regenerated fact: secret-bearing fields reachable from config.Config ----

var reSecretName = regexp.MustCompile(`(?i)(passw|secret|token|credential|api_?key|service_?key|routing_?key|user_?key|bearer|private|^key$|certificate_key|webhook_?url|sasl)`)

func maskingType(t reflect.Type) bool {
	for t.Kind() == reflect.Pointer || t.Kind() == reflect.Slice || t.Kind() == reflect.Map {
		t = t.Elem()
	}
	n := t.PkgPath() + "." + t.Name()
	switch n {
	case "github.com/prometheus/common/config.Secret",
		"github.com/prometheus/alertmanager/config/common.SecretURL",
		"github.com/prometheus/alertmanager/config/common.SecretTemplateURL",
		"github.com/prometheus/alertmanager/config.SecretTemplateURL":
		return true
	}
	return false
}

type fieldFact struct{ id, yaml, typ, status string }

func walkFields() []fieldFact {
	seen := map[reflect.Type]bool{}
	var out []fieldFact
	var walk func(t reflect.Type)
	walk = func(t reflect.Type) {
		for t.Kind() == reflect.Pointer || t.Kind() == reflect.Slice || t.Kind() == reflect.Map || t.Kind() == reflect.Array {
			t = t.Elem()
		}
		if t.Kind() != reflect.Struct || seen[t] {
			return
		}
		seen[t] = true
		for i := range t.NumField() {
			f := t.Field(i)
			if !f.IsExported() {
				continue
			}
			tag := strings.Split(f.Tag.Get("yaml"), ",")[0]
			if tag == "-" {
				continue
			}
			masked := maskingType(f.Type)
			looks := reSecretName.MatchString(f.Name) || reSecretName.MatchString(tag)
			leaf := f.Type
			for leaf.Kind() == reflect.Pointer || leaf.Kind() == reflect.Slice || leaf.Kind() == reflect.Map {
				leaf = leaf.Elem()
			}
			if (masked || looks) && (leaf.Kind() != reflect.Struct || masked) {
				st := "masked"
				if !masked {
					st = "plain"
				}
				out = append(out, fieldFact{id: t.PkgPath() + "." + t.Name() + "." + f.Name, yaml: tag, typ: f.Type.String(), status: st})
			}
			if !masked {
				walk(f.Type)
			}
		}
	}
	walk(reflect.TypeOf(config.Config{}))
	sort.Slice(out, func(i, j int) bool { return out[i].id < out[j].id })
	return out
}

// checkFields compares the regenerated list with the pinned file.
// Pinned line: <id> <yaml> <type> <masked|plain-ok>
func checkFields() (n int, missing, unpinned, unmasked []string) {
	b, err := os.ReadFile("secret_fields.txt")
	if err != nil {
		return 0, []string{"secret_fields.txt:" + err.Error()}, nil, nil
	}
	pinned := map[string][]string{}
	for _, l := range strings.Split(string(b), "\n") {
		f := strings.Fields(l)
		if len(f) < 4 || strings.HasPrefix(l, "#") {
			continue
		}
		pinned[f[0]] = f
	}
	got := walkFields()
	for _, g := range got {
		p, ok := pinned[g.id]
		if !ok {
			if g.status == "plain" {
				unmasked = append(unmasked, g.id+"("+g.typ+")")
			} else {
				unpinned = append(unpinned, g.id)
			}
			continue
		}
		delete(pinned, g.id)
		switch {
		case p[3] == "masked" && g.status != "masked":
			unmasked = append(unmasked, g.id+"("+g.typ+")")
		case p[2] != strings.ReplaceAll(g.typ, " ", "") || p[1] != orDash(g.yaml):
			unpinned = append(unpinned, g.id+":changed")
		}
	}
	for id := range pinned {
		missing = append(missing, id)
	}
	sort.Strings(missing)
	return len(got), missing, unpinned, unmasked
}

func orDash(s string) string {
	if s == "" {
		return "-"
	}
	return s
}

func writePinned(path string) error {
	var b strings.Builder
	b.WriteString("# secret-bearing fields reachable from config.Config (regenerated by harness/config walkFields; VERIF_REGEN=1 rewrites)\n")
	b.WriteString("# <pkg.Type.Field> <yaml key> <go type> <masked | plain-ok>   plain-ok = name looks secret-bearing but the value is a path/reference/flag, reviewed\n")
	for _, g := range walkFields() {
		st := g.status
		if st == "plain" {
			st = "plain-ok"
		}
		fmt.Fprintf(&b, "%s %s %s %s\n", g.id, orDash(g.yaml), strings.ReplaceAll(g.typ, " ", ""), st)
	}
	return os.WriteFile(path, []byte(b.String()), 0o644)
}
