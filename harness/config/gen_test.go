// Generated raw configurations of engine `config` (C17): a raw tree mirroring
// AM.Config.RawConfig, its YAML text, and the same encoding read back from a
// loaded *config.Config.
package config

import (
	"crypto/sha256"
	"encoding/hex"
	"fmt"
	"math/rand/v2"
	"sort"
	"strings"
	"time"

	"github.com/prometheus/alertmanager/config"
)

type node struct {
	receiver   string
	groupBy    []string // nil = absent
	gbSet      bool
	match      map[string]string
	matchRE    map[string]string // legacy match_re
	matchers   []string
	mute       []string
	active     []string
	cont       bool
	groupWait  string
	groupInt   string // "" absent
	repeatInt  string
	children   []*node
}

type rawRecv struct {
	name         string
	hasName      bool
	labelName    *string
	needsDefault bool
	urlFile      bool
}

type rawCfg struct {
	decodeFault    string // YAML fragment making decoding fail, "" = none
	decodeWhere    string
	globalConflict bool
	noRoute        bool
	root           *node
	recvs          []rawRecv
	mutes          []string
	tis            []string
	inhibit        int
	global         bool
	pdURL          int            // > 0: global pagerduty_url override (a distinct URL per value)
	pdRecv         bool           // the first receiver also has a pagerduty integration relying on the global URL
	tiKind         map[string]int // body of each named time interval
	nullKind       int            // > 0: the first receiver has `<kind>_configs: [null]`, the global block the settings that make it valid (F14)
}

func hx(s string) string {
	if s == "" {
		return "-"
	}
	return hex.EncodeToString([]byte(s))
}

func hxName(s string) string {
	if s == "" {
		return "_"
	}
	return hex.EncodeToString([]byte(s))
}

func names(l []string, emptyTok string) string {
	if len(l) == 0 {
		return emptyTok
	}
	o := make([]string, len(l))
	for i, s := range l {
		o[i] = hxName(s)
	}
	return strings.Join(o, ".")
}

func durNS(s string) string {
	if s == "" {
		return "~"
	}
	d, err := time.ParseDuration(s)
	if err != nil {
		return "~"
	}
	return fmt.Sprint(int64(d))
}

func shortHash(parts ...string) string {
	h := sha256.Sum256([]byte(strings.Join(parts, "\x00")))
	return hex.EncodeToString(h[:6])
}

// ---- encoding of the raw description (what the model validates) ----

func (n *node) enc(depth int, out *[]string, withExtra bool) {
	gb := "~"
	if n.gbSet {
		gb = names(n.groupBy, "-")
	}
	var mk []string
	for k := range n.match {
		mk = append(mk, k)
	}
	sort.Strings(mk)
	c := "0"
	if n.cont {
		c = "1"
	}
	extra := "-"
	if withExtra {
		extra = "x"
	}
	*out = append(*out, fmt.Sprintf("%d:%s:%s:%s:%d:%s:%s:%s:%s:%s:%s", depth, hx(n.receiver), gb, names(mk, "~"),
		len(n.match)+len(n.matchRE)+len(n.matchers), names(n.mute, "~"), names(n.active, "~"), c, durNS(n.groupInt), durNS(n.repeatInt), extra))
	for _, ch := range n.children {
		ch.enc(depth+1, out, withExtra)
	}
}

func (c *rawCfg) encode() string {
	flags := ""
	if c.decodeFault != "" {
		flags += "D"
	}
	if c.globalConflict {
		flags += "G"
	}
	if flags == "" {
		flags = "-"
	}
	tree := "~"
	if !c.noRoute && c.root != nil {
		var o []string
		c.root.enc(0, &o, false)
		tree = strings.Join(o, "|")
	}
	var rs []string
	for _, r := range c.recvs {
		l := "~"
		if r.labelName != nil {
			l = hxName(*r.labelName)
		}
		f := "0"
		if r.needsDefault {
			f = "1"
		}
		rs = append(rs, fmt.Sprintf("%s:%s:%s", hxName(r.name), l, f))
	}
	enc := func(l []string) string {
		if len(l) == 0 {
			return "~"
		}
		o := make([]string, len(l))
		for i, s := range l {
			o[i] = hxName(s)
		}
		return strings.Join(o, "|")
	}
	r := "~"
	if len(rs) > 0 {
		r = strings.Join(rs, "|")
	}
	return fmt.Sprintf("%s %s %s %s %s", flags, tree, r, enc(c.mutes), enc(c.tis))
}

// ---- the same encoding from a loaded configuration ----

func encRoute(r *config.Route, depth int, out *[]string) {
	gb := "~"
	if r.GroupByStr != nil {
		var l []string
		for _, n := range r.GroupBy {
			l = append(l, string(n))
		}
		if r.GroupByAll {
			l = append(l, "...")
		}
		gb = names(l, "-")
	}
	var mk, extra []string
	for k, v := range r.Match {
		mk = append(mk, k)
		extra = append(extra, "m:"+k+"="+v)
	}
	for k, v := range r.MatchRE {
		extra = append(extra, "re:"+k+"="+v.String())
	}
	sort.Strings(mk)
	sort.Strings(extra)
	for _, m := range r.Matchers {
		extra = append(extra, "M:"+m.String())
	}
	if r.GroupWait != nil {
		extra = append(extra, "gw:"+r.GroupWait.String())
	}
	var ls []string
	for k, v := range r.Labels {
		ls = append(ls, string(k)+"="+string(v))
	}
	sort.Strings(ls)
	extra = append(extra, ls...)
	c := "0"
	if r.Continue {
		c = "1"
	}
	gi, ri := "~", "~"
	if r.GroupInterval != nil {
		gi = fmt.Sprint(int64(time.Duration(*r.GroupInterval)))
	}
	if r.RepeatInterval != nil {
		ri = fmt.Sprint(int64(time.Duration(*r.RepeatInterval)))
	}
	*out = append(*out, fmt.Sprintf("%d:%s:%s:%s:%d:%s:%s:%s:%s:%s:%s", depth, hx(r.Receiver), gb, names(mk, "~"),
		len(r.Match)+len(r.MatchRE)+len(r.Matchers), names(r.MuteTimeIntervals, "~"), names(r.ActiveTimeIntervals, "~"), c, gi, ri, shortHash(extra...)))
	for _, ch := range r.Routes {
		if ch != nil {
			encRoute(ch, depth+1, out)
		}
	}
}

// encodeLoaded returns tree, receivers, mute interval names, time interval names and a hash of rules+intervals.
func encodeLoaded(c *config.Config) (tree, recvs, mutes, tis, rules string) {
	tree = "~"
	if c.Route != nil {
		var o []string
		encRoute(c.Route, 0, &o)
		tree = strings.Join(o, "|")
	}
	var rs, ms, ts, rl []string
	for _, r := range c.Receivers {
		rs = append(rs, fmt.Sprintf("%s:~:0", hxName(r.Name)))
	}
	for _, m := range c.MuteTimeIntervals {
		ms = append(ms, hxName(m.Name))
		rl = append(rl, fmt.Sprintf("mti:%s:%+v", m.Name, m.TimeIntervals))
	}
	for _, m := range c.TimeIntervals {
		ts = append(ts, hxName(m.Name))
		rl = append(rl, fmt.Sprintf("ti:%s:%+v", m.Name, m.TimeIntervals))
	}
	for _, ir := range c.InhibitRules {
		var p []string
		for _, m := range ir.SourceMatchers {
			p = append(p, "s:"+m.String())
		}
		for _, m := range ir.TargetMatchers {
			p = append(p, "t:"+m.String())
		}
		for k, v := range ir.SourceMatch {
			p = append(p, "sm:"+k+"="+v)
		}
		for k, v := range ir.TargetMatch {
			p = append(p, "tm:"+k+"="+v)
		}
		for k, v := range ir.SourceMatchRE {
			p = append(p, fmt.Sprintf("smr:%s=%q/%v", k, v.Original, v.Regexp != nil))
		}
		for k, v := range ir.TargetMatchRE {
			p = append(p, fmt.Sprintf("tmr:%s=%q/%v", k, v.Original, v.Regexp != nil))
		}
		sort.Strings(p)
		rl = append(rl, fmt.Sprintf("ir:%v:%v", p, ir.Equal))
	}
	j := func(l []string) string {
		if len(l) == 0 {
			return "~"
		}
		return strings.Join(l, "|")
	}
	return tree, j(rs), j(ms), j(ts), shortHash(rl...)
}

// ---- YAML ----

func q(s string) string { return "'" + strings.ReplaceAll(s, "'", "''") + "'" }

func qlist(l []string) string {
	o := make([]string, len(l))
	for i, s := range l {
		o[i] = q(s)
	}
	return "[" + strings.Join(o, ", ") + "]"
}

func (n *node) yaml(b *strings.Builder, ind string, first bool) {
	p := ind
	line := func(s string) {
		if first {
			first = false
			b.WriteString(s + "\n")
			return
		}
		b.WriteString(p + s + "\n")
	}
	wrote := false
	w := func(s string) { line(s); wrote = true }
	if n.receiver != "" {
		w("receiver: " + q(n.receiver))
	}
	if n.gbSet {
		w("group_by: " + qlist(n.groupBy))
	}
	if len(n.match) > 0 {
		var ks []string
		for k := range n.match {
			ks = append(ks, k)
		}
		sort.Strings(ks)
		var kv []string
		for _, k := range ks {
			kv = append(kv, q(k)+": "+q(n.match[k]))
		}
		w("match: {" + strings.Join(kv, ", ") + "}")
	}
	if len(n.matchRE) > 0 {
		var ks []string
		for k := range n.matchRE {
			ks = append(ks, k)
		}
		sort.Strings(ks)
		var kv []string
		for _, k := range ks {
			kv = append(kv, q(k)+": "+q(n.matchRE[k]))
		}
		w("match_re: {" + strings.Join(kv, ", ") + "}")
	}
	if len(n.matchers) > 0 {
		w("matchers: " + qlist(n.matchers))
	}
	if len(n.mute) > 0 {
		w("mute_time_intervals: " + qlist(n.mute))
	}
	if len(n.active) > 0 {
		w("active_time_intervals: " + qlist(n.active))
	}
	if n.cont {
		w("continue: true")
	}
	if n.groupWait != "" {
		w("group_wait: " + n.groupWait)
	}
	if n.groupInt != "" {
		w("group_interval: " + n.groupInt)
	}
	if n.repeatInt != "" {
		w("repeat_interval: " + n.repeatInt)
	}
	if !wrote {
		w("continue: false")
	}
	if len(n.children) > 0 {
		line("routes:")
		for _, ch := range n.children {
			b.WriteString(p + "- ")
			ch.yaml(b, p+"  ", true)
		}
	}
}

const tiBody = "    time_intervals:\n    - weekdays: ['monday:friday']\n      times:\n      - start_time: '09:00'\n        end_time: '17:00'\n"

// every field shape the textual form has to carry back, boundary values included (a range ending at 24:00,
// the last minute of the day, negative days, a location)
var tiBodies = []string{
	tiBody,
	"    time_intervals:\n    - times:\n      - start_time: '00:00'\n        end_time: '24:00'\n",
	"    time_intervals:\n    - weekdays: ['saturday', 'sunday']\n      times:\n      - start_time: '22:30'\n        end_time: '24:00'\n      - start_time: '00:00'\n        end_time: '00:01'\n",
	"    time_intervals:\n    - days_of_month: ['-3:-1', '1']\n      months: ['january:march', 'december']\n      years: ['2024:2030']\n      location: 'Europe/Berlin'\n",
	"    time_intervals:\n    - times:\n      - start_time: '23:59'\n        end_time: '24:00'\n      weekdays: ['monday']\n      location: 'UTC'\n",
	// month numbers are not range-checked by the loader: whatever it accepts must print and load back
	"    time_intervals:\n    - months: ['13']\n",
	"    time_intervals:\n    - months: ['0:3', '11:14']\n      years: ['0:9999']\n",
}

func (c *rawCfg) yaml() string {
	var b strings.Builder
	if c.decodeWhere == "top" {
		b.WriteString(c.decodeFault)
	}
	if c.global || c.globalConflict || c.nullKind > 0 {
		b.WriteString("global:\n  resolve_timeout: 7m\n  smtp_hello: example.org\n")
		if c.pdURL > 0 {
			fmt.Fprintf(&b, "  pagerduty_url: 'http://pagerduty-%d.example.org/enqueue'\n", c.pdURL)
		}
		if c.globalConflict {
			b.WriteString("  opsgenie_api_key: abc\n  opsgenie_api_key_file: /tmp/k\n")
		}
		switch c.nullKind {
		case 1:
			b.WriteString("  slack_api_url_file: /tmp/s\n")
		case 2:
			if !c.globalConflict {
				b.WriteString("  opsgenie_api_key_file: /tmp/k\n")
			}
		case 3:
			b.WriteString("  wechat_api_secret_file: /tmp/w\n  wechat_api_corp_id: c\n")
		case 4:
			b.WriteString("  rocketchat_token_file: /tmp/t\n  rocketchat_token_id_file: /tmp/i\n")
		}
	}
	if !c.noRoute && c.root != nil {
		b.WriteString("route:\n  ")
		c.root.yaml(&b, "  ", true)
		if c.decodeWhere == "route" {
			b.WriteString(c.decodeFault)
		}
	}
	if len(c.recvs) > 0 {
		b.WriteString("receivers:\n")
		for ri, r := range c.recvs {
			if r.hasName {
				b.WriteString("- name: " + q(r.name) + "\n")
			} else {
				b.WriteString("- labels: {team: 'x'}\n")
			}
			if r.labelName != nil {
				b.WriteString("  labels: {name: " + q(*r.labelName) + "}\n")
			}
			if r.needsDefault {
				b.WriteString("  email_configs:\n  - to: 'a@example.org'\n")
			}
			if r.urlFile {
				b.WriteString("  webhook_configs:\n  - url_file: /tmp/url\n")
			}
			if ri == 0 && c.pdRecv && r.hasName {
				// relies on the global pagerduty_url (default or overridden): Config.UnmarshalYAML copies that URL in
				b.WriteString("  pagerduty_configs:\n  - routing_key_file: /tmp/rk\n")
			}
			if ri == 0 && c.nullKind > 0 && r.hasName {
				// a null entry: an integration that takes everything from the global block
				b.WriteString("  " + []string{"slack", "opsgenie", "wechat", "rocketchat"}[c.nullKind-1] + "_configs: [null]\n")
			}
			if c.decodeWhere == "receiver" {
				b.WriteString(c.decodeFault)
			}
		}
	}
	if len(c.mutes) > 0 {
		b.WriteString("mute_time_intervals:\n")
		for _, n := range c.mutes {
			if n == "" {
				b.WriteString("  - time_intervals: []\n")
				continue
			}
			b.WriteString("  - name: " + q(n) + "\n" + tiBodies[c.tiKind[n]%len(tiBodies)])
		}
	}
	if len(c.tis) > 0 {
		b.WriteString("time_intervals:\n")
		for _, n := range c.tis {
			if n == "" {
				b.WriteString("  - time_intervals: []\n")
				continue
			}
			b.WriteString("  - name: " + q(n) + "\n" + tiBodies[c.tiKind[n]%len(tiBodies)])
		}
	}
	if c.inhibit > 0 {
		b.WriteString("inhibit_rules:\n")
		for i := range c.inhibit {
			if i == 1 {
				// the deprecated forms, one regular expression being the empty string (F13)
				fmt.Fprintf(&b, "- source_match: {severity: 'critical'}\n  source_match_re: {n: ''}\n  target_match_re: {severity: 'warn.*', m%d: ''}\n  equal: ['alertname', 'c%d']\n", i, i)
				continue
			}
			fmt.Fprintf(&b, "- source_matchers: ['severity=\"critical\"', 'n=~\"a%d.*\"']\n  target_matchers: ['severity=\"warning\"']\n  equal: ['alertname', 'c%d']\n", i, i)
		}
	}
	if c.decodeWhere == "end" {
		b.WriteString(c.decodeFault)
	}
	return b.String()
}

// ---- generator ----

var labelPool = []string{"alertname", "cluster", "job", "team", "severity"}

func pick[T any](r *rand.Rand, l []T) T { return l[r.IntN(len(l))] }

func genNode(r *rand.Rand, depth int, c *rawCfg, root bool) *node {
	n := &node{}
	if root || r.IntN(3) > 0 {
		n.receiver = pick(r, c.recvs).name
	}
	switch r.IntN(24) {
	case 0, 1, 2, 3:
	case 4:
		n.gbSet, n.groupBy = true, []string{} // explicit empty list (finding F8 territory)
	case 5, 6, 7:
		n.gbSet, n.groupBy = true, []string{"..."}
	default:
		n.gbSet = true
		p := r.Perm(len(labelPool))
		for _, i := range p[:1+r.IntN(3)] {
			n.groupBy = append(n.groupBy, labelPool[i])
		}
	}
	if !root {
		if r.IntN(2) == 0 {
			n.matchers = append(n.matchers, fmt.Sprintf("%s=\"v%d\"", pick(r, labelPool), r.IntN(9)))
		}
		if r.IntN(3) == 0 {
			n.matchers = append(n.matchers, fmt.Sprintf("%s=~\"x%d.*\"", pick(r, labelPool), r.IntN(9)))
		}
		if r.IntN(4) == 0 {
			n.match = map[string]string{pick(r, labelPool): "m"}
		}
		all := append(append([]string{}, c.mutes...), c.tis...)
		if len(all) > 0 && r.IntN(3) == 0 {
			n.mute = []string{pick(r, all)}
		}
		if len(all) > 0 && r.IntN(4) == 0 {
			n.active = []string{pick(r, all)}
		}
		n.cont = r.IntN(4) == 0
	}
	if r.IntN(3) == 0 {
		n.groupWait = pick(r, []string{"0s", "10s", "1m"})
	}
	if r.IntN(3) == 0 {
		n.groupInt = pick(r, []string{"5m", "1s", "2h"})
	}
	if r.IntN(3) == 0 {
		n.repeatInt = pick(r, []string{"4h", "30s"})
	}
	if depth < 3 {
		for range r.IntN(4 - depth) {
			n.children = append(n.children, genNode(r, depth+1, c, false))
		}
	}
	return n
}

func allNodes(n *node, out *[]*node) {
	*out = append(*out, n)
	for _, c := range n.children {
		allNodes(c, out)
	}
}

// genTree makes a secret-free configuration with 0..2 injected faults.
func genTree(r *rand.Rand) *rawCfg {
	c := &rawCfg{global: r.IntN(2) == 0, inhibit: r.IntN(3), tiKind: map[string]int{}}
	if c.global && r.IntN(2) == 0 {
		c.pdURL = 1 + r.IntN(1000)
	}
	c.pdRecv = r.IntN(2) == 0
	for i := range 1 + r.IntN(4) {
		c.recvs = append(c.recvs, rawRecv{name: fmt.Sprintf("recv%d", i), hasName: true, urlFile: r.IntN(4) == 0})
	}
	for i := range r.IntN(3) {
		c.mutes = append(c.mutes, fmt.Sprintf("mute%d", i))
		c.tiKind[fmt.Sprintf("mute%d", i)] = r.IntN(len(tiBodies))
	}
	for i := range r.IntN(3) {
		c.tis = append(c.tis, fmt.Sprintf("ti%d", i))
		c.tiKind[fmt.Sprintf("ti%d", i)] = r.IntN(len(tiBodies))
	}
	c.root = genNode(r, 0, c, true)
	nf := 0
	switch x := r.IntN(20); {
	case x < 10:
	case x < 17:
		nf = 1
	default:
		nf = 2
	}
	var ns []*node
	allNodes(c.root, &ns)
	for range nf {
		n := pick(r, ns)
		switch r.IntN(24) {
		case 0:
			c.decodeWhere, c.decodeFault = "top", "unknown_top_level_key: 1\n"
		case 1:
			c.decodeWhere, c.decodeFault = "route", "  group_wait: notaduration\n"
			c.root.groupWait = ""
		case 2:
			c.decodeWhere, c.decodeFault = "end", "inhibit_rules:\n- source_matchers: ['=']\n"
			c.inhibit = 0
		case 3:
			c.decodeWhere, c.decodeFault = "receiver", "  webhook_configs:\n  - send_resolved: true\n"
			for i := range c.recvs {
				c.recvs[i].urlFile = false
			}
		case 4:
			c.globalConflict = true
		case 5:
			c.noRoute = true
		case 6:
			c.root.receiver = ""
		case 7:
			// any of the three ways to put a matcher on the root
			switch r.IntN(3) {
			case 0:
				c.root.matchers = []string{"a=\"b\""}
			case 1:
				c.root.match = map[string]string{"a": "b"}
			default:
				c.root.matchRE = map[string]string{"a": "b.*"}
			}
		case 8:
			if len(c.mutes)+len(c.tis) > 0 {
				c.root.mute = []string{append(append([]string{}, c.mutes...), c.tis...)[0]}
			}
		case 9:
			if len(c.mutes)+len(c.tis) > 0 {
				c.root.active = []string{append(append([]string{}, c.mutes...), c.tis...)[0]}
			}
		case 10:
			c.root.cont = true
		case 11:
			n.receiver = "nosuchreceiver"
		case 12:
			n.mute = append(n.mute, "nosuchinterval")
			if n == c.root {
				n.mute = nil
			}
		case 13:
			if n != c.root {
				n.active = append(n.active, "nosuchinterval")
			}
		case 14:
			n.gbSet, n.groupBy = true, []string{"a", "b", "a"}
		case 15:
			n.gbSet, n.groupBy = true, []string{"...", "a"}
		case 16:
			n.gbSet, n.groupBy = true, []string{"a", ""}
		case 17:
			n.groupInt = "0s"
		case 18:
			n.repeatInt = "0s"
		case 19:
			c.recvs = append(c.recvs, rawRecv{name: c.recvs[0].name, hasName: true})
		case 20:
			c.recvs = append(c.recvs, rawRecv{hasName: false})
		case 21:
			o := "other"
			c.recvs[0].labelName = &o
		case 22:
			c.recvs[r.IntN(len(c.recvs))].needsDefault = true
		case 23:
			switch r.IntN(3) {
			case 0:
				c.tis = append(c.tis, "dupti", "dupti")
			case 1:
				c.mutes = append(c.mutes, "both")
				c.tis = append(c.tis, "both")
			default:
				c.tis = append(c.tis, "")
			}
		}
	}
	if c.decodeFault != "" {
		// a decoding fault stands alone (yaml.v2 collects type errors but stops at hook errors: order-dependent)
		d, w := c.decodeFault, c.decodeWhere
		c2 := genCleanLike(c)
		c2.decodeFault, c2.decodeWhere = d, w
		if w == "route" {
			c2.root.groupWait = ""
		}
		if w == "end" {
			c2.inhibit = 0
		}
		return c2
	}
	return c
}

// legacyMix rewrites (in a quarter of the configurations) the matchers of one non-root route so that it combines the
// deprecated `match` / `match_re` with 3, 5, 6 or 7 `matchers` lines (a slice grown by appends has spare capacity at those
// lengths), the converted deprecated entry sorting before the last new-style matcher.  It draws from its own PRNG so that
// the configurations of genTree stay what they were.
func legacyMix(r *rand.Rand, c *rawCfg) {
	if c.root == nil || r.IntN(4) != 0 {
		return
	}
	var ns []*node
	allNodes(c.root, &ns)
	if len(ns) < 2 {
		return
	}
	n := ns[1+r.IntN(len(ns)-1)]
	k := pick(r, []int{3, 5, 6, 7})
	n.matchers, n.match, n.matchRE = nil, nil, nil
	for i := range k {
		name := pick(r, labelPool)
		if i == 0 {
			name = pick(r, labelPool[3:]) // team / severity: after every name the deprecated entry can have
		}
		if i%2 == 0 {
			n.matchers = append(n.matchers, fmt.Sprintf("%s=\"v%d\"", name, i))
		} else {
			n.matchers = append(n.matchers, fmt.Sprintf("%s=~\"x%d.*\"", name, i))
		}
	}
	if r.IntN(2) == 0 {
		n.match = map[string]string{pick(r, labelPool[:3]): "m"}
	} else {
		n.matchRE = map[string]string{pick(r, labelPool[:3]): pick(r, []string{"m.*", "m.*", ""})} // an empty expression too (F13)
	}
}

// genCleanLike returns a fault-free configuration (for stand-alone decode faults).
func genCleanLike(c *rawCfg) *rawCfg {
	c2 := &rawCfg{recvs: []rawRecv{{name: "recv0", hasName: true}}, tis: []string{"ti0"}}
	c2.root = &node{receiver: "recv0", gbSet: true, groupBy: []string{"alertname"},
		children: []*node{{matchers: []string{"a=\"b\""}, mute: []string{"ti0"}}}}
	return c2
}
