// Engine `mesh` (C19, observation tier): a loopback cluster of 2-3 real
// cluster.Peer (memberlist on 127.0.0.1, real time, short intervals) carrying
// real silence.Silences and nflog.Log states.  Every update — small (gossiped)
// or oversized (reliable per-peer send) — must be merged by every live node; a
// late joiner must obtain everything through the full-state exchange.
// memberlist's delivery is observed here, not proved.
package mesh

import (
	"context"
	"fmt"
	"go/ast"
	"go/parser"
	"go/token"
	"os"
	"path/filepath"
	"sort"
	"strconv"
	"strings"
	"testing"
	"time"

	"github.com/prometheus/client_golang/prometheus"
	"github.com/prometheus/common/promslog"
	"google.golang.org/protobuf/types/known/timestamppb"

	"github.com/prometheus/alertmanager/cluster"
	"github.com/prometheus/alertmanager/eventrecorder"
	"github.com/prometheus/alertmanager/nflog"
	"github.com/prometheus/alertmanager/nflog/nflogpb"
	"github.com/prometheus/alertmanager/silence"
	pb "github.com/prometheus/alertmanager/silence/silencepb"

	"verif/harness/hx"
)

type node struct {
	peer *cluster.Peer
	sil  *silence.Silences
	nfl  *nflog.Log
	down bool // crashed and not (yet) replaced by a new instance
}

// live: the nodes that are up
func (w *world) live() []*node {
	var l []*node
	for _, n := range w.nodes {
		if !n.down {
			l = append(l, n)
		}
	}
	return l
}

type world struct {
	beforeJoin func(*node) // runs on a new node after its states are registered and before it joins
	nodes      []*node
	sils       []string // ids of all silences created so far
	gkeys      []string // group keys logged so far
	restarts   int
}

const settle = 8 * time.Second

func (w *world) addNode() (*node, error) {
	n, err := w.newNode("127.0.0.1:0", -1, "")
	if err == nil {
		w.nodes = append(w.nodes, n)
	}
	return n, err
}

// newNode creates a peer bound to `bind` that joins through some node other than `except`
// (name "" = a fresh random ULID, as a start without --cluster.peer-name).
func (w *world) newNode(bind string, except int, name string) (*node, error) {
	var known []string
	for i, m := range w.nodes {
		if i != except {
			known = []string{m.peer.Self().Address()}
			break
		}
	}
	return w.mkNode(bind, known, name, true)
}

// mkNode creates a peer bound to `bind` configured with the peers `known` (--cluster.peer); reconnect=false is
// --cluster.reconnect-interval=0 --cluster.reconnect-timeout=0: only the periodic refresh of the configured peers
// (every cluster.DefaultRefreshInterval) dials a peer that is not a member.
func (w *world) mkNode(bind string, known []string, name string, reconnect bool) (*node, error) {
	reg := prometheus.NewRegistry()
	p, err := cluster.Create(promslog.NewNopLogger(), reg, bind, "", known, false,
		cluster.DefaultPushPullInterval, 50*time.Millisecond, 2*time.Second, 2*time.Second,
		cluster.DefaultProbeTimeout, cluster.DefaultProbeInterval, nil, false, "", name)
	if err != nil {
		return nil, err
	}
	s, err := silence.New(silence.Options{Retention: time.Hour, Metrics: prometheus.NewRegistry(), EventRecorder: eventrecorder.NopRecorder()})
	if err != nil {
		return nil, err
	}
	l, err := nflog.New(nflog.Options{Retention: time.Hour, Metrics: prometheus.NewRegistry()})
	if err != nil {
		return nil, err
	}
	s.SetBroadcast(p.AddState("sil", s, reg).Broadcast)
	l.SetBroadcast(p.AddState("nfl", l, reg).Broadcast)
	n := &node{peer: p, sil: s, nfl: l}
	if w.beforeJoin != nil {
		w.beforeJoin(n)
	}
	ri, rt := cluster.DefaultReconnectInterval, cluster.DefaultReconnectTimeout
	if !reconnect {
		ri, rt = 0, 0
	}
	if err := p.Join(ri, rt); err != nil {
		return nil, err
	}
	return n, nil
}

func memberNames(n *node) []string {
	var l []string
	for _, m := range n.peer.Peers() {
		l = append(l, m.Name())
	}
	sort.Strings(l)
	return l
}

// positions reports, per node, its name, its Position() and the sorted names of the members as that node sees them
// (read before and after Position(): the two readings must agree, "?" when the membership kept changing).
func (w *world) positions() string {
	var parts []string
	for _, m := range w.live() {
		pos, names := "?", []string(nil)
		for try := 0; try < 25; try++ {
			a := memberNames(m)
			p := m.peer.Position()
			names = memberNames(m)
			if strings.Join(a, ".") == strings.Join(names, ".") {
				pos = strconv.Itoa(p)
				break
			}
			time.Sleep(20 * time.Millisecond)
		}
		parts = append(parts, fmt.Sprintf("%s:%s:%s", m.peer.Name(), pos, strings.Join(names, ".")))
	}
	return strings.Join(parts, ",")
}

// restart crashes node i (no leave is announced) and starts a NEW instance (empty state) on the same address at once,
// configured with the peers `known` (nil: taken from the other nodes), under `name` ("" = random).
func (w *world) restart(i int, known []string, fromOthers bool, name string) (*node, string, error) {
	oldName := w.nodes[i].peer.Name()
	if !w.nodes[i].down {
		if err := w.nodes[i].peer.VerifCrash(); err != nil {
			return nil, oldName, err
		}
		w.nodes[i].down = true
	}
	addr := w.nodes[i].peer.Self().Address()
	var n *node
	var err error
	for attempt := 0; attempt < 100; attempt++ { // the port is free again a moment after the shutdown
		if fromOthers {
			n, err = w.newNode(addr, i, name)
		} else {
			n, err = w.mkNode(addr, known, name, true)
		}
		if err == nil {
			break
		}
		time.Sleep(50 * time.Millisecond)
	}
	if err != nil {
		return nil, oldName, err
	}
	w.nodes[i] = n
	return n, oldName, nil
}

// settled: every member lists exactly the live names (size right, the old name declared dead everywhere)
func (w *world) settled(oldName string) bool {
	ok := true
	for _, m := range w.live() {
		ok = ok && m.peer.ClusterSize() == len(w.live())
		for _, p := range m.peer.Peers() {
			ok = ok && p.Name() != oldName
		}
	}
	return ok
}

// holds counts the updates made so far that node n has.
func (w *world) holds(n *node) (have, want int) {
	for _, id := range w.sils {
		if n.hasSil(id) {
			have++
		}
	}
	for _, gk := range w.gkeys {
		if n.hasLog(gk) {
			have++
		}
	}
	return have, len(w.sils) + len(w.gkeys)
}

// appSetupOrder reads app/app.go of the tree under check: the gossip states ("nfl", "sil") are registered with the peer
// BEFORE the peer joins the mesh — memberlist's join does the first full-state exchange, and the delegate drops the
// parts of a state that is not registered yet.
func appSetupOrder() string {
	repo := os.Getenv("VERIF_REPO")
	if repo == "" {
		repo = "/repo"
	}
	fset := token.NewFileSet()
	f, err := parser.ParseFile(fset, filepath.Join(repo, "app", "app.go"), nil, 0)
	if err != nil {
		return "unreadable"
	}
	var addState, join []token.Pos
	ast.Inspect(f, func(n ast.Node) bool {
		if c, ok := n.(*ast.CallExpr); ok {
			if sel, ok := c.Fun.(*ast.SelectorExpr); ok {
				switch sel.Sel.Name {
				case "AddState":
					addState = append(addState, c.Pos())
				case "Join":
					if id, ok := sel.X.(*ast.Ident); ok && id.Name == "peer" {
						join = append(join, c.Pos())
					}
				}
			}
		}
		return true
	})
	if len(addState) < 2 || len(join) != 1 {
		return fmt.Sprintf("changed:addstate=%d,join=%d", len(addState), len(join))
	}
	for _, p := range addState {
		if p > join[0] {
			return "join-before-addstate"
		}
	}
	return "ok"
}

func (n *node) hasSil(id string) bool {
	s, _, err := n.sil.Query(context.Background(), silence.QIDs(id))
	return err == nil && len(s) == 1
}

func (n *node) hasLog(gk string) bool {
	es, err := n.nfl.Query(nflog.QGroupKey(gk), nflog.QReceiver(recv))
	return err == nil && len(es) == 1
}

var recv = &nflogpb.Receiver{GroupName: "r", Integration: "webhook", Idx: 0}

// waitAll polls until pred holds on every node or the settle time is over; returns how many nodes satisfy it.
func (w *world) waitAll(pred func(*node) bool) int {
	deadline := time.Now().Add(settle)
	for {
		c := 0
		for _, n := range w.live() {
			if pred(n) {
				c++
			}
		}
		if c == len(w.live()) || time.Now().After(deadline) {
			return c
		}
		time.Sleep(20 * time.Millisecond)
	}
}

// waitSpread waits for an update created on one node to be held by all.  Gossip is a randomised protocol over UDP, and a
// member that is briefly suspected (a starved machine) is skipped: an update that DID leave its origin (some other node holds
// it) but has not reached everybody within `settle` is given the time of one periodic full-state exchange, which is
// what repairs such a gap by design.  An update that no other node holds after `settle` never left the origin's queue:
// that is reported at once.
func (w *world) waitSpread(pred func(*node) bool) int {
	c := w.waitAll(pred)
	if all := len(w.live()); c < all && c > 1 {
		deadline := time.Now().Add(cluster.DefaultPushPullInterval + 15*time.Second)
		for c < all && time.Now().Before(deadline) {
			time.Sleep(100 * time.Millisecond)
			c = 0
			for _, n := range w.live() {
				if pred(n) {
					c++
				}
			}
		}
	}
	return c
}

// seen renders what an update op observed.  The statements are about CONNECTED instances: when fewer than all nodes hold the
// update and, at that moment, some live node does not see every live node as a member (memberlist declared one dead — a starved
// machine — and has not re-joined it yet), the observation says so (` split`) and the driver does not judge it.
func (w *world) seen(c int) string {
	out := fmt.Sprintf("seen=%d/%d", c, len(w.live()))
	if c < len(w.live()) {
		for _, m := range w.live() {
			if m.peer.ClusterSize() != len(w.live()) {
				return out + " split"
			}
		}
	}
	return out
}

func (w *world) exec(line string) string {
	t := strings.Fields(line)
	switch t[0] {
	case "sil":
		i, _ := strconv.Atoi(t[1])
		clen := 10
		if t[2] == "big" {
			clen = 900
		}
		now := time.Now()
		s := &pb.Silence{
			MatcherSets: []*pb.MatcherSet{{Matchers: []*pb.Matcher{{Type: pb.Matcher_EQUAL, Name: "job", Pattern: "x"}}}},
			StartsAt:    timestamppb.New(now), EndsAt: timestamppb.New(now.Add(time.Hour)),
			Comment: strings.Repeat("c", clen), CreatedBy: "verif",
		}
		if err := w.nodes[i].sil.Set(context.Background(), s); err != nil {
			return "error:" + hx.Hex(err.Error())
		}
		w.sils = append(w.sils, s.Id)
		// an oversized update is sent reliably to every member, at once: nothing random to wait out
		wait := w.waitSpread
		if t[2] == "big" {
			wait = w.waitAll
		}
		c := wait(func(n *node) bool { return n.hasSil(s.Id) })
		return w.seen(c)
	case "nfl":
		i, _ := strconv.Atoi(t[1])
		nf := 2
		if t[2] == "big" {
			nf = 300
		}
		firing := make([]uint64, nf)
		for j := range firing {
			firing[j] = uint64(1<<40 + j)
		}
		gk := fmt.Sprintf("gk%d", len(w.gkeys))
		if err := w.nodes[i].nfl.Log(recv, gk, firing, nil, nil, 0); err != nil {
			return "error:" + hx.Hex(err.Error())
		}
		w.gkeys = append(w.gkeys, gk)
		wait := w.waitSpread
		if t[2] == "big" {
			wait = w.waitAll
		}
		c := wait(func(n *node) bool { return n.hasLog(gk) })
		return w.seen(c)
	case "fact":
		return appSetupOrder()
	case "prejoin":
		// a new instance that already has updates queued for gossip when it joins (they were made between start-up and
		// the join): a big one, so that its full state is not relayed by the member it joins through, and a small one
		// that only its own gossip queue carries to the other members
		var small string
		w.beforeJoin = func(n *node) {
			now := time.Now()
			mk := func(clen int) *pb.Silence {
				return &pb.Silence{
					MatcherSets: []*pb.MatcherSet{{Matchers: []*pb.Matcher{{Type: pb.Matcher_EQUAL, Name: "job", Pattern: "pre"}}}},
					StartsAt:    timestamppb.New(now), EndsAt: timestamppb.New(now.Add(time.Hour)),
					Comment: strings.Repeat("p", clen), CreatedBy: "verif",
				}
			}
			big, sm := mk(1200), mk(10)
			if err := n.sil.Set(context.Background(), big); err != nil {
				panic(err)
			}
			if err := n.sil.Set(context.Background(), sm); err != nil {
				panic(err)
			}
			small = sm.Id
		}
		_, err := w.addNode()
		w.beforeJoin = nil
		if err != nil {
			return "error:" + hx.Hex(err.Error())
		}
		deadline := time.Now().Add(settle)
		for time.Now().Before(deadline) {
			ok := true
			for _, m := range w.nodes {
				ok = ok && m.peer.ClusterSize() == len(w.nodes)
			}
			if ok {
				break
			}
			time.Sleep(20 * time.Millisecond)
		}
		w.sils = append(w.sils, small)
		c := w.waitSpread(func(n *node) bool { return n.hasSil(small) })
		return w.seen(c)
	case "burst":
		// n small silences and n small log entries are created back-to-back on node i (no waiting in between: all of them
		// are queued for gossip within one gossip interval), then every node must come to hold all of them.  The settle
		// time is far shorter than the push/pull interval (60 s): gossip has to deliver them.
		i, _ := strconv.Atoi(t[1])
		k, _ := strconv.Atoi(t[2])
		var ids, gks []string
		now := time.Now()
		for j := range k {
			s := &pb.Silence{
				MatcherSets: []*pb.MatcherSet{{Matchers: []*pb.Matcher{{Type: pb.Matcher_EQUAL, Name: "job", Pattern: fmt.Sprintf("b%d", j)}}}},
				StartsAt:    timestamppb.New(now), EndsAt: timestamppb.New(now.Add(time.Hour)),
				Comment: "burst", CreatedBy: "verif",
			}
			if err := w.nodes[i].sil.Set(context.Background(), s); err != nil {
				return "error:" + hx.Hex(err.Error())
			}
			ids = append(ids, s.Id)
			gk := fmt.Sprintf("gk%d", len(w.gkeys)+len(gks))
			if err := w.nodes[i].nfl.Log(recv, gk, []uint64{1<<40 + uint64(j)}, nil, nil, 0); err != nil {
				return "error:" + hx.Hex(err.Error())
			}
			gks = append(gks, gk)
		}
		w.sils = append(w.sils, ids...)
		w.gkeys = append(w.gkeys, gks...)
		c := w.waitSpread(func(n *node) bool {
			for _, id := range ids {
				if !n.hasSil(id) {
					return false
				}
			}
			for _, gk := range gks {
				if !n.hasLog(gk) {
					return false
				}
			}
			return true
		})
		return w.seen(c)
	case "rejoin":
		// node i is killed (no leave is announced) and a NEW instance (new name, empty state) starts on the same
		// address at once, as a restarted process does; the others learn of the new name by gossip and of the old name's
		// death by probing, in either order.  `rejoin <i> first`: the new name sorts before every other member's
		// (--cluster.peer-name; random names are ULIDs, i.e. ordered by start time); default: a random name.
		i, _ := strconv.Atoi(t[1])
		name := ""
		if len(t) > 2 && t[2] == "first" {
			w.restarts++
			name = fmt.Sprintf("00RESTARTED%02d", w.restarts)
		}
		n, oldName, err := w.restart(i, nil, true, name)
		if err != nil {
			return "error:" + hx.Hex(err.Error())
		}
		// until every member lists exactly the live names (the old name has been declared dead everywhere)
		deadline := time.Now().Add(40 * time.Second)
		for time.Now().Before(deadline) && !w.settled(oldName) {
			time.Sleep(50 * time.Millisecond)
		}
		// the restarted instance obtains the current state through the full-state exchange
		dl := time.Now().Add(settle)
		for {
			have, want := w.holds(n)
			if have == want || time.Now().After(dl) {
				return fmt.Sprintf("has=%d/%d members=%d pos=%s", have, want, n.peer.ClusterSize(), w.positions())
			}
			time.Sleep(20 * time.Millisecond)
		}
	case "solo":
		// an instance configured with no peers at all (others dial it)
		n, err := w.mkNode("127.0.0.1:0", nil, "", true)
		if err != nil {
			return "error:" + hx.Hex(err.Error())
		}
		w.nodes = append(w.nodes, n)
		return "ok"
	case "dialer":
		// an instance whose only configured peer is node j, with reconnect disabled (--cluster.reconnect-interval=0):
		// the periodic refresh of the configured peers is what dials j when j is not a member
		j, _ := strconv.Atoi(t[1])
		n, err := w.mkNode("127.0.0.1:0", []string{w.nodes[j].peer.Self().Address()}, "", false)
		if err != nil {
			return "error:" + hx.Hex(err.Error())
		}
		w.nodes = append(w.nodes, n)
		deadline := time.Now().Add(settle)
		for time.Now().Before(deadline) && !w.settled("") {
			time.Sleep(20 * time.Millisecond)
		}
		return fmt.Sprintf("members=%d", n.peer.ClusterSize())
	case "crash":
		// node i is killed (no leave is announced); until the others have declared it dead
		i, _ := strconv.Atoi(t[1])
		if err := w.nodes[i].peer.VerifCrash(); err != nil {
			return "error:" + hx.Hex(err.Error())
		}
		w.nodes[i].down = true
		deadline := time.Now().Add(40 * time.Second)
		for time.Now().Before(deadline) && !w.settled("") {
			time.Sleep(50 * time.Millisecond)
		}
		k := 0
		for _, m := range w.live() {
			k = max(k, m.peer.ClusterSize())
		}
		return fmt.Sprintf("members=%d", k)
	case "revive":
		// a new instance starts on the address of the crashed node i, again configured with no peers (nobody but the
		// dialer knows of that address, and the new instance knows of nobody): nothing on its side points at the
		// cluster, the dialer's refresh has to join it again (bounded: two refresh intervals and a margin), then the
		// new instance holds everything, the updates made while it was away included
		i, _ := strconv.Atoi(t[1])
		n, oldName, err := w.restart(i, nil, false, "")
		if err != nil {
			return "error:" + hx.Hex(err.Error())
		}
		deadline := time.Now().Add(2*cluster.DefaultRefreshInterval + 8*time.Second)
		for {
			have, want := w.holds(n)
			if (have == want && w.settled(oldName)) || time.Now().After(deadline) {
				return fmt.Sprintf("has=%d/%d members=%d pos=%s", have, want, n.peer.ClusterSize(), w.positions())
			}
			time.Sleep(50 * time.Millisecond)
		}
	case "join":
		n, err := w.addNode()
		if err != nil {
			return "error:" + hx.Hex(err.Error())
		}
		want := len(w.sils) + len(w.gkeys)
		deadline := time.Now().Add(settle)
		// "live peer" = every node knows every other: an oversized update is sent once, to the members
		// the sender knows at that moment (a member it has not learnt of yet is served by the next push/pull)
		for time.Now().Before(deadline) {
			ok := true
			for _, m := range w.nodes {
				ok = ok && m.peer.ClusterSize() == len(w.nodes)
			}
			if ok {
				break
			}
			time.Sleep(20 * time.Millisecond)
		}
		for {
			have := 0
			for _, id := range w.sils {
				if n.hasSil(id) {
					have++
				}
			}
			for _, gk := range w.gkeys {
				if n.hasLog(gk) {
					have++
				}
			}
			if have == want || time.Now().After(deadline) {
				return fmt.Sprintf("has=%d/%d members=%d", have, want, n.peer.ClusterSize())
			}
			time.Sleep(20 * time.Millisecond)
		}
	}
	panic("bad op " + line)
}

// liner receives the trace lines of a case (the trace itself, or a buffer for a case that runs beside the others)
type liner interface{ Linef(format string, a ...any) }

type lineBuf struct{ lines []string }

func (b *lineBuf) Linef(format string, a ...any) { b.lines = append(b.lines, fmt.Sprintf(format, a...)) }

// redialOps: only A (node 1) is configured with B (node 0) as its peer, B with nobody; B is killed, A declares it dead
// and takes updates meanwhile; then a new B starts on the same address, again knowing nobody.  A's periodic refresh of
// its configured peers must join B again (reconnect is disabled on A), B then obtains the state through the full-state
// exchange and updates flow both ways.  (A B that restarts at once, while A's membership broadcasts are still queued,
// is picked up by memberlist's gossip alone: the case needs the old instance to be known dead.)
var redialOps = []string{"solo", "dialer 0", "sil 1 small", "nfl 0 small", "crash 0", "sil 1 small", "nfl 1 big", "revive 0", "sil 1 small", "sil 0 big", "nfl 0 small", "nfl 1 big"}

func runCase(t *testing.T, tr liner, header string, ops []string) {
	tr.Linef("%s", header)
	w := &world{}
	n0 := 2
	for _, f := range strings.Fields(header) {
		if v, ok := strings.CutPrefix(f, "n="); ok {
			n0, _ = strconv.Atoi(v)
		}
	}
	for range n0 {
		if _, err := w.addNode(); err != nil {
			t.Fatalf("cannot create loopback peer: %v", err)
		}
	}
	// wait for the membership to be complete before the first update
	deadline := time.Now().Add(settle)
	for time.Now().Before(deadline) {
		ok := true
		for _, n := range w.nodes {
			ok = ok && n.peer.ClusterSize() == n0
		}
		if ok {
			break
		}
		time.Sleep(20 * time.Millisecond)
	}
	defer func() {
		for _, n := range w.live() {
			n.peer.Leave(100 * time.Millisecond)
		}
	}()
	for _, l := range ops {
		tr.Linef("%s -> %s", l, w.exec(l))
	}
}

func TestEngine(t *testing.T) {
	tr := hx.Open()
	defer tr.Close()
	if s := hx.Script(); s != nil {
		var header string
		var ops []string
		flush := func() {
			if header != "" {
				runCase(t, tr, header, ops)
			}
			header, ops = "", nil
		}
		for _, l := range s {
			if strings.HasPrefix(l, "case ") {
				flush()
				header = l
			} else {
				ops = append(ops, l)
			}
		}
		flush()
		return
	}
	// the re-dial case waits for real refresh intervals (15 s each, not configurable): it runs beside the other cases
	// (its own peers on their own loopback ports) and its lines are written after theirs
	side := &lineBuf{}
	sideDone := make(chan struct{})
	go func() {
		defer close(sideDone)
		runCase(t, side, "case 1000 n=0 kind=redial", redialOps)
	}()
	defer func() {
		<-sideDone
		for _, l := range side.lines {
			tr.Linef("%s", l)
		}
	}()
	r := hx.Rand(192)
	for id := range hx.Cases(2, 14) {
		n := 2 + id%2
		var ops []string
		for range 3 + r.IntN(3) {
			kind := []string{"sil", "nfl"}[r.IntN(2)]
			size := []string{"small", "big"}[r.IntN(2)]
			ops = append(ops, fmt.Sprintf("%s %d %s", kind, r.IntN(n), size))
		}
		// several small updates of one state queued within one gossip interval
		ops = append(ops, fmt.Sprintf("burst %d %d", r.IntN(n), 2+r.IntN(4)))
		if id == 0 {
			ops = append(ops, "fact app-setup")
		}
		// one more member (a plain late joiner, or — odd cases — one that has an update queued before it joins); clusters stay at
		// four members or fewer, where every gossip round of a member reaches all the others (GossipNodes = 3): what is observed
		// within `settle` does not depend on memberlist's random choice of gossip targets
		if id%2 == 1 && n >= 3 {
			ops = append(ops, "prejoin")
		} else {
			ops = append(ops, "join")
			if id%2 == 1 {
				ops = append(ops, "prejoin")
			}
		}
		ops = append(ops, fmt.Sprintf("sil %d big", r.IntN(n+1)), fmt.Sprintf("nfl %d small", r.IntN(n+1)))
		ops = append(ops, fmt.Sprintf("burst %d %d", r.IntN(n+1), 2+r.IntN(4)))
		if id%2 == 0 {
			// a member crashes and restarts on its address under a new name; afterwards updates of both sizes from a
			// surviving member must reach it
			k := 1 + r.IntN(n)
			rj := fmt.Sprintf("rejoin %d", k)
			if id%4 == 0 { // the restarted instance's name sorts first: the survivors move back one position
				rj += " first"
			}
			ops = append(ops, rj, "sil 0 big", "nfl 0 big", "sil 0 small", fmt.Sprintf("sil %d big", k))
		}
		runCase(t, tr, fmt.Sprintf("case %d n=%d", id, n), ops)
	}
}
