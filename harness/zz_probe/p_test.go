package zz

import (
	"fmt"
	"testing"
	"time"

	"github.com/prometheus/alertmanager/timeinterval"
	"gopkg.in/yaml.v2"
)

func TestP(t *testing.T) {
	for _, z := range []string{"Pacific/Kiritimati", "Pacific/Apia", "Pacific/Kwajalein", "Pacific/Fakaofo", "Pacific/Kanton"} {
		loc, err := time.LoadLocation(z)
		if err != nil {
			fmt.Println(z, err)
			continue
		}
		for _, ym := range [][2]int{{1994, 12}, {2011, 12}, {1993, 8}} {
			tt := time.Date(ym[0], time.Month(ym[1]), 15, 10, 0, 0, 0, loc)
			d := time.Date(tt.Year(), tt.Month()+1, 0, 12, 0, 0, 0, tt.Location())
			fmt.Println(z, ym, "dim=", d.Day(), d)
		}
	}
	var ti timeinterval.TimeInterval
	yaml.UnmarshalStrict([]byte("days_of_month: ['15']\nlocation: 'Pacific/Kiritimati'\n"), &ti)
	loc, _ := time.LoadLocation("Pacific/Kiritimati")
	tt := time.Date(1994, 12, 15, 10, 0, 0, 0, loc)
	fmt.Println(tt, ti.ContainsTime(tt.UTC()))
	yaml.UnmarshalStrict([]byte("days_of_month: ['-1']\nlocation: 'Pacific/Kiritimati'\n"), &ti)
	tt = time.Date(1994, 12, 30, 10, 0, 0, 0, loc)
	fmt.Println(tt, ti.ContainsTime(tt.UTC()))
}
