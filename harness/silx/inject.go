package silx

// Interleaving seam for Silencer.Mutes, without source hooks.
//
// Silences.Query starts an OpenTelemetry span ("silence.Silences.Query")
// before it takes the store lock, and Mutes holds no lock while it calls
// Query.  The silence package's tracer forwards to the global tracer provider
// once tracing has been enabled through tracing.Manager.ApplyConfig (there is
// no other switch for tracing.tracingEnabled).  EnableInjection enables
// tracing once per process (outside any synctest bubble: the OTLP batcher
// goroutine the manager creates must not belong to a bubble; it never
// receives a span) and then installs its own provider, whose sampler drops
// everything unless a Mutes call is armed and whose span processor runs the
// armed callback at the start and at the end of the n-th Query span of that
// call ("q1", "q2"; "e1", "e2": Query has returned, the lock is released).  A
// further point, "w", is the debug log line "determined current silences
// state" that Mutes emits between its last query and the cache write
// (WLogger).
//
// The callbacks run on the goroutine of the Mutes call itself: the resulting
// schedule is exactly "store operation X completed between two steps of
// Mutes", which is what a concurrent API request or gossip merge can do.

import (
	"context"
	"log/slog"
	"sync"

	"github.com/prometheus/common/promslog"
	"go.opentelemetry.io/otel"
	sdktrace "go.opentelemetry.io/otel/sdk/trace"
	"go.opentelemetry.io/otel/trace"

	"github.com/prometheus/alertmanager/tracing"
)

const querySpan = "silence.Silences.Query"
const wLogLine = "determined current silences state"

type injector struct {
	armed  bool
	inHook bool
	nq     int
	fn     func(point string)
}

var inj injector

// sampler: record only while armed (keeps the un-armed cost of enabled tracing negligible).
type armedSampler struct{}

func (armedSampler) ShouldSample(p sdktrace.SamplingParameters) sdktrace.SamplingResult {
	d := sdktrace.Drop
	if inj.armed && !inj.inHook {
		d = sdktrace.RecordAndSample
	}
	return sdktrace.SamplingResult{Decision: d, Tracestate: trace.SpanContextFromContext(p.ParentContext).TraceState()}
}
func (armedSampler) Description() string { return "armed" }

type hookProcessor struct{}

func (hookProcessor) OnStart(_ context.Context, s sdktrace.ReadWriteSpan) {
	if !inj.armed || inj.inHook || s.Name() != querySpan {
		return
	}
	inj.nq++
	inj.fire("q" + string(rune('0'+inj.nq)))
}
func (hookProcessor) OnEnd(s sdktrace.ReadOnlySpan) {
	// the span ends when Query returns: the store lock has been released
	if !inj.armed || inj.inHook || s.Name() != querySpan {
		return
	}
	inj.fire("e" + string(rune('0'+inj.nq)))
}
func (hookProcessor) Shutdown(context.Context) error   { return nil }
func (hookProcessor) ForceFlush(context.Context) error { return nil }

func (i *injector) fire(point string) {
	if i.fn == nil {
		return
	}
	i.inHook = true
	defer func() { i.inHook = false }()
	i.fn(point)
}

var enableOnce sync.Once

// EnableInjection must be called outside a synctest bubble, before the first armed call.
func EnableInjection() {
	enableOnce.Do(func() {
		m := tracing.NewManager(promslog.NewNopLogger())
		if err := m.ApplyConfig(tracing.TracingConfig{ClientType: tracing.TracingClientHTTP, Endpoint: "127.0.0.1:9", Insecure: true}); err != nil {
			panic(err)
		}
		otel.SetTracerProvider(sdktrace.NewTracerProvider(
			sdktrace.WithSampler(armedSampler{}),
			sdktrace.WithSpanProcessor(hookProcessor{}),
		))
	})
}

// WithInjection runs call() with fn armed: fn(point) is invoked at "q1", "q2" (start of the
// first / second Silences.Query inside call), "e1", "e2" (their end) and "w" (WLogger's line).  Nested spans and log
// lines produced by fn itself are ignored.
func WithInjection(fn func(point string), call func()) {
	inj = injector{armed: true, fn: fn}
	defer func() { inj = injector{} }()
	call()
}

// WLogger is the logger handed to silence.NewSilencer: it discards everything and fires point "w".
func WLogger() *slog.Logger { return slog.New(wHandler{}) }

type wHandler struct{}

func (wHandler) Enabled(context.Context, slog.Level) bool { return inj.armed && !inj.inHook }
func (wHandler) Handle(_ context.Context, r slog.Record) error {
	if inj.armed && !inj.inHook && r.Message == wLogLine {
		inj.fire("w")
	}
	return nil
}
func (h wHandler) WithAttrs([]slog.Attr) slog.Handler { return h }
func (h wHandler) WithGroup(string) slog.Handler      { return h }
