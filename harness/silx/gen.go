package silx

import (
	"fmt"
	"math/rand/v2"
	"os"
	"strings"
	"time"

	"verif/harness/hx"
)

// Grid is the spacing of generated instants: boundaries and ties are frequent by construction.
const Grid = int64(time.Second)

// Catalog of matcher sets: all four operators, two OR-ed sets, a UTF-8 name.
// Regexes stay inside the fragment the Lean driver executes
// (alternatives of literal | .* | .+ | lit.* | .*lit).
var Catalog = [][][]Matcher{
	{{{'e', "a", "1"}}},
	{{{'r', "b", "x|y"}}},
	{{{'n', "a", "1"}, {'e', "c", "z"}}},
	{{{'x', "b", "x.*"}, {'r', "a", ".+"}}},
	{{{'e', "a", "1"}}, {{'e', "c", "z"}}},
	{{{'e', "naïve·name", "ü"}}},
	{{{'r', "c", ".*z"}, {'n', "b", ""}}},
	{{{'e', "a", "1"}, {'e', "b", "x"}}},
	{{{'r', "b", "x|y"}, {'e', "c", "z"}}},
	// pairs of matchers whose texts coincide when name, operator and pattern are simply concatenated
	// ("a" "=" "~1" / "a" "=~" "1"; "a=" "=" "1" / "a" "=" "=1"): distinct matchers all the same, alone and
	// side by side in one silence (anything keyed by such a text is shared process-wide, so both members
	// of a pair have to occur within one engine run - the two-set entries make that certain within one case)
	{{{'e', "a", "~1"}}},
	{{{'r', "a", "1"}}},
	{{{'e', "a", "~1"}}, {{'r', "a", "1"}}},
	{{{'e', "a=", "1"}}, {{'e', "a", "=1"}}},
}

// Panel of label sets.
var Panel = []map[string]string{
	{"a": "1"},
	{"a": "2", "c": "z"},
	{"b": "x"},
	{"a": "1", "b": "xy"},
	{"c": "z"},
	{},
	{"naïve·name": "ü"},
	{"a": "1", "b": "y", "c": "zz"},
	{"a": "1", "b": "x"},
	{"a": "2", "b": "x", "c": "z"},
	{"a": "~1"},
	{"a=": "1"},
	// values with a line feed: `.` does not match it (no (?s) flag), so x.* / .*z / .+ do not hold for these
	{"a": "1", "b": "x\ny"},
	{"a": "\n", "c": "\nz"},
}

func PanelTok(r *rand.Rand) string { return "L" + LsStr(hx.Pick(r, Panel)) }

func AllPanel() []string {
	out := make([]string, len(Panel))
	for i, p := range Panel {
		out[i] = "L" + LsStr(p)
	}
	return out
}

var comments = []string{"-", "c1", "c2", "maint", "x9"}

func Comment(r *rand.Rand) string { return hx.Pick(r, comments) }

// ParseHeader reads k=v tokens of a case line.
func ParseHeader(h string) map[string]string {
	out := map[string]string{}
	for _, f := range strings.Fields(h) {
		if i := strings.Index(f, "="); i > 0 {
			out[f[:i]] = f[i+1:]
		}
	}
	return out
}

func HInt(h map[string]string, k string, d int64) int64 {
	if v, ok := h[k]; ok {
		return hx.Atoi64(v)
	}
	return d
}

// SplitCases groups script lines into cases.
func SplitCases(s []string) [][]string {
	var out [][]string
	var cur []string
	for _, l := range s {
		if strings.HasPrefix(l, "case ") {
			if cur != nil {
				out = append(out, cur)
			}
			cur = []string{l}
		} else if cur != nil {
			cur = append(cur, l)
		}
	}
	if cur != nil {
		out = append(out, cur)
	}
	return out
}

// SetLine renders a set/post op.
func SetLine(kind string, i int, now int64, id, start, end, comment string, sets [][]Matcher, big bool) string {
	b := "0"
	if big {
		b = "1"
	}
	return fmt.Sprintf("%s %d %d %s %s %s %s %s %s", kind, i, now, id, start, end, comment, SetsStr(sets), b)
}

func I64(v int64) string { return fmt.Sprintf("%d", v) }

// FixFlag is the indexing discipline the model is asked to follow: "1" (default)
// = the repaired Merge of fixes/F1.diff, "0" = the pinned tree (VERIF_F1FIX=0).
func FixFlag() string {
	if os.Getenv("VERIF_F1FIX") == "0" {
		return "0"
	}
	return "1"
}
