package silx

// Minimal variations of matcher sets (for edits of an existing silence id: every
// one of them must make the edit "incompatible": new id, old one expired) and an
// evaluation of matcher sets that is independent of the implementation's
// compiled-matcher index (pkg/labels matchers compiled here, from the values
// read back from the implementation), used to choose label sets on both sides
// of a variation.

import (
	"math/rand/v2"

	"github.com/prometheus/common/model"

	"github.com/prometheus/alertmanager/pkg/labels"
)

var opToLabels = map[byte]labels.MatchType{'e': labels.MatchEqual, 'n': labels.MatchNotEqual, 'r': labels.MatchRegexp, 'x': labels.MatchNotRegexp}

// MatchSets compiles the matcher sets from scratch and evaluates them (OR over sets, AND inside);
// ok=false when a pattern does not compile.
func MatchSets(sets [][]Matcher, ls map[string]string) (res, ok bool) {
	lset := model.LabelSet{}
	for k, v := range ls {
		lset[model.LabelName(k)] = model.LabelValue(v)
	}
	for _, set := range sets {
		all := true
		for _, m := range set {
			cm, err := labels.NewMatcher(opToLabels[m.Op], m.Name, m.Pattern)
			if err != nil {
				return false, false
			}
			if !cm.Matches(string(lset[model.LabelName(m.Name)])) {
				all = false
			}
		}
		if all {
			res = true
		}
	}
	return res, true
}

// the label-value domain the catalog, the variations and the panels draw from
var domain = map[string][]string{
	"a": {"", "1", "2"},
	"b": {"", "x", "y", "xy"},
	"c": {"", "z", "zz"},
}

// Domain enumerates every label set over the domain (36) plus the UTF-8 one and the values / names of the
// look-alike matcher pairs of the catalog.
func Domain() []map[string]string {
	out := []map[string]string{{"naïve·name": "ü"}, {"a": "~1"}, {"a": "=1"}, {"a=": "1"}, {"a": "~1", "b": "x"}}
	for _, a := range domain["a"] {
		for _, b := range domain["b"] {
			for _, c := range domain["c"] {
				ls := map[string]string{}
				if a != "" {
					ls["a"] = a
				}
				if b != "" {
					ls["b"] = b
				}
				if c != "" {
					ls["c"] = c
				}
				out = append(out, ls)
			}
		}
	}
	return out
}

// Discriminators returns the label sets of the domain on which the two matcher-set lists disagree.
func Discriminators(a, b [][]Matcher) []map[string]string {
	var out []map[string]string
	for _, ls := range Domain() {
		x, ok1 := MatchSets(a, ls)
		y, ok2 := MatchSets(b, ls)
		if ok1 && ok2 && x != y {
			out = append(out, ls)
		}
	}
	return out
}

// BothSides returns, for one matcher of sets chosen at random, a random domain label set on which
// that single matcher holds and one on which it does not (when the domain has them).
func BothSides(r *rand.Rand, sets [][]Matcher) []map[string]string {
	if len(sets) == 0 {
		return nil
	}
	set := sets[r.IntN(len(sets))]
	if len(set) == 0 {
		return nil
	}
	m := set[r.IntN(len(set))]
	var yes, no []map[string]string
	for _, ls := range Domain() {
		res, ok := MatchSets([][]Matcher{{m}}, ls)
		if !ok {
			continue
		}
		if res {
			yes = append(yes, ls)
		} else {
			no = append(no, ls)
		}
	}
	var out []map[string]string
	if len(yes) > 0 {
		out = append(out, yes[r.IntN(len(yes))])
	}
	if len(no) > 0 {
		out = append(out, no[r.IntN(len(no))])
	}
	return out
}

func cloneSets(s [][]Matcher) [][]Matcher {
	out := make([][]Matcher, len(s))
	for i := range s {
		out[i] = append([]Matcher(nil), s[i]...)
	}
	return out
}

var flipOp = map[byte][]byte{'e': {'n', 'r', 'x'}, 'n': {'e', 'x', 'r'}, 'r': {'x', 'e', 'n'}, 'x': {'r', 'n', 'e'}}
var otherName = map[string]string{"a": "c", "b": "a", "c": "b", "naïve·name": "a", "a=": "a"}
var otherValue = map[string]string{"1": "2", "2": "1", "x": "y", "y": "x", "z": "zz", "zz": "z", "x|y": "x|xy", "x.*": "y.*", ".+": "1", ".*z": ".*zz", "ü": "u", "": "x", "~1": "1", "=1": "1"}
var extraMatchers = []Matcher{{'e', "c", "z"}, {'e', "b", "x"}, {'n', "a", "2"}, {'r', "b", "x.*"}, {'e', "a", "1"}}

// VaryKinds lists the minimal variations Vary can produce.
var VaryKinds = []string{"type", "value", "name", "add-matcher", "drop-matcher", "reorder-matchers", "add-set", "drop-set", "reorder-sets"}

// Vary returns matcher sets that differ from sets in exactly one component, and the kind of
// difference ("" and the input itself when the chosen kind does not apply to sets).
func Vary(r *rand.Rand, sets [][]Matcher, kind string) ([][]Matcher, string) {
	if len(sets) == 0 {
		return sets, ""
	}
	out := cloneSets(sets)
	si := r.IntN(len(out))
	if len(out[si]) == 0 {
		return sets, ""
	}
	mi := r.IntN(len(out[si]))
	m := &out[si][mi]
	switch kind {
	case "type":
		m.Op = flipOp[m.Op][r.IntN(3)]
	case "value":
		v, ok := otherValue[m.Pattern]
		if !ok {
			return sets, ""
		}
		m.Pattern = v
	case "name":
		m.Name = otherName[m.Name]
	case "add-matcher":
		x := extraMatchers[r.IntN(len(extraMatchers))]
		for _, y := range out[si] {
			if y == x {
				return sets, ""
			}
		}
		out[si] = append(out[si], x)
	case "drop-matcher":
		if len(out[si]) < 2 {
			return sets, ""
		}
		out[si] = append(out[si][:mi:mi], out[si][mi+1:]...)
	case "reorder-matchers":
		if len(out[si]) < 2 || out[si][0] == out[si][1] {
			return sets, ""
		}
		out[si][0], out[si][1] = out[si][1], out[si][0]
	case "add-set":
		x := extraMatchers[r.IntN(len(extraMatchers))]
		out = append(out, []Matcher{x})
	case "drop-set":
		if len(out) < 2 {
			return sets, ""
		}
		out = append(out[:si:si], out[si+1:]...)
	case "reorder-sets":
		if len(out) < 2 {
			return sets, ""
		}
		out[0], out[1] = out[1], out[0]
	default:
		return sets, ""
	}
	if SetsStr(out) == SetsStr(sets) {
		return sets, ""
	}
	return out, kind
}

// SetsValid mirrors validateSilence on the matcher part: at least one set, no empty set, and in
// every set a matcher that does not match the empty string (names/patterns of the generators are valid).
func SetsValid(sets [][]Matcher) bool {
	if len(sets) == 0 {
		return false
	}
	for _, set := range sets {
		if len(set) == 0 {
			return false
		}
		allEmpty := true
		for _, m := range set {
			r, ok := MatchSets([][]Matcher{{m}}, nil)
			if !ok {
				return false
			}
			if !r {
				allEmpty = false
			}
		}
		if allEmpty {
			return false
		}
	}
	return true
}

// VaryAny tries random kinds until one applies (mostly keeping the sets valid: an invalid edit is
// rejected before canUpdate is reached).
func VaryAny(r *rand.Rand, sets [][]Matcher) ([][]Matcher, string) {
	for range 12 {
		out, k := Vary(r, sets, VaryKinds[r.IntN(len(VaryKinds))])
		if k != "" && (SetsValid(out) || r.IntN(8) == 0) {
			return out, k
		}
	}
	return sets, ""
}
