// Package silx is shared by the engines of work area Silence (silmerge,
// sillife, silencer): token codec for silences, instances of the real
// silence.Silences / silence.Silencer / api/v2 handlers, and the executor of
// the common op lines.
//
// Ids: uuids drawn by Silences.Set are random, so everything written to the
// trace uses aliases u1, u2, … (in order of first appearance); scripts refer
// to aliases and the executor translates back.
package silx

import (
	"bytes"
	"context"
	"encoding/json"
	"fmt"
	"net/http"
	"net/http/httptest"
	"os"
	"path/filepath"
	"sort"
	"strconv"
	"strings"
	"testing/synctest"
	"time"

	"github.com/go-openapi/strfmt"
	"github.com/prometheus/client_golang/prometheus"
	"github.com/prometheus/common/model"
	"github.com/prometheus/common/promslog"
	"google.golang.org/protobuf/encoding/protodelim"
	"google.golang.org/protobuf/types/known/timestamppb"

	apiv2 "github.com/prometheus/alertmanager/api/v2"
	open_api_models "github.com/prometheus/alertmanager/api/v2/models"
	"github.com/prometheus/alertmanager/cluster"
	"github.com/prometheus/alertmanager/eventrecorder"
	"github.com/prometheus/alertmanager/featurecontrol"
	"github.com/prometheus/alertmanager/marker"
	"github.com/prometheus/alertmanager/matcher/compat"
	"github.com/prometheus/alertmanager/silence"
	pb "github.com/prometheus/alertmanager/silence/silencepb"

	"verif/harness/hx"
)

func init() {
	// UTF-8 label names (the default of the binary: fallback parser, UTF-8 validation).
	compat.InitFromFlags(promslog.NewNopLogger(), featurecontrol.NoopFlags{})
}

// ---- values ----

type Matcher struct {
	Op            byte // e n r x
	Name, Pattern string
}

type Sil struct {
	ID                  string // alias
	Sets                [][]Matcher
	Start, End, Updated int64
	NoStart, NoEnd      bool // nil timestamps (inputs only)
	Comment             string
}

type Mesh struct {
	Sil
	Exp int64
}

func SetsStr(sets [][]Matcher) string {
	if len(sets) == 0 {
		return "-"
	}
	ss := make([]string, len(sets))
	for i, s := range sets {
		if len(s) == 0 {
			ss[i] = "_"
			continue
		}
		ms := make([]string, len(s))
		for j, m := range s {
			ms[j] = fmt.Sprintf("%c:%s:%s", m.Op, hx.Hex(m.Name), hx.Hex(m.Pattern))
		}
		ss[i] = strings.Join(ms, "+")
	}
	return strings.Join(ss, "|")
}

func ParseSets(s string) [][]Matcher {
	if s == "-" {
		return nil
	}
	var out [][]Matcher
	for _, st := range strings.Split(s, "|") {
		if st == "_" {
			out = append(out, []Matcher{})
			continue
		}
		var ms []Matcher
		for _, m := range strings.Split(st, "+") {
			p := strings.Split(m, ":")
			ms = append(ms, Matcher{Op: p[0][0], Name: hx.Unhex(p[1]), Pattern: hx.Unhex(p[2])})
		}
		out = append(out, ms)
	}
	return out
}

func cmt(s string) string {
	if s == "" {
		return "-"
	}
	return s
}

func uncmt(s string) string {
	if s == "-" {
		return ""
	}
	if strings.HasPrefix(s, "BIG") { // BIG<n>: n bytes of comment
		n, _ := strconv.Atoi(s[3:])
		return strings.Repeat("x", n)
	}
	return s
}

func shortCmt(s string) string {
	if len(s) > 64 && strings.Trim(s, "x") == "" {
		return fmt.Sprintf("BIG%d", len(s))
	}
	return cmt(s)
}

// id,start,end,updated,comment,sets
func (s Sil) String() string {
	return fmt.Sprintf("%s,%d,%d,%d,%s,%s", s.ID, s.Start, s.End, s.Updated, shortCmt(s.Comment), SetsStr(s.Sets))
}

func (m Mesh) String() string { return fmt.Sprintf("%s,%d", m.Sil.String(), m.Exp) }

func ParseMesh(t string) Mesh {
	p := strings.Split(t, ",")
	return Mesh{Sil: Sil{ID: p[0], Start: hx.Atoi64(p[1]), End: hx.Atoi64(p[2]), Updated: hx.Atoi64(p[3]),
		Comment: uncmt(p[4]), Sets: ParseSets(p[5])}, Exp: hx.Atoi64(p[6])}
}

func MeshesStr(l []Mesh) string {
	s := make([]string, len(l))
	for i, m := range l {
		s[i] = m.String()
	}
	return hx.Join(s, ";")
}

func ParseMeshes(s string) []Mesh {
	var out []Mesh
	for _, t := range hx.Split(s, ";") {
		out = append(out, ParseMesh(t))
	}
	return out
}

// label set token: hexname:hexval+…  ('-' empty)
func LsStr(ls map[string]string) string {
	ks := make([]string, 0, len(ls))
	for k := range ls {
		ks = append(ks, k)
	}
	sort.Strings(ks)
	p := make([]string, len(ks))
	for i, k := range ks {
		p[i] = hx.Hex(k) + ":" + hx.Hex(ls[k])
	}
	return hx.Join(p, "+")
}

func ParseLs(s string) model.LabelSet {
	out := model.LabelSet{}
	for _, kv := range hx.Split(s, "+") {
		p := strings.Split(kv, ":")
		out[model.LabelName(hx.Unhex(p[0]))] = model.LabelValue(hx.Unhex(p[1]))
	}
	return out
}

// ---- instances ----

type Inst struct {
	S        *silence.Silences
	Silencer *silence.Silencer
	API      *apiv2.API
	BC       [][]byte // captured broadcasts (since last TakeBC)
	// the real Silences.Maintenance loop (World.MaintP > 0): GC + snapshot file every MaintP, and once more on stop
	stopc    chan struct{}
	done     chan struct{}
	file     string
	nextTick int64 // offset of the next maintenance tick
}

type World struct {
	T0        time.Time
	Retention time.Duration
	MaxSil    int // 0: unlimited
	MaxSize   int // 0: unlimited
	Insts     []*Inst
	MaintP    time.Duration     // period of every instance's Maintenance loop, 0 = none
	dir       string            // scratch directory of the snapshot files
	alias     map[string]string // real id -> alias
	real      map[string]string // alias -> real id
	nAlias    int
}

func NewWorld(n int, retention time.Duration, maxSil, maxSize int) *World {
	w := &World{T0: time.Now(), Retention: retention, MaxSil: maxSil, MaxSize: maxSize,
		alias: map[string]string{}, real: map[string]string{}}
	for i := 0; i < n; i++ {
		w.Insts = append(w.Insts, nil)
		w.NewInst(i, nil, false)
	}
	return w
}

// NewWorldMaint: as NewWorld, every instance also runs the real Maintenance loop with period p on a snapshot
// file of its own.  The caller must Close the world.
func NewWorldMaint(n int, retention time.Duration, maxSil, maxSize int, p time.Duration) *World {
	w := &World{T0: time.Now(), Retention: retention, MaxSil: maxSil, MaxSize: maxSize, MaintP: p,
		alias: map[string]string{}, real: map[string]string{}}
	if p > 0 {
		d, err := os.MkdirTemp("", "verif-silx-")
		if err != nil {
			panic(err)
		}
		w.dir = d
	}
	for i := 0; i < n; i++ {
		w.Insts = append(w.Insts, nil)
		w.NewInst(i, nil, false)
	}
	return w
}

// stopMaint ends instance i's Maintenance loop; the loop writes its shutdown snapshot first.
func (w *World) stopMaint(i int) {
	in := w.Insts[i]
	if in != nil && in.stopc != nil {
		close(in.stopc)
		<-in.done
		in.stopc = nil
	}
}

func (w *World) Close() {
	for i := range w.Insts {
		w.stopMaint(i)
	}
	if w.dir != "" {
		os.RemoveAll(w.dir)
	}
}

// NextTick is the offset of instance i's next maintenance tick (-1: no maintenance loop).
func (w *World) NextTick(i int) int64 {
	if w.MaintP == 0 || w.Insts[i].stopc == nil {
		return -1
	}
	return w.Insts[i].nextTick
}

func (w *World) bulkGC(n int) string {
	st, err := silence.New(silence.Options{Retention: time.Minute, Metrics: prometheus.NewRegistry()})
	if err != nil {
		panic(err)
	}
	ctx := context.Background()
	now := time.Now()
	mk := func(v string, d time.Duration) *pb.Silence {
		return &pb.Silence{MatcherSets: []*pb.MatcherSet{{Matchers: []*pb.Matcher{{Type: pb.Matcher_EQUAL, Name: "bulk", Pattern: v}}}},
			StartsAt: timestamppb.New(now), EndsAt: timestamppb.New(now.Add(d)), CreatedBy: "verif", Comment: "bulk"}
	}
	var long []string
	for i := 0; i < n+3; i++ {
		// the long-lived ones are spread over the index: first, middle, last
		if i == 0 || i == n/2+1 || i == n+2 {
			p := mk(fmt.Sprintf("long%d", len(long)), 10*time.Hour)
			if err := st.Set(ctx, p); err != nil {
				panic(err)
			}
			long = append(long, p.Id)
			continue
		}
		if err := st.Set(ctx, mk(fmt.Sprintf("s%d", i), time.Minute)); err != nil {
			panic(err)
		}
	}
	time.Sleep(3 * time.Minute) // past end + retention of the short ones
	removed, err := st.GC()
	if err != nil {
		return "gcerror"
	}
	listed, _, _ := st.Query(ctx, silence.QState(silence.SilenceStateActive))
	byID := 0
	for _, id := range long {
		if r, _, err := st.Query(ctx, silence.QIDs(id)); err == nil && len(r) == 1 {
			byID++
		}
	}
	sl := silence.NewSilencer(st, WLogger(), eventrecorder.NopRecorder())
	muted := 0
	for i := range long {
		if sl.Mutes(ctx, model.LabelSet{"bulk": model.LabelValue(fmt.Sprintf("long%d", i))}) {
			muted++
		}
	}
	// and the survivors are collected when their own time comes
	time.Sleep(11 * time.Hour)
	removed2, _ := st.GC()
	all, _, _ := st.Query(ctx)
	return fmt.Sprintf("%d %d %d %d %d %d", removed, len(listed), byID, muted, removed2, len(all))
}

func (w *World) Abs(off int64) time.Time { return w.T0.Add(time.Duration(off)) }
func (w *World) Rel(t time.Time) int64   { return int64(t.Sub(w.T0)) }

func (w *World) SleepTo(off int64) {
	if d := w.Abs(off).Sub(time.Now()); d > 0 {
		time.Sleep(d)
	}
}

// Alias returns the stable name of a real id (a uuid gets the next u<n>).
func (w *World) Alias(realID string) string {
	if a, ok := w.alias[realID]; ok {
		return a
	}
	if len(realID) == 36 && strings.Count(realID, "-") == 4 {
		w.nAlias++
		a := fmt.Sprintf("u%d", w.nAlias)
		w.alias[realID] = a
		w.real[a] = realID
		return a
	}
	return realID
}

// Real is the inverse; an alias unknown in this run (replay of a reduced script)
// maps to a well-formed uuid that no instance knows.
func (w *World) Real(alias string) string {
	if r, ok := w.real[alias]; ok {
		return r
	}
	if strings.HasPrefix(alias, "u") {
		if n, err := strconv.Atoi(alias[1:]); err == nil {
			return fmt.Sprintf("00000000-0000-4000-8000-%012d", n)
		}
	}
	return alias
}

// NewInst creates instance i; with load it starts from the snapshot (possibly empty).
func (w *World) NewInst(i int, snapshot []byte, load bool) {
	w.stopMaint(i)
	o := silence.Options{Retention: w.Retention, Metrics: prometheus.NewRegistry()}
	if w.MaxSil > 0 {
		o.Limits.MaxSilences = func() int { return w.MaxSil }
	}
	if w.MaxSize > 0 {
		o.Limits.MaxSilenceSizeBytes = func() int { return w.MaxSize }
	}
	if load {
		o.SnapshotReader = bytes.NewReader(snapshot)
	}
	s, err := silence.New(o)
	if err != nil {
		panic(err)
	}
	in := &Inst{S: s}
	s.SetBroadcast(func(b []byte) { in.BC = append(in.BC, append([]byte(nil), b...)) })
	in.Silencer = silence.NewSilencer(s, WLogger(), eventrecorder.NopRecorder())
	api, err := apiv2.NewAPI(nil, nil, nil, s, nil, promslog.NewNopLogger(), prometheus.NewRegistry())
	if err != nil {
		panic(err)
	}
	in.API = api
	w.Insts[i] = in
	if w.MaintP > 0 {
		in.file = filepath.Join(w.dir, fmt.Sprintf("silences-%d", i))
		in.stopc, in.done = make(chan struct{}), make(chan struct{})
		in.nextTick = w.Rel(time.Now()) + int64(w.MaintP)
		go func() {
			defer close(in.done)
			s.Maintenance(w.MaintP, in.file, in.stopc, nil)
		}()
	}
}

var opToPB = map[byte]pb.Matcher_Type{'e': pb.Matcher_EQUAL, 'n': pb.Matcher_NOT_EQUAL, 'r': pb.Matcher_REGEXP, 'x': pb.Matcher_NOT_REGEXP}
var pbToOp = map[pb.Matcher_Type]byte{pb.Matcher_EQUAL: 'e', pb.Matcher_NOT_EQUAL: 'n', pb.Matcher_REGEXP: 'r', pb.Matcher_NOT_REGEXP: 'x'}

func (w *World) SilToPB(s Sil) *pb.Silence {
	out := &pb.Silence{Id: w.Real(s.ID), Comment: s.Comment, CreatedBy: "h"}
	if s.ID == "-" {
		out.Id = ""
	}
	if !s.NoStart {
		out.StartsAt = timestamppb.New(w.Abs(s.Start))
	}
	if !s.NoEnd {
		out.EndsAt = timestamppb.New(w.Abs(s.End))
	}
	out.UpdatedAt = timestamppb.New(w.Abs(s.Updated))
	for _, set := range s.Sets {
		ms := &pb.MatcherSet{}
		for _, m := range set {
			ms.Matchers = append(ms.Matchers, &pb.Matcher{Type: opToPB[m.Op], Name: m.Name, Pattern: m.Pattern})
		}
		out.MatcherSets = append(out.MatcherSets, ms)
	}
	return out
}

func (w *World) MeshToPB(m Mesh) *pb.MeshSilence {
	return &pb.MeshSilence{Silence: w.SilToPB(m.Sil), ExpiresAt: timestamppb.New(w.Abs(m.Exp))}
}

func (w *World) SilFromPB(s *pb.Silence) Sil {
	out := Sil{ID: w.Alias(s.Id), Comment: s.Comment}
	if s.StartsAt != nil {
		out.Start = w.Rel(s.StartsAt.AsTime())
	}
	if s.EndsAt != nil {
		out.End = w.Rel(s.EndsAt.AsTime())
	}
	if s.UpdatedAt != nil {
		out.Updated = w.Rel(s.UpdatedAt.AsTime())
	}
	sets := s.MatcherSets
	if len(sets) == 0 && len(s.Matchers) > 0 {
		sets = []*pb.MatcherSet{{Matchers: s.Matchers}}
	}
	for _, set := range sets {
		ms := []Matcher{}
		for _, m := range set.Matchers {
			ms = append(ms, Matcher{Op: pbToOp[m.Type], Name: m.Name, Pattern: m.Pattern})
		}
		out.Sets = append(out.Sets, ms)
	}
	return out
}

// Encode marshals meshes the way the implementation does for the wire.
func (w *World) Encode(l []Mesh) []byte {
	var buf bytes.Buffer
	for _, m := range l {
		p := w.MeshToPB(m)
		if len(p.Silence.MatcherSets) > 0 {
			p.Silence.Matchers = p.Silence.MatcherSets[0].Matchers // as prepareSilenceForMarshalling
		}
		if _, err := protodelim.MarshalTo(&buf, p); err != nil {
			panic(err)
		}
	}
	return buf.Bytes()
}

func (w *World) Decode(b []byte) []Mesh {
	var out []Mesh
	br := bytes.NewReader(b)
	for br.Len() > 0 {
		var m pb.MeshSilence
		if err := protodelim.UnmarshalFrom(br, &m); err != nil {
			panic(err)
		}
		out = append(out, Mesh{Sil: w.SilFromPB(m.Silence), Exp: w.Rel(m.ExpiresAt.AsTime())})
	}
	return out
}

// State decodes MarshalBinary (unsorted; aliases are not assigned here in map order:
// every uuid was aliased when Set returned it).
func (w *World) State(i int) []Mesh {
	b, err := w.Insts[i].S.MarshalBinary()
	if err != nil {
		panic(err)
	}
	l := w.Decode(b)
	sort.Slice(l, func(a, b int) bool { return l[a].ID < l[b].ID })
	return l
}

// Dump = "<version> <meshes sorted by id>"
func (w *World) Dump(i int) string {
	return fmt.Sprintf("%d %s", w.Insts[i].S.Version(), MeshesStr(w.State(i)))
}

// TakeBC returns and clears the captured broadcasts of instance i, decoded per message.
func (w *World) TakeBC(i int) [][]Mesh {
	var out [][]Mesh
	for _, b := range w.Insts[i].BC {
		out = append(out, w.Decode(b))
	}
	w.Insts[i].BC = nil
	return out
}

func bcStr(l [][]Mesh) string {
	s := make([]string, len(l))
	for i, m := range l {
		s[i] = MeshesStr(m)
	}
	return hx.Join(s, "/")
}

func errEnum(err error) string {
	switch {
	case err == nil:
		return "ok"
	case err == silence.ErrNotFound || strings.Contains(err.Error(), "silence not found"):
		return "notfound"
	case strings.Contains(err.Error(), "invalid silence"):
		return "invalid"
	case strings.Contains(err.Error(), "exceeded maximum number"):
		return "limit"
	case strings.Contains(err.Error(), "exceeded maximum size"):
		return "toobig"
	}
	return "error:" + strings.ReplaceAll(err.Error(), " ", "_")
}

func parseIn(id, start, end, comment, sets string) Sil {
	s := Sil{ID: id, Comment: uncmt(comment), Sets: ParseSets(sets)}
	if start == "-" {
		s.NoStart = true
	} else {
		s.Start = hx.Atoi64(start)
	}
	if end == "-" {
		s.NoEnd = true
	} else {
		s.End = hx.Atoi64(end)
	}
	return s
}

func (w *World) http(i int, method, path string, body any) (int, []byte) {
	var rd *bytes.Reader
	if body != nil {
		b, err := json.Marshal(body)
		if err != nil {
			panic(err)
		}
		rd = bytes.NewReader(b)
	} else {
		rd = bytes.NewReader(nil)
	}
	req := httptest.NewRequest(method, path, rd)
	req.Header.Set("Content-Type", "application/json")
	rec := httptest.NewRecorder()
	w.Insts[i].API.Handler.ServeHTTP(rec, req)
	return rec.Code, rec.Body.Bytes()
}

func class(code int) string {
	switch code {
	case http.StatusOK:
		return "200"
	case http.StatusBadRequest, http.StatusUnprocessableEntity:
		return "400"
	case http.StatusNotFound:
		return "404"
	}
	return strconv.Itoa(code)
}

// Exec runs one common op line and returns the observation.
//
//	set i now id start end comment sets big   -> ok|<err> <alias|-> <bcasts> <dump>
//	setq i now id start end comment sets big  -> as set; the proto handed to Set is the one Silences.QueryOne(QIDs(id)) returned, edited in place
//	post i now id start end comment sets big  -> 200|400|404 <alias|-> <bcasts> <dump>     (HTTP POST /api/v2/silences)
//	postg i now id start end comment sets big -> as post; the matchers sent are the ones GET /api/v2/silence/{id} returned, as returned
//	      (`sets` is used only when that GET does not answer 200: unknown id, multi-set silence)
//	expire i now id                           -> ok|notfound <bcasts> <dump>
//	delete i now id                           -> 200|404|… <bcasts> <dump>                  (HTTP DELETE /api/v2/silence/{id})
//	get i now id                              -> 404 | 200 <id,start,end,updated,state>     (HTTP GET /api/v2/silence/{id})
//	list i now                                -> <id:state,…> as returned (HTTP GET /api/v2/silences), sorted by id
//	merge i now ov <meshes>                   -> <nbcast> <dump>
//	push i j now                              -> <ov> <in-meshes> <nbcast> <dump j>
//	gc i now                                  -> <n> <dump>
//	query i now <ids|all|since:v> <states|-> <ls|->  -> <version> <ids sorted>
//	reload i                                  -> <dump>
//	mutes i now <ls>                          -> <0|1> <silencedBy sorted>
//	imutes i now <ls> <pt>~<op>~<args…> …     -> <0|1> <silencedBy sorted> <pt>~<obs…>|<pt>~- …
//	      Mutes with store operations interleaved: <pt> is q1 / q2 (start of the first / second
//	      Silences.Query of this call), e1 / e2 (that query has returned) or w (between the last
//	      query and the cache write, only when some silence was found); the op is
//	      a common store op (set, expire, merge, gc) with '~' for ' '; "<pt>~-" = point not reached
//	postgc i <ls;ls…>                         -> ok
func (w *World) Exec(line string) string {
	t := strings.Fields(line)
	i, _ := strconv.Atoi(t[1])
	in := w.Insts[i]
	ctx := context.Background()
	switch t[0] {
	case "set":
		w.SleepTo(hx.Atoi64(t[2]))
		p := w.SilToPB(parseIn(t[3], t[4], t[5], t[6], t[7]))
		p.UpdatedAt = nil
		err := in.S.Set(ctx, p)
		id := "-"
		if err == nil {
			id = w.Alias(p.Id)
		}
		return fmt.Sprintf("%s %s %s %s", errEnum(err), id, bcStr(w.TakeBC(i)), w.Dump(i))
	case "setq":
		// the read-modify-write edit of an in-process caller: look the silence up by id, change the
		// object that came back field by field, hand it to Set.  What a query returns is the caller's
		// to modify (Silences.query clones), so this is `set` with the same requested values.
		w.SleepTo(hx.Atoi64(t[2]))
		want := w.SilToPB(parseIn(t[3], t[4], t[5], t[6], t[7]))
		p, err := in.S.QueryOne(ctx, silence.QIDs(want.Id))
		if err != nil || p == nil {
			p = want // unknown id: nothing to look up
		} else {
			p.MatcherSets, p.Matchers = want.MatcherSets, nil
			p.StartsAt, p.EndsAt = want.StartsAt, want.EndsAt
			p.Comment, p.Comments, p.CreatedBy = want.Comment, nil, want.CreatedBy
		}
		p.UpdatedAt = nil
		err = in.S.Set(ctx, p)
		id := "-"
		if err == nil {
			id = w.Alias(p.Id)
		}
		return fmt.Sprintf("%s %s %s %s", errEnum(err), id, bcStr(w.TakeBC(i)), w.Dump(i))
	case "post", "postg":
		w.SleepTo(hx.Atoi64(t[2]))
		s := parseIn(t[3], t[4], t[5], t[6], t[7])
		ps := &open_api_models.PostableSilence{}
		if s.ID != "-" {
			ps.ID = w.Real(s.ID)
		}
		st, en := strfmt.DateTime(w.Abs(s.Start)), strfmt.DateTime(w.Abs(s.End))
		c, by := s.Comment, "h"
		ps.StartsAt, ps.EndsAt, ps.Comment, ps.CreatedBy = &st, &en, &c, &by
		ps.Matchers = open_api_models.Matchers{}
		if len(s.Sets) > 0 {
			for _, m := range s.Sets[0] {
				n, v := m.Name, m.Pattern
				eq, re := m.Op == 'e' || m.Op == 'r', m.Op == 'r' || m.Op == 'x'
				ps.Matchers = append(ps.Matchers, &open_api_models.Matcher{Name: &n, Value: &v, IsEqual: &eq, IsRegex: &re})
			}
		}
		if t[0] == "postg" && s.ID != "-" {
			// the usual client edit (UI, `amtool silence update`): GET the silence, keep the matchers exactly as
			// the API returned them (in that order), change comment / times, POST the object back with its id
			if gc, gb := w.http(i, "GET", "/api/v2/silence/"+w.Real(s.ID), nil); gc == 200 {
				var g open_api_models.GettableSilence
				if err := json.Unmarshal(gb, &g); err == nil && len(g.Matchers) > 0 {
					ps.Matchers = g.Matchers
				}
			}
		}
		code, body := w.http(i, "POST", "/api/v2/silences", ps)
		id := "-"
		if code == 200 {
			var r struct {
				SilenceID string `json:"silenceID"`
			}
			json.Unmarshal(body, &r)
			id = w.Alias(r.SilenceID)
		}
		return fmt.Sprintf("%s %s %s %s", class(code), id, bcStr(w.TakeBC(i)), w.Dump(i))
	case "expire":
		w.SleepTo(hx.Atoi64(t[2]))
		err := in.S.Expire(ctx, w.Real(t[3]))
		return fmt.Sprintf("%s %s %s", errEnum(err), bcStr(w.TakeBC(i)), w.Dump(i))
	case "delete":
		w.SleepTo(hx.Atoi64(t[2]))
		code, _ := w.http(i, "DELETE", "/api/v2/silence/"+w.Real(t[3]), nil)
		return fmt.Sprintf("%s %s %s", class(code), bcStr(w.TakeBC(i)), w.Dump(i))
	case "get":
		w.SleepTo(hx.Atoi64(t[2]))
		code, body := w.http(i, "GET", "/api/v2/silence/"+w.Real(t[3]), nil)
		if code != 200 {
			return class(code)
		}
		var g open_api_models.GettableSilence
		if err := json.Unmarshal(body, &g); err != nil {
			return "badjson"
		}
		return fmt.Sprintf("200 %s,%d,%d,%d,%s", w.Alias(*g.ID), w.Rel(time.Time(*g.StartsAt)), w.Rel(time.Time(*g.EndsAt)),
			w.Rel(time.Time(*g.UpdatedAt)), *g.Status.State)
	case "list":
		w.SleepTo(hx.Atoi64(t[2]))
		code, body := w.http(i, "GET", "/api/v2/silences", nil)
		if code != 200 {
			return class(code)
		}
		var gs []open_api_models.GettableSilence
		if err := json.Unmarshal(body, &gs); err != nil {
			return "badjson"
		}
		var l []string
		for _, g := range gs {
			l = append(l, fmt.Sprintf("%s:%s", w.Alias(*g.ID), *g.Status.State))
		}
		sort.Strings(l)
		return "200 " + hx.Join(l, ",")
	case "merge":
		w.SleepTo(hx.Atoi64(t[2]))
		b := w.Encode(ParseMeshes(t[4]))
		ov := "0"
		if cluster.OversizedMessage(b) {
			ov = "1"
		}
		if ov != t[3] {
			return "oversized-flag-mismatch " + ov
		}
		if err := in.S.Merge(b); err != nil {
			return "error " + w.Dump(i)
		}
		return fmt.Sprintf("%d %s", len(w.TakeBC(i)), w.Dump(i))
	case "push":
		j, _ := strconv.Atoi(t[2])
		w.SleepTo(hx.Atoi64(t[3]))
		b, err := in.S.MarshalBinary()
		if err != nil {
			panic(err)
		}
		ov := "0"
		if cluster.OversizedMessage(b) {
			ov = "1"
		}
		l := w.Decode(b)
		sort.Slice(l, func(a, b int) bool { return l[a].ID < l[b].ID })
		if err := w.Insts[j].S.Merge(b); err != nil {
			return "error " + w.Dump(j)
		}
		return fmt.Sprintf("%s %s %d %s", ov, MeshesStr(l), len(w.TakeBC(j)), w.Dump(j))
	case "bulkgc":
		// a burst: n short silences and 3 long ones in a store of its own (not the case's instance); the short ones run
		// past end + retention, GC collects them (the version index shrinks by orders of magnitude); the long ones are
		// still listed by a state query, by id, and muting — and are collected in their turn
		n, _ := strconv.Atoi(t[2])
		return w.bulkGC(n)
	case "mtick":
		// the Maintenance loop's tick at exactly this instant: GC + snapshot file (observed like a gc)
		before := len(w.State(i))
		w.SleepTo(hx.Atoi64(t[2]))
		synctest.Wait() // the loop's goroutine handles the tick that fired at this instant
		if in.stopc != nil && in.nextTick == hx.Atoi64(t[2]) {
			in.nextTick += int64(w.MaintP)
		}
		return fmt.Sprintf("%d %s", before-len(w.State(i)), w.Dump(i))
	case "mstop":
		// shutdown: the loop runs one more maintenance (GC + snapshot) and ends
		before := len(w.State(i))
		w.SleepTo(hx.Atoi64(t[2]))
		w.stopMaint(i)
		return fmt.Sprintf("%d %s", before-len(w.State(i)), w.Dump(i))
	case "mload":
		// the next start: a new instance from the snapshot FILE the loop left behind
		b, err := os.ReadFile(in.file)
		if err != nil {
			b = nil
		}
		w.NewInst(i, b, true)
		return w.Dump(i)
	case "gc":
		w.SleepTo(hx.Atoi64(t[2]))
		n, err := in.S.GC()
		if err != nil {
			return "error " + w.Dump(i)
		}
		return fmt.Sprintf("%d %s", n, w.Dump(i))
	case "query":
		w.SleepTo(hx.Atoi64(t[2]))
		var ps []silence.QueryParam
		switch {
		case t[3] == "all":
		case strings.HasPrefix(t[3], "since:"):
			v, _ := strconv.Atoi(t[3][6:])
			ps = append(ps, silence.QSince(v))
		default:
			var ids []string
			for _, a := range hx.Split(t[3], ".") {
				ids = append(ids, w.Real(a))
			}
			ps = append(ps, silence.QIDs(ids...))
		}
		if t[4] != "-" {
			var sts []silence.SilenceState
			for _, c := range t[4] {
				sts = append(sts, map[rune]silence.SilenceState{'p': silence.SilenceStatePending, 'a': silence.SilenceStateActive, 'e': silence.SilenceStateExpired}[c])
			}
			ps = append(ps, silence.QState(sts...))
		}
		if t[5] != "-" {
			ps = append(ps, silence.QMatches(ParseLs(strings.TrimPrefix(t[5], "L"))))
		}
		res, ver, err := in.S.Query(ctx, ps...)
		if err != nil {
			return "error"
		}
		var ids []string
		for _, s := range res {
			ids = append(ids, w.Alias(s.Id))
		}
		sort.Strings(ids)
		return fmt.Sprintf("%d %s", ver, hx.Join(ids, "."))
	case "reload":
		var buf bytes.Buffer
		if _, err := in.S.Snapshot(&buf); err != nil {
			panic(err)
		}
		w.NewInst(i, buf.Bytes(), true)
		return w.Dump(i)
	case "mutes", "imutes", "cmutes":
		w.SleepTo(hx.Atoi64(t[2]))
		ctx := ctx
		if t[0] == "cmutes" {
			// the caller is gone: a cancelled context must not change what the call does to the cache
			c, cancel := context.WithCancel(ctx)
			cancel()
			ctx = c
		}
		ls := ParseLs(strings.TrimPrefix(t[3], "L"))
		mk := marker.NewAlertMarker()
		var muted bool
		injObs := make([]string, len(t)-4)
		if t[0] == "imutes" {
			for k, tok := range t[4:] {
				injObs[k] = tok[:strings.Index(tok, "~")] + "~-"
			}
			WithInjection(func(point string) {
				for k, tok := range t[4:] {
					p := strings.Split(tok, "~")
					if p[0] == point {
						injObs[k] = point + "~" + strings.ReplaceAll(w.Exec(strings.Join(p[1:], " ")), " ", "~")
					}
				}
			}, func() { muted = in.Silencer.Mutes(marker.WithContext(ctx, mk), ls) })
		} else {
			muted = in.Silencer.Mutes(marker.WithContext(ctx, mk), ls)
		}
		by := mk.Status(ls.Fingerprint()).SilencedBy
		var ids []string
		for _, id := range by {
			ids = append(ids, w.Alias(id))
		}
		sort.Strings(ids)
		v := "0"
		if muted {
			v = "1"
		}
		if len(injObs) > 0 {
			return v + " " + hx.Join(ids, ".") + " " + strings.Join(injObs, " ")
		}
		return v + " " + hx.Join(ids, ".")
	case "postgc":
		var fps model.Fingerprints
		for _, l := range hx.Split(t[2], ";") {
			fps = append(fps, ParseLs(strings.TrimPrefix(l, "L")).Fingerprint())
		}
		in.Silencer.PostGC(fps)
		return "ok"
	}
	panic("bad op " + line)
}
