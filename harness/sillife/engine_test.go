// Engine `sillife` (C12): the silence lifecycle through the real api/v2 HTTP
// handlers (POST /silences, DELETE /silence/{id}, GET) and Silences.Set /
// Expire / GC / Query directly, on instants around every silence's start, end
// and end+retention including the boundary instants, plus an invalid-input
// stream.
package sillife

import (
	"fmt"
	"math/rand/v2"
	"sort"
	"strconv"
	"strings"
	"testing"
	"testing/synctest"
	"time"

	"verif/harness/hx"
	"verif/harness/silx"
)

// half-second grid: two distinct instants can share a second (canUpdate compares
// the start of an active silence to the second).
const grid = int64(500 * time.Millisecond)

const maxSize = 500

type gen struct {
	r         *rand.Rand
	w         *silx.World
	now       int64
	retention int64
	ids       []string
	setsOf    map[string][][]silx.Matcher
}

func (g *gen) learn(obs string, idField int) {
	f := strings.Fields(obs)
	if len(f) > idField && f[idField] != "-" {
		id := f[idField]
		if _, ok := g.setsOf[id]; !ok {
			g.ids = append(g.ids, id)
			for _, m := range g.w.State(0) {
				if m.ID == id {
					g.setsOf[id] = m.Sets
				}
			}
		}
	}
}

// next instant: a boundary (±1 grid step) of some stored silence, or a small step.
func (g *gen) advance() {
	r := g.r
	if r.IntN(5) == 0 {
		return // same instant as the previous op
	}
	var cand []int64
	for _, m := range g.w.State(0) {
		for _, b := range []int64{m.Start, m.End, m.Exp} {
			for d := int64(-1); d <= 1; d++ {
				if t := b + d*grid; t > g.now && t < g.now+12*grid {
					cand = append(cand, t)
				}
			}
		}
	}
	if len(cand) > 0 && r.IntN(3) > 0 {
		sort.Slice(cand, func(a, b int) bool { return cand[a] < cand[b] })
		g.now = cand[r.IntN(min(len(cand), 3))] // one of the nearest boundaries
		return
	}
	g.now += int64(1+r.IntN(2)) * grid
}

func (g *gen) pickID() string {
	if len(g.ids) == 0 || g.r.IntN(10) == 0 {
		return "u77" // unknown
	}
	return hx.Pick(g.r, g.ids)
}

func (g *gen) stored(id string) *silx.Mesh {
	for _, m := range g.w.State(0) {
		if m.ID == id {
			return &m
		}
	}
	return nil
}

var badSets = [][][]silx.Matcher{
	{},                        // no matcher set / no matchers
	{{}},                      // empty matcher set
	{{{'e', "a", ""}}},        // matches the empty string only
	{{{'r', "b", ".*"}}},      // regex matching the empty string
	{{{'r', "a", "("}}},       // does not compile
	{{{'e', "", "1"}}},        // empty label name
	{{{'e', "a", "1"}}, {}},   // second set empty (direct Set only)
	{{{'e', "a", ""}, {'r', "b", "x|.*"}}}, // all matchers match empty
	// a valid first set, a LATER set whose matchers all match the empty string (sets are OR-ed: it mutes everything)
	{{{'e', "a", "1"}}, {{'r', "env", ".*"}, {'e', "team", ""}}},
	{{{'e', "a", "1"}}, {{'e', "c", "z"}}, {{'e', "b", ""}}},
	{{{'n', "a", "1"}, {'e', "c", "z"}}, {{'r', "b", "x|.*"}}},
	{{{'x', "b", "x.*"}, {'r', "a", ".+"}}, {{'e', "c", "z"}}, {{'r', "b", ".*"}, {'r', "c", "|z"}}},
}

func (g *gen) createLine(kind string) string {
	r := g.r
	start := g.now + int64(r.IntN(6)-2)*grid
	end := start + int64(r.IntN(7))*grid
	if r.IntN(6) == 0 {
		end = g.now + int64(r.IntN(3)-1)*grid // around "end in the past"
	}
	sets := hx.Pick(r, silx.Catalog)
	ss, es := silx.I64(start), silx.I64(end)
	if kind == "post" {
		sets = sets[:1]
	} else {
		if r.IntN(4) == 0 {
			ss = "-"
		}
		if r.IntN(15) == 0 {
			es = "-"
		}
	}
	cm, big := silx.Comment(r), false
	if g.w.MaxSize > 0 && r.IntN(8) == 0 {
		cm, big = "BIG600", true
	}
	return silx.SetLine(kind, 0, g.now, "-", ss, es, cm, sets, big)
}

func (g *gen) editLine(kind string) string {
	r := g.r
	id := g.pickID()
	sets, ok := g.setsOf[id]
	switch x := r.IntN(12); {
	case !ok || x < 2:
		sets = hx.Pick(r, silx.Catalog)
	case x < 6:
		// the stored matcher sets with one component changed (operator only, value only, name only,
		// a matcher / a set added, dropped or moved): never an in-place update
		if m := g.stored(id); m != nil {
			sets = m.Sets
		}
		sets, _ = silx.VaryAny(r, sets)
	}
	if kind == "post" {
		sets = sets[:1]
	}
	start := g.now + int64(r.IntN(4)-1)*grid
	if m := g.stored(id); m != nil {
		switch r.IntN(4) {
		case 0, 1:
			start = m.Start
		case 2:
			start = m.Start + grid // maybe the same second
		}
	}
	end := g.now + int64(r.IntN(7)-1)*grid
	ss := silx.I64(start)
	if kind == "set" && r.IntN(6) == 0 {
		ss = "-"
	}
	cm, big := silx.Comment(r), false
	if g.w.MaxSize > 0 && r.IntN(10) == 0 {
		cm, big = "BIG600", true
	}
	if kind == "set" && r.IntN(2) == 0 {
		// the in-process read-modify-write edit: QueryOne(QIDs(id)), change the returned object, Set it
		kind = "setq"
	}
	if m := g.stored(id); kind == "post" && m != nil && r.IntN(3) == 0 {
		// the client edit through the API: the matchers of GET /api/v2/silence/{id} are sent back as returned
		// (the line names the stored ones), only times / comment change
		kind, sets = "postg", m.Sets[:1]
	}
	return silx.SetLine(kind, 0, g.now, id, ss, silx.I64(end), cm, sets, big)
}

func (g *gen) invalidLine(kind string) string {
	r := g.r
	sets := hx.Pick(r, badSets)
	if len(sets) > 1 {
		kind = "set" // several matcher sets: Silences.Set only (the v2 model carries one set)
	}
	id := "-"
	if r.IntN(3) == 0 {
		id = g.pickID()
	}
	if kind == "set" && id != "-" && r.IntN(2) == 0 {
		kind = "setq"
	}
	start := g.now + int64(r.IntN(3))*grid
	return silx.SetLine(kind, 0, g.now, id, silx.I64(start), silx.I64(start+int64(1+r.IntN(4))*grid), silx.Comment(r), sets, false)
}

func runCase(t *testing.T, tr *hx.Trace, id int, r *rand.Rand, script []string) {
	synctest.Test(t, func(t *testing.T) {
		var header string
		if script != nil {
			header = script[0]
		} else {
			ret := int64(r.IntN(5)) * grid
			maxsil := 0
			if r.IntN(4) == 0 {
				maxsil = 2 + r.IntN(3)
			}
			ms := 0
			if r.IntN(3) == 0 {
				ms = maxSize
			}
			// one case in three runs the real Maintenance loop (GC + snapshot file every `maint`, final snapshot on stop);
			// the period is off the half-second grid, so a tick never ties with an operation
			maint := int64(0)
			if r.IntN(3) == 0 {
				maint = int64(2+r.IntN(6))*grid + 130*int64(time.Millisecond)
			}
			header = fmt.Sprintf("case %d retention=%d maxsil=%d maxsize=%d maint=%d", id, ret, maxsil, ms, maint)
		}
		h := silx.ParseHeader(header)
		retention := silx.HInt(h, "retention", 0)
		w := silx.NewWorldMaint(1, time.Duration(retention), int(silx.HInt(h, "maxsil", 0)), int(silx.HInt(h, "maxsize", 0)), time.Duration(silx.HInt(h, "maint", 0)))
		defer w.Close()
		tr.Linef("%s", header)
		if script != nil {
			for _, l := range script[1:] {
				tr.Linef("%s -> %s", l, w.Exec(l))
			}
			return
		}
		g := &gen{r: r, w: w, retention: retention, setsOf: map[string][][]silx.Matcher{}}
		do1 := func(line string) string {
			obs := w.Exec(line)
			tr.Linef("%s -> %s", line, obs)
			return obs
		}
		do := func(line string) string {
			// every maintenance tick up to the operation's instant happens (and is observed) first
			f := strings.Fields(line)
			if len(f) > 2 {
				if at, err := strconv.ParseInt(f[2], 10, 64); err == nil {
					for nt := w.NextTick(0); nt >= 0 && nt <= at; nt = w.NextTick(0) {
						do1(fmt.Sprintf("mtick 0 %d", nt))
					}
				}
			}
			return do1(line)
		}
		bulk := 0
		if id%200 == 7 && w.NextTick(0) < 0 {
			bulk = 1100 + r.IntN(900)
		}
		nops := 10 + r.IntN(20)
		for range nops {
			g.advance()
			kind := "post"
			if r.IntN(3) == 0 {
				kind = "set"
			}
			switch x := r.IntN(24); {
			case x < 4:
				g.learn(do(g.createLine(kind)), 1)
			case x < 9:
				g.learn(do(g.editLine(kind)), 1)
			case x < 11:
				do(g.invalidLine(kind))
			case x < 14:
				if r.IntN(2) == 0 {
					do(fmt.Sprintf("delete 0 %d %s", g.now, g.pickID()))
				} else {
					do(fmt.Sprintf("expire 0 %d %s", g.now, g.pickID()))
				}
			case x < 17:
				do(fmt.Sprintf("get 0 %d %s", g.now, g.pickID()))
			case x < 18:
				do(fmt.Sprintf("list 0 %d", g.now))
			case x < 21:
				do(fmt.Sprintf("gc 0 %d", g.now))
			case x < 23:
				scan := "all"
				if r.IntN(2) == 0 {
					scan = g.pickID()
				}
				sts := hx.Pick(r, []string{"-", "a", "p", "e", "ap", "pe", "ae"})
				ls := "-"
				if r.IntN(3) == 0 {
					ls = silx.PanelTok(r)
				}
				do(fmt.Sprintf("query 0 %d %s %s %s", g.now, scan, sts, ls))
			default:
				if w.NextTick(0) >= 0 && r.IntN(3) > 0 {
					// a restart through the files: shutdown snapshot of the Maintenance loop, next start loads it
					do(fmt.Sprintf("mstop 0 %d", g.now))
					do1("mload 0")
				} else {
					do("reload 0")
				}
			}
		}
		if bulk > 0 {
			// last op of the case (it moves the clock by half a day): the version index after a burst (beyond 1024
			// entries) and a GC that removes almost all of it
			do1(fmt.Sprintf("bulkgc 0 %d", bulk))
		}
	})
}

func TestEngine(t *testing.T) {
	tr := hx.Open()
	defer tr.Close()
	if s := hx.Script(); s != nil {
		for k, c := range silx.SplitCases(s) {
			runCase(t, tr, k, nil, c)
		}
		return
	}
	r := hx.Rand(12)
	for id := range hx.Cases(4000, 60000) {
		runCase(t, tr, id, r, nil)
	}
}
