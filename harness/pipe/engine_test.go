// Engine `pipe` (C04, C20-adjacent): drives the REAL notification pipeline
// (PipelineBuilder.New: gossip-settle, inhibit, time stages, silence, then per
// integration wait → DedupStage → RetryStage → SetNotifiesStage) on a REAL
// nflog.Log under virtual time, one flush per op, and records for every
// integration what was sent and what the log holds before and after.
package pipe

import (
	"bytes"
	"context"
	"errors"
	"fmt"
	"log/slog"
	"math/rand/v2"
	"sort"
	"strconv"
	"strings"
	"sync"
	"testing"
	"testing/synctest"
	"time"

	"github.com/cespare/xxhash/v2"
	"github.com/prometheus/client_golang/prometheus"
	"github.com/prometheus/common/model"
	"github.com/prometheus/common/promslog"
	"google.golang.org/protobuf/encoding/protodelim"

	"github.com/prometheus/alertmanager/alert"
	"github.com/prometheus/alertmanager/eventrecorder"
	"github.com/prometheus/alertmanager/featurecontrol"
	"github.com/prometheus/alertmanager/inhibit"
	"github.com/prometheus/alertmanager/marker"
	"github.com/prometheus/alertmanager/nflog"
	pb "github.com/prometheus/alertmanager/nflog/nflogpb"
	"github.com/prometheus/alertmanager/notify"
	"github.com/prometheus/alertmanager/provider/mem"
	"github.com/prometheus/alertmanager/silence"
	"github.com/prometheus/alertmanager/timeinterval"

	"verif/harness/hx"
)

const nAlerts = 4

func labelsOf(id int) model.LabelSet {
	return model.LabelSet{"alertname": "A", "id": model.LabelValue(strconv.Itoa(id))}
}

// hashOf mirrors notify.hashAlert (unexported): if the implementation's hashes
// stop matching, ids come out as "?" and the correspondence fails loudly.
func hashOf(ls model.LabelSet) uint64 {
	names := make([]string, 0, len(ls))
	for n := range ls {
		names = append(names, string(n))
	}
	sort.Strings(names)
	var b []byte
	for _, n := range names {
		b = append(b, n...)
		b = append(b, 0xff)
		b = append(b, ls[model.LabelName(n)]...)
		b = append(b, 0xff)
	}
	return xxhash.Sum64(b)
}

var idOfHash = func() map[uint64]int {
	m := map[uint64]int{}
	for i := 1; i <= nAlerts; i++ {
		m[hashOf(labelsOf(i))] = i
	}
	return m
}()

func ids(hs []uint64) string {
	s := make([]string, len(hs))
	for i, h := range hs {
		if id, ok := idOfHash[h]; ok {
			s[i] = strconv.Itoa(id)
		} else {
			s[i] = "?"
		}
	}
	return hx.Join(s, ".")
}

type sendRec struct {
	firing, resolved []int
}

type fakeNotifier struct {
	mtx    sync.Mutex
	accept bool
	delay  time.Duration
	sent   []sendRec
}

func (n *fakeNotifier) Notify(ctx context.Context, as ...*alert.Alert) (bool, error) {
	n.mtx.Lock()
	acc, d := n.accept, n.delay
	n.mtx.Unlock()
	if d > 0 {
		select {
		case <-time.After(d):
		case <-ctx.Done():
			return false, ctx.Err()
		}
	}
	if !acc {
		return false, errors.New("rejected") // unrecoverable: the flush fails at once
	}
	var r sendRec
	for _, a := range as {
		id, _ := strconv.Atoi(string(a.Labels["id"]))
		if a.Resolved() {
			r.resolved = append(r.resolved, id)
		} else {
			r.firing = append(r.firing, id)
		}
	}
	n.mtx.Lock()
	n.sent = append(n.sent, r)
	n.mtx.Unlock()
	return false, nil
}

type sr bool

func (s sr) SendResolved() bool { return bool(s) }

type world struct {
	t0        time.Time
	retention time.Duration
	repeat    time.Duration
	srs       []bool
	log       *nflog.Log
	nots      []*fakeNotifier
	stage     notify.RoutingStage
	cancel    context.CancelFunc
	alerts    *mem.Alerts
	inhibitor *inhibit.Inhibitor
}

func (w *world) abs(off int64) time.Time { return w.t0.Add(time.Duration(off)) }
func (w *world) rel(t time.Time) int64    { return int64(t.Sub(w.t0)) }

func (w *world) build(snap []byte) {
	o := nflog.Options{Retention: w.retention, Metrics: prometheus.NewRegistry()}
	if snap != nil {
		o.SnapshotReader = bytes.NewReader(snap)
	}
	l, err := nflog.New(o)
	if err != nil {
		panic(err)
	}
	w.log = l
	logger := promslog.NewNopLogger()
	sil, err := silence.New(silence.Options{Retention: time.Hour, Logger: logger, Metrics: prometheus.NewRegistry()})
	if err != nil {
		panic(err)
	}
	if w.alerts == nil {
		ctx, cancel := context.WithCancel(context.Background())
		w.cancel = cancel
		w.alerts, err = mem.NewAlerts(ctx, time.Hour, 0, nil, logger, eventrecorder.NopRecorder(), prometheus.NewRegistry(), nil)
		if err != nil {
			panic(err)
		}
		w.inhibitor = inhibit.NewInhibitor(w.alerts, nil, logger, eventrecorder.NopRecorder())
	}
	silencer := silence.NewSilencer(sil, logger, eventrecorder.NopRecorder())
	var ints []notify.Integration
	for i, s := range w.srs {
		ints = append(ints, notify.NewIntegration(w.nots[i], sr(s), "fake", i, "r"))
	}
	pbld := notify.NewPipelineBuilder(prometheus.NewRegistry(), featurecontrol.NoopFlags{}, eventrecorder.NopRecorder())
	w.stage = pbld.New(map[string][]notify.Integration{"r": ints}, func() time.Duration { return 0 },
		w.inhibitor, silencer, timeinterval.NewIntervener(nil), marker.NewGroupMarker(), w.log, nil)
}

func (w *world) entry(i int) string {
	es, err := w.log.Query(nflog.QGroupKey("g"), nflog.QReceiver(&pb.Receiver{GroupName: "r", Integration: "fake", Idx: uint32(i)}))
	if err != nil || len(es) != 1 {
		return "none"
	}
	// expiry is only visible in the marshalled state
	b, _ := w.log.MarshalBinary()
	br := bytes.NewReader(b)
	exp := int64(-1)
	for br.Len() > 0 {
		var m pb.MeshEntry
		if err := protodelim.UnmarshalFrom(br, &m); err != nil {
			break
		}
		if string(m.Entry.GroupKey) == "g" && m.Entry.Receiver.Idx == uint32(i) {
			exp = w.rel(m.ExpiresAt.AsTime())
		}
	}
	return fmt.Sprintf("%d,%d,%s,%s", w.rel(es[0].Timestamp.AsTime()), exp, ids(es[0].FiringAlerts), ids(es[0].ResolvedAlerts))
}

func (w *world) entries() string {
	s := make([]string, len(w.srs))
	for i := range w.srs {
		s[i] = w.entry(i)
	}
	return strings.Join(s, ";")
}

func intsStr(l []int) string {
	sort.Ints(l)
	s := make([]string, len(l))
	for i, v := range l {
		s[i] = strconv.Itoa(v)
	}
	return hx.Join(s, ".")
}

func (w *world) sleepTo(off int64) {
	if d := w.abs(off).Sub(time.Now()); d > 0 {
		time.Sleep(d)
	}
}

// flush <tick> <wall> <alerts id:f|r,…> <accept bits> <delay ns>
func (w *world) exec(line string) string {
	t := strings.Fields(line)
	switch t[0] {
	case "flush":
		tick, wall := hx.Atoi64(t[1]), hx.Atoi64(t[2])
		w.sleepTo(wall)
		var as []*alert.Alert
		for _, a := range hx.Split(t[3], ",") {
			p := strings.Split(a, ":")
			id, _ := strconv.Atoi(p[0])
			al := &alert.Alert{Alert: model.Alert{Labels: labelsOf(id), StartsAt: w.abs(0)}, UpdatedAt: w.abs(0)}
			if p[1] == "r" {
				al.EndsAt = w.abs(wall).Add(-time.Millisecond)
			}
			as = append(as, al)
		}
		delay := time.Duration(hx.Atoi64(t[5]))
		for i, n := range w.nots {
			n.mtx.Lock()
			n.accept = t[4][i] == '1'
			n.delay = delay
			n.sent = nil
			n.mtx.Unlock()
		}
		before := w.entries()
		ctx, cancel := context.WithTimeout(context.Background(), time.Hour)
		ctx = notify.WithNow(ctx, w.abs(tick))
		ctx = notify.WithGroupKey(ctx, "g")
		ctx = notify.WithGroupLabels(ctx, model.LabelSet{"alertname": "A"})
		ctx = notify.WithReceiverName(ctx, "r")
		ctx = notify.WithRepeatInterval(ctx, w.repeat)
		ctx = notify.WithRouteID(ctx, "{}")
		ctx = marker.WithContext(ctx, marker.NewAlertMarker())
		_, _, err := w.stage.Exec(ctx, slog.New(slog.DiscardHandler), as...)
		cancel()
		synctest.Wait()
		outs := make([]string, len(w.nots))
		for i, n := range w.nots {
			n.mtx.Lock()
			switch len(n.sent) {
			case 0:
				outs[i] = "none"
			case 1:
				outs[i] = intsStr(n.sent[0].firing) + "/" + intsStr(n.sent[0].resolved)
			default:
				outs[i] = fmt.Sprintf("multi%d", len(n.sent))
			}
			n.mtx.Unlock()
		}
		e := "ok"
		if err != nil {
			e = "err"
		}
		return fmt.Sprintf("%s %s %s %s %d", e, strings.Join(outs, ";"), before, w.entries(), w.rel(time.Now()))
	case "gc":
		w.sleepTo(hx.Atoi64(t[1]))
		n, err := w.log.GC()
		if err != nil {
			return "error"
		}
		return fmt.Sprintf("%d %s", n, w.entries())
	case "reload":
		var buf bytes.Buffer
		if _, err := w.log.Snapshot(&buf); err != nil {
			panic(err)
		}
		w.build(buf.Bytes())
		return w.entries()
	}
	panic("bad op " + line)
}

func runCase(t *testing.T, tr *hx.Trace, id int, r *rand.Rand, script []string) {
	synctest.Test(t, func(t *testing.T) {
		w := &world{t0: time.Now()}
		var header string
		sec := int64(time.Second)
		if script != nil {
			header = script[0]
			for _, f := range strings.Fields(header) {
				switch {
				case strings.HasPrefix(f, "retention="):
					w.retention = time.Duration(hx.Atoi64(f[10:]))
				case strings.HasPrefix(f, "repeat="):
					w.repeat = time.Duration(hx.Atoi64(f[7:]))
				case strings.HasPrefix(f, "sr="):
					for _, c := range f[3:] {
						w.srs = append(w.srs, c == '1')
					}
				}
			}
		} else {
			w.repeat = time.Duration(int64(1+r.IntN(6)) * sec)
			w.retention = time.Duration(int64(1+r.IntN(14)) * sec)
			n := 1 + r.IntN(2)
			srs := ""
			for range n {
				b := r.IntN(2) == 0
				w.srs = append(w.srs, b)
				if b {
					srs += "1"
				} else {
					srs += "0"
				}
			}
			header = fmt.Sprintf("case %d retention=%d repeat=%d sr=%s", id, int64(w.retention), int64(w.repeat), srs)
		}
		for range w.srs {
			w.nots = append(w.nots, &fakeNotifier{})
		}
		w.build(nil)
		defer func() {
			w.inhibitor.Stop()
			w.alerts.Close()
			w.cancel()
		}()
		tr.Linef("%s", header)
		do := func(line string) { tr.Linef("%s -> %s", line, w.exec(line)) }
		if script != nil {
			for _, l := range script[1:] {
				do(l)
			}
			return
		}
		// alert timelines: each alert is absent, firing or resolved; flushes see the current set
		state := make([]byte, nAlerts+1) // 0 absent, 'f', 'r'
		now := int64(0)
		nops := 8 + r.IntN(16)
		for range nops {
			now += int64(1+r.IntN(4)) * sec / 2
			switch x := r.IntN(20); {
			case x < 15:
				// evolve alerts
				for i := 1; i <= nAlerts; i++ {
					switch r.IntN(8) {
					case 0:
						state[i] = 'f'
					case 1:
						if state[i] == 'f' {
							state[i] = 'r'
						}
					case 2:
						if state[i] == 'r' {
							state[i] = 0 // deleted after a successful flush, or GC
						}
					}
				}
				var as []string
				for i := 1; i <= nAlerts; i++ {
					if state[i] != 0 && r.IntN(6) > 0 { // sometimes muted
						as = append(as, fmt.Sprintf("%d:%c", i, state[i]))
					}
				}
				acc := ""
				for range w.srs {
					if r.IntN(5) == 0 {
						acc += "0"
					} else {
						acc += "1"
					}
				}
				delay := int64(0)
				if r.IntN(3) == 0 {
					delay = int64(r.IntN(3)) * sec / 2
				}
				lag := int64(0) // the tick may have fired before it is handled
				if r.IntN(4) == 0 {
					lag = int64(r.IntN(3)) * sec / 2
				}
				do(fmt.Sprintf("flush %d %d %s %s %d", now-lag, now, hx.Join(as, ","), acc, delay))
				now += delay
			case x < 18:
				do(fmt.Sprintf("gc %d", now))
			default:
				do("reload")
			}
		}
	})
}

func TestEngine(t *testing.T) {
	tr := hx.Open()
	defer tr.Close()
	if s := hx.Script(); s != nil {
		var cur []string
		n := 0
		flush := func() {
			if cur != nil {
				runCase(t, tr, n, nil, cur)
				n++
			}
		}
		for _, l := range s {
			if strings.HasPrefix(l, "case ") {
				flush()
				cur = []string{l}
			} else if cur != nil {
				cur = append(cur, l)
			}
		}
		flush()
		return
	}
	r := hx.Rand(4)
	for id := range hx.Cases(1200, 30000) {
		runCase(t, tr, id, r, nil)
	}
}
