//go:build reloadinner

// Engine `reload` (C17), inner part: the REAL application (package app:
// app.New / Start / Reload / Stop, the config coordinator and the reloader
// subscriber of app/reloader.go) runs in-process on a loopback port, with a
// config file in a scratch directory and webhook receivers pointing at an
// httptest server of the harness.  A case is a sequence
//
//	steps                       -> F:<callee>,…,E:<callee>,…     order of fallible / live-state steps of reloader.reload (go/ast)
//	start <cfg>                 -> ok | err:<stage>
//	probe <alertname> <sev>     -> <cfg>.<receiver>[,…] | none   who was notified of a NEW alert (posted through the API)
//	reload <cfg> <fault> <via>  -> ok | err:<stage>              via http = POST /-/reload, api = App.Reload()
//	status                      -> <cfg> | unknown               GET /api/v2/status → which configuration is served
//	astatus <name>              -> tgt=<state>:<silencedBy ok 0|1>:<n inhibitedBy> src=<state>:<n silencedBy>:<n inhibitedBy> grp=… flt=<roles>:<roles>:<roles>
//	                               what GET /api/v2/alerts reports for an alert that is BOTH inhibited (by the src alert,
//	                               rule role=src > role=tgt equal alertname) and silenced (a silence on it alone); flt = the roles
//	                               (src, tgt) listed by GET …?inhibited=false, …?silenced=false, …?active=false
//	starttorn <cfg> <cut>       -> refused:<stage> file=same|changed | started file=same|changed
//	                               a notification-log snapshot of 3 records minus its last <cut> bytes lies in the data directory
//	stop                        -> ok
//
// reload variants: fault `big` = a valid configuration with thousands of routes; via `hammer` = App.Reload() with status
// requests in flight while the configuration is swapped (see the op).
//
// Every configuration routes to its own webhook paths (/hook/<cfg>/<receiver>),
// so which configuration is in force is observed behaviourally; its receivers
// are named <cfg>-r0 / <cfg>-r1, which is how the served configuration (the
// marshalled form, secrets masked) is recognised.
//
// This package imports app → ui, whose //go:embed needs ui/app/dist; the outer
// test (../engine_test.go) builds this binary with a -overlay that supplies a
// placeholder without touching the repository.  Real time, real sockets: the
// waits are generous and every expectation is "eventually".
package inner

import (
	"bytes"
	"context"
	"encoding/json"
	"fmt"
	"go/ast"
	"go/parser"
	"go/token"
	"io"
	"net/http"
	"net/http/httptest"
	"os"
	"path/filepath"
	"regexp"
	"sort"
	"strconv"
	"strings"
	"sync"
	"sync/atomic"
	"syscall"
	"testing"
	"time"

	"github.com/prometheus/client_golang/prometheus"
	"github.com/prometheus/common/promslog"
	"github.com/prometheus/exporter-toolkit/web"

	"github.com/prometheus/alertmanager/app"
	"github.com/prometheus/alertmanager/config"
	"github.com/prometheus/alertmanager/dispatch"
	"github.com/prometheus/alertmanager/featurecontrol"
	"github.com/prometheus/alertmanager/matcher/compat"
	"github.com/prometheus/alertmanager/nflog"
	"github.com/prometheus/alertmanager/nflog/nflogpb"

	"verif/harness/hx"
)

const (
	groupWait   = 5 * time.Second        // a posted alert must show up in an aggregation group of the live dispatcher within this …
	groupPolls  = 12                     // … and only after this many answered polls is "not grouped" believed (the API is responsive, nothing ingests)
	probeWait   = 40 * time.Second       // once grouped, the notification due after group_wait (100 ms) must arrive within this
	probeSettle = 300 * time.Millisecond // after the first arrival: time for a second (wrong) receiver to show up
)

type world struct {
	dir     string
	cfgPath string
	a       *app.App
	addr    string
	hook    *httptest.Server
	mu      sync.Mutex
	got     map[string]map[string]bool // alertname -> set of "<cfg>.<receiver>"
	texts   map[string]string          // cfg id -> the text last written for it (valid variants only)
	repo    string
}

func newWorld(t *testing.T) *world {
	dir, err := os.MkdirTemp("", "verif-reload-")
	if err != nil {
		t.Fatal(err)
	}
	w := &world{dir: dir, cfgPath: filepath.Join(dir, "alertmanager.yml"), got: map[string]map[string]bool{}, texts: map[string]string{}}
	w.hook = httptest.NewServer(http.HandlerFunc(func(rw http.ResponseWriter, req *http.Request) {
		body, _ := io.ReadAll(req.Body)
		var msg struct {
			Alerts []struct {
				Labels map[string]string `json:"labels"`
			} `json:"alerts"`
		}
		_ = json.Unmarshal(body, &msg)
		p := strings.Split(strings.TrimPrefix(req.URL.Path, "/hook/"), "/")
		// a receiver that needs a few seconds (alerts named slow-…): the notification counts only when the request
		// was still alive at the end — a flush has max(group_interval, 10 s) for its deliveries
		for _, al := range msg.Alerts {
			if strings.HasPrefix(al.Labels["alertname"], "slow-") {
				select {
				case <-time.After(3 * time.Second):
				case <-req.Context().Done():
					return
				}
				break
			}
		}
		if len(p) == 2 {
			w.mu.Lock()
			for _, al := range msg.Alerts {
				n := al.Labels["alertname"]
				if w.got[n] == nil {
					w.got[n] = map[string]bool{}
				}
				w.got[n][p[0]+"."+p[1]] = true
			}
			w.mu.Unlock()
		}
		rw.WriteHeader(http.StatusOK)
	}))
	return w
}

func (w *world) close() {
	if w.a != nil {
		_ = w.a.Stop(context.Background())
		w.a = nil
	}
	w.hook.Close()
	os.RemoveAll(w.dir)
}

// configText: configuration <id>, with one fault injected (none = valid).
func (w *world) configText(id, fault string) string {
	var b strings.Builder
	child := id + "-r1"
	interval := "1s"
	switch fault {
	case "undefined-receiver":
		child = "nosuchreceiver"
	case "zero-interval":
		interval = "0s"
	}
	fmt.Fprintf(&b, "# configuration %s\nroute:\n  receiver: %s-r0\n  group_by: [alertname]\n  group_wait: 100ms\n  group_interval: %s\n  repeat_interval: 4h\n", id, id, interval)
	// the sev="x" route names an interval declared under the deprecated top-level key mute_time_intervals; it holds in 1999 only,
	// so the route is never muted: its alerts must be notified like any other
	fmt.Fprintf(&b, "  routes:\n    - matchers: [ sev=\"x\" ]\n      receiver: %s\n      mute_time_intervals: [ long-ago ]\n", child)
	// a route that is muted around the clock (op gmuted)
	fmt.Fprintf(&b, "    - matchers: [ sev=\"m\" ]\n      receiver: %s-r0\n      mute_time_intervals: [ always ]\n", id)
	if fault == "big" {
		// a valid configuration whose textual form takes a while to produce (GET /api/v2/status marshals it)
		for i := 0; i < bigRoutes; i++ {
			fmt.Fprintf(&b, "    - matchers: [ filler=\"v%d\", filler2=~\"w%d.*\" ]\n      receiver: %s-r0\n      group_by: [ alertname, filler, f%d ]\n", i, i, id, i)
		}
	}
	b.WriteString("mute_time_intervals:\n  - name: long-ago\n    time_intervals:\n      - years: [ '1999' ]\n")
	b.WriteString("time_intervals:\n  - name: always\n    time_intervals:\n      - times:\n          - start_time: '00:00'\n            end_time: '24:00'\n")
	b.WriteString("inhibit_rules:\n  - source_matchers: [ role=\"src\" ]\n    target_matchers: [ role=\"tgt\" ]\n    equal: [ alertname ]\n")
	b.WriteString("receivers:\n")
	for _, r := range []string{"r0", "r1"} {
		fmt.Fprintf(&b, "  - name: %s-%s\n    webhook_configs:\n      - url: %s/hook/%s/%s\n        send_resolved: false\n", id, r, w.hook.URL, id, r)
		if fault == "receiver-ca-missing" && r == "r1" {
			fmt.Fprintf(&b, "        http_config:\n          tls_config:\n            ca_file: %s\n", filepath.Join(w.dir, "no-such-ca-"+id+".pem"))
		}
	}
	switch fault {
	case "template-syntax":
		tp := filepath.Join(w.dir, "bad-"+id+".tmpl")
		_ = os.WriteFile(tp, []byte("{{ define \"verif.bad\" }}{{ .Alerts | nosuchfunction }}{{ end }}\n"), 0o600)
		fmt.Fprintf(&b, "templates:\n  - %s\n", tp)
	case "template-badglob":
		fmt.Fprintf(&b, "templates:\n  - '%s'\n", filepath.Join(w.dir, "[unclosed"))
	case "template-ok":
		tp := filepath.Join(w.dir, "good-"+id+".tmpl")
		_ = os.WriteFile(tp, []byte("{{ define \"verif.good\" }}ok{{ end }}\n"), 0o600)
		fmt.Fprintf(&b, "templates:\n  - %s\n", tp)
	case "tracing-ca-missing":
		fmt.Fprintf(&b, "tracing:\n  client_type: http\n  endpoint: 127.0.0.1:4318\n  tls_config:\n    ca_file: %s\n", filepath.Join(w.dir, "no-such-tracing-ca-"+id+".pem"))
	case "tracing-headers-file-missing":
		fmt.Fprintf(&b, "tracing:\n  client_type: grpc\n  endpoint: 127.0.0.1:4317\n  insecure: true\n  headers:\n    X-Verif:\n      files: [ %s ]\n", filepath.Join(w.dir, "no-such-header-"+id))
	case "yaml":
		b.WriteString("time_intervals: [ {\n")
	case "unknown-field":
		b.WriteString("no_such_top_level_key: 1\n")
	}
	return b.String()
}

func (w *world) write(id, fault string) {
	txt := w.configText(id, fault)
	if err := os.WriteFile(w.cfgPath, []byte(txt), 0o600); err != nil {
		panic(err)
	}
	if validVariant(fault) {
		w.texts[id] = txt
	}
}

// validVariant: the configuration variants that are valid (a reload with them must be accepted).
func validVariant(fault string) bool { return fault == "none" || fault == "template-ok" || fault == "big" }

// bigRoutes: number of filler routes of the `big` variant; hammerRequests status requests are sent hammerLead before
// the parked reload is let go (the text of a big configuration takes several times hammerLead to produce).
const (
	bigRoutes      = 3000
	hammerRequests = 4
	hammerLead     = 8 * time.Millisecond
	hammerRounds   = 1
)

// stage names the step at which the implementation rejected the configuration.
func (w *world) stage(msg string) string {
	if _, err := config.LoadFile(w.cfgPath); err != nil {
		return "load"
	}
	switch {
	case strings.Contains(msg, "failed to parse templates"):
		return "templates"
	case strings.Contains(msg, "failed to apply tracing config"):
		return "tracing"
	case strings.Contains(msg, "nil config"):
		return "other"
	}
	return "receivers"
}

func (w *world) get(path string) (int, []byte, error) {
	c := http.Client{Timeout: 30 * time.Second}
	resp, err := c.Get("http://" + w.addr + path)
	if err != nil {
		return 0, nil, err
	}
	defer resp.Body.Close()
	b, _ := io.ReadAll(resp.Body)
	return resp.StatusCode, b, nil
}

func (w *world) post(path, ctype string, body []byte) (int, []byte, error) {
	c := http.Client{Timeout: 60 * time.Second}
	resp, err := c.Post("http://"+w.addr+path, ctype, bytes.NewReader(body))
	if err != nil {
		return 0, nil, err
	}
	defer resp.Body.Close()
	b, _ := io.ReadAll(resp.Body)
	return resp.StatusCode, b, nil
}

// newApp: the application on a loopback port, cluster off, with the world's configuration file and the given data directory.
func (w *world) newApp(dataDir string) (*app.App, error) {
	logger := promslog.NewNopLogger()
	ff, err := featurecontrol.NewFlags(logger, "")
	if err != nil {
		return nil, err
	}
	compat.InitFromFlags(logger, ff)
	addrs := []string{"127.0.0.1:0"}
	systemd, webCfg := false, ""
	opts := app.DefaultOptions()
	opts.ConfigFile = w.cfgPath
	opts.DataDir = dataDir
	opts.WebConfig = &web.FlagConfig{WebListenAddresses: &addrs, WebSystemdSocket: &systemd, WebConfigFile: &webCfg}
	opts.Logger = logger
	opts.Registerer = prometheus.NewRegistry()
	opts.Flagger = ff
	return app.New(opts)
}

func (w *world) exec(line string) string {
	t := strings.Fields(line)
	switch t[0] {
	case "steps":
		return reloadSteps(filepath.Join(w.repo, "app", "reloader.go"))
	case "start":
		if w.a != nil {
			return "err:already"
		}
		w.write(t[1], "none")
		var a *app.App
		var err error
		for attempt := 0; attempt < 3; attempt++ { // a failed bind on an ephemeral port is retried
			a, err = w.newApp(filepath.Join(w.dir, "data"))
			if err == nil {
				break
			}
			time.Sleep(200 * time.Millisecond)
		}
		if err != nil {
			return "err:" + w.stage(err.Error())
		}
		if err := a.Start(); err != nil {
			_ = a.Stop(context.Background())
			return "err:start"
		}
		w.a, w.addr = a, a.Addr()
		for deadline := time.Now().Add(30 * time.Second); time.Now().Before(deadline); time.Sleep(20 * time.Millisecond) {
			if code, _, err := w.get("/-/healthy"); err == nil && code == 200 {
				return "ok"
			}
		}
		return "err:unhealthy"
	case "starttorn":
		// a notification-log snapshot of three records, cut inside its last record, lies in the data directory: the application
		// must refuse to start (the file is not a snapshot the code ever wrote) and must leave the file alone
		if w.a != nil {
			return "err:already"
		}
		w.write(t[1], "none")
		cut, _ := strconv.Atoi(t[2])
		dataDir := filepath.Join(w.dir, "data-torn")
		if err := os.MkdirAll(dataDir, 0o777); err != nil {
			return "err:mkdir"
		}
		l, err := nflog.New(nflog.Options{Retention: 120 * time.Hour, Metrics: prometheus.NewRegistry()})
		if err != nil {
			return "err:nflog-new"
		}
		for i := 0; i < 3; i++ {
			rcv := &nflogpb.Receiver{GroupName: t[1] + "-r0", Integration: "webhook", Idx: 0}
			if err := l.Log(rcv, fmt.Sprintf("{}:{alertname=\"torn%d\"}", i), []uint64{uint64(i + 1), uint64(i + 101)}, nil, nflog.NewStore(nil), 0); err != nil {
				return "err:nflog-log"
			}
		}
		var snap bytes.Buffer
		if _, err := l.Snapshot(&snap); err != nil || snap.Len() < 3*30 || cut < 1 || cut > 25 {
			return "err:nflog-snapshot"
		}
		torn := snap.Bytes()[:snap.Len()-cut]
		file := filepath.Join(dataDir, "nflog")
		if err := os.WriteFile(file, torn, 0o600); err != nil {
			return "err:write"
		}
		same := func() string {
			if now, err := os.ReadFile(file); err == nil && bytes.Equal(now, torn) {
				return "file=same"
			}
			return "file=changed"
		}
		a, err := w.newApp(dataDir)
		if err != nil {
			if strings.Contains(err.Error(), "notification log") {
				return "refused:nflog " + same()
			}
			return "refused:" + w.stage(err.Error()) + " " + same()
		}
		// it started: run it and shut it down in the ordinary way (the shutdown snapshot is what makes the loss permanent)
		res := "started"
		if err := a.Start(); err != nil {
			res = "started:start-err"
		}
		_ = a.Stop(context.Background())
		return res + " " + same()
	case "probe":
		if w.a == nil {
			return "noapp"
		}
		// a NEW alert (its own group): notified after group_wait by whatever routing tree is in force.
		// One repetition with another fresh alert absorbs a stall of the machine.
		for try := 0; try < 2; try++ {
			name := t[1]
			if try > 0 {
				name = fmt.Sprintf("%s-again%d", t[1], try)
			}
			now := time.Now()
			labels := map[string]string{"alertname": name}
			if t[2] != "-" {
				labels["sev"] = t[2]
			}
			body, _ := json.Marshal([]map[string]any{{"labels": labels, "startsAt": now.Format(time.RFC3339Nano), "endsAt": now.Add(30 * time.Minute).Format(time.RFC3339Nano)}})
			code, resp, err := w.post("/api/v2/alerts", "application/json", body)
			if err != nil || code != 200 {
				return fmt.Sprintf("posterr:%d:%s", code, hx.Hex(string(resp)))
			}
			// liveness gate: is a dispatcher ingesting at all?  (in-process hand-over, microseconds when one runs)
			grouped, polls := false, 0
			for deadline := now.Add(groupWait); !grouped && (time.Now().Before(deadline) || polls < groupPolls); time.Sleep(40 * time.Millisecond) {
				code, body, err := w.get("/api/v2/alerts/groups")
				if err != nil || code != 200 {
					if time.Since(now) > 2*groupWait {
						break
					}
					continue
				}
				polls++
				grouped = bytes.Contains(body, []byte(`"alertname":"`+name+`"`))
				if time.Since(now) > 4*groupWait {
					break
				}
			}
			var first time.Time
			for deadline := time.Now().Add(probeWait); grouped && time.Now().Before(deadline); time.Sleep(10 * time.Millisecond) {
				w.mu.Lock()
				n := len(w.got[name])
				w.mu.Unlock()
				if n > 0 && first.IsZero() {
					first = time.Now()
				}
				if !first.IsZero() && time.Since(first) > probeSettle {
					break
				}
			}
			w.mu.Lock()
			var who []string
			for k := range w.got[name] {
				who = append(who, k)
			}
			w.mu.Unlock()
			if len(who) > 0 {
				sort.Strings(who)
				return strings.Join(who, ",")
			}
		}
		return "none"
	case "reload":
		if w.a == nil {
			return "noapp"
		}
		w.write(t[1], t[2])
		var msg string
		if t[3] == "slow" {
			// the new dispatcher is held up while it routes the alerts it found in the provider (yield point of the verif
			// build); an alert posted meanwhile must be notified by the NEW configuration only: the old dispatcher is gone
			var stalled atomic.Bool
			dispatch.VerifYield = func(point string) {
				if point == "groupAlert:loaded" && !stalled.Swap(true) {
					time.Sleep(600 * time.Millisecond)
				}
			}
			done := make(chan error, 1)
			go func() { done <- w.a.Reload() }()
			time.Sleep(200 * time.Millisecond)
			name := "late-" + t[1]
			now := time.Now()
			body, _ := json.Marshal([]map[string]any{{"labels": map[string]string{"alertname": name}, "startsAt": now.Format(time.RFC3339Nano), "endsAt": now.Add(30 * time.Minute).Format(time.RFC3339Nano)}})
			code, _, perr := w.post("/api/v2/alerts", "application/json", body)
			err := <-done
			dispatch.VerifYield = nil
			if err != nil {
				return "err:" + w.stage(err.Error()) + " -"
			}
			if perr != nil || code != 200 {
				return "ok posterr"
			}
			var first time.Time
			for deadline := time.Now().Add(probeWait); time.Now().Before(deadline); time.Sleep(10 * time.Millisecond) {
				w.mu.Lock()
				n := len(w.got[name])
				w.mu.Unlock()
				if n > 0 && first.IsZero() {
					first = time.Now()
				}
				if !first.IsZero() && time.Since(first) > 2*probeSettle {
					break
				}
			}
			w.mu.Lock()
			var who []string
			for k := range w.got[name] {
				who = append(who, k)
			}
			w.mu.Unlock()
			sort.Strings(who)
			return "ok " + hx.Join(who, ",")
		}
		if t[3] == "hammer" {
			// status requests are in flight while the reload is applied.  The configuration names a template file that is a
			// FIFO: reloader.reload parks reading it (its first step), the status requests are sent, then the template text
			// is written and the reload goes on to swap the configuration while the requests are still being answered
			// (the text of a `big` configuration takes long to produce).  Afterwards `status` must serve the new one.
			fifo := filepath.Join(w.dir, "tmpl-"+t[1]+".fifo")
			_ = os.Remove(fifo)
			if err := syscall.Mkfifo(fifo, 0o600); err != nil {
				return "err:mkfifo"
			}
			txt := w.configText(t[1], t[2]) + fmt.Sprintf("templates:\n  - %s\n", fifo)
			if err := os.WriteFile(w.cfgPath, []byte(txt), 0o600); err != nil {
				panic(err)
			}
			if validVariant(t[2]) {
				w.texts[t[1]] = txt
			}
			content := []byte("{{/* verif: template text behind a slow file */}}\n")
			done := make(chan error, 1)
			go func() { done <- w.a.Reload() }()
			var wg sync.WaitGroup
			var rerr error
			finished, held := false, false
			// every answer is searched for a receiver's webhook URL: a secret, `<secret>` in every rendering of the configuration
			var leaked atomic.Bool
			extra, iter := 0, 0
			statusGet := func() {
				if _, body, err := w.get("/api/v2/status"); err == nil && bytes.Contains(body, []byte("/hook/")) {
					leaked.Store(true)
				}
			}
			// feed: once the reloader has the FIFO open for reading, write the text (after `hold`, if given)
			feed := func(hold func()) {
				fd, err := syscall.Open(fifo, syscall.O_WRONLY|syscall.O_NONBLOCK, 0)
				if err != nil {
					return // nobody reads it (yet)
				}
				if hold != nil {
					hold()
				}
				_, _ = syscall.Write(fd, content)
				_ = syscall.Close(fd)
			}
			for deadline := time.Now().Add(60 * time.Second); !finished && time.Now().Before(deadline); {
				select {
				case rerr = <-done:
					finished = true
					continue
				default:
				}
				if !held {
					feed(func() {
						held = true
						for i := 0; i < hammerRequests; i++ {
							wg.Add(1)
							go func() { defer wg.Done(); statusGet() }()
						}
						time.Sleep(hammerLead)
					})
				} else {
					feed(nil) // the file is read once per template set (text, html): serve every further read at once
					// keep a status request in flight for as long as the reload is at work (bounded)
					if iter++; iter%15 == 0 && extra < 400 {
						extra++
						wg.Add(1)
						go func() { defer wg.Done(); statusGet() }()
					}
				}
				if !held {
					time.Sleep(500 * time.Microsecond)
				} else {
					time.Sleep(100 * time.Microsecond)
				}
			}
			if !finished {
				// unblock a reader that may still be parked, then give up
				feed(nil)
				select {
				case rerr = <-done:
				case <-time.After(30 * time.Second):
					return "err:hung"
				}
			}
			wg.Wait()
			_ = os.Remove(fifo)
			if rerr != nil {
				return "err:" + w.stage(rerr.Error())
			}
			if leaked.Load() {
				return "ok-leak"
			}
			return "ok"
		}
		if t[3] == "api" {
			if err := w.a.Reload(); err != nil {
				msg = err.Error()
			}
		} else {
			code, body, err := w.post("/-/reload", "text/plain", nil)
			switch {
			case err != nil:
				return "err:http"
			case code != 200:
				msg = string(body)
				if msg == "" {
					msg = "status " + fmt.Sprint(code)
				}
			}
		}
		if msg == "" {
			return "ok"
		}
		return "err:" + w.stage(msg)
	case "status":
		if w.a == nil {
			return "noapp"
		}
		code, body, err := w.get("/api/v2/status")
		if err != nil || code != 200 {
			return "unknown"
		}
		var st struct {
			Config struct {
				Original string `json:"original"`
			} `json:"config"`
		}
		if json.Unmarshal(body, &st) != nil {
			return "unknown"
		}
		// the served text is the marshalled configuration (secrets masked): the root receiver's name carries the id
		if m := reRootReceiver.FindStringSubmatch(st.Config.Original); m != nil {
			return m[1]
		}
		return "unknown"
	case "gmuted":
		// two groups, one of a route inside its mute interval, one of a route without intervals: what GET /alerts/groups
		// says about each (C15: the muted group is reported as muted, with the interval's name — and only that group)
		if w.a == nil {
			return "noapp"
		}
		name := t[1]
		now := time.Now()
		mk := func(n, sev string) map[string]any {
			l := map[string]string{"alertname": n}
			if sev != "" {
				l["sev"] = sev
			}
			return map[string]any{"labels": l, "startsAt": now.Format(time.RFC3339Nano), "endsAt": now.Add(30 * time.Minute).Format(time.RFC3339Nano)}
		}
		body, _ := json.Marshal([]map[string]any{mk(name+"-a", "m"), mk(name+"-b", "")})
		if code, resp, err := w.post("/api/v2/alerts", "application/json", body); err != nil || code != 200 {
			return fmt.Sprintf("posterr:%d:%s", code, hx.Hex(string(resp)))
		}
		out := "a=missing b=missing"
		// the muted group is marked by its first flush (group_wait 100 ms)
		for deadline := now.Add(10 * time.Second); time.Now().Before(deadline); time.Sleep(50 * time.Millisecond) {
			code, body, err := w.get("/api/v2/alerts/groups")
			if err != nil || code != 200 {
				continue
			}
			var gs []struct {
				Labels map[string]string `json:"labels"`
				Alerts []struct {
					Labels map[string]string `json:"labels"`
					Status struct {
						State   string   `json:"state"`
						MutedBy []string `json:"mutedBy"`
					} `json:"status"`
				} `json:"alerts"`
			}
			if json.Unmarshal(body, &gs) != nil {
				continue
			}
			a, b := "missing", "missing"
			for _, g := range gs {
				for _, al := range g.Alerts {
					v := fmt.Sprintf("%s:%s", al.Status.State, hx.Join(al.Status.MutedBy, ","))
					switch al.Labels["alertname"] {
					case name + "-a":
						a = v
					case name + "-b":
						b = v
					}
				}
			}
			out = "a=" + a + " b=" + b
			if a == "suppressed:always" && b != "missing" {
				break
			}
		}
		return out
	case "astatus":
		if w.a == nil {
			return "noapp"
		}
		name := t[1]
		now := time.Now()
		mk := func(role string) map[string]any {
			return map[string]any{"labels": map[string]string{"alertname": name, "role": role},
				"startsAt": now.Format(time.RFC3339Nano), "endsAt": now.Add(30 * time.Minute).Format(time.RFC3339Nano)}
		}
		// the target first: its group flushes (group_wait 100 ms) while no source fires; the source comes afterwards, so
		// what the last flush of the group saw is NOT the current verdict
		body, _ := json.Marshal([]map[string]any{mk("tgt")})
		if code, resp, err := w.post("/api/v2/alerts", "application/json", body); err != nil || code != 200 {
			return fmt.Sprintf("posterr:%d:%s", code, hx.Hex(string(resp)))
		}
		time.Sleep(350 * time.Millisecond)
		body, _ = json.Marshal([]map[string]any{mk("src")})
		if code, resp, err := w.post("/api/v2/alerts", "application/json", body); err != nil || code != 200 {
			return fmt.Sprintf("posterr:%d:%s", code, hx.Hex(string(resp)))
		}
		sb, _ := json.Marshal(map[string]any{
			"matchers": []map[string]any{{"name": "alertname", "value": name, "isRegex": false, "isEqual": true}, {"name": "role", "value": "tgt", "isRegex": false, "isEqual": true}},
			"startsAt": now.Format(time.RFC3339Nano), "endsAt": now.Add(30 * time.Minute).Format(time.RFC3339Nano), "createdBy": "verif", "comment": "astatus"})
		code, resp, err := w.post("/api/v2/silences", "application/json", sb)
		if err != nil || code != 200 {
			return fmt.Sprintf("silerr:%d:%s", code, hx.Hex(string(resp)))
		}
		var sr struct {
			SilenceID string `json:"silenceID"`
		}
		_ = json.Unmarshal(resp, &sr)
		type gettable struct {
			Labels map[string]string `json:"labels"`
			Status struct {
				State       string   `json:"state"`
				SilencedBy  []string `json:"silencedBy"`
				InhibitedBy []string `json:"inhibitedBy"`
			} `json:"status"`
		}
		out := "tgt=missing src=missing"
		// the inhibitor learns of the source alert asynchronously: wait until the target is reported inhibited (or 10 s)
		for deadline := now.Add(10 * time.Second); time.Now().Before(deadline); time.Sleep(50 * time.Millisecond) {
			code, body, err := w.get("/api/v2/alerts?filter=" + "alertname%3D%22" + name + "%22")
			if err != nil || code != 200 {
				continue
			}
			var as []gettable
			if json.Unmarshal(body, &as) != nil {
				continue
			}
			var tg, sc *gettable
			for i := range as {
				switch as[i].Labels["role"] {
				case "tgt":
					tg = &as[i]
				case "src":
					sc = &as[i]
				}
			}
			if tg == nil || sc == nil {
				continue
			}
			silOK := 0
			if len(tg.Status.SilencedBy) == 1 && tg.Status.SilencedBy[0] == sr.SilenceID {
				silOK = 1
			}
			out = fmt.Sprintf("tgt=%s:%d:%d src=%s:%d:%d", tg.Status.State, silOK, len(tg.Status.InhibitedBy), sc.Status.State, len(sc.Status.SilencedBy), len(sc.Status.InhibitedBy))
			if len(tg.Status.InhibitedBy) > 0 {
				break
			}
		}
		// the same alert as GET /api/v2/alerts/groups reports it, right away (before the group's next flush)
		grp := "grp=missing"
		if code, body, err := w.get("/api/v2/alerts/groups?filter=" + "alertname%3D%22" + name + "%22"); err == nil && code == 200 {
			var gs []struct {
				Alerts []gettable `json:"alerts"`
			}
			if json.Unmarshal(body, &gs) == nil {
				for _, g := range gs {
					for i := range g.Alerts {
						if a := &g.Alerts[i]; a.Labels["role"] == "tgt" {
							silOK := 0
							if len(a.Status.SilencedBy) == 1 && a.Status.SilencedBy[0] == sr.SilenceID {
								silOK = 1
							}
							grp = fmt.Sprintf("grp=%s:%d:%d", a.Status.State, silOK, len(a.Status.InhibitedBy))
						}
					}
				}
			}
		}
		// visibility follows the reported status: the query flags inhibited=false / silenced=false / active=false are three
		// independent exclusions (which of the two alerts does each request list?)
		flt := func(flag string) string {
			code, body, err := w.get("/api/v2/alerts?filter=" + "alertname%3D%22" + name + "%22&" + flag + "=false")
			if err != nil || code != 200 {
				return "err"
			}
			var as []gettable
			if json.Unmarshal(body, &as) != nil {
				return "err"
			}
			var roles []string
			for i := range as {
				roles = append(roles, as[i].Labels["role"])
			}
			sort.Strings(roles)
			return hx.Join(roles, ",")
		}
		return out + " " + grp + " flt=" + flt("inhibited") + ":" + flt("silenced") + ":" + flt("active")
	case "stop":
		if w.a == nil {
			return "noapp"
		}
		err := w.a.Stop(context.Background())
		w.a = nil
		if err != nil {
			return "err"
		}
		return "ok"
	}
	panic("bad op " + line)
}

// reloadSteps lists, in source order, the steps of (*reloader).reload that can
// fail (a return of a non-nil error: F:<last callee before it>) and those that
// touch the live instance (E:<receiver.method> for Stop / Store / Update /
// ApplyConfig of the event recorder / go …Run()).
func reloadSteps(file string) string {
	fset := token.NewFileSet()
	f, err := parser.ParseFile(fset, file, nil, 0)
	if err != nil {
		return "parse-error"
	}
	var out []string
	for _, d := range f.Decls {
		fd, ok := d.(*ast.FuncDecl)
		if !ok || fd.Name.Name != "reload" || fd.Recv == nil || fd.Body == nil {
			continue
		}
		lastCall := "?"
		sel := func(e ast.Expr) string {
			var parts []string
			for {
				switch x := e.(type) {
				case *ast.SelectorExpr:
					parts = append([]string{x.Sel.Name}, parts...)
					e = x.X
					continue
				case *ast.CallExpr:
					e = x.Fun
					continue
				case *ast.Ident:
					parts = append([]string{x.Name}, parts...)
				}
				break
			}
			if len(parts) > 2 {
				parts = parts[len(parts)-2:]
			}
			return strings.Join(parts, ".")
		}
		ast.Inspect(fd.Body, func(n ast.Node) bool {
			switch x := n.(type) {
			case *ast.FuncLit:
				// closures handed to Walk / Update run later or are pure: their returns are not reload's
				return false
			case *ast.GoStmt:
				out = append(out, "E:go."+sel(x.Call.Fun))
				return false
			case *ast.CallExpr:
				name := sel(x.Fun)
				lastCall = name
				m := name[strings.LastIndex(name, ".")+1:]
				switch {
				case m == "Stop", m == "Store", m == "Update":
					out = append(out, "E:"+name)
				case m == "ApplyConfig" && !strings.Contains(name, "tracing"):
					out = append(out, "E:"+name)
				}
			case *ast.ReturnStmt:
				if len(x.Results) == 1 {
					if id, ok := x.Results[0].(*ast.Ident); ok && id.Name == "nil" {
						return true
					}
					out = append(out, "F:"+lastCall)
				}
			}
			return true
		})
	}
	if len(out) == 0 {
		return "-"
	}
	return strings.Join(out, ",")
}

func runCase(t *testing.T, tr *hx.Trace, repo, header string, lines []string) {
	w := newWorld(t)
	w.repo = repo
	defer w.close()
	tr.Linef("%s", header)
	for _, l := range lines {
		tr.Linef("%s -> %s", l, w.exec(l))
	}
}

var reRootReceiver = regexp.MustCompile(`(?m)^route:\n(?:  .*\n)*?  receiver: (c\d+)-r0\n`)

var (
	loadFaults   = []string{"yaml", "undefined-receiver", "zero-interval", "unknown-field"}
	reloadFaults = []string{"template-syntax", "template-badglob", "receiver-ca-missing", "tracing-ca-missing", "tracing-headers-file-missing"}
)

func TestInner(t *testing.T) {
	repo := os.Getenv("VERIF_RELOAD_REPO")
	tr := hx.Open()
	defer tr.Close()
	if s := hx.Script(); s != nil {
		var hdr string
		var cur []string
		flush := func() {
			if hdr != "" {
				runCase(t, tr, repo, hdr, cur)
			}
		}
		for _, l := range s {
			if strings.HasPrefix(l, "case ") {
				flush()
				hdr, cur = l, nil
			} else if hdr != "" {
				cur = append(cur, l)
			}
		}
		flush()
		return
	}
	r := hx.Rand(17)
	id := 0
	vias := []string{"http", "api"}
	scenario := func(faults []string) {
		id++
		n, p := 0, 0
		cfg := func() string { n++; return fmt.Sprintf("c%d", n) }
		probe := func(sev string) string { p++; return fmt.Sprintf("probe p%d-%d %s", id, p, sev) }
		lines := []string{"steps", "start " + cfg(), probe("-"), probe("x"), fmt.Sprintf("astatus s%d-0", id), fmt.Sprintf("gmuted g%d", id)}
		for _, f := range faults {
			c := cfg()
			lines = append(lines, fmt.Sprintf("reload %s %s %s", c, f, hx.Pick(r, vias)))
			if !validVariant(f) && (id <= len(reloadFaults) || r.IntN(2) == 0) {
				// the operator retries the very same file: rejected once, rejected again
				lines = append(lines, fmt.Sprintf("reload %s %s %s", c, f, hx.Pick(r, vias)))
			}
			lines = append(lines, "status", probe(hx.Pick(r, []string{"-", "x"})))
			if !validVariant(f) {
				// the inhibitor and silencer of the configuration in force are still the ones answering
				lines = append(lines, fmt.Sprintf("astatus s%d-%s", id, c))
			}
			if r.IntN(3) == 0 {
				lines = append(lines, probe(hx.Pick(r, []string{"-", "x"})))
			}
		}
		if id%2 == 1 {
			c := cfg()
			lines = append(lines, fmt.Sprintf("reload %s none slow", c), "status", probe("x"))
		}
		// status requests in flight while a reload is applied (the first ones since the previous reload); the configuration
		// they start under is a big one
		for range hammerRounds {
			big, nxt := cfg(), cfg()
			lines = append(lines, fmt.Sprintf("reload %s big %s", big, hx.Pick(r, vias)), fmt.Sprintf("reload %s none hammer", nxt), "status")
		}
		// after reloads: the API still reads the marker the pipeline writes; a slow receiver still gets its 10 s
		lines = append(lines, fmt.Sprintf("gmuted h%d", id))
		if id%3 == 0 {
			lines = append(lines, fmt.Sprintf("probe slow-%d -", id))
		}
		lines = append(lines, fmt.Sprintf("astatus s%d-1", id), "stop")
		runCase(t, tr, repo, fmt.Sprintf("case %d kind=reload", id), lines)
	}
	// a torn notification-log snapshot in the data directory: the application refuses to start
	torn := func() {
		id++
		runCase(t, tr, repo, fmt.Sprintf("case %d kind=torn", id), []string{fmt.Sprintf("starttorn c1 %d", 1+r.IntN(20))})
	}
	if os.Getenv("VERIF_RELOAD_ONLY") == "torn" {
		for range hx.Cases(3, 12) {
			torn()
		}
		return
	}
	torn()
	// every stage at which a reload can be rejected, each followed by a valid reload that must take effect
	for _, f := range reloadFaults {
		scenario([]string{f, "none"})
	}
	scenario([]string{hx.Pick(r, loadFaults), hx.Pick(r, loadFaults), "template-ok", hx.Pick(r, reloadFaults), hx.Pick(r, loadFaults), "none"})
	for range hx.Cases(1, 25) {
		var fs []string
		for range 2 + r.IntN(4) {
			switch r.IntN(5) {
			case 0, 1:
				fs = append(fs, hx.Pick(r, reloadFaults))
			case 2:
				fs = append(fs, hx.Pick(r, loadFaults))
			case 3:
				fs = append(fs, "template-ok")
			default:
				fs = append(fs, "none")
			}
		}
		scenario(append(fs, "none"))
	}
}
