// Engine `reload` (C17), outer part.  The engine proper (./inner, build tag
// `reloadinner`) drives the real application in-process and therefore imports
// package app → ui, whose `//go:embed app/dist` needs the git-ignored directory
// ui/app/dist.  The tree under check must not be touched, so this test builds
// the inner test binary with `go test -c -overlay`, the overlay supplying a
// placeholder index.html when the directory is missing, and then runs it with
// the environment of this process (VERIF_OUT, VERIF_SEED, VERIF_TIER,
// VERIF_SCRIPT, VERIF_CASES): the inner binary writes the trace.
package reload

import (
	"encoding/json"
	"fmt"
	"os"
	"os/exec"
	"path/filepath"
	"regexp"
	"testing"
)

func TestEngine(t *testing.T) {
	cwd, err := os.Getwd()
	if err != nil {
		t.Fatal(err)
	}
	harness := filepath.Dir(cwd) // …/harness
	gomod, err := os.ReadFile(filepath.Join(harness, "go.mod"))
	if err != nil {
		t.Fatalf("harness go.mod: %v", err)
	}
	m := regexp.MustCompile(`(?m)^replace github.com/prometheus/alertmanager => (\S+)`).FindSubmatch(gomod)
	if m == nil {
		t.Fatal("harness go.mod has no replace line for the tree under check")
	}
	repo := string(m[1])

	tmp, err := os.MkdirTemp("", "verif-reload-build-")
	if err != nil {
		t.Fatal(err)
	}
	defer os.RemoveAll(tmp)
	args := []string{"test", "-c", "-tags", "verif reloadinner"}
	if _, err := os.Stat(filepath.Join(repo, "ui", "app", "dist")); err != nil {
		ph := filepath.Join(tmp, "index.html")
		if err := os.WriteFile(ph, []byte("<html><body>placeholder for the embedded UI (verification build)</body></html>\n"), 0o644); err != nil {
			t.Fatal(err)
		}
		ov, _ := json.Marshal(map[string]map[string]string{"Replace": {filepath.Join(repo, "ui", "app", "dist", "index.html"): ph}})
		ovp := filepath.Join(tmp, "overlay.json")
		if err := os.WriteFile(ovp, ov, 0o644); err != nil {
			t.Fatal(err)
		}
		args = append(args, "-overlay", ovp)
	}
	bin := filepath.Join(tmp, "reloadinner.test")
	args = append(args, "-o", bin, "./reload/inner")
	// the same Go the outer engine was built with (lib/vcheck.py exports VERIF_GO)
	gobin := os.Getenv("VERIF_GO")
	if gobin == "" {
		gobin = "go"
	}
	build := exec.Command(gobin, args...)
	build.Dir = harness
	build.Env = os.Environ()
	if out, err := build.CombinedOutput(); err != nil {
		t.Fatalf("building the in-process application engine against %s failed: %v\n%s", repo, err, out)
	}

	timeout := "280s"
	if os.Getenv("VERIF_TIER") == "thorough" {
		timeout = "840s"
	}
	run := exec.Command(bin, "-test.run", "^TestInner$", "-test.count=1", "-test.timeout="+timeout)
	run.Dir = filepath.Join(harness, "reload", "inner")
	run.Env = append(os.Environ(), "VERIF_RELOAD_REPO="+repo)
	out, err := run.CombinedOutput()
	if err != nil {
		t.Fatalf("inner engine failed: %v\n%s", err, tail(out, 4000))
	}
	fmt.Fprintf(os.Stderr, "%s", tail(out, 400))
}

func tail(b []byte, n int) []byte {
	if len(b) > n {
		return b[len(b)-n:]
	}
	return b
}
