// Engine `groupsched` (C06, concurrent part): schedules of the Lean micro-step
// model AM.Model.GroupMap are replayed on the REAL dispatcher.  The goroutines
// of a real dispatch.Dispatcher (ingestion workers fed by a real mem.Alerts.Put,
// the maintenance goroutine, the flush of every aggregation group) are
// serialised in a chosen order:
//
//   - ingestion workers and maintenance park inside dispatch.VerifYield (build
//     tag `verif`) at "worker:received", "groupAlert:loaded",
//     "groupAlert:beforeCAS", "groupAlert:beforeLoadOrStore" and
//     "doMaintenance:beforeCompareAndDelete"; a goroutine is identified by its
//     goroutine id, labelled at "worker:received" with the thread (= worker
//     index) of the alert the harness has just published;
//   - a flush parks inside the notification stage, i.e. between
//     `ag.alerts.List()` and `DeleteIfNotModified(resolved, true)`;
//   - virtual time (testing/synctest) only advances in `adv`/`final`, in steps
//     of one second, until a flush or the maintenance sweep parks.
//
// One route, group_by [g], every alert has g=x: ONE slot of the route's
// sync.Map, which is what the model's invariants are about.  Every `begin`
// publishes a fresh alert (firing, or already resolved so that the next flush
// empties and destroys the group).
//
//	case <id> threads=<n>
//	begin <t> <a> <r>   -> received|busy|lost E <ev>,… G <groups>      thread t (worker t) gets alert a (r=1: resolved)
//	step <t>            -> loaded|cas|los|done|notparked E … G …   run t to its next yield point / to return
//	adv                 -> ok E … G …              advance time second by second until something parks (at most 25 s)
//	fend <inc>          -> ok|notparked E … G …    release that flush (DeleteIfNotModified runs)
//	mend                -> ok|notparked E … G …    release maintenance (CompareAndDelete runs)
//	final               -> N <ev>,… G <groups>      everything released, time advanced past one more round;
//	                                                N = notifications of the last group_interval
//	ev = F<inc>:<a~r.…> (a flush of group incarnation <inc> has entered the stage and is parked there) |
//	     M (maintenance is parked before CompareAndDelete); '-' = nothing new parked during the op
//	groups = what Dispatcher.Groups() shows: groups ','-joined, alerts '.'-joined, '-' = none
package groupsched

import (
	"bytes"
	"context"
	"fmt"
	"log/slog"
	"math/rand/v2"
	"runtime"
	"sort"
	"strconv"
	"strings"
	"sync"
	"testing"
	"testing/synctest"
	"time"

	"github.com/prometheus/client_golang/prometheus"
	"github.com/prometheus/common/model"
	"github.com/prometheus/common/promslog"

	"github.com/prometheus/alertmanager/alert"
	"github.com/prometheus/alertmanager/config"
	"github.com/prometheus/alertmanager/dispatch"
	"github.com/prometheus/alertmanager/eventrecorder"
	"github.com/prometheus/alertmanager/marker"
	"github.com/prometheus/alertmanager/notify"
	"github.com/prometheus/alertmanager/provider/mem"

	"verif/harness/hx"
)

const cfgYAML = `
route:
  receiver: r0
  group_by: [g]
  group_wait: 10s
  group_interval: 10s
  repeat_interval: 48h
receivers:
- name: r0
`

const (
	groupWait     = 10 * time.Second
	groupInterval = 10 * time.Second
	maintInterval = 7 * time.Second
	nThreads      = 3
	nWorkers      = 4 // GOMAXPROCS 8 → min(max(8/2, 2), 8)
	parkTimeout   = time.Hour
)

type parked struct {
	point string
	ch    chan struct{}
}

func (p *parked) wait() {
	select {
	case <-p.ch:
	case <-time.After(parkTimeout): // virtual time: a forgotten goroutine can never hang the run
	}
}

type flushEv struct {
	uuid   string
	t      time.Time
	alerts []string // "<a>~<r>" sorted
	p      *parked  // nil once released / when not parked
	inc    int      // public incarnation index, -1 until reported
}

type world struct {
	t0 time.Time

	mu        sync.Mutex
	armed     bool
	pending   int // thread whose `begin` is in flight, -1 none
	byGoid    map[uint64]int
	thr       [nThreads]*parked
	busy      [nThreads]bool
	maint     *parked
	flushes   []*flushEv
	gm        marker.GroupMarker
	rid, gk   string // route id and group key of the one group of the case
	incs      map[string]int
	seen      int // flushes[:seen] have been reported
	maintSeen bool

	alerts *mem.Alerts
	disp   *dispatch.Dispatcher
	names  map[string]string // label id → alert number
	pool   [nThreads][]string
	used   [nThreads]int
}

func goid() uint64 {
	var buf [64]byte
	s := buf[:runtime.Stack(buf[:], false)]
	s = bytes.TrimPrefix(s, []byte("goroutine "))
	if i := bytes.IndexByte(s, ' '); i > 0 {
		id, _ := strconv.ParseUint(string(s[:i]), 10, 64)
		return id
	}
	return 0
}

func labels(id string) model.LabelSet {
	return model.LabelSet{"alertname": "A", "g": "x", "id": model.LabelValue(id)}
}

// yield is dispatch.VerifYield for the duration of one case.
func (w *world) yield(point string) {
	w.mu.Lock()
	if !w.armed {
		w.mu.Unlock()
		return
	}
	p := &parked{ch: make(chan struct{})}
	switch point {
	case "worker:received":
		if w.pending < 0 {
			w.mu.Unlock()
			return
		}
		t := w.pending
		w.pending = -1
		w.byGoid[goid()] = t
		p.point = "received"
		w.thr[t] = p
	case "groupAlert:loaded", "groupAlert:beforeCAS", "groupAlert:beforeLoadOrStore":
		t, ok := w.byGoid[goid()]
		if !ok || !w.busy[t] { // not one of the labelled workers (e.g. the initial load)
			w.mu.Unlock()
			return
		}
		p.point = map[string]string{"groupAlert:loaded": "loaded", "groupAlert:beforeCAS": "cas", "groupAlert:beforeLoadOrStore": "los"}[point]
		w.thr[t] = p
	case "doMaintenance:beforeCompareAndDelete":
		p.point = "M"
		w.maint = p
	default:
		w.mu.Unlock()
		return
	}
	w.mu.Unlock()
	p.wait()
}

// Exec is the notification stage: every flush of every aggregation group ends up here.
func (w *world) Exec(ctx context.Context, _ *slog.Logger, alerts ...*alert.Alert) (context.Context, []*alert.Alert, error) {
	id, _ := notify.AggrGroupID(ctx)
	// this stage stands for a muted flush (TimeMuteStage inside a mute interval): it marks the group as muted and lets
	// no alert through; the marker is what GET /alerts/groups reports
	if rid, ok := notify.RouteID(ctx); ok {
		if gk, ok := notify.GroupKey(ctx); ok {
			w.gm.SetMuted(rid, gk, []string{"offhours"})
			w.mu.Lock()
			w.rid, w.gk = rid, gk
			w.mu.Unlock()
		}
	}
	ev := &flushEv{uuid: id, t: time.Now(), inc: -1}
	for _, a := range alerts {
		r := "0"
		if !a.EndsAt.IsZero() { // flush() zeroes EndsAt of everything that is not resolved
			r = "1"
		}
		ev.alerts = append(ev.alerts, w.names[string(a.Labels["id"])]+"~"+r)
	}
	sort.Strings(ev.alerts)
	w.mu.Lock()
	w.flushes = append(w.flushes, ev)
	if w.armed {
		ev.p = &parked{point: "F", ch: make(chan struct{})}
	}
	p := ev.p
	w.mu.Unlock()
	if p != nil {
		p.wait()
	}
	return ctx, nil, nil
}

func (w *world) start(t *testing.T) {
	for k := 0; ; k++ {
		id := fmt.Sprintf("k%d", k)
		o := int(uint64(labels(id).Fingerprint()) % nWorkers)
		if o < nThreads && len(w.pool[o]) < 12 {
			w.pool[o] = append(w.pool[o], id)
		}
		full := true
		for i := range w.pool {
			full = full && len(w.pool[i]) >= 12
		}
		if full {
			break
		}
	}
	logger := promslog.NewNopLogger()
	reg := prometheus.NewRegistry()
	var err error
	w.alerts, err = mem.NewAlerts(context.Background(), 24*time.Hour, 0, nil, logger, eventrecorder.NopRecorder(), reg, nil)
	if err != nil {
		t.Fatal(err)
	}
	cfg, err := config.Load(cfgYAML)
	if err != nil {
		t.Fatal(err)
	}
	route := dispatch.NewRoute(cfg.Route, nil)
	w.gm = marker.NewGroupMarker()
	w.disp = dispatch.NewDispatcher(w.alerts, route, w, w.gm, func(d time.Duration) time.Duration { return d },
		maintInterval, nil, logger, eventrecorder.NopRecorder(), dispatch.NewDispatcherMetrics(false, reg, nil), nil)
	dispatch.VerifYield = w.yield
	go w.disp.Run(time.Now())
	w.disp.WaitForLoading()
	synctest.Wait()
}

// stop releases every parked goroutine, then stops the dispatcher and the provider.
func (w *world) stop() {
	w.mu.Lock()
	w.armed = false
	var ps []*parked
	for i := range w.thr {
		if w.thr[i] != nil {
			ps = append(ps, w.thr[i])
			w.thr[i] = nil
		}
	}
	if w.maint != nil {
		ps = append(ps, w.maint)
		w.maint = nil
	}
	for _, f := range w.flushes {
		if f.p != nil {
			ps = append(ps, f.p)
			f.p = nil
		}
	}
	w.mu.Unlock()
	for _, p := range ps {
		close(p.ch)
	}
	synctest.Wait()
	w.disp.Stop()
	w.alerts.Close()
	dispatch.VerifYield = nil
	synctest.Wait()
}

func (w *world) groups() string {
	gs, _, err := w.disp.Groups(context.Background(), func(*dispatch.Route) bool { return true }, func(*alert.Alert, time.Time) bool { return true })
	if err != nil {
		return "error"
	}
	var out []string
	for _, g := range gs {
		var as []int
		for _, a := range g.Alerts {
			n, _ := strconv.Atoi(w.names[string(a.Labels["id"])])
			as = append(as, n)
		}
		sort.Ints(as)
		s := make([]string, len(as))
		for i, n := range as {
			s[i] = strconv.Itoa(n)
		}
		out = append(out, strings.Join(s, "."))
	}
	sort.Strings(out)
	// is the group reported as muted (the group marker, as the API reads it)?
	flag := "u"
	w.mu.Lock()
	rid, gk := w.rid, w.gk
	w.mu.Unlock()
	if gk != "" {
		if _, muted := w.gm.Muted(rid, gk); muted {
			flag = "m"
		}
	}
	return flag + "|" + hx.Join(out, ",")
}

func (w *world) anyNew() bool {
	w.mu.Lock()
	defer w.mu.Unlock()
	return len(w.flushes) > w.seen || (w.maint != nil && !w.maintSeen)
}

// newEvents reports (and numbers) the flushes not yet reported, and a newly parked maintenance.
func (w *world) newEvents() []string {
	w.mu.Lock()
	defer w.mu.Unlock()
	maintBefore := w.maintSeen
	w.maintSeen = w.maint != nil
	fresh := w.flushes[w.seen:]
	w.seen = len(w.flushes)
	// incarnations first seen in the same instant are numbered in the order of their content
	sorted := append([]*flushEv(nil), fresh...)
	sort.SliceStable(sorted, func(i, j int) bool {
		if !sorted[i].t.Equal(sorted[j].t) {
			return sorted[i].t.Before(sorted[j].t)
		}
		return strings.Join(sorted[i].alerts, ".") < strings.Join(sorted[j].alerts, ".")
	})
	var out []string
	for _, f := range sorted {
		inc, ok := w.incs[f.uuid]
		if !ok {
			inc = len(w.incs)
			w.incs[f.uuid] = inc
		}
		f.inc = inc
		out = append(out, fmt.Sprintf("F%d:%s", inc, hx.Join(f.alerts, ".")))
	}
	if w.maint != nil && !maintBefore {
		out = append(out, "M")
	}
	return out
}

func (w *world) exec(line string) string {
	res := w.exec1(line)
	if strings.HasPrefix(line, "final") {
		return res
	}
	return res + " E " + hx.Join(w.newEvents(), ",") + " G " + w.groups()
}

func (w *world) exec1(line string) string {
	f := strings.Fields(line)
	switch f[0] {
	case "begin":
		t := int(hx.Atoi64(f[1]))
		if t < 0 || t >= nThreads {
			return "busy"
		}
		w.mu.Lock()
		if w.busy[t] || w.used[t] >= len(w.pool[t]) {
			w.mu.Unlock()
			return "busy"
		}
		id := w.pool[t][w.used[t]]
		w.used[t]++
		w.names[id] = f[2]
		w.busy[t] = true
		w.pending = t
		w.mu.Unlock()
		now := time.Now()
		a := &alert.Alert{Alert: model.Alert{Labels: labels(id), StartsAt: now, EndsAt: now.Add(time.Hour)}, UpdatedAt: now}
		if f[3] == "1" {
			a.StartsAt, a.EndsAt = now.Add(-time.Second), now.Add(-time.Millisecond)
		}
		if err := w.alerts.Put(context.Background(), a); err != nil {
			return "error " + hx.Hex(err.Error())
		}
		synctest.Wait()
		w.mu.Lock()
		obs := "lost"
		if w.thr[t] != nil {
			obs = w.thr[t].point
		} else {
			w.busy[t] = false
			w.pending = -1
		}
		w.mu.Unlock()
		return obs
	case "step":
		t := int(hx.Atoi64(f[1]))
		if t < 0 || t >= nThreads {
			return "notparked"
		}
		w.mu.Lock()
		p := w.thr[t]
		w.thr[t] = nil
		w.mu.Unlock()
		if p == nil {
			return "notparked"
		}
		close(p.ch)
		synctest.Wait()
		w.mu.Lock()
		obs := "done"
		if w.thr[t] != nil {
			obs = w.thr[t].point
		} else {
			w.busy[t] = false
		}
		w.mu.Unlock()
		return obs
	case "adv":
		for range 25 {
			time.Sleep(time.Second)
			synctest.Wait()
			if w.anyNew() {
				break
			}
		}
		return "ok"
	case "fend":
		inc := int(hx.Atoi64(f[1]))
		w.mu.Lock()
		var p *parked
		for _, fl := range w.flushes {
			if fl.inc == inc && fl.p != nil {
				p, fl.p = fl.p, nil
				break
			}
		}
		w.mu.Unlock()
		if p == nil {
			return "notparked"
		}
		close(p.ch)
		synctest.Wait()
		return "ok"
	case "mend":
		w.mu.Lock()
		p := w.maint
		w.maint = nil
		w.maintSeen = false
		w.mu.Unlock()
		if p == nil {
			return "notparked"
		}
		close(p.ch)
		synctest.Wait()
		return "ok"
	case "final":
		// nothing is parked any more (see closure); from here on nothing parks
		w.mu.Lock()
		w.armed = false
		w.mu.Unlock()
		time.Sleep(2*groupInterval + groupWait + 2*maintInterval + time.Second)
		synctest.Wait()
		end := time.Now()
		w.newEvents()
		w.mu.Lock()
		var ns []string
		for _, fl := range w.flushes {
			if fl.t.After(end.Add(-groupInterval)) {
				ns = append(ns, fmt.Sprintf("F%d:%s", fl.inc, hx.Join(fl.alerts, ".")))
			}
		}
		w.mu.Unlock()
		return "N " + hx.Join(ns, ",") + " G " + w.groups()
	}
	panic("bad op " + line)
}

// closure: the ops that release whatever is still parked, in a fixed order (threads by index until
// they return, flushes by incarnation, maintenance); `final` is preceded by them in every trace.
func (w *world) closure() []string {
	var out []string
	w.mu.Lock()
	defer w.mu.Unlock()
	for t := range w.thr {
		if w.thr[t] != nil {
			return []string{fmt.Sprintf("step %d", t)}
		}
	}
	for _, fl := range w.flushes {
		if fl.p != nil && fl.inc >= 0 {
			return []string{fmt.Sprintf("fend %d", fl.inc)}
		}
	}
	if w.maint != nil {
		return []string{"mend"}
	}
	return out
}

type caseRun struct {
	w  *world
	tr *hx.Trace
}

func (c *caseRun) do(line string) string {
	if line == "final" {
		for n := 0; n < 400; n++ {
			next := c.w.closure()
			if len(next) == 0 {
				break
			}
			c.do(next[0])
		}
	}
	o := c.w.exec(line)
	c.tr.Linef("%s -> %s", line, o)
	return o
}

func runCase(t *testing.T, tr *hx.Trace, header string, script []string, gen func(c *caseRun)) {
	synctest.Test(t, func(t *testing.T) {
		old := runtime.GOMAXPROCS(2 * nWorkers)
		defer runtime.GOMAXPROCS(old)
		w := &world{t0: time.Now(), armed: true, pending: -1, byGoid: map[uint64]int{}, incs: map[string]int{}, names: map[string]string{}}
		w.start(t)
		defer w.stop()
		tr.Linef("%s", header)
		c := &caseRun{w: w, tr: tr}
		if script != nil {
			for _, l := range script {
				c.do(l)
			}
			return
		}
		gen(c)
	})
}

// ---- directed schedules: the four races the property is about ----

var directed = [][]string{
	// maintenance vs. re-creation through CompareAndSwap: maintenance has seen the destroyed group and is about to
	// delete its slot when a worker swaps a new live group in; a later alert must join that group
	{"begin 0 1 1", "step 0", "step 0", "step 0", "adv", "fend 0", "adv",
		"begin 1 2 0", "step 1", "step 1", "step 1", "mend", "begin 2 3 0", "step 2", "step 2", "step 2", "final"},
	// the same, the later alert arrives while maintenance is still parked
	{"begin 0 1 1", "step 0", "step 0", "step 0", "adv", "fend 0", "adv",
		"begin 1 2 0", "step 1", "step 1", "step 1", "begin 2 3 0", "step 2", "step 2", "mend", "final"},
	// maintenance vs. re-creation through LoadOrStore: the worker found the slot empty long ago, LoadOrStore now
	// returns the destroyed group, the retry goes through CompareAndSwap; maintenance deletes afterwards
	{"begin 1 2 0", "step 1", "step 1", "begin 0 1 1", "step 0", "step 0", "step 0", "adv", "fend 0", "adv",
		"step 1", "step 1", "mend", "begin 2 3 0", "step 2", "step 2", "step 2", "final"},
	// maintenance deletes first, LoadOrStore then stores into the empty slot
	{"begin 1 2 0", "step 1", "step 1", "begin 0 1 1", "step 0", "step 0", "step 0", "adv", "fend 0", "adv",
		"mend", "step 1", "begin 2 3 0", "step 2", "step 2", "final"},
	// two workers race to create through LoadOrStore
	{"begin 0 1 0", "begin 1 2 0", "step 0", "step 1", "step 0", "step 1", "step 0", "step 1", "begin 2 3 0", "step 2", "step 2", "final"},
	// two workers race to re-create through CompareAndSwap; the loser retries through LoadOrStore
	{"begin 0 1 1", "step 0", "step 0", "step 0", "adv", "fend 0",
		"begin 1 2 0", "begin 2 3 0", "step 1", "step 2", "step 1", "step 2", "step 1", "step 2", "step 2", "final"},
	// worker vs. flush-destroy: the worker has loaded the group, the flush empties and destroys it, the insert is refused
	{"begin 0 1 1", "step 0", "step 0", "step 0", "begin 1 2 0", "step 1", "adv", "fend 0", "step 1", "step 1", "final"},
	// the insert lands between the flush's List and its DeleteIfNotModified: the group survives
	{"begin 0 1 1", "step 0", "step 0", "step 0", "begin 1 2 0", "step 1", "adv", "step 1", "fend 0", "final"},
	// three creators, a destroyed group in the slot, maintenance parked in the middle
	{"begin 0 1 1", "step 0", "step 0", "step 0", "adv", "fend 0", "begin 0 2 0", "begin 1 3 0", "begin 2 4 1",
		"step 0", "step 1", "step 2", "adv", "step 0", "step 1", "step 1", "mend", "step 0", "step 2", "final"},
}

// ---- random schedules over the alphabet of AM.GroupMap.Act ----

func genRandom(r *rand.Rand) func(c *caseRun) {
	return func(c *caseRun) {
		var (
			thr     [nThreads]string // "" idle, else the yield point
			flushes = map[int]bool{}
			maint   bool
			nextA   = 1
			budget  = 2 + r.IntN(5)
			ops     = 10 + r.IntN(40)
		)
		pres := 30 + r.IntN(50) // percent of resolved alerts
		for i := 0; i < ops; i++ {
			type cand struct {
				w  int
				op string
			}
			var cs []cand
			for t := range thr {
				if thr[t] == "" && budget > 0 {
					cs = append(cs, cand{2, fmt.Sprintf("begin %d", t)})
				} else if thr[t] != "" {
					cs = append(cs, cand{5, fmt.Sprintf("step %d", t)})
				}
			}
			if maint {
				cs = append(cs, cand{2, "mend"})
			}
			for inc := range flushes {
				cs = append(cs, cand{3, fmt.Sprintf("fend %d", inc)})
			}
			cs = append(cs, cand{3, "adv"})
			sort.Slice(cs, func(i, j int) bool { return cs[i].op < cs[j].op })
			tot := 0
			for _, x := range cs {
				tot += x.w
			}
			k := r.IntN(tot)
			var op string
			for _, x := range cs {
				if k < x.w {
					op = x.op
					break
				}
				k -= x.w
			}
			if strings.HasPrefix(op, "begin") {
				res := 0
				if r.IntN(100) < pres {
					res = 1
				}
				op = fmt.Sprintf("%s %d %d", op, nextA, res)
				nextA++
				budget--
			}
			o := strings.Fields(c.do(op))
			f := strings.Fields(op)
			for _, ev := range hx.Split(o[2], ",") {
				if ev == "M" {
					maint = true
				} else if strings.HasPrefix(ev, "F") {
					inc, _ := strconv.Atoi(ev[1:strings.Index(ev, ":")])
					flushes[inc] = true
				}
			}
			switch f[0] {
			case "begin", "step":
				t := int(hx.Atoi64(f[1]))
				switch o[0] {
				case "done", "lost", "busy", "notparked":
					if o[0] != "busy" {
						thr[t] = ""
					}
				default:
					thr[t] = o[0]
				}
			case "fend":
				delete(flushes, int(hx.Atoi64(f[1])))
			case "mend":
				maint = false
			}
		}
		c.do("final")
	}
}

func TestEngine(t *testing.T) {
	tr := hx.Open()
	defer tr.Close()
	if s := hx.Script(); s != nil {
		var cur []string
		hdr := ""
		flush := func() {
			if hdr != "" {
				runCase(t, tr, hdr, cur, nil)
			}
		}
		for _, l := range s {
			if strings.HasPrefix(l, "case ") {
				flush()
				hdr, cur = l, []string{}
			} else if hdr != "" {
				cur = append(cur, l)
			}
		}
		flush()
		return
	}
	for i, d := range directed {
		runCase(t, tr, fmt.Sprintf("case d%d threads=%d", i, nThreads), d, nil)
	}
	r := hx.Rand(606)
	for id := range hx.Cases(2500, 30000) {
		runCase(t, tr, fmt.Sprintf("case %d threads=%d", id, nThreads), nil, genRandom(r))
	}
}
