// Engine `group` (C06): a real dispatch.Dispatcher fed through a real mem.Alerts
// under testing/synctest virtual time; random routing trees (real config.Load →
// dispatch.NewRoute), alerts firing / resolving / re-firing, groups disappearing
// and being re-created.  Observed: every notification (time, group key, group
// labels, receiver, alert list) and the partition shown by Dispatcher.Groups().
package group

import (
	"context"
	"fmt"
	"log/slog"
	"math/rand/v2"
	"sort"
	"strings"
	"sync"
	"testing"
	"testing/synctest"
	"time"

	"github.com/prometheus/client_golang/prometheus"
	"github.com/prometheus/common/model"
	"github.com/prometheus/common/promslog"

	"github.com/prometheus/alertmanager/alert"
	"github.com/prometheus/alertmanager/dispatch"
	"github.com/prometheus/alertmanager/eventrecorder"
	"github.com/prometheus/alertmanager/marker"
	"github.com/prometheus/alertmanager/notify"
	"github.com/prometheus/alertmanager/provider/mem"

	"verif/harness/hx"
	"verif/harness/rtx"
)

type notif struct {
	t      int64
	key    string
	recv   string
	labels string
	alerts []string
}

func (n notif) String() string {
	return fmt.Sprintf("%d|%s|%s|%s|%s", n.t, hx.Hex(n.key), hx.Hex(n.recv), n.labels, hx.Join(n.alerts, ";"))
}

type stage struct {
	mtx sync.Mutex
	t0  time.Time
	out []notif
}

func (s *stage) Exec(ctx context.Context, _ *slog.Logger, alerts ...*alert.Alert) (context.Context, []*alert.Alert, error) {
	s.mtx.Lock()
	defer s.mtx.Unlock()
	gk, _ := notify.GroupKey(ctx)
	rc, _ := notify.ReceiverName(ctx)
	gl, _ := notify.GroupLabels(ctx)
	now, _ := notify.Now(ctx)
	n := notif{t: int64(now.Sub(s.t0)), key: gk, recv: rc, labels: rtx.LabelSetTok(gl)}
	for _, a := range alerts {
		r := "0"
		if !a.EndsAt.IsZero() {
			r = "1"
		}
		n.alerts = append(n.alerts, rtx.LabelSetTok(a.Labels)+"~"+r)
	}
	sort.Strings(n.alerts)
	s.out = append(s.out, n)
	return ctx, nil, nil
}

func (s *stage) drain() []notif {
	s.mtx.Lock()
	defer s.mtx.Unlock()
	o := s.out
	s.out = nil
	sort.SliceStable(o, func(i, j int) bool {
		if o[i].t != o[j].t {
			return o[i].t < o[j].t
		}
		return o[i].String() < o[j].String()
	})
	return o
}

type world struct {
	t0     time.Time
	nodes  []*rtx.Node
	tree   *rtx.Tree
	alerts *mem.Alerts
	disp   *dispatch.Dispatcher
	st     *stage
	maint  time.Duration
	byRID  map[string]string
}

func (w *world) start() error {
	root := rtx.Assemble(w.nodes)
	if root == nil {
		return fmt.Errorf("no root")
	}
	var err error
	if w.tree, err = rtx.Load(root); err != nil {
		return err
	}
	w.byRID = map[string]string{}
	for id, r := range w.tree.ByID {
		w.byRID[r.ID()] = id
	}
	logger := promslog.NewNopLogger()
	reg := prometheus.NewRegistry()
	w.alerts, err = mem.NewAlerts(context.Background(), 24*time.Hour, 0, nil, logger, eventrecorder.NopRecorder(), reg, nil)
	if err != nil {
		return err
	}
	w.st = &stage{t0: w.t0}
	timeout := func(d time.Duration) time.Duration { return d }
	w.disp = dispatch.NewDispatcher(w.alerts, w.tree.Root, w.st, marker.NewGroupMarker(), timeout, w.maint, nil, logger,
		eventrecorder.NopRecorder(), dispatch.NewDispatcherMetrics(false, reg, nil), nil)
	go w.disp.Run(time.Now())
	synctest.Wait()
	return nil
}

func (w *world) stop() {
	if w.disp != nil {
		w.disp.Stop()
	}
	if w.alerts != nil {
		w.alerts.Close()
	}
	synctest.Wait()
}

func (w *world) sleepTo(off int64) {
	if d := w.t0.Add(time.Duration(off)).Sub(time.Now()); d > 0 {
		time.Sleep(d)
	}
	synctest.Wait()
}

func (w *world) groups() []string {
	gs, _, err := w.disp.Groups(context.Background(), func(*dispatch.Route) bool { return true }, func(*alert.Alert, time.Time) bool { return true })
	if err != nil {
		return []string{"error"}
	}
	var out []string
	for _, g := range gs {
		var as []string
		for _, a := range g.Alerts {
			as = append(as, rtx.LabelSetTok(a.Labels))
		}
		sort.Strings(as)
		id, ok := w.byRID[g.RouteID]
		if !ok {
			id = "?"
		}
		out = append(out, fmt.Sprintf("%s|%s|%s|%s|%s", id, hx.Hex(g.GroupKey), hx.Hex(g.Receiver), rtx.LabelSetTok(g.Labels), hx.Join(as, ";")))
	}
	sort.Strings(out)
	return out
}

func (w *world) observe() string {
	ns := w.st.drain()
	s := make([]string, len(ns))
	for i, n := range ns {
		s[i] = n.String()
	}
	g := w.groups()
	return fmt.Sprintf("N %d %s G %d %s", len(s), strings.Join(s, " "), len(g), strings.Join(g, " "))
}

// exec runs one op.  `put <t> <labels> <starts> <ends>`: offsets relative to the bubble start.
func (w *world) exec(line string) string {
	t := strings.Fields(line)
	switch t[0] {
	case "begin":
		return ""
	case "node":
		w.nodes = append(w.nodes, rtx.ParseNode(line))
		return ""
	case "start":
		if err := w.start(); err != nil {
			return "error " + hx.Hex(err.Error())
		}
		return w.tree.BuildObs()
	}
	if w.disp == nil {
		return "error " + hx.Hex("not started")
	}
	switch t[0] {
	case "put":
		w.sleepTo(hx.Atoi64(t[1]))
		ls := rtx.ParseLabelSet(t[2])
		a := &alert.Alert{Alert: model.Alert{Labels: ls, StartsAt: w.t0.Add(time.Duration(hx.Atoi64(t[3]))), EndsAt: w.t0.Add(time.Duration(hx.Atoi64(t[4])))},
			UpdatedAt: time.Now()}
		if err := w.alerts.Put(context.Background(), a); err != nil {
			return "error " + hx.Hex(err.Error())
		}
		synctest.Wait()
		// what the provider stored (overlap merging is C13's subject): this is what the dispatcher received
		st, err := w.alerts.Get(ls.Fingerprint())
		if err != nil {
			return "error " + hx.Hex(err.Error())
		}
		return fmt.Sprintf("S %d %d %s", int64(st.StartsAt.Sub(w.t0)), int64(st.EndsAt.Sub(w.t0)), w.observe())
	case "adv":
		w.sleepTo(hx.Atoi64(t[1]))
		return w.observe()
	case "stress":
		// many goroutines put distinct alerts in the same instant: already resolved ones make groups flush,
		// empty and get destroyed while firing ones are being inserted into the same groups by the
		// dispatcher's ingestion workers.  Only the quiescent Groups() view is reported.
		now := hx.Atoi64(t[1])
		w.sleepTo(now)
		var wg sync.WaitGroup
		for _, tok := range hx.Split(t[2], ";") {
			i := strings.LastIndex(tok, "~")
			ls := rtx.ParseLabelSet(tok[:i])
			ends := now + 3600*sec
			if tok[i+1:] == "1" {
				ends = now - int64(time.Millisecond)
			}
			a := &alert.Alert{Alert: model.Alert{Labels: ls, StartsAt: w.t0.Add(time.Duration(now - 60*sec)), EndsAt: w.t0.Add(time.Duration(ends))}, UpdatedAt: time.Now()}
			wg.Add(1)
			go func() {
				defer wg.Done()
				w.alerts.Put(context.Background(), a)
			}()
		}
		wg.Wait()
		synctest.Wait()
		w.st.drain()
		g := w.groups()
		return fmt.Sprintf("G %d %s", len(g), strings.Join(g, " "))
	}
	panic("bad op " + line)
}

func runCase(t *testing.T, tr *hx.Trace, lines []string) {
	synctest.Test(t, func(t *testing.T) {
		w := &world{t0: time.Now(), maint: 15 * time.Second}
		for _, f := range strings.Fields(lines[0]) {
			if strings.HasPrefix(f, "maint=") {
				w.maint = time.Duration(hx.Atoi64(f[6:]))
			}
		}
		defer w.stop()
		tr.Linef("%s", lines[0])
		for _, l := range lines[1:] {
			obs := w.exec(l)
			if obs == "" {
				tr.Linef("%s", l)
			} else {
				tr.Linef("%s -> %s", l, obs)
			}
		}
	})
}

// ---- generator ----

const sec = int64(time.Second)

var (
	waits     = []int64{0, 5 * sec, 10 * sec, 30 * sec}
	intervals = []int64{20 * sec, 60 * sec}
	maints    = []int64{7 * sec, 15 * sec, 600 * sec}
)

func genCase(id int, r *rand.Rand) []string {
	g := rtx.GenOpts{MaxDepth: 3, MaxFan: 3, MaxNodes: 7, Names: rtx.LabelNames, Timers: false}
	root := rtx.GenTree(r, g)
	// small timers so that several flush rounds fit into a case
	root.Walk(func(n *rtx.Node) {
		if n.Parent == "" || r.IntN(3) == 0 {
			n.GW = fmt.Sprint(hx.Pick(r, waits))
			n.GI = fmt.Sprint(hx.Pick(r, intervals))
		}
		n.MTI, n.ATI = nil, nil
	})
	lines := []string{fmt.Sprintf("case %d recv=%s maint=%d", id, strings.Join(rtx.Receivers, "."), hx.Pick(r, maints)), "begin"}
	root.Walk(func(n *rtx.Node) { lines = append(lines, n.Line()) })
	lines = append(lines, "start")
	type al struct {
		tok    string
		starts int64
		firing bool
	}
	var pool []al
	for range 3 + r.IntN(4) {
		pool = append(pool, al{tok: rtx.LabelSetTok(rtx.GenLabelSet(r, rtx.LabelNames))})
	}
	now := int64(0)
	nops := 8 + r.IntN(14)
	for i := range nops {
		// whole seconds apart plus a per-op unique millisecond offset: no timer ever ties with an op
		now = (now/sec+int64(1+r.IntN(25)))*sec + int64(i+1)*int64(time.Millisecond)
		k := r.IntN(len(pool))
		a := &pool[k]
		if a.tok == "-" {
			continue
		}
		switch x := r.IntN(10); {
		case x < 3:
			lines = append(lines, fmt.Sprintf("adv %d", now))
		case a.firing && x < 7: // resolve: same start, end just before now
			a.firing = false
			lines = append(lines, fmt.Sprintf("put %d %s %d %d", now, a.tok, a.starts, now-int64(time.Millisecond)/2))
		case a.firing: // refresh
			lines = append(lines, fmt.Sprintf("put %d %s %d %d", now, a.tok, a.starts, now+3600*sec))
		default: // fire (or fire again): young or already old enough for an immediate flush
			a.starts = now - hx.Pick(r, []int64{0, 0, 7 * sec, 100 * sec})
			a.firing = true
			lines = append(lines, fmt.Sprintf("put %d %s %d %d", now, a.tok, a.starts, now+3600*sec))
		}
	}
	lines = append(lines, fmt.Sprintf("adv %d", now+int64(40+r.IntN(60))*sec+500*int64(time.Millisecond)))
	return lines
}

// genStress: group_wait 0 everywhere, a few group-label values, many alerts per burst.
func genStress(id int, r *rand.Rand) []string {
	g := rtx.GenOpts{MaxDepth: 2, MaxFan: 3, MaxNodes: 5, Names: []string{"a", "b"}, Timers: false}
	root := rtx.GenTree(r, g)
	root.Walk(func(n *rtx.Node) {
		n.MTI, n.ATI = nil, nil
		n.GW, n.GI = "-", "-"
		if n.GB == "all" {
			n.GB = "l:a"
		}
	})
	root.GW, root.GI = "0", fmt.Sprint(20*sec)
	lines := []string{fmt.Sprintf("case s%d recv=%s maint=%d", id, strings.Join(rtx.Receivers, "."), hx.Pick(r, maints)), "begin"}
	root.Walk(func(n *rtx.Node) { lines = append(lines, n.Line()) })
	lines = append(lines, "start")
	now := int64(0)
	uniq := 0
	for i := range 3 + r.IntN(4) {
		now = (now/sec+int64(1+r.IntN(30)))*sec + int64(i+1)*int64(time.Millisecond)
		var toks []string
		for range 8 + r.IntN(24) {
			uniq++
			ls := model.LabelSet{"a": model.LabelValue(hx.Pick(r, []string{"x", "y"})), "c": model.LabelValue(fmt.Sprintf("u%d", uniq))}
			if r.IntN(2) == 0 {
				ls["b"] = model.LabelValue(hx.Pick(r, []string{"x", "y"}))
			}
			res := "0"
			if r.IntN(5) < 2 {
				res = "1"
			}
			toks = append(toks, rtx.LabelSetTok(ls)+"~"+res)
		}
		lines = append(lines, fmt.Sprintf("stress %d %s", now, strings.Join(toks, ";")))
	}
	return lines
}

func TestEngine(t *testing.T) {
	tr := hx.Open()
	defer tr.Close()
	if s := hx.Script(); s != nil {
		var cur []string
		flush := func() {
			if cur != nil {
				runCase(t, tr, cur)
			}
		}
		for _, l := range s {
			if strings.HasPrefix(l, "case ") {
				flush()
				cur = []string{l}
			} else if cur != nil {
				cur = append(cur, l)
			}
		}
		flush()
		return
	}
	r := hx.Rand(6)
	n := hx.Cases(4000, 60000)
	for id := range n {
		runCase(t, tr, genCase(id, r))
	}
	for id := range n / 8 {
		runCase(t, tr, genStress(id, r))
	}
}
