// Engine `workers` (C14): the real mem.Alerts provider and the real
// dispatch.Dispatcher under virtual time.  The dispatcher logs "Received alert"
// (debug) in the ingestion worker between the channel receive and the insert
// into the aggregation group: the harness passes a slog.Handler that parks the
// worker there, which makes every interleaving of receive/apply steps
// reproducible without touching the source.
//
//	case <id> workers=<N> owner=<alert>:<worker>,…      (worker = fingerprint mod N)
//	put <now> <alert> <ver> <end>   -> <parked alert:ver,… in arrival order>
//	release <alert>:<ver>           -> <parked…> <groups alert:ver,…>   | notparked
//	groups                          -> <groups alert:ver,…>             (after releasing everything left, oldest first)
//	stress <pairs>                  -> <stale> <total>                  (ungated: fire→resolve pairs back-to-back)
package workers

import (
	"context"
	"fmt"
	"log/slog"
	"math/rand/v2"
	"runtime"
	"sort"
	"strings"
	"sync"
	"testing"
	"testing/synctest"
	"time"

	"github.com/prometheus/client_golang/prometheus"
	"github.com/prometheus/common/model"
	"github.com/prometheus/common/promslog"

	"github.com/prometheus/alertmanager/alert"
	"github.com/prometheus/alertmanager/config"
	"github.com/prometheus/alertmanager/dispatch"
	"github.com/prometheus/alertmanager/eventrecorder"
	"github.com/prometheus/alertmanager/marker"
	"github.com/prometheus/alertmanager/provider/mem"

	"verif/harness/hx"
)

const cfgYAML = `
route:
  receiver: r0
  group_by: [id]
  group_wait: 24h
  group_interval: 24h
  repeat_interval: 48h
receivers:
- name: r0
`

type parked struct {
	key string
	ch  chan struct{}
}

type gate struct {
	mu      sync.Mutex
	enabled bool
	parked  []*parked
}

func (g *gate) keys() string {
	g.mu.Lock()
	defer g.mu.Unlock()
	k := make([]string, len(g.parked))
	for i, p := range g.parked {
		k[i] = p.key
	}
	return hx.Join(k, ",")
}

func (g *gate) release(key string) bool {
	g.mu.Lock()
	for i, p := range g.parked {
		if p.key == key {
			g.parked = append(g.parked[:i:i], g.parked[i+1:]...)
			g.mu.Unlock()
			close(p.ch)
			return true
		}
	}
	g.mu.Unlock()
	return false
}

type handler struct{ g *gate }

func (h handler) Enabled(context.Context, slog.Level) bool { return true }
func (h handler) WithAttrs([]slog.Attr) slog.Handler       { return h }
func (h handler) WithGroup(string) slog.Handler            { return h }
func (h handler) Handle(_ context.Context, r slog.Record) error {
	if r.Message != "Received alert" {
		return nil
	}
	h.g.mu.Lock()
	if !h.g.enabled {
		h.g.mu.Unlock()
		return nil
	}
	var a *alert.Alert
	r.Attrs(func(at slog.Attr) bool {
		if at.Key == "alert" {
			a, _ = at.Value.Any().(*alert.Alert)
		}
		return true
	})
	p := &parked{key: "?", ch: make(chan struct{})}
	if a != nil {
		p.key = fmt.Sprintf("%s:%s", a.Labels["id"], a.Annotations["v"])
	}
	h.g.parked = append(h.g.parked, p)
	h.g.mu.Unlock()
	<-p.ch
	return nil
}

type world struct {
	t0     time.Time
	g      *gate
	alerts *mem.Alerts
	disp   *dispatch.Dispatcher
}

func lset(id string) model.LabelSet { return model.LabelSet{"alertname": "A", "id": model.LabelValue(id)} }

func (w *world) put(now int64, id, ver string, end int64) {
	a := &alert.Alert{
		Alert: model.Alert{Labels: lset(id), Annotations: model.LabelSet{"v": model.LabelValue(ver)},
			StartsAt: w.t0, EndsAt: w.t0.Add(time.Duration(end))},
		UpdatedAt: w.t0.Add(time.Duration(now)),
	}
	if err := w.alerts.Put(context.Background(), a); err != nil {
		panic(err)
	}
}

func (w *world) groups() map[string]string {
	gs, _, err := w.disp.Groups(context.Background(), func(*dispatch.Route) bool { return true }, func(*alert.Alert, time.Time) bool { return true })
	if err != nil {
		panic(err)
	}
	out := map[string]string{}
	for _, g := range gs {
		for _, a := range g.Alerts {
			out[string(a.Labels["id"])] = string(a.Annotations["v"])
		}
	}
	return out
}

func (w *world) groupsStr() string {
	var p []string
	for id, v := range w.groups() {
		p = append(p, id+":"+v)
	}
	sort.Strings(p)
	return hx.Join(p, ",")
}

func (w *world) sleepTo(off int64) {
	if d := w.t0.Add(time.Duration(off)).Sub(time.Now()); d > 0 {
		time.Sleep(d)
	}
	synctest.Wait()
}

func (w *world) exec(line string) string {
	t := strings.Fields(line)
	switch t[0] {
	case "put":
		now := hx.Atoi64(t[1])
		w.sleepTo(now)
		w.put(now, t[2], t[3], hx.Atoi64(t[4]))
		synctest.Wait()
		return w.g.keys()
	case "release":
		if !w.g.release(t[1]) {
			return "notparked"
		}
		synctest.Wait()
		return w.g.keys() + " " + w.groupsStr()
	case "groups":
		for {
			w.g.mu.Lock()
			if len(w.g.parked) == 0 {
				w.g.mu.Unlock()
				break
			}
			k := w.g.parked[0].key
			w.g.mu.Unlock()
			w.g.release(k)
			synctest.Wait()
		}
		return w.groupsStr()
	case "stress":
		n := int(hx.Atoi64(t[1]))
		now := int64(time.Since(w.t0))
		for i := range n {
			id := fmt.Sprintf("s%d", i)
			w.put(now, id, "1", int64(time.Hour))
			w.put(now+1, id, "2", now) // resolved
		}
		synctest.Wait()
		stale := 0
		for _, v := range w.groups() {
			if v != "2" {
				stale++
			}
		}
		return fmt.Sprintf("%d %d", stale, n)
	}
	panic("bad op " + line)
}

func runCase(t *testing.T, tr *hx.Trace, id int, r *rand.Rand, script []string, stress int) {
	synctest.Test(t, func(t *testing.T) {
		var (
			nw     int
			header string
		)
		if script != nil {
			header = script[0]
			for _, f := range strings.Fields(header) {
				if strings.HasPrefix(f, "workers=") {
					nw = int(hx.Atoi64(f[8:]))
				}
			}
		} else {
			nw = hx.Pick(r, []int{2, 2, 3, 4, 8})
		}
		// the dispatcher derives its worker count from GOMAXPROCS: min(max(P/2, 2), 8)
		old := runtime.GOMAXPROCS(2 * nw)
		defer runtime.GOMAXPROCS(old)

		ids := []string{"a", "b", "c"}
		if script == nil {
			var ow []string
			for _, i := range ids {
				ow = append(ow, fmt.Sprintf("%s:%d", i, uint64(lset(i).Fingerprint())%uint64(nw)))
			}
			header = fmt.Sprintf("case %d workers=%d owner=%s", id, nw, strings.Join(ow, ","))
		}
		tr.Linef("%s", header)

		ctx, cancel := context.WithCancel(context.Background())
		w := &world{t0: time.Now(), g: &gate{enabled: stress == 0}}
		for _, l := range script {
			if strings.HasPrefix(l, "stress") {
				w.g.enabled = false
			}
		}
		var err error
		reg := prometheus.NewRegistry()
		w.alerts, err = mem.NewAlerts(ctx, time.Hour, 0, nil, promslog.NewNopLogger(), eventrecorder.NopRecorder(), reg, nil)
		if err != nil {
			t.Fatal(err)
		}
		cfg, err := config.Load(cfgYAML)
		if err != nil {
			t.Fatal(err)
		}
		route := dispatch.NewRoute(cfg.Route, nil)
		w.disp = dispatch.NewDispatcher(w.alerts, route, nil, marker.NewGroupMarker(), func(d time.Duration) time.Duration { return d },
			time.Hour, nil, slog.New(handler{w.g}), eventrecorder.NopRecorder(), dispatch.NewDispatcherMetrics(false, reg, nil), nil)
		go w.disp.Run(time.Now())
		w.disp.WaitForLoading()
		synctest.Wait()
		defer func() {
			w.g.mu.Lock()
			w.g.enabled = false
			ps := w.g.parked
			w.g.parked = nil
			w.g.mu.Unlock()
			for _, p := range ps {
				close(p.ch)
			}
			w.disp.Stop()
			w.alerts.Close()
			cancel()
			synctest.Wait()
		}()

		do := func(line string) string {
			o := w.exec(line)
			tr.Linef("%s -> %s", line, o)
			return o
		}
		if script != nil {
			for _, l := range script[1:] {
				do(l)
			}
			return
		}
		if stress > 0 {
			do(fmt.Sprintf("stress %d", stress))
			return
		}
		now := int64(0)
		ver := 0
		nput := 2 + r.IntN(5)
		parkedNow := ""
		pool := ids[:1+r.IntN(3)]
		for nput > 0 || (parkedNow != "-" && parkedNow != "" && r.IntN(3) > 0) {
			ps := hx.Split(parkedNow, ",")
			if nput > 0 && (len(ps) == 0 || r.IntN(2) == 0) {
				nput--
				ver++
				now += int64(time.Millisecond)
				end := int64(time.Hour)
				if r.IntN(3) == 0 {
					end = now // a resolve
				}
				parkedNow = do(fmt.Sprintf("put %d %s %d %d", now, hx.Pick(r, pool), ver, end))
			} else if len(ps) > 0 {
				o := do("release " + hx.Pick(r, ps))
				parkedNow = strings.Fields(o)[0]
			}
		}
		do("groups")
	})
}

func TestEngine(t *testing.T) {
	tr := hx.Open()
	defer tr.Close()
	if s := hx.Script(); s != nil {
		var cur []string
		n := 0
		flush := func() {
			if cur != nil {
				runCase(t, tr, n, nil, cur, 0)
				n++
			}
		}
		for _, l := range s {
			if strings.HasPrefix(l, "case ") {
				flush()
				cur = []string{l}
			} else if cur != nil {
				cur = append(cur, l)
			}
		}
		flush()
		return
	}
	r := hx.Rand(14)
	for id := range hx.Cases(8000, 60000) {
		runCase(t, tr, id, r, nil, 0)
	}
	ns := 4
	if hx.Thorough() {
		ns = 20
	}
	for i := range ns {
		runCase(t, tr, 1000000+i, r, nil, 2000)
	}
}
