// Engine `workers` (C14): the real mem.Alerts provider and the real
// dispatch.Dispatcher under virtual time.  The dispatcher logs "Received alert"
// (debug) in the ingestion worker between the channel receive and the insert
// into the aggregation group: the harness passes a slog.Handler that parks the
// worker there, which makes every interleaving of receive/apply steps
// reproducible without touching the source.
//
//	case <id> workers=<N> owner=<alert>:<worker>,…      (worker = fingerprint mod N)
//	put <now> <alert> <ver> <end>   -> <parked alert:ver,… in arrival order>
//	release <alert>:<ver>           -> <parked…> <groups alert:ver,…>   | notparked
//	groups                          -> <groups alert:ver,…>             (after releasing everything left, oldest first)
//	stress <pairs>                  -> <stale> <total>                  (ungated: fire→resolve pairs back-to-back)
//
// Dispatcher (re)start on a provider that already holds alerts (header `load=1`: no dispatcher until `start`):
//
//	put … (before start)            -> -                                (stored in the provider only)
//	start                           -> <parked>                         a new dispatcher is created and Run; a running one is drained and stopped first
//	release ^                       -> <parked…> <groups>|loading       releases the initial load (parked at a snapshot alert, shown as ^alert:ver)
//	lstress <n>                     -> <stale> <total>                  (ungated: n alerts in the provider, dispatcher started, all n resolved at once)
//
// The initial load (`Run` routing what `SlurpAndSubscribe` returned) logs the same "Received alert" line and parks at
// the same handler; its items are recognised by content: the versions the provider held when the dispatcher
// started.  While the dispatcher is loading, `Groups()` blocks: the group dump is `loading`.
package workers

import (
	"context"
	"fmt"
	"log/slog"
	"math/rand/v2"
	"runtime"
	"sort"
	"strconv"
	"strings"
	"sync"
	"testing"
	"testing/synctest"
	"time"

	"github.com/prometheus/client_golang/prometheus"
	"github.com/prometheus/common/model"
	"github.com/prometheus/common/promslog"

	"github.com/prometheus/alertmanager/alert"
	"github.com/prometheus/alertmanager/config"
	"github.com/prometheus/alertmanager/dispatch"
	"github.com/prometheus/alertmanager/eventrecorder"
	"github.com/prometheus/alertmanager/marker"
	"github.com/prometheus/alertmanager/provider/mem"

	"verif/harness/hx"
)

const cfgYAML = `
route:
  receiver: r0
  group_by: [id]
  group_wait: 24h
  group_interval: 24h
  repeat_interval: 48h
receivers:
- name: r0
`

const parkTimeout = time.Hour

type parked struct {
	key string
	ch  chan struct{}
}

type gate struct {
	mu      sync.Mutex
	enabled bool
	parked  []*parked
	snap    map[string]bool // alert:ver the provider held when the current dispatcher was started
}

func (g *gate) keys() string {
	g.mu.Lock()
	defer g.mu.Unlock()
	k := make([]string, len(g.parked))
	for i, p := range g.parked {
		k[i] = p.key
	}
	return hx.Join(k, ",")
}

func (g *gate) release(key string) bool {
	g.mu.Lock()
	for i, p := range g.parked {
		if p.key == key || (key == "^" && strings.HasPrefix(p.key, "^")) {
			g.parked = append(g.parked[:i:i], g.parked[i+1:]...)
			g.mu.Unlock()
			close(p.ch)
			return true
		}
	}
	g.mu.Unlock()
	return false
}

type handler struct{ g *gate }

func (h handler) Enabled(context.Context, slog.Level) bool { return true }
func (h handler) WithAttrs([]slog.Attr) slog.Handler       { return h }
func (h handler) WithGroup(string) slog.Handler            { return h }
func (h handler) Handle(_ context.Context, r slog.Record) error {
	if r.Message != "Received alert" {
		return nil
	}
	h.g.mu.Lock()
	if !h.g.enabled {
		h.g.mu.Unlock()
		return nil
	}
	var a *alert.Alert
	r.Attrs(func(at slog.Attr) bool {
		if at.Key == "alert" {
			a, _ = at.Value.Any().(*alert.Alert)
		}
		return true
	})
	p := &parked{key: "?", ch: make(chan struct{})}
	if a != nil {
		p.key = fmt.Sprintf("%s:%s", a.Labels["id"], a.Annotations["v"])
		if h.g.snap[p.key] {
			p.key = "^" + p.key
		}
	}
	h.g.parked = append(h.g.parked, p)
	h.g.mu.Unlock()
	select {
	case <-p.ch:
	case <-time.After(parkTimeout): // virtual time: a goroutine nobody releases can never hang the run
	}
	return nil
}

type world struct {
	t0     time.Time
	g      *gate
	alerts *mem.Alerts
	disp   *dispatch.Dispatcher
	route  *dispatch.Route
	held   map[string]string // what the provider holds: alert ↦ latest version
}

// drain releases everything parked, oldest first.
func (w *world) drain() {
	for {
		w.g.mu.Lock()
		if len(w.g.parked) == 0 {
			w.g.mu.Unlock()
			return
		}
		k := w.g.parked[0].key
		w.g.mu.Unlock()
		w.g.release(k)
		synctest.Wait()
	}
}

// stopDispatcher: nothing parks any more, everything parked is released, then Stop (which waits for every goroutine
// of the dispatcher, the initial load included).
func (w *world) stopDispatcher() {
	w.g.mu.Lock()
	was := w.g.enabled
	w.g.enabled = false
	w.g.mu.Unlock()
	w.drain()
	w.disp.Stop()
	synctest.Wait()
	w.g.mu.Lock()
	w.g.enabled = was
	w.g.mu.Unlock()
}

// startDispatcher creates and runs a dispatcher on the provider as it is (a running one is drained and stopped first).
func (w *world) startDispatcher() {
	if w.disp != nil {
		w.stopDispatcher()
	}
	w.g.mu.Lock()
	w.g.snap = map[string]bool{}
	for id, v := range w.held {
		w.g.snap[id+":"+v] = true
	}
	w.g.mu.Unlock()
	w.disp = dispatch.NewDispatcher(w.alerts, w.route, nil, marker.NewGroupMarker(), func(d time.Duration) time.Duration { return d },
		time.Hour, nil, slog.New(handler{w.g}), eventrecorder.NopRecorder(), dispatch.NewDispatcherMetrics(false, prometheus.NewRegistry(), nil), nil)
	go w.disp.Run(time.Now())
	synctest.Wait()
}

func (w *world) loaded() bool {
	if w.disp == nil {
		return false
	}
	select {
	case <-w.disp.LoadingDone():
		return true
	default:
		return false
	}
}

func lset(id string) model.LabelSet {
	return model.LabelSet{"alertname": "A", "id": model.LabelValue(id)}
}

func (w *world) put(now int64, id, ver string, end int64) {
	w.putRaw(now, id, ver, end)
	w.held[id] = ver
}

func (w *world) putRaw(now int64, id, ver string, end int64) {
	a := &alert.Alert{
		Alert: model.Alert{Labels: lset(id), Annotations: model.LabelSet{"v": model.LabelValue(ver)},
			StartsAt: w.t0, EndsAt: w.t0.Add(time.Duration(end))},
		UpdatedAt: w.t0.Add(time.Duration(now)),
	}
	// every third version is submitted by a caller that has already gone away (client disconnect, API timeout):
	// the request context is cancelled; what the provider accepted must still reach the dispatcher
	ctx := context.Background()
	if n, err := strconv.Atoi(ver); err == nil && n%3 == 2 {
		c, cancel := context.WithCancel(ctx)
		cancel()
		ctx = c
	}
	if err := w.alerts.Put(ctx, a); err != nil {
		panic(err)
	}
}

func (w *world) groups() map[string]string {
	gs, _, err := w.disp.Groups(context.Background(), func(*dispatch.Route) bool { return true }, func(*alert.Alert, time.Time) bool { return true })
	if err != nil {
		panic(err)
	}
	out := map[string]string{}
	for _, g := range gs {
		for _, a := range g.Alerts {
			out[string(a.Labels["id"])] = string(a.Annotations["v"])
		}
	}
	return out
}

func (w *world) groupsStr() string {
	if !w.loaded() {
		return "loading"
	}
	var p []string
	for id, v := range w.groups() {
		p = append(p, id+":"+v)
	}
	sort.Strings(p)
	return hx.Join(p, ",")
}

func (w *world) sleepTo(off int64) {
	if d := w.t0.Add(time.Duration(off)).Sub(time.Now()); d > 0 {
		time.Sleep(d)
	}
	synctest.Wait()
}

func (w *world) exec(line string) string {
	t := strings.Fields(line)
	switch t[0] {
	case "put":
		now := hx.Atoi64(t[1])
		w.sleepTo(now)
		w.put(now, t[2], t[3], hx.Atoi64(t[4]))
		synctest.Wait()
		return w.g.keys()
	case "release":
		if !w.g.release(t[1]) {
			return "notparked"
		}
		synctest.Wait()
		return w.g.keys() + " " + w.groupsStr()
	case "procs":
		// the container's CPU limit changes while the dispatcher runs (Go adjusts GOMAXPROCS at run time): the worker an
		// alert is handed to must not change, or queued and new versions of one alert are applied out of order
		runtime.GOMAXPROCS(int(hx.Atoi64(t[1])))
		synctest.Wait()
		return w.g.keys()
	case "groups":
		w.drain()
		return w.groupsStr()
	case "start":
		w.startDispatcher()
		return w.g.keys()
	case "lstress":
		// n firing alerts in the provider, then a dispatcher is started and, while it loads, all of them resolve
		n := int(hx.Atoi64(t[1]))
		now := int64(time.Since(w.t0))
		for i := range n {
			w.put(now, fmt.Sprintf("s%d", i), "1", int64(time.Hour))
		}
		w.g.mu.Lock()
		w.g.enabled = false
		w.g.mu.Unlock()
		done := make(chan struct{})
		go func() {
			defer close(done)
			for i := range n {
				w.putRaw(now+1, fmt.Sprintf("s%d", i), "2", now) // resolved
			}
		}()
		w.startDispatcher()
		<-done
		synctest.Wait()
		if !w.loaded() {
			return fmt.Sprintf("%d %d", n, n)
		}
		stale := 0
		gs := w.groups()
		for i := range n {
			if gs[fmt.Sprintf("s%d", i)] != "2" {
				stale++
			}
		}
		return fmt.Sprintf("%d %d", stale, n)
	case "stress":
		n := int(hx.Atoi64(t[1]))
		now := int64(time.Since(w.t0))
		for i := range n {
			id := fmt.Sprintf("s%d", i)
			w.put(now, id, "1", int64(time.Hour))
			w.put(now+1, id, "2", now) // resolved
		}
		synctest.Wait()
		stale := 0
		for _, v := range w.groups() {
			if v != "2" {
				stale++
			}
		}
		return fmt.Sprintf("%d %d", stale, n)
	}
	panic("bad op " + line)
}

func runCase(t *testing.T, tr *hx.Trace, id int, r *rand.Rand, script []string, mode string) {
	synctest.Test(t, func(t *testing.T) {
		var (
			nw     int
			header string
			load   = mode == "load" || mode == "lstress"
		)
		if script != nil {
			header = script[0]
			for _, f := range strings.Fields(header) {
				if strings.HasPrefix(f, "workers=") {
					nw = int(hx.Atoi64(f[8:]))
				}
				if f == "load=1" {
					load = true
				}
			}
		} else {
			nw = hx.Pick(r, []int{2, 2, 3, 4, 8})
		}
		// the dispatcher derives its worker count from GOMAXPROCS: min(max(P/2, 2), 8)
		old := runtime.GOMAXPROCS(2 * nw)
		defer runtime.GOMAXPROCS(old)

		ids := []string{"a", "b", "c"}
		if script == nil {
			var ow []string
			for _, i := range ids {
				ow = append(ow, fmt.Sprintf("%s:%d", i, uint64(lset(i).Fingerprint())%uint64(nw)))
			}
			header = fmt.Sprintf("case %d workers=%d owner=%s", id, nw, strings.Join(ow, ","))
			if load {
				header += " load=1"
			}
		}
		tr.Linef("%s", header)

		ctx, cancel := context.WithCancel(context.Background())
		w := &world{t0: time.Now(), g: &gate{enabled: mode != "stress" && mode != "lstress"}, held: map[string]string{}}
		for _, l := range script {
			if strings.HasPrefix(l, "stress") || strings.HasPrefix(l, "lstress") {
				w.g.enabled = false
			}
		}
		var err error
		w.alerts, err = mem.NewAlerts(ctx, time.Hour, 0, nil, promslog.NewNopLogger(), eventrecorder.NopRecorder(), prometheus.NewRegistry(), nil)
		if err != nil {
			t.Fatal(err)
		}
		cfg, err := config.Load(cfgYAML)
		if err != nil {
			t.Fatal(err)
		}
		w.route = dispatch.NewRoute(cfg.Route, nil)
		if !load {
			w.startDispatcher()
		}
		defer func() {
			w.g.mu.Lock()
			w.g.enabled = false
			w.g.mu.Unlock()
			if w.disp != nil {
				w.stopDispatcher()
			}
			w.alerts.Close()
			cancel()
			synctest.Wait()
		}()

		do := func(line string) string {
			o := w.exec(line)
			tr.Linef("%s -> %s", line, o)
			return o
		}
		if script != nil {
			for _, l := range script[1:] {
				do(l)
			}
			return
		}
		switch mode {
		case "stress":
			do("stress 2000")
			return
		case "lstress":
			do("lstress 2000")
			return
		}
		now := int64(0)
		ver := 0
		pool := ids[:1+r.IntN(3)]
		put := func() string {
			ver++
			now += int64(time.Millisecond)
			end := int64(time.Hour)
			if r.IntN(3) == 0 {
				end = now // a resolve
			}
			return do(fmt.Sprintf("put %d %s %d %d", now, hx.Pick(r, pool), ver, end))
		}
		release := func(ps []string) string {
			k := hx.Pick(r, ps)
			if strings.HasPrefix(k, "^") {
				k = "^"
			}
			return strings.Fields(do("release " + k))[0]
		}
		nput := 2 + r.IntN(5)
		parkedNow := ""
		if load {
			// what the provider holds before the dispatcher exists, then updates racing the initial load
			for range 1 + r.IntN(4) {
				put()
			}
			parkedNow = do("start")
			nput = 1 + r.IntN(4)
			restarts := r.IntN(3) / 2
			for nput > 0 || (parkedNow != "-" && parkedNow != "" && r.IntN(4) > 0) {
				ps := hx.Split(parkedNow, ",")
				switch {
				case restarts > 0 && r.IntN(8) == 0:
					restarts--
					parkedNow = do("start")
				case nput > 0 && (len(ps) == 0 || r.IntN(2) == 0):
					nput--
					parkedNow = put()
				case len(ps) > 0:
					parkedNow = release(ps)
				}
			}
			do("groups")
			return
		}
		procsLeft := r.IntN(3) / 2
		for nput > 0 || (parkedNow != "-" && parkedNow != "" && r.IntN(3) > 0) {
			ps := hx.Split(parkedNow, ",")
			if procsLeft > 0 && len(ps) > 0 && nput > 0 && r.IntN(3) == 0 {
				procsLeft--
				parkedNow = do(fmt.Sprintf("procs %d", hx.Pick(r, []int{1, 2, 4, 6, 16})))
			} else if nput > 0 && (len(ps) == 0 || r.IntN(2) == 0) {
				nput--
				parkedNow = put()
			} else if len(ps) > 0 {
				parkedNow = release(ps)
			}
		}
		do("groups")
	})
}

func TestEngine(t *testing.T) {
	tr := hx.Open()
	defer tr.Close()
	if s := hx.Script(); s != nil {
		var cur []string
		n := 0
		flush := func() {
			if cur != nil {
				runCase(t, tr, n, nil, cur, "")
				n++
			}
		}
		for _, l := range s {
			if strings.HasPrefix(l, "case ") {
				flush()
				cur = []string{l}
			} else if cur != nil {
				cur = append(cur, l)
			}
		}
		flush()
		return
	}
	r := hx.Rand(14)
	n := hx.Cases(8000, 60000)
	for id := range n {
		runCase(t, tr, id, r, nil, "")
	}
	rl := hx.Rand(1414)
	for id := range n / 2 {
		runCase(t, tr, 2000000+id, rl, nil, "load")
	}
	ns := 4
	if hx.Thorough() {
		ns = 20
	}
	for i := range ns {
		runCase(t, tr, 1000000+i, r, nil, "stress")
	}
	for i := range ns {
		runCase(t, tr, 3000000+i, r, nil, "lstress")
	}
}
