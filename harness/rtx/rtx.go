// Package rtx is shared by the Routing engines (route, group, groupsched):
// routing-tree specs, their token encoding, the YAML (JSON) configuration that
// config.Load reads, and the mapping between spec nodes and real dispatch.Route
// nodes.
package rtx

import (
	"encoding/json"
	"fmt"
	"math/rand/v2"
	"sort"
	"strconv"
	"strings"
	"time"

	"github.com/prometheus/common/model"

	"github.com/prometheus/alertmanager/config"
	"github.com/prometheus/alertmanager/dispatch"
	"github.com/prometheus/alertmanager/pkg/labels"

	"verif/harness/hx"
)

type KV struct{ K, V string }

type M struct{ Op, Name, Value string } // Op: eq ne re nre

// Node is one route of a configuration tree.
type Node struct {
	ID, Parent string
	Recv       string
	GB         string // "n" absent, "all" ['...'], "e" [], "l:a.b" list
	Cont       bool
	GW, GI, RI string // ns or "-"
	Labels     []KV
	MTI, ATI   []string
	Match      []KV
	MatchRE    []KV
	Matchers   []M
	Kids       []*Node
}

var Receivers = []string{"r0", "r1", "r2", "r3"}
var Intervals = []string{"t0", "t1"}

func kvs(l []KV) string {
	s := make([]string, len(l))
	for i, e := range l {
		s[i] = e.K + "=" + hx.Hex(e.V)
	}
	return hx.Join(s, ",")
}

func parseKVs(s string) []KV {
	var out []KV
	for _, p := range hx.Split(s, ",") {
		i := strings.Index(p, "=")
		out = append(out, KV{p[:i], hx.Unhex(p[i+1:])})
	}
	return out
}

func b01(b bool) string {
	if b {
		return "1"
	}
	return "0"
}

// Line renders the `node …` op line.
func (n *Node) Line() string {
	ms := make([]string, len(n.Matchers))
	for i, m := range n.Matchers {
		ms[i] = m.Op + ":" + m.Name + ":" + hx.Hex(m.Value)
	}
	par := n.Parent
	if par == "" {
		par = "-"
	}
	return fmt.Sprintf("node %s %s %s %s %s %s %s %s %s %s %s %s %s %s", n.ID, par, hx.Hex(n.Recv), n.GB, b01(n.Cont),
		n.GW, n.GI, n.RI, kvs(n.Labels), hx.Join(n.MTI, "."), hx.Join(n.ATI, "."), kvs(n.Match), kvs(n.MatchRE), hx.Join(ms, ","))
}

// ParseNode is the inverse of Line.
func ParseNode(line string) *Node {
	t := strings.Fields(line)
	if len(t) != 15 || t[0] != "node" {
		panic("bad node line: " + line)
	}
	n := &Node{ID: t[1], Parent: t[2], Recv: hx.Unhex(t[3]), GB: t[4], Cont: t[5] == "1", GW: t[6], GI: t[7], RI: t[8],
		Labels: parseKVs(t[9]), MTI: hx.Split(t[10], "."), ATI: hx.Split(t[11], "."), Match: parseKVs(t[12]), MatchRE: parseKVs(t[13])}
	if n.Parent == "-" {
		n.Parent = ""
	}
	for _, p := range hx.Split(t[14], ",") {
		f := strings.SplitN(p, ":", 3)
		n.Matchers = append(n.Matchers, M{f[0], f[1], hx.Unhex(f[2])})
	}
	return n
}

// Assemble links parsed nodes (in order of appearance) into a tree; nodes whose
// parent is unknown, and additional roots, are dropped (the driver does the same).
func Assemble(nodes []*Node) *Node {
	byID := map[string]*Node{}
	var root *Node
	for _, n := range nodes {
		n.Kids = nil
		if _, dup := byID[n.ID]; dup {
			continue
		}
		if n.Parent == "" {
			if root == nil {
				root = n
				byID[n.ID] = n
			}
			continue
		}
		p, ok := byID[n.Parent]
		if !ok {
			continue
		}
		p.Kids = append(p.Kids, n)
		byID[n.ID] = n
	}
	return root
}

// Walk visits the tree in pre-order.
func (n *Node) Walk(f func(*Node)) {
	f(n)
	for _, k := range n.Kids {
		k.Walk(f)
	}
}

var opSym = map[string]string{"eq": "=", "ne": "!=", "re": "=~", "nre": "!~"}

func dur(ns string) string {
	v, _ := strconv.ParseInt(ns, 10, 64)
	return model.Duration(time.Duration(v)).String()
}

func (n *Node) cfg() map[string]any {
	m := map[string]any{}
	if n.Recv != "" {
		m["receiver"] = n.Recv
	}
	switch {
	case n.GB == "all":
		m["group_by"] = []string{"..."}
	case n.GB == "e":
		m["group_by"] = []string{}
	case strings.HasPrefix(n.GB, "l:"):
		m["group_by"] = strings.Split(n.GB[2:], ".")
	}
	if n.Cont {
		m["continue"] = true
	}
	if n.GW != "-" {
		m["group_wait"] = dur(n.GW)
	}
	if n.GI != "-" {
		m["group_interval"] = dur(n.GI)
	}
	if n.RI != "-" {
		m["repeat_interval"] = dur(n.RI)
	}
	if len(n.Labels) > 0 {
		l := map[string]string{}
		for _, e := range n.Labels {
			l[e.K] = e.V
		}
		m["labels"] = l
	}
	if len(n.MTI) > 0 {
		m["mute_time_intervals"] = n.MTI
	}
	if len(n.ATI) > 0 {
		m["active_time_intervals"] = n.ATI
	}
	if len(n.Match) > 0 {
		l := map[string]string{}
		for _, e := range n.Match {
			l[e.K] = e.V
		}
		m["match"] = l
	}
	if len(n.MatchRE) > 0 {
		l := map[string]string{}
		for _, e := range n.MatchRE {
			l[e.K] = e.V
		}
		m["match_re"] = l
	}
	if len(n.Matchers) > 0 {
		var l []string
		for _, x := range n.Matchers {
			l = append(l, fmt.Sprintf("%s%s%q", x.Name, opSym[x.Op], x.Value))
		}
		m["matchers"] = l
	}
	if len(n.Kids) > 0 {
		var l []any
		for _, k := range n.Kids {
			l = append(l, k.cfg())
		}
		m["routes"] = l
	}
	return m
}

// Config renders the whole configuration file (JSON is YAML).
func Config(root *Node) string {
	var rs, tis []any
	for _, r := range Receivers {
		rs = append(rs, map[string]any{"name": r})
	}
	for _, t := range Intervals {
		tis = append(tis, map[string]any{"name": t, "time_intervals": []any{map[string]any{"weekdays": []string{"monday"}}}})
	}
	b, err := json.Marshal(map[string]any{"route": root.cfg(), "receivers": rs, "time_intervals": tis})
	if err != nil {
		panic(err)
	}
	return string(b)
}

// Tree is a configuration tree loaded through the real path.
type Tree struct {
	Spec  *Node
	Root  *dispatch.Route
	ByID  map[string]*dispatch.Route
	IDOf  map[*dispatch.Route]string
	Order []string // pre-order ids
}

// Load runs config.Load → dispatch.NewRoute.
func Load(root *Node) (*Tree, error) {
	cfg, err := config.Load(Config(root))
	if err != nil {
		return nil, err
	}
	t := &Tree{Spec: root, Root: dispatch.NewRoute(cfg.Route, nil), ByID: map[string]*dispatch.Route{}, IDOf: map[*dispatch.Route]string{}}
	var link func(n *Node, r *dispatch.Route)
	link = func(n *Node, r *dispatch.Route) {
		t.ByID[n.ID] = r
		t.IDOf[r] = n.ID
		t.Order = append(t.Order, n.ID)
		if len(n.Kids) != len(r.Routes) {
			panic("shape mismatch")
		}
		for i := range n.Kids {
			link(n.Kids[i], r.Routes[i])
		}
	}
	link(root, t.Root)
	return t, nil
}

func opName(t labels.MatchType) string {
	return [...]string{"eq", "ne", "re", "nre"}[t]
}

// LabelSetTok renders a label set sorted by name.
func LabelSetTok(ls model.LabelSet) string {
	var names []string
	for k := range ls {
		names = append(names, string(k))
	}
	sort.Strings(names)
	s := make([]string, len(names))
	for i, k := range names {
		s[i] = k + "=" + hx.Hex(string(ls[model.LabelName(k)]))
	}
	return hx.Join(s, ",")
}

func ParseLabelSet(tok string) model.LabelSet {
	ls := model.LabelSet{}
	for _, e := range parseKVs(tok) {
		ls[model.LabelName(e.K)] = model.LabelValue(e.V)
	}
	return ls
}

// Obs renders what NewRoute produced for one node:
// id|idx|key|routeID|recv|groupBy|groupByAll|gw|gi|ri|labels|mti|ati|cont|matchers
func (t *Tree) Obs(id string) string {
	r := t.ByID[id]
	o := r.RouteOpts
	var gb []string
	for ln := range o.GroupBy {
		gb = append(gb, string(ln))
	}
	sort.Strings(gb)
	ms := make([]string, len(r.Matchers))
	for i, m := range r.Matchers {
		ms[i] = opName(m.Type) + ":" + m.Name + ":" + hx.Hex(m.Value)
	}
	return strings.Join([]string{id, strconv.Itoa(r.Idx), hx.Hex(r.Key()), hx.Hex(r.ID()), hx.Hex(o.Receiver), hx.Join(gb, "."), b01(o.GroupByAll),
		strconv.FormatInt(int64(o.GroupWait), 10), strconv.FormatInt(int64(o.GroupInterval), 10), strconv.FormatInt(int64(o.RepeatInterval), 10),
		LabelSetTok(o.Labels), hx.Join(o.MuteTimeIntervals, "."), hx.Join(o.ActiveTimeIntervals, "."), b01(r.Continue), hx.Join(ms, ",")}, "|")
}

// BuildObs is the observation of a `build` op.
func (t *Tree) BuildObs() string {
	s := make([]string, len(t.Order))
	for i, id := range t.Order {
		s[i] = t.Obs(id)
	}
	return strings.Join(s, " ")
}

// ---- generators ----

var (
	LabelNames = []string{"a", "b", "c"}
	Values     = []string{"x", "y", "xy", "z"}
	MValues    = []string{"", "x", "y", "xy"}
	Patterns   = []string{"x", "x|y", "x.*", ".*", ".+", "", "[xy]+", "x?", "y|z"}
	Durations  = []int64{0, int64(time.Second), 10 * int64(time.Second), int64(time.Minute), 5 * int64(time.Minute), int64(time.Hour), 3 * int64(time.Hour)}
)

type GenOpts struct {
	MaxDepth, MaxFan, MaxNodes int
	Names                      []string // label names for matchers and group_by
	Timers                     bool     // generate group_wait/… overrides
}

func genGB(r *rand.Rand, names []string) string {
	switch x := r.IntN(10); {
	case x < 4:
		return "n"
	case x < 5:
		return "all"
	case x < 6:
		return "e"
	default:
		p := r.Perm(len(names))
		k := 1 + r.IntN(len(names))
		l := make([]string, k)
		for i := range k {
			l[i] = names[p[i]]
		}
		return "l:" + strings.Join(l, ".")
	}
}

func genDur(r *rand.Rand, p int, nonzero bool) string {
	if r.IntN(10) >= p {
		return "-"
	}
	d := hx.Pick(r, Durations)
	if nonzero && d == 0 {
		d = int64(time.Second)
	}
	return strconv.FormatInt(d, 10)
}

func subset(r *rand.Rand, l []string, p int) []string {
	var out []string
	if r.IntN(10) >= p {
		return nil
	}
	for _, x := range l {
		if r.IntN(2) == 0 {
			out = append(out, x)
		}
	}
	return out
}

// GenTree draws a random configuration tree.
func GenTree(r *rand.Rand, g GenOpts) *Node {
	count := 1
	root := &Node{ID: "r", Recv: hx.Pick(r, Receivers), GB: genGB(r, g.Names), GW: "-", GI: "-", RI: "-"}
	if g.Timers {
		root.GW, root.GI, root.RI = genDur(r, 4, false), genDur(r, 4, true), genDur(r, 4, true)
	}
	root.Labels = genLabels(r)
	var fill func(n *Node, depth int)
	fill = func(n *Node, depth int) {
		if depth >= g.MaxDepth {
			return
		}
		fan := r.IntN(g.MaxFan + 1)
		if depth == 0 && fan == 0 {
			fan = 1 + r.IntN(g.MaxFan)
		}
		for i := 0; i < fan && count < g.MaxNodes; i++ {
			count++
			k := &Node{ID: fmt.Sprintf("%s.%d", n.ID, i), Parent: n.ID, GB: genGB(r, g.Names), Cont: r.IntN(5) < 2, GW: "-", GI: "-", RI: "-"}
			if r.IntN(2) == 0 {
				k.Recv = hx.Pick(r, Receivers)
			}
			if g.Timers {
				k.GW, k.GI, k.RI = genDur(r, 3, false), genDur(r, 3, true), genDur(r, 3, true)
			}
			k.Labels = genLabels(r)
			k.MTI, k.ATI = subset(r, Intervals, 2), subset(r, Intervals, 2)
			nm := r.IntN(4)
			if r.IntN(8) == 0 {
				nm = 0
			}
			used := map[string]bool{}
			for range nm {
				name := hx.Pick(r, g.Names)
				switch r.IntN(6) {
				case 0: // legacy match (a map: one entry per name)
					if !used["m"+name] {
						used["m"+name] = true
						k.Match = append(k.Match, KV{name, hx.Pick(r, MValues)})
					}
				case 1: // legacy match_re
					if !used["r"+name] {
						used["r"+name] = true
						k.MatchRE = append(k.MatchRE, KV{name, hx.Pick(r, Patterns)})
					}
				default:
					op := hx.Pick(r, []string{"eq", "ne", "re", "nre"})
					v := hx.Pick(r, MValues)
					if op == "re" || op == "nre" {
						v = hx.Pick(r, Patterns)
					}
					k.Matchers = append(k.Matchers, M{op, name, v})
				}
			}
			n.Kids = append(n.Kids, k)
		}
		for _, k := range n.Kids {
			fill(k, depth+1)
		}
	}
	fill(root, 0)
	return root
}

func genLabels(r *rand.Rand) []KV {
	if r.IntN(10) >= 3 {
		return nil
	}
	var out []KV
	for _, k := range []string{"team", "sev"} {
		if r.IntN(2) == 0 {
			out = append(out, KV{k, hx.Pick(r, []string{"p", "q", "x y"})})
		}
	}
	return out
}

// GenLabelSet draws an alert label set (no empty values).
func GenLabelSet(r *rand.Rand, names []string) model.LabelSet {
	ls := model.LabelSet{}
	for _, n := range names {
		if r.IntN(3) > 0 {
			ls[model.LabelName(n)] = model.LabelValue(hx.Pick(r, Values))
		}
	}
	return ls
}
