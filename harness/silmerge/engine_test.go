// Engine `silmerge` (C09): 2–3 real silence.Silences under virtual time whose
// broadcasts are captured and re-delivered by a scripted channel (deliver /
// drop / duplicate / reorder / batch / full-state push), mixed with local
// Set/Expire, GC, reload, queries and mute checks.
package silmerge

import (
	"fmt"
	"math/rand/v2"
	"strings"
	"testing"
	"testing/synctest"
	"time"

	"verif/harness/hx"
	"verif/harness/silx"
)

const grid = silx.Grid

type gen struct {
	r      *rand.Rand
	w      *silx.World
	n      int
	now    int64
	conv   bool
	pool   []silx.Mesh // versions broadcast by local ops or crafted (material for delivery)
	ids    []string    // aliases seen
	setsOf map[string][][]silx.Matcher
	vers   [][]int // versions observed at op boundaries per instance
	nm     int
}

func (g *gen) note(i int) {
	g.vers[i] = append(g.vers[i], g.w.Insts[i].S.Version())
}

func (g *gen) learn(l []silx.Mesh) {
	for _, m := range l {
		if _, ok := g.setsOf[m.ID]; !ok {
			g.setsOf[m.ID] = m.Sets
			g.ids = append(g.ids, m.ID)
		}
		g.pool = append(g.pool, m)
	}
}

// crafted version (non-conv cases): perturbs a pooled version or invents a new id;
// times sit around `now` so that ties and the retention boundary are hit.
func (g *gen) craft(retention int64) silx.Mesh {
	r := g.r
	var m silx.Mesh
	if len(g.pool) > 0 && r.IntN(3) > 0 {
		m = hx.Pick(r, g.pool)
	} else {
		g.nm++
		id := fmt.Sprintf("m%d", g.nm)
		m = silx.Mesh{Sil: silx.Sil{ID: id, Sets: hx.Pick(r, silx.Catalog)}}
		m.Start = g.now + int64(r.IntN(5)-2)*grid
		m.End = m.Start + int64(r.IntN(5))*grid
		m.Updated = g.now - int64(r.IntN(3))*grid
		m.Exp = m.End + retention
	}
	m.Sets = func() [][]silx.Matcher {
		if s, ok := g.setsOf[m.ID]; ok {
			return s
		}
		return m.Sets
	}()
	switch r.IntN(6) {
	case 0:
		m.Updated += int64(r.IntN(3)-1) * grid
	case 1:
		m.End = g.now + int64(r.IntN(5)-1)*grid // possibly a revival
		m.Updated = g.now
		m.Exp = m.End + retention
	case 2:
		m.Exp = g.now + int64(r.IntN(3)-1)*grid // the refusal boundary
	case 3:
		m.Comment = silx.Comment(r)
		m.Updated += grid
	}
	if m.Updated < 0 {
		m.Updated = 0
	}
	if m.End < m.Start { // well-formed versions only (validateSilence on every honest instance)
		m.Start = m.End
	}
	if r.IntN(50) == 0 {
		m.Comment = strings.Repeat("x", 800) // oversized message
	}
	return m
}

func (g *gen) batch(retention int64) []silx.Mesh {
	r := g.r
	n := 1 + r.IntN(3)
	var b []silx.Mesh
	for range n {
		if g.conv {
			if len(g.pool) == 0 {
				return nil
			}
			b = append(b, hx.Pick(r, g.pool))
		} else if len(g.pool) > 0 && r.IntN(2) == 0 {
			b = append(b, hx.Pick(r, g.pool)) // duplicate / late / reordered delivery
		} else {
			m := g.craft(retention)
			g.learn([]silx.Mesh{m})
			b = append(b, m)
		}
	}
	if g.conv {
		b = distinctIDs(b)
	}
	return b
}

func distinctIDs(b []silx.Mesh) []silx.Mesh {
	seen := map[string]bool{}
	var c []silx.Mesh
	for _, e := range b {
		if !seen[e.ID] {
			seen[e.ID] = true
			c = append(c, e)
		}
	}
	return c
}

func ovFlag(w *silx.World, b []silx.Mesh) string {
	if len(w.Encode(b)) > 700 {
		return "1"
	}
	return "0"
}

func runCase(t *testing.T, tr *hx.Trace, id int, r *rand.Rand, script []string) {
	synctest.Test(t, func(t *testing.T) {
		var header string
		if script != nil {
			header = script[0]
		} else {
			n := 2 + r.IntN(2)
			conv := r.IntN(3) == 0
			ret := int64(r.IntN(5)) * grid
			if conv {
				ret = 1000 * grid
			}
			c := 0
			if conv {
				c = 1
			}
			// one case in four has a MaxSilences limit small enough to bind: it is admission control of the local
			// write API (Set answers "limit", as modelled), replicated state is merged whatever its size
			maxsil := 0
			if r.IntN(4) == 0 {
				maxsil = 1 + r.IntN(3)
			}
			header = fmt.Sprintf("case %d n=%d retention=%d conv=%d fix=%s maxsil=%d", id, n, ret, c, silx.FixFlag(), maxsil)
		}
		h := silx.ParseHeader(header)
		n := int(silx.HInt(h, "n", 2))
		retention := silx.HInt(h, "retention", 0)
		conv := h["conv"] == "1"
		w := silx.NewWorld(n, time.Duration(retention), int(silx.HInt(h, "maxsil", 0)), 0)
		tr.Linef("%s", header)
		converge := func() {
			d := make([]string, n)
			for i := range n {
				d[i] = silx.MeshesStr(w.State(i))
			}
			tr.Linef("converge -> %s", strings.Join(d, " "))
		}
		if script != nil {
			for _, l := range script[1:] {
				if strings.HasPrefix(l, "converge") {
					converge()
					continue
				}
				tr.Linef("%s -> %s", l, w.Exec(l))
			}
			return
		}
		g := &gen{r: r, w: w, n: n, conv: conv, setsOf: map[string][][]silx.Matcher{}, vers: make([][]int, n)}
		do := func(i int, line string) string {
			obs := w.Exec(line)
			tr.Linef("%s -> %s", line, obs)
			g.note(i)
			return obs
		}
		local := func(i int, line string, bcField int) {
			obs := strings.Fields(do(i, line))
			if len(obs) > bcField {
				for _, msg := range hx.Split(obs[bcField], "/") {
					g.learn(silx.ParseMeshes(msg))
				}
			}
		}
		nops := 8 + r.IntN(16)
		for range nops {
			i := r.IntN(n)
			x := r.IntN(22)
			mutating := x < 8
			if conv && mutating {
				g.now += int64(1+r.IntN(2)) * grid // distinct update instants per id
			} else if r.IntN(3) > 0 {
				g.now += int64(r.IntN(3)) * grid
			}
			switch {
			case x < 3: // create
				start := silx.I64(g.now + int64(r.IntN(5)-2)*grid)
				if r.IntN(4) == 0 {
					start = "-"
				}
				end := silx.I64(g.now + int64(r.IntN(7))*grid)
				local(i, silx.SetLine("set", i, g.now, "-", start, end, silx.Comment(r), hx.Pick(r, silx.Catalog), false), 2)
			case x < 6: // edit
				if len(g.ids) == 0 {
					continue
				}
				sid := hx.Pick(r, g.ids)
				sets := g.setsOf[sid]
				switch x := r.IntN(12); {
				case x < 2:
					sets = hx.Pick(r, silx.Catalog)
				case x < 5: // one component of the matcher sets changed: a new id everywhere, never an in-place update
					sets, _ = silx.VaryAny(r, sets)
				}
				start := g.now + int64(r.IntN(4)-1)*grid
				for _, m := range w.State(i) {
					if m.ID == sid && r.IntN(3) > 0 {
						start = m.Start
					}
				}
				end := g.now + int64(r.IntN(7)-1)*grid
				local(i, silx.SetLine("set", i, g.now, sid, silx.I64(start), silx.I64(end), silx.Comment(r), sets, false), 2)
			case x < 8: // expire
				if len(g.ids) == 0 {
					continue
				}
				local(i, fmt.Sprintf("expire %d %d %s", i, g.now, hx.Pick(r, g.ids)), 1)
			case x < 14: // deliver
				b := g.batch(retention)
				if len(b) == 0 {
					continue
				}
				do(i, fmt.Sprintf("merge %d %d %s %s", i, g.now, ovFlag(w, b), silx.MeshesStr(b)))
			case x < 15: // full-state push i -> j
				j := (i + 1 + r.IntN(n-1)) % n
				obs := w.Exec(fmt.Sprintf("push %d %d %d", i, j, g.now))
				tr.Linef("push %d %d %d -> %s", i, j, g.now, obs)
				g.note(j)
			case x < 16:
				if conv {
					continue
				}
				do(i, fmt.Sprintf("gc %d %d", i, g.now))
			case x < 19: // query
				scan := "all"
				switch r.IntN(4) {
				case 0:
					if len(g.ids) > 0 {
						l := []string{hx.Pick(r, g.ids)}
						if r.IntN(2) == 0 {
							l = append(l, hx.Pick(r, g.ids))
						}
						if r.IntN(5) == 0 {
							l = append(l, "u99")
						}
						scan = strings.Join(l, ".")
					}
				case 1:
					v := 0
					if len(g.vers[i]) > 0 {
						v = hx.Pick(r, g.vers[i])
					}
					scan = fmt.Sprintf("since:%d", v)
				}
				sts := hx.Pick(r, []string{"-", "a", "p", "e", "ap", "pe", "ae", "ape"})
				ls := "-"
				if r.IntN(2) == 0 {
					ls = silx.PanelTok(r)
				}
				do(i, fmt.Sprintf("query %d %d %s %s %s", i, g.now, scan, sts, ls))
			case x < 20:
				do(i, fmt.Sprintf("reload %d", i))
				g.vers[i] = nil
			default:
				do(i, fmt.Sprintf("mutes %d %d %s", i, g.now, silx.PanelTok(r)))
			}
			if x < 15 && r.IntN(2) == 0 {
				// effective_after_merge: mute verdicts right after a state change
				k := i
				if x == 14 {
					k = r.IntN(n)
				}
				for range 2 {
					do(k, fmt.Sprintf("mutes %d %d %s", k, g.now, silx.PanelTok(r)))
				}
			}
		}
		if conv {
			// every version ever broadcast reaches every instance: own random order,
			// batches of distinct ids, duplicates.  Then all instances must agree.
			for i := range n {
				p := r.Perm(len(g.pool))
				for j := 0; j < len(p); {
					k := 1 + r.IntN(3)
					var b []silx.Mesh
					seen := map[string]bool{}
					for ; j < len(p) && len(b) < k; j++ {
						e := g.pool[p[j]]
						if seen[e.ID] {
							break
						}
						seen[e.ID] = true
						b = append(b, e)
					}
					line := fmt.Sprintf("merge %d %d %s %s", i, g.now, ovFlag(w, b), silx.MeshesStr(b))
					do(i, line)
					if r.IntN(4) == 0 {
						do(i, line)
					}
				}
			}
			converge()
			// … and a silence created or expired anywhere is effective everywhere
			for i := range n {
				for _, l := range silx.AllPanel() {
					do(i, fmt.Sprintf("mutes %d %d %s", i, g.now, l))
				}
			}
		}
	})
}

func TestEngine(t *testing.T) {
	tr := hx.Open()
	defer tr.Close()
	if s := hx.Script(); s != nil {
		for k, c := range silx.SplitCases(s) {
			runCase(t, tr, k, nil, c)
		}
		return
	}
	r := hx.Rand(9)
	for id := range hx.Cases(3000, 40000) {
		runCase(t, tr, id, r, nil)
	}
}
