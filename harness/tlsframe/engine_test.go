// Engine `tlsframe` (C19): two REAL cluster.TLSTransport instances on 127.0.0.1 (mutual TLS with the
// repository's test certificates).  Bursts of packets are written concurrently to one peer — memberlist
// writes gossip, probes and acks from several goroutines onto the one pooled connection per peer — and the
// receiver must read exactly the packets that were sent: every frame (length prefix + message) has to reach
// the connection in one piece.  Real time and real sockets; a burst takes a few milliseconds.
package tlsframe

import (
	"context"
	"fmt"
	"io"
	"log/slog"
	"math/rand/v2"
	"net"
	"os"
	"strconv"
	"strings"
	"sync"
	"testing"
	"time"

	"github.com/prometheus/client_golang/prometheus"

	"github.com/prometheus/alertmanager/cluster"

	"verif/harness/hx"
)

func repoDir() string {
	if d := os.Getenv("VERIF_REPO"); d != "" {
		return d
	}
	return "/repo"
}

type world struct {
	t1, t2 *cluster.TLSTransport
	to     string
	port   int
	px     *proxy
}

func newWorld(t *testing.T) *world {
	logger := slog.New(slog.DiscardHandler)
	mk := func(cfgFile string, port int) *cluster.TLSTransport {
		cfg, err := cluster.GetTLSTransportConfig(repoDir() + "/cluster/testdata/" + cfgFile)
		if err != nil {
			t.Fatalf("tls config: %v", err)
		}
		var tr *cluster.TLSTransport
		for attempt := 0; attempt < 50; attempt++ { // re-binding the port of a transport that was just shut down
			tr, err = cluster.NewTLSTransport(context.Background(), logger, prometheus.NewRegistry(), "127.0.0.1", port, cfg)
			if err == nil {
				break
			}
			time.Sleep(20 * time.Millisecond)
		}
		if err != nil {
			t.Fatalf("tls transport: %v", err)
		}
		return tr
	}
	w := &world{t1: mk("tls_config_node1.yml", 0), t2: mk("tls_config_node2.yml", 0)}
	w.port = w.t2.GetAutoBindPort()
	w.px = newProxy(fmt.Sprintf("127.0.0.1:%d", w.port))
	w.to = w.px.ln.Addr().String()
	return w
}

// proxy: a TCP relay between the sender and the peer, so that the harness can break the established connections
// the way a crashed peer (or a reset on the path) does, without touching either transport.
type proxy struct {
	ln    net.Listener
	to    string
	mu    sync.Mutex
	conns []net.Conn
}

func newProxy(to string) *proxy {
	ln, err := net.Listen("tcp", "127.0.0.1:0")
	if err != nil {
		panic(err)
	}
	p := &proxy{ln: ln, to: to}
	go func() {
		for {
			c, err := ln.Accept()
			if err != nil {
				return
			}
			d, err := net.Dial("tcp", p.to)
			if err != nil {
				c.Close()
				continue
			}
			p.mu.Lock()
			p.conns = append(p.conns, c, d)
			p.mu.Unlock()
			go func() { io.Copy(d, c); d.Close() }()
			go func() { io.Copy(c, d); c.Close() }()
		}
	}()
	return p
}

// breakAll resets every relayed connection (SO_LINGER 0: the sender's next write fails).
func (p *proxy) breakAll() {
	p.mu.Lock()
	defer p.mu.Unlock()
	for _, c := range p.conns {
		if tc, ok := c.(*net.TCPConn); ok {
			tc.SetLinger(0)
		}
		c.Close()
	}
	p.conns = nil
}

// restart <n>: every established connection to the peer breaks (peer crash + restart on its address, or a reset on
// the path); then n packets are written one after the other.  The pooled connection is dead: a write on it fails
// (or is lost), after which the pool must dial a new connection, so the later packets arrive.
func (w *world) restart(n int, tag string) string {
	w.px.breakAll()
	time.Sleep(20 * time.Millisecond)
	errs := 0
	for i := range n {
		if _, err := w.t1.WriteTo([]byte(fmt.Sprintf("%s/r/%d/", tag, i)), w.to); err != nil {
			errs++
		}
		time.Sleep(20 * time.Millisecond)
	}
	got, first, last := 0, -1, -1
	deadline := time.After(2 * time.Second)
loop:
	for got < n {
		select {
		case p := <-w.t2.PacketCh():
			parts := strings.Split(string(p.Buf), "/")
			if len(parts) == 4 && parts[0] == tag && parts[1] == "r" {
				k, _ := strconv.Atoi(parts[2])
				got++
				if first < 0 || k < first {
					first = k
				}
				if k > last {
					last = k
				}
				if k == n-1 {
					break loop
				}
			}
		case <-deadline:
			break loop
		}
	}
	return fmt.Sprintf("%d %d %d %d", got, first, last, errs)
}

// burst <senders> <packets per sender> <payload size> : concurrent WriteTo calls to one peer
func (w *world) burst(g, n, size int, tag string) string {
	want := map[string]bool{}
	var wg sync.WaitGroup
	start := make(chan struct{})
	errs := 0
	var emtx sync.Mutex
	for s := range g {
		for i := range n {
			want[fmt.Sprintf("%s/%d/%d/", tag, s, i)] = true
		}
		wg.Add(1)
		go func(s int) {
			defer wg.Done()
			<-start
			for i := range n {
				head := fmt.Sprintf("%s/%d/%d/", tag, s, i)
				p := []byte(head + strings.Repeat(string(rune('a'+s%26)), size))
				if _, err := w.t1.WriteTo(p, w.to); err != nil {
					emtx.Lock()
					errs++
					emtx.Unlock()
				}
			}
		}(s)
	}
	close(start)
	wg.Wait()
	total := g * n
	got, corrupt := 0, 0
	deadline := time.After(5 * time.Second)
loop:
	for got+corrupt < total {
		select {
		case p := <-w.t2.PacketCh():
			parts := strings.SplitN(string(p.Buf), "/", 4)
			ok := len(parts) == 4 && want[strings.Join(parts[:3], "/")+"/"]
			if ok {
				s, _ := strconv.Atoi(parts[1])
				ok = parts[3] == strings.Repeat(string(rune('a'+s%26)), size)
			}
			if ok {
				delete(want, strings.Join(parts[:3], "/")+"/")
				got++
			} else {
				corrupt++
			}
		case <-deadline:
			break loop
		}
	}
	return fmt.Sprintf("%d %d %d %d", got, corrupt, len(want), errs)
}

func TestEngine(t *testing.T) {
	tr := hx.Open()
	defer tr.Close()
	w := newWorld(t)
	defer w.t1.Shutdown()
	defer func() { w.t2.Shutdown() }()
	run := func(header string, ops []string) {
		tr.Linef("%s", header)
		for k, op := range ops {
			f := strings.Fields(op)
			if f[0] == "restart" {
				n, _ := strconv.Atoi(f[1])
				tr.Linef("%s -> %s", op, w.restart(n, fmt.Sprintf("%s.%d", strings.Fields(header)[1], k)))
				continue
			}
			g, _ := strconv.Atoi(f[1])
			n, _ := strconv.Atoi(f[2])
			size, _ := strconv.Atoi(f[3])
			tr.Linef("%s -> %s", op, w.burst(g, n, size, fmt.Sprintf("%s.%d", strings.Fields(header)[1], k)))
		}
	}
	if s := hx.Script(); s != nil {
		var hdr string
		var ops []string
		for _, l := range s {
			if strings.HasPrefix(l, "case ") {
				if hdr != "" {
					run(hdr, ops)
				}
				hdr, ops = l, nil
			} else if hdr != "" {
				ops = append(ops, l)
			}
		}
		if hdr != "" {
			run(hdr, ops)
		}
		return
	}
	r := hx.Rand(190)
	for id := range hx.Cases(40, 600) {
		var ops []string
		for range 1 + r.IntN(3) {
			ops = append(ops, fmt.Sprintf("burst %d %d %d", 1+r.IntN(8), 1+r.IntN(40), hx.Pick(r, []int{0, 1, 10, 200, 1500, 9000})))
		}
		if r.IntN(4) == 0 {
			ops = append(ops, fmt.Sprintf("restart %d", 6+r.IntN(6)), fmt.Sprintf("burst %d %d %d", 1+r.IntN(4), 1+r.IntN(10), 10))
		}
		run(fmt.Sprintf("case %d", id), ops)
	}
	_ = rand.Int
}
