// Engine `tlsframe` (C19): two REAL cluster.TLSTransport instances on 127.0.0.1 (mutual TLS with the
// repository's test certificates).  Bursts of packets are written concurrently to one peer — memberlist
// writes gossip, probes and acks from several goroutines onto the one pooled connection per peer — and the
// receiver must read exactly the packets that were sent: every frame (length prefix + message) has to reach
// the connection in one piece.  Real time and real sockets; a burst takes a few milliseconds.
package tlsframe

import (
	"context"
	"fmt"
	"log/slog"
	"math/rand/v2"
	"os"
	"strconv"
	"strings"
	"sync"
	"testing"
	"time"

	"github.com/prometheus/client_golang/prometheus"

	"github.com/prometheus/alertmanager/cluster"

	"verif/harness/hx"
)

func repoDir() string {
	if d := os.Getenv("VERIF_REPO"); d != "" {
		return d
	}
	return "/repo"
}

type world struct {
	t1, t2 *cluster.TLSTransport
	to     string
}

func newWorld(t *testing.T) *world {
	logger := slog.New(slog.DiscardHandler)
	mk := func(cfgFile string) *cluster.TLSTransport {
		cfg, err := cluster.GetTLSTransportConfig(repoDir() + "/cluster/testdata/" + cfgFile)
		if err != nil {
			t.Fatalf("tls config: %v", err)
		}
		tr, err := cluster.NewTLSTransport(context.Background(), logger, prometheus.NewRegistry(), "127.0.0.1", 0, cfg)
		if err != nil {
			t.Fatalf("tls transport: %v", err)
		}
		return tr
	}
	w := &world{t1: mk("tls_config_node1.yml"), t2: mk("tls_config_node2.yml")}
	w.to = fmt.Sprintf("127.0.0.1:%d", w.t2.GetAutoBindPort())
	return w
}

// burst <senders> <packets per sender> <payload size> : concurrent WriteTo calls to one peer
func (w *world) burst(g, n, size int, tag string) string {
	want := map[string]bool{}
	var wg sync.WaitGroup
	start := make(chan struct{})
	errs := 0
	var emtx sync.Mutex
	for s := range g {
		for i := range n {
			want[fmt.Sprintf("%s/%d/%d/", tag, s, i)] = true
		}
		wg.Add(1)
		go func(s int) {
			defer wg.Done()
			<-start
			for i := range n {
				head := fmt.Sprintf("%s/%d/%d/", tag, s, i)
				p := []byte(head + strings.Repeat(string(rune('a'+s%26)), size))
				if _, err := w.t1.WriteTo(p, w.to); err != nil {
					emtx.Lock()
					errs++
					emtx.Unlock()
				}
			}
		}(s)
	}
	close(start)
	wg.Wait()
	total := g * n
	got, corrupt := 0, 0
	deadline := time.After(5 * time.Second)
loop:
	for got+corrupt < total {
		select {
		case p := <-w.t2.PacketCh():
			parts := strings.SplitN(string(p.Buf), "/", 4)
			ok := len(parts) == 4 && want[strings.Join(parts[:3], "/")+"/"]
			if ok {
				s, _ := strconv.Atoi(parts[1])
				ok = parts[3] == strings.Repeat(string(rune('a'+s%26)), size)
			}
			if ok {
				delete(want, strings.Join(parts[:3], "/")+"/")
				got++
			} else {
				corrupt++
			}
		case <-deadline:
			break loop
		}
	}
	return fmt.Sprintf("%d %d %d %d", got, corrupt, len(want), errs)
}

func TestEngine(t *testing.T) {
	tr := hx.Open()
	defer tr.Close()
	w := newWorld(t)
	defer w.t1.Shutdown()
	defer w.t2.Shutdown()
	run := func(header string, ops []string) {
		tr.Linef("%s", header)
		for k, op := range ops {
			f := strings.Fields(op)
			g, _ := strconv.Atoi(f[1])
			n, _ := strconv.Atoi(f[2])
			size, _ := strconv.Atoi(f[3])
			tr.Linef("%s -> %s", op, w.burst(g, n, size, fmt.Sprintf("%s.%d", strings.Fields(header)[1], k)))
		}
	}
	if s := hx.Script(); s != nil {
		var hdr string
		var ops []string
		for _, l := range s {
			if strings.HasPrefix(l, "case ") {
				if hdr != "" {
					run(hdr, ops)
				}
				hdr, ops = l, nil
			} else if hdr != "" {
				ops = append(ops, l)
			}
		}
		if hdr != "" {
			run(hdr, ops)
		}
		return
	}
	r := hx.Rand(190)
	for id := range hx.Cases(40, 600) {
		var ops []string
		for range 1 + r.IntN(3) {
			ops = append(ops, fmt.Sprintf("burst %d %d %d", 1+r.IntN(8), 1+r.IntN(40), hx.Pick(r, []int{0, 1, 10, 200, 1500, 9000})))
		}
		run(fmt.Sprintf("case %d", id), ops)
	}
	_ = rand.Int
}
