// Engine `sillimits` (C18): drives a real silence.Silences configured with
// Limits{MaxSilences, MaxSilenceSizeBytes} under virtual time with generated or
// replayed create / edit / replace / expire / GC sequences.
package sillimits

import (
	"context"
	"errors"
	"fmt"
	"math/rand/v2"
	"sort"
	"strconv"
	"strings"
	"testing"
	"testing/synctest"
	"time"

	"github.com/prometheus/client_golang/prometheus"
	"google.golang.org/protobuf/proto"
	"google.golang.org/protobuf/types/known/timestamppb"

	"github.com/prometheus/alertmanager/eventrecorder"
	"github.com/prometheus/alertmanager/silence"
	pb "github.com/prometheus/alertmanager/silence/silencepb"

	"verif/harness/hx"
)

type world struct {
	t0        time.Time
	s         *silence.Silences
	retention time.Duration
	ids       map[string]int // uuid -> ordinal
	byOrd     []string
}

func (w *world) abs(off int64) time.Time { return w.t0.Add(time.Duration(off)) }
func (w *world) rel(t time.Time) int64    { return int64(t.Sub(w.t0)) }

func (w *world) ref(uuid string) string {
	o, ok := w.ids[uuid]
	if !ok {
		o = len(w.byOrd)
		w.ids[uuid] = o
		w.byOrd = append(w.byOrd, uuid)
	}
	return "s" + strconv.Itoa(o)
}

func (w *world) uuid(ref string) string {
	o, _ := strconv.Atoi(ref[1:])
	if o < len(w.byOrd) {
		return w.byOrd[o]
	}
	return fmt.Sprintf("00000000-0000-4000-8000-%012d", o) // never issued
}

func matcherToken(sil *pb.Silence) string {
	return sil.MatcherSets[0].Matchers[0].Pattern[1:]
}

func (w *world) dump() string {
	sils, _, err := w.s.Query(context.Background())
	if err != nil {
		panic(err)
	}
	type row struct {
		o int
		s string
	}
	var rows []row
	for _, s := range sils {
		o, ok := w.ids[s.Id]
		if !ok {
			panic("unknown id in store " + s.Id)
		}
		rows = append(rows, row{o, fmt.Sprintf("s%d,%d,%d,%d,%s", o, w.rel(s.StartsAt.AsTime()), w.rel(s.EndsAt.AsTime()), w.rel(s.UpdatedAt.AsTime()), matcherToken(s))})
	}
	sort.Slice(rows, func(i, j int) bool { return rows[i].o < rows[j].o })
	out := make([]string, len(rows))
	for i, r := range rows {
		out[i] = r.s
	}
	return hx.Join(out, ";")
}

func (w *world) meshSize(sil *pb.Silence) int {
	return proto.Size(&pb.MeshSilence{Silence: sil, ExpiresAt: timestamppb.New(sil.EndsAt.AsTime().Add(w.retention))})
}

func (w *world) sleepTo(off int64) {
	if d := w.abs(off).Sub(time.Now()); d > 0 {
		time.Sleep(d)
	}
}

func (w *world) exec(line string) string {
	t := strings.Fields(line)
	w.sleepTo(hx.Atoi64(t[1]))
	ctx := context.Background()
	switch t[0] {
	case "set":
		sil := &pb.Silence{
			MatcherSets: []*pb.MatcherSet{{Matchers: []*pb.Matcher{{Type: pb.Matcher_EQUAL, Name: "job", Pattern: "m" + t[5]}}}},
			EndsAt:      timestamppb.New(w.abs(hx.Atoi64(t[4]))),
			CreatedBy:   "verif",
		}
		if t[2] != "-" {
			sil.Id = w.uuid(t[2])
		}
		if t[3] != "-1" {
			sil.StartsAt = timestamppb.New(w.abs(hx.Atoi64(t[3])))
		}
		clen, _ := strconv.Atoi(t[6])
		sil.Comment = strings.Repeat("c", clen)
		err := w.s.Set(ctx, sil)
		switch {
		case err == nil:
			ref := w.ref(sil.Id)
			stsz := 0
			if st, err := w.s.QueryOne(ctx, silence.QIDs(sil.Id)); err == nil {
				stsz = w.meshSize(st)
			}
			return fmt.Sprintf("ok %s %d %d %s", ref, w.meshSize(sil), stsz, w.dump())
		case errors.Is(err, silence.ErrNotFound):
			return "notfound " + w.dump()
		case strings.HasPrefix(err.Error(), "exceeded maximum number of silences"):
			return "limit-count " + w.dump()
		case strings.HasPrefix(err.Error(), "silence exceeded maximum size"):
			return fmt.Sprintf("limit-size %d %s", w.meshSize(sil), w.dump())
		case strings.HasPrefix(err.Error(), "invalid silence"):
			return "invalid " + w.dump()
		}
		return "error:" + hx.Hex(err.Error()) + " " + w.dump()
	case "expire":
		err := w.s.Expire(ctx, w.uuid(t[2]))
		if err == nil {
			return "ok " + w.dump()
		}
		if errors.Is(err, silence.ErrNotFound) {
			return "notfound " + w.dump()
		}
		return "error:" + hx.Hex(err.Error()) + " " + w.dump()
	case "gc":
		n, err := w.s.GC()
		if err != nil {
			return "error:" + hx.Hex(err.Error()) + " " + w.dump()
		}
		return fmt.Sprintf("%d %s", n, w.dump())
	}
	panic("bad op " + line)
}

const minute = int64(time.Minute)

func runCase(t *testing.T, tr *hx.Trace, id int, r *rand.Rand, script []string) {
	synctest.Test(t, func(t *testing.T) {
		w := &world{t0: time.Now(), ids: map[string]int{}}
		var header string
		maxCount, maxSize := 0, 0
		var retention int64
		if script != nil {
			header = script[0]
			for _, f := range strings.Fields(header) {
				if v, ok := strings.CutPrefix(f, "maxcount="); ok {
					maxCount, _ = strconv.Atoi(v)
				}
				if v, ok := strings.CutPrefix(f, "maxsize="); ok {
					maxSize, _ = strconv.Atoi(v)
				}
				if v, ok := strings.CutPrefix(f, "retention="); ok {
					retention = hx.Atoi64(v)
				}
			}
		} else {
			maxCount = r.IntN(5) // 0 = unlimited
			maxSize = []int{0, 0, 100, 120, 140, 170, 300}[r.IntN(7)]
			retention = int64(r.IntN(4)) * minute
			header = fmt.Sprintf("case %d maxcount=%d maxsize=%d retention=%d", id, maxCount, maxSize, retention)
		}
		tr.Linef("%s", header)
		w.retention = time.Duration(retention)
		s, err := silence.New(silence.Options{
			Retention: w.retention,
			Limits: silence.Limits{
				MaxSilences:         func() int { return maxCount },
				MaxSilenceSizeBytes: func() int { return maxSize },
			},
			Metrics:       prometheus.NewRegistry(),
			EventRecorder: eventrecorder.NopRecorder(),
		})
		if err != nil {
			panic(err)
		}
		w.s = s
		do := func(line string) { tr.Linef("%s -> %s", line, w.exec(line)) }
		if script != nil {
			for _, l := range script[1:] {
				do(l)
			}
			return
		}
		now := int64(0)
		created := 0
		nops := 6 + r.IntN(14)
		for range nops {
			switch r.IntN(4) {
			case 0:
				now += int64(time.Millisecond)
			case 1:
				now += int64(1+r.IntN(3)) * minute
			default:
				now += int64(1+r.IntN(30)) * int64(time.Second)
			}
			// number of silences the harness has seen created (ordinals 0..created-1)
			created = len(w.byOrd)
			switch x := r.IntN(20); {
			case x < 13:
				ref := "-"
				if created > 0 && r.IntN(2) == 0 {
					ref = "s" + strconv.Itoa(r.IntN(created))
					if r.IntN(15) == 0 {
						ref = "s" + strconv.Itoa(created+3) // unknown id
					}
				}
				starts := int64(-1)
				switch r.IntN(4) {
				case 0:
					starts = now + int64(r.IntN(3))*minute
				case 1:
					starts = now - int64(r.IntN(90))*int64(time.Second)
					if starts < 0 {
						starts = 0
					}
				}
				ends := now + int64(r.IntN(6)-1)*minute
				if ends < 0 {
					ends = 0
				}
				m := r.IntN(3)
				clen := []int{0, 5, 20, 40, 60, 150}[r.IntN(6)]
				if ref != "-" && r.IntN(5) < 3 {
					// a genuine edit: keep matchers and start of the stored silence
					if st, err := w.s.QueryOne(context.Background(), silence.QIDs(w.uuid(ref))); err == nil {
						m, _ = strconv.Atoi(matcherToken(st))
						starts = w.rel(st.StartsAt.AsTime())
						if ends < starts {
							ends = starts + minute
						}
					}
				}
				do(fmt.Sprintf("set %d %s %d %d %d %d", now, ref, starts, ends, m, clen))
			case x < 16 && created > 0:
				do(fmt.Sprintf("expire %d s%d", now, r.IntN(created+1)))
			default:
				do(fmt.Sprintf("gc %d", now))
			}
		}
	})
}

func TestEngine(t *testing.T) {
	tr := hx.Open()
	defer tr.Close()
	if s := hx.Script(); s != nil {
		var cur []string
		n := 0
		flush := func() {
			if cur != nil {
				runCase(t, tr, n, nil, cur)
				n++
			}
		}
		for _, l := range s {
			if strings.HasPrefix(l, "case ") {
				flush()
				cur = []string{l}
			} else if cur != nil {
				cur = append(cur, l)
			}
		}
		flush()
		return
	}
	r := hx.Rand(181)
	for id := range hx.Cases(1500, 40000) {
		runCase(t, tr, id, r, nil)
	}
}
