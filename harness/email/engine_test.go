// Engine `email` (C04, C20): the real notify/email Notifier against a scripted
// loopback SMTP server, alone and inside the real DedupStage -> RetryStage ->
// SetNotifiesStage chain over a real nflog.  Real time (loopback TCP).
//
// The server accepts every message (220, EHLO, MAIL, RCPT, DATA, "." -> 250)
// and answers QUIT as scripted: 221 (well behaved), 421 / 500 (an error reply),
// close (drops the connection without a reply).  Once DATA was accepted with
// 250 the message IS delivered, whatever happens to QUIT.
//
//	mail <quit>                  -> retry=<0|1> err=<0|1> data=<n accepted messages>
//	flush <quit> <deadline_ms>   -> r1=<ok|err> n1=<n> log1=<0|1> r2=<ok|err> n2=<n>
//
// `flush` = two consecutive flushes of one unchanged group (one firing alert,
// repeat_interval 4 h), each under a flush deadline of deadline_ms: n1 / n2 =
// messages accepted by the server during the first / second flush, log1 = the
// notification log has the entry after the first flush.
//
// Robust under load: on the unchanged tree nothing waits (every SMTP reply comes
// at once, no retry happens); the deadline only bounds how long a broken tree
// keeps re-sending.
package email

import (
	"bufio"
	"context"
	"fmt"
	"net"
	"net/url"
	"strconv"
	"strings"
	"sync/atomic"
	"testing"
	"time"

	"github.com/prometheus/client_golang/prometheus"
	"github.com/prometheus/common/model"
	"github.com/prometheus/common/promslog"

	"github.com/prometheus/alertmanager/config"
	"github.com/prometheus/alertmanager/eventrecorder"
	"github.com/prometheus/alertmanager/featurecontrol"
	"github.com/prometheus/alertmanager/nflog"
	"github.com/prometheus/alertmanager/nflog/nflogpb"
	"github.com/prometheus/alertmanager/notify"
	"github.com/prometheus/alertmanager/notify/email"
	"github.com/prometheus/alertmanager/template"
	"github.com/prometheus/alertmanager/types"

	"verif/harness/hx"
)

type smtpd struct {
	l         net.Listener
	quit      string
	delivered atomic.Int32
}

func newSMTPD(quit string) *smtpd {
	l, err := net.Listen("tcp", "127.0.0.1:0")
	if err != nil {
		panic(err)
	}
	s := &smtpd{l: l, quit: quit}
	go func() {
		for {
			conn, err := l.Accept()
			if err != nil {
				return
			}
			go s.serve(conn)
		}
	}()
	return s
}

func (s *smtpd) serve(c net.Conn) {
	defer c.Close()
	c.SetDeadline(time.Now().Add(60 * time.Second))
	r := bufio.NewReader(c)
	say := func(m string) { _, _ = c.Write([]byte(m + "\r\n")) }
	say("220 verif ESMTP")
	for {
		line, err := r.ReadString('\n')
		if err != nil {
			return
		}
		cmd := strings.ToUpper(strings.TrimSpace(line))
		switch {
		case strings.HasPrefix(cmd, "EHLO"), strings.HasPrefix(cmd, "HELO"):
			say("250 verif")
		case strings.HasPrefix(cmd, "MAIL"), strings.HasPrefix(cmd, "RCPT"), strings.HasPrefix(cmd, "RSET"), strings.HasPrefix(cmd, "NOOP"):
			say("250 2.0.0 OK")
		case strings.HasPrefix(cmd, "DATA"):
			say("354 go ahead")
			for {
				l, err := r.ReadString('\n')
				if err != nil {
					return
				}
				if l == ".\r\n" {
					break
				}
			}
			s.delivered.Add(1)
			say("250 2.0.0 OK: queued")
		case strings.HasPrefix(cmd, "QUIT"):
			switch s.quit {
			case "221":
				say("221 2.0.0 bye")
			case "close":
			default:
				say(s.quit + " 4.3.2 service not available")
			}
			return
		default:
			say("502 5.5.1 not implemented")
		}
	}
}

func (s *smtpd) notifier(tmpl *template.Template) (*email.Email, *config.EmailConfig) {
	addr := s.l.Addr().(*net.TCPAddr)
	no := false
	cfg := &config.EmailConfig{
		Smarthost:  config.HostPort{Host: addr.IP.String(), Port: strconv.Itoa(addr.Port)},
		Hello:      "localhost",
		From:       "alertmanager@system",
		To:         "sre@company",
		Text:       `{{ len .Alerts.Firing }} firing`,
		Headers:    map[string]string{},
		RequireTLS: &no,
	}
	cfg.VSendResolved = true
	return email.New(cfg, tmpl, promslog.NewNopLogger()), cfg
}

func flushCtx(d time.Duration) (context.Context, context.CancelFunc) {
	ctx, cancel := context.WithTimeout(context.Background(), d)
	ctx = notify.WithNow(ctx, time.Now())
	ctx = notify.WithGroupKey(ctx, `{}:{alertname="A"}`)
	ctx = notify.WithGroupLabels(ctx, model.LabelSet{"alertname": "A"})
	ctx = notify.WithReceiverName(ctx, "team")
	ctx = notify.WithRepeatInterval(ctx, 4*time.Hour)
	return ctx, cancel
}

func firing() *types.Alert {
	return &types.Alert{Alert: model.Alert{Labels: model.LabelSet{"alertname": "A"}, StartsAt: time.Now().Add(-time.Minute)}, UpdatedAt: time.Now()}
}

func b2i(b bool) int {
	if b {
		return 1
	}
	return 0
}

func exec(tmpl *template.Template, line string) string {
	t := strings.Fields(line)
	switch t[0] {
	case "mail":
		s := newSMTPD(t[1])
		defer s.l.Close()
		n, _ := s.notifier(tmpl)
		ctx, cancel := flushCtx(time.Minute)
		defer cancel()
		retry, err := n.Notify(ctx, firing())
		return fmt.Sprintf("retry=%d err=%d data=%d", b2i(retry), b2i(err != nil), s.delivered.Load())
	case "flush":
		s := newSMTPD(t[1])
		defer s.l.Close()
		n, cfg := s.notifier(tmpl)
		nl, err := nflog.New(nflog.Options{Retention: 120 * time.Hour, Metrics: prometheus.NewRegistry()})
		if err != nil {
			panic(err)
		}
		recv := &nflogpb.Receiver{GroupName: "team", Integration: "email", Idx: 0}
		integration := notify.NewIntegration(n, cfg, "email", 0, "team")
		pipeline := notify.MultiStage{
			notify.NewDedupStage(&integration, nl, recv),
			notify.NewRetryStage(integration, "team", notify.NewMetrics(prometheus.NewRegistry(), featurecontrol.NoopFlags{}), eventrecorder.NopRecorder()),
			notify.NewSetNotifiesStage(nl, recv),
		}
		a := firing()
		d := time.Duration(hx.Atoi64(t[2])) * time.Millisecond
		flush := func() string {
			ctx, cancel := flushCtx(d)
			defer cancel()
			if _, _, err := pipeline.Exec(ctx, promslog.NewNopLogger(), a); err != nil {
				return "err"
			}
			return "ok"
		}
		r1 := flush()
		n1 := s.delivered.Load()
		es, qerr := nl.Query(nflog.QGroupKey(`{}:{alertname="A"}`), nflog.QReceiver(recv))
		log1 := qerr == nil && len(es) == 1
		r2 := flush()
		n2 := s.delivered.Load() - n1
		return fmt.Sprintf("r1=%s n1=%d log1=%d r2=%s n2=%d", r1, n1, b2i(log1), r2, n2)
	}
	panic("bad op " + line)
}

func TestEngine(t *testing.T) {
	tr := hx.Open()
	defer tr.Close()
	tmpl, err := template.FromGlobs(nil)
	if err != nil {
		t.Fatal(err)
	}
	tmpl.ExternalURL, _ = url.Parse("http://am.example")
	do := func(line string) { tr.Linef("%s -> %s", line, exec(tmpl, line)) }
	if s := hx.Script(); s != nil {
		for _, l := range s {
			if strings.HasPrefix(l, "case ") {
				tr.Linef("%s", l)
				continue
			}
			do(l)
		}
		return
	}
	r := hx.Rand(404)
	quits := []string{"221", "421", "close", "500", "451"}
	id := 0
	for range hx.Cases(10, 60) {
		tr.Linef("case %d", id)
		id++
		do(fmt.Sprintf("mail %s", hx.Pick(r, quits)))
	}
	for i := range hx.Cases(5, 30) {
		tr.Linef("case %d", id)
		id++
		q := hx.Pick(r, quits)
		if i < len(quits) {
			q = quits[i] // every behaviour at least once
		}
		do(fmt.Sprintf("flush %s %d", q, 3000+100*r.IntN(6))) // far beyond any scheduling delay of a loopback exchange; only a broken tree waits for it
	}
}
