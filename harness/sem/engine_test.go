// Engine `sem` (C18): the real GET concurrency limiter api.limitHandler, reached
// through the mux returned by API.Register: handlers registered on the router we
// hand in are wrapped by it.  Requests are served in-process (httptest
// recorders, no network) inside a synctest bubble, so "blocked inside the
// handler" is an exact, settled state.
package sem

import (
	"sort"
	"context"
	"fmt"
	"math/rand/v2"
	"net/http"
	"net/http/httptest"
	"strconv"
	"strings"
	"testing"
	"testing/synctest"
	"time"

	"github.com/prometheus/client_golang/prometheus"
	"github.com/prometheus/common/model"
	"github.com/prometheus/common/promslog"
	"github.com/prometheus/common/route"

	"github.com/prometheus/alertmanager/api"
	"github.com/prometheus/alertmanager/dispatch"
	"github.com/prometheus/alertmanager/eventrecorder"
	"github.com/prometheus/alertmanager/provider/mem"
	"github.com/prometheus/alertmanager/silence"
	"github.com/prometheus/alertmanager/types"

	"verif/harness/hx"
)

type pending struct {
	rec      *httptest.ResponseRecorder
	release  chan struct{}
	done     chan struct{} // the client has its answer
	finished chan struct{} // the inner handler has returned (later than `done` when the API timeout answered first)
	isGet    bool
	answered bool
}

type world struct {
	mux     *http.ServeMux
	reg     *prometheus.Registry
	running int // GET handlers currently inside the inner handler
	reqs    map[int]*pending
	cur     *pending // request being started (handlers read it)
	timeout time.Duration
}

func (w *world) metric(name string) int {
	mfs, err := w.reg.Gather()
	if err != nil {
		panic(err)
	}
	for _, mf := range mfs {
		if mf.GetName() == name {
			m := mf.Metric[0]
			if m.Gauge != nil {
				return int(m.GetGauge().GetValue())
			}
			return int(m.GetCounter().GetValue())
		}
	}
	return -1
}

func (w *world) obs() string {
	return fmt.Sprintf("%d %d %d", w.running, w.metric("alertmanager_http_requests_in_flight"),
		w.metric("alertmanager_http_concurrency_limit_exceeded_total"))
}

func (w *world) exec(line string) string {
	t := strings.Fields(line)
	k := 0
	if len(t) > 1 {
		k, _ = strconv.Atoi(t[1])
	}
	switch t[0] {
	case "get", "post":
		method := http.MethodGet
		if t[0] == "post" {
			method = http.MethodPost
		}
		path := "/verif/block/" + t[1]
		if t[2] == "quick" {
			path = "/verif/quick"
		}
		p := &pending{rec: httptest.NewRecorder(), release: make(chan struct{}), done: make(chan struct{}), finished: make(chan struct{}), isGet: method == http.MethodGet}
		w.reqs[k] = p
		req := httptest.NewRequest(method, path, nil)
		go func() {
			defer close(p.done)
			w.mux.ServeHTTP(p.rec, req)
		}()
		synctest.Wait()
		select {
		case <-p.done:
			delete(w.reqs, k)
			return fmt.Sprintf("%d %s", p.rec.Code, w.obs())
		default:
			return "entered " + w.obs()
		}
	case "getv2":
		// a GET on the other mount point of the mux (<prefix>/api/v2/, the generated API): the limit is one for all GETs.
		// The handler (an empty silence list) returns at once.
		rec := httptest.NewRecorder()
		req := httptest.NewRequest(http.MethodGet, "/api/v2/silences", nil)
		done := make(chan struct{})
		go func() {
			defer close(done)
			w.mux.ServeHTTP(rec, req)
		}()
		synctest.Wait()
		select {
		case <-done:
		default:
			// never observed: the handler has nothing to wait for; give it virtual time, then report
			time.Sleep(time.Second)
			synctest.Wait()
			<-done
		}
		return fmt.Sprintf("%d %s", rec.Code, w.obs())
	case "release":
		p := w.reqs[k]
		close(p.release)
		<-p.done
		<-p.finished
		synctest.Wait()
		delete(w.reqs, k)
		return fmt.Sprintf("%d %s", p.rec.Code, w.obs())
	case "timeout":
		// let the API timeout pass: every request still inside its handler is answered by the timeout handler,
		// its handler keeps running (and keeps its concurrency slot) until it is released
		time.Sleep(w.timeout + time.Millisecond)
		synctest.Wait()
		var ks []int
		for k, p := range w.reqs {
			if !p.answered {
				select {
				case <-p.done:
					p.answered = true
					ks = append(ks, k)
				default:
				}
			}
		}
		sort.Ints(ks)
		parts := make([]string, len(ks))
		for i, k := range ks {
			parts[i] = fmt.Sprintf("%d:%d", k, w.reqs[k].rec.Code)
		}
		return hx.Join(parts, ",") + " " + w.obs()
	}
	panic("bad op " + line)
}

func runCase(t *testing.T, tr *hx.Trace, id int, r *rand.Rand, script []string) {
	synctest.Test(t, func(t *testing.T) {
		var header string
		capN := 0
		timeout := time.Duration(0)
		if script != nil {
			header = script[0]
			for _, f := range strings.Fields(header) {
				if v, ok := strings.CutPrefix(f, "cap="); ok {
					capN, _ = strconv.Atoi(v)
				}
				if v, ok := strings.CutPrefix(f, "timeout="); ok {
					timeout = time.Duration(hx.Atoi64(v))
				}
			}
		} else {
			capN = 1 + r.IntN(4)
			if r.IntN(2) == 0 {
				timeout = 5 * time.Second
			}
			header = fmt.Sprintf("case %d cap=%d timeout=%d", id, capN, int64(timeout))
		}
		tr.Linef("%s", header)

		ctx, cancel := context.WithCancel(context.Background())
		w := &world{reg: prometheus.NewRegistry(), reqs: map[int]*pending{}, timeout: timeout}
		alerts, err := mem.NewAlerts(ctx, time.Hour, 0, nil, promslog.NewNopLogger(), eventrecorder.NopRecorder(), prometheus.NewRegistry(), nil)
		if err != nil {
			panic(err)
		}
		sils, err := silence.New(silence.Options{Metrics: prometheus.NewRegistry(), EventRecorder: eventrecorder.NopRecorder()})
		if err != nil {
			panic(err)
		}
		a, err := api.New(api.Options{
			Alerts:         alerts,
			Silences:       sils,
			GroupMutedFunc: func(string, string) ([]string, bool) { return nil, false },
			GroupFunc: func(context.Context, func(*dispatch.Route) bool, func(*types.Alert, time.Time) bool) (dispatch.AlertGroups, map[model.Fingerprint][]string, error) {
				return nil, nil, nil
			},
			Concurrency: capN,
			Timeout:     timeout,
			Registry:    w.reg,
			RequestDuration: prometheus.NewHistogramVec(prometheus.HistogramOpts{Name: "verif_request_duration"},
				[]string{"handler", "method", "code"}),
		})
		if err != nil {
			panic(err)
		}
		rt := route.New()
		block := func(rw http.ResponseWriter, req *http.Request) {
			k, _ := strconv.Atoi(req.URL.Path[strings.LastIndex(req.URL.Path, "/")+1:])
			p := w.reqs[k]
			if p.isGet {
				w.running++
			}
			<-p.release
			if p.isGet {
				w.running--
			}
			rw.WriteHeader(http.StatusOK)
			close(p.finished)
		}
		quick := func(rw http.ResponseWriter, _ *http.Request) { rw.WriteHeader(http.StatusOK) }
		rt.Get("/verif/block/:k", block)
		rt.Post("/verif/block/:k", block)
		rt.Get("/verif/quick", quick)
		rt.Post("/verif/quick", quick)
		w.mux = a.Register(rt, "/")

		defer func() {
			for _, p := range w.reqs {
				close(p.release)
				<-p.done
				<-p.finished
			}
			cancel()
			alerts.Close()
			synctest.Wait()
		}()

		do := func(line string) { tr.Linef("%s -> %s", line, w.exec(line)) }
		if script != nil {
			for _, l := range script[1:] {
				do(l)
			}
			return
		}
		next := 0
		nops := 6 + r.IntN(16)
		for range nops {
			var open []int
			for k := range w.reqs {
				open = append(open, k)
			}
			// map order must not leak into the trace
			for i := range open {
				for j := i + 1; j < len(open); j++ {
					if open[j] < open[i] {
						open[i], open[j] = open[j], open[i]
					}
				}
			}
			switch x := r.IntN(10); {
			case x < 5:
				do(fmt.Sprintf("get %d block", next))
				next++
			case x < 6:
				if r.IntN(2) == 0 {
					do(fmt.Sprintf("getv2 %d", next))
				} else {
					do(fmt.Sprintf("get %d quick", next))
				}
				next++
			case x < 8:
				do(fmt.Sprintf("post %d block", next))
				next++
			case x < 9 && timeout > 0 && len(open) > 0:
				do("timeout")
			default:
				if len(open) > 0 {
					do(fmt.Sprintf("release %d", hx.Pick(r, open)))
				}
			}
		}
	})
}

func TestEngine(t *testing.T) {
	tr := hx.Open()
	defer tr.Close()
	if s := hx.Script(); s != nil {
		var cur []string
		n := 0
		flush := func() {
			if cur != nil {
				runCase(t, tr, n, nil, cur)
				n++
			}
		}
		for _, l := range s {
			if strings.HasPrefix(l, "case ") {
				flush()
				cur = []string{l}
			} else if cur != nil {
				cur = append(cur, l)
			}
		}
		flush()
		return
	}
	r := hx.Rand(182)
	for id := range hx.Cases(600, 15000) {
		runCase(t, tr, id, r, nil)
	}
}
