// Engine `cluster` (C08): 1-3 REAL pipelines (PipelineBuilder.New with the real
// ClusterWaitStage: wait = position × peer timeout), each on its own REAL
// nflog.Log, joined by a scripted gossip channel (per-link delay or loss, late
// re-delivery), with log GC and crashes with/without snapshot, under virtual time.
package cluster

import (
	"bytes"
	"context"
	"errors"
	"fmt"
	"log/slog"
	"math/rand/v2"
	"sort"
	"strconv"
	"strings"
	"sync"
	"sync/atomic"
	"testing"
	"testing/synctest"
	"time"

	"github.com/cespare/xxhash/v2"
	"github.com/prometheus/client_golang/prometheus"
	"github.com/prometheus/common/model"
	"github.com/prometheus/common/promslog"
	"google.golang.org/protobuf/encoding/protodelim"

	"github.com/prometheus/alertmanager/alert"
	"github.com/prometheus/alertmanager/eventrecorder"
	"github.com/prometheus/alertmanager/featurecontrol"
	"github.com/prometheus/alertmanager/inhibit"
	"github.com/prometheus/alertmanager/marker"
	"github.com/prometheus/alertmanager/nflog"
	pb "github.com/prometheus/alertmanager/nflog/nflogpb"
	"github.com/prometheus/alertmanager/notify"
	"github.com/prometheus/alertmanager/provider/mem"
	"github.com/prometheus/alertmanager/silence"
	"github.com/prometheus/alertmanager/timeinterval"

	"verif/harness/hx"
)

const (
	nAlerts     = 3
	bulkLo      = 10 // ids bulkLo..bulkHi form a large group: its log entry exceeds the gossip packet limit
	bulkHi      = 99
	peerTimeout = 15 * time.Second
)

func labelsOf(id int) model.LabelSet {
	return model.LabelSet{"alertname": "A", "id": model.LabelValue(strconv.Itoa(id))}
}

func hashOf(ls model.LabelSet) uint64 {
	names := make([]string, 0, len(ls))
	for n := range ls {
		names = append(names, string(n))
	}
	sort.Strings(names)
	var b []byte
	for _, n := range names {
		b = append(b, n...)
		b = append(b, 0xff)
		b = append(b, ls[model.LabelName(n)]...)
		b = append(b, 0xff)
	}
	return xxhash.Sum64(b)
}

var idOfHash = func() map[uint64]int {
	m := map[uint64]int{}
	for i := 1; i <= nAlerts; i++ {
		m[hashOf(labelsOf(i))] = i
	}
	for i := bulkLo; i <= bulkHi; i++ {
		m[hashOf(labelsOf(i))] = i
	}
	return m
}()

func ids(hs []uint64) string {
	var l []int
	for _, h := range hs {
		l = append(l, idOfHash[h])
	}
	sort.Ints(l)
	s := make([]string, len(l))
	for i, v := range l {
		s[i] = strconv.Itoa(v)
	}
	return hx.Join(s, ".")
}

type event struct {
	wall int64
	seq  int
	text string
}

type inst struct {
	w       *world
	idx     int
	pos     int
	log     *nflog.Log
	stage   notify.RoutingStage
	ints    []*integ
	mmtx    sync.Mutex
	merging map[string]int // payloads currently inside Merge on this instance (re-gossip of those is the channel's job)
	bcasts  [][]byte
	// gossip has not settled on this instance (it has just started and is still joining): the notify.Peer handed to
	// the pipeline blocks in WaitReady until the flush context is done, as cluster.Peer.WaitReady does
	unsettled atomic.Bool
}

// peer is the notify.Peer of one instance.
type peer struct{ n *inst }

func (p peer) WaitReady(ctx context.Context) error {
	if !p.n.unsettled.Load() {
		return nil
	}
	<-ctx.Done()
	return ctx.Err()
}

// flush timeout of an unsettled round: the dispatcher's minimum (notify.MinTimeout)
const unsettledTimeout = 10 * time.Second

// integ is one integration of the receiver on one instance.
type integ struct {
	n      *inst
	k      int
	accept atomic.Bool
}

func (g *integ) Notify(ctx context.Context, as ...*alert.Alert) (bool, error) {
	n := g.n
	if !g.accept.Load() {
		return false, errors.New("rejected")
	}
	var fi, ri []int
	for _, a := range as {
		id, _ := strconv.Atoi(string(a.Labels["id"]))
		if a.Resolved() {
			ri = append(ri, id)
		} else {
			fi = append(fi, id)
		}
	}
	num := func(l []int) string {
		sort.Ints(l)
		s := make([]string, len(l))
		for i, v := range l {
			s[i] = strconv.Itoa(v)
		}
		return hx.Join(s, ".")
	}
	n.w.record(fmt.Sprintf("sent %d %d %s/%s", n.idx, g.k, num(fi), num(ri)))
	return false, nil
}

type sr bool

func (s sr) SendResolved() bool { return bool(s) }

type world struct {
	t0        time.Time
	mtx       sync.Mutex
	events    []event
	seq       int
	retention time.Duration
	repeat    time.Duration
	sendRes   bool
	nint      int
	insts     []*inst
	delay     [][]int64 // per link, ns; -1 = drop
	cancel    context.CancelFunc
	alerts    *mem.Alerts
	inhibitor *inhibit.Inhibitor
}

func (w *world) abs(off int64) time.Time { return w.t0.Add(time.Duration(off)) }
func (w *world) rel(t time.Time) int64    { return int64(t.Sub(w.t0)) }

func (w *world) record(text string) {
	w.mtx.Lock()
	w.seq++
	w.events = append(w.events, event{wall: w.rel(time.Now()), seq: w.seq, text: text})
	w.mtx.Unlock()
}

func (w *world) drain() []string {
	w.mtx.Lock()
	ev := w.events
	w.events = nil
	w.mtx.Unlock()
	sort.SliceStable(ev, func(i, j int) bool {
		if ev[i].wall != ev[j].wall {
			return ev[i].wall < ev[j].wall
		}
		return ev[i].seq < ev[j].seq
	})
	out := make([]string, len(ev))
	for i, e := range ev {
		out[i] = fmt.Sprintf("ev %d %s", e.wall, e.text)
	}
	return out
}

func (w *world) decode(b []byte) string {
	var m pb.MeshEntry
	if err := protodelim.UnmarshalFrom(bytes.NewReader(b), &m); err != nil {
		return "undecodable"
	}
	return fmt.Sprintf("%d %d,%d,%s,%s", m.Entry.Receiver.Idx, w.rel(m.Entry.Timestamp.AsTime()), w.rel(m.ExpiresAt.AsTime()), ids(m.Entry.FiringAlerts), ids(m.Entry.ResolvedAlerts))
}

func (w *world) buildInst(n *inst, snap []byte) {
	o := nflog.Options{Retention: w.retention, Metrics: prometheus.NewRegistry()}
	if snap != nil {
		o.SnapshotReader = bytes.NewReader(snap)
	}
	l, err := nflog.New(o)
	if err != nil {
		panic(err)
	}
	n.log = l
	l.SetBroadcast(func(b []byte) {
		n.mmtx.Lock()
		regossip := n.merging[string(b)] > 0
		n.mmtx.Unlock()
		if regossip {
			return // re-gossip of a merged entry: the scripted channel already owns delivery
		}
		n.bcasts = append(n.bcasts, b)
		for _, dst := range w.insts {
			if dst == n {
				continue
			}
			d := w.delay[n.idx][dst.idx]
			if d < 0 {
				continue
			}
			dst := dst
			go func() {
				time.Sleep(time.Duration(d))
				w.deliver(n, dst, b)
			}()
		}
	})
	logger := promslog.NewNopLogger()
	sil, err := silence.New(silence.Options{Retention: time.Hour, Logger: logger, Metrics: prometheus.NewRegistry()})
	if err != nil {
		panic(err)
	}
	silencer := silence.NewSilencer(sil, logger, eventrecorder.NopRecorder())
	pbld := notify.NewPipelineBuilder(prometheus.NewRegistry(), featurecontrol.NoopFlags{}, eventrecorder.NopRecorder())
	pos := n.pos
	var its []notify.Integration
	for _, g := range n.ints {
		its = append(its, notify.NewIntegration(g, sr(w.sendRes), "fake", g.k, "r"))
	}
	n.stage = pbld.New(map[string][]notify.Integration{"r": its},
		func() time.Duration { return time.Duration(pos) * peerTimeout },
		w.inhibitor, silencer, timeinterval.NewIntervener(nil), marker.NewGroupMarker(), n.log, peer{n})
}

func (w *world) deliver(src, dst *inst, b []byte) {
	dst.mmtx.Lock()
	if dst.merging == nil {
		dst.merging = map[string]int{}
	}
	dst.merging[string(b)]++
	dst.mmtx.Unlock()
	err := dst.log.Merge(b)
	dst.mmtx.Lock()
	dst.merging[string(b)]--
	dst.mmtx.Unlock()
	if err == nil {
		w.record(fmt.Sprintf("deliver %d %d %s", src.idx, dst.idx, w.decode(b)))
	}
}

func (w *world) entry(n *inst) string {
	s := make([]string, w.nint)
	for k := range s {
		s[k] = w.entryK(n, k)
	}
	return strings.Join(s, "|")
}

func (w *world) entryK(n *inst, k int) string {
	b, _ := n.log.MarshalBinary()
	br := bytes.NewReader(b)
	for br.Len() > 0 {
		var m pb.MeshEntry
		if err := protodelim.UnmarshalFrom(br, &m); err != nil {
			break
		}
		if string(m.Entry.GroupKey) == "g" && int(m.Entry.Receiver.Idx) == k {
			return fmt.Sprintf("%d,%d,%s,%s", w.rel(m.Entry.Timestamp.AsTime()), w.rel(m.ExpiresAt.AsTime()), ids(m.Entry.FiringAlerts), ids(m.Entry.ResolvedAlerts))
		}
	}
	return "none"
}

func (w *world) entries() string {
	s := make([]string, len(w.insts))
	for i, n := range w.insts {
		s[i] = w.entry(n)
	}
	return strings.Join(s, ";")
}

func (w *world) sleepTo(off int64) {
	if d := w.abs(off).Sub(time.Now()); d > 0 {
		time.Sleep(d)
	}
	synctest.Wait()
}

func (w *world) flushOne(n *inst, tick int64, alerts string, unsettled bool) {
	var as []*alert.Alert
	for _, a := range hx.Split(alerts, ",") {
		p := strings.Split(a, ":")
		id, _ := strconv.Atoi(p[0])
		al := &alert.Alert{Alert: model.Alert{Labels: labelsOf(id), StartsAt: w.abs(0)}, UpdatedAt: w.abs(0)}
		if p[1] == "r" {
			al.EndsAt = w.abs(tick).Add(-time.Millisecond)
		}
		as = append(as, al)
	}
	to := time.Hour
	if unsettled {
		to = unsettledTimeout
	}
	n.unsettled.Store(unsettled)
	ctx, cancel := context.WithTimeout(context.Background(), to)
	defer cancel()
	ctx = notify.WithNow(ctx, w.abs(tick))
	ctx = notify.WithGroupKey(ctx, "g")
	ctx = notify.WithGroupLabels(ctx, model.LabelSet{"alertname": "A"})
	ctx = notify.WithReceiverName(ctx, "r")
	ctx = notify.WithRepeatInterval(ctx, w.repeat)
	ctx = notify.WithRouteID(ctx, "{}")
	ctx = marker.WithContext(ctx, marker.NewAlertMarker())
	_, _, err := n.stage.Exec(ctx, slog.New(slog.DiscardHandler), as...)
	res := "ok"
	if err != nil {
		res = "err"
	}
	w.record(fmt.Sprintf("done %d %d %s %s", n.idx, tick, res, w.entry(n)))
}

// round <t> <alerts> <skew0,skew1,…> <accept bits> <delay matrix rows ';' cols ','> [<late0,late1,…>: tick = flush instant − late]
// [<unsettled bits>: gossip has not settled on that instance, its flush (10 s timeout) must fail with nothing sent or logged]
func (w *world) exec(line string) string {
	t := strings.Fields(line)
	switch t[0] {
	case "round":
		t0 := hx.Atoi64(t[1])
		w.sleepTo(t0)
		skews := hx.Split(t[3], ",")
		for i, row := range strings.Split(t[5], ";") {
			for j, c := range strings.Split(row, ",") {
				w.delay[i][j] = hx.Atoi64(c)
			}
		}
		var wg sync.WaitGroup
		for i, n := range w.insts {
			if skews[i] == "x" {
				continue // instance down / does not hold the alerts in this round
			}
			for k, g := range n.ints {
				g.accept.Store(t[4][i*w.nint+k] == '1')
			}
			sk := hx.Atoi64(skews[i])
			// a flush that reaches the pipeline later than its tick (the previous flush overran, or every flush after
			// a start waited for gossip to settle): notify.Now is older than the wall clock
			late := int64(0)
			if len(t) > 6 {
				late = hx.Atoi64(strings.Split(t[6], ",")[i])
			}
			uns := len(t) > 7 && i < len(t[7]) && t[7][i] == '1'
			wg.Add(1)
			go func(n *inst) {
				defer wg.Done()
				time.Sleep(time.Duration(sk))
				w.flushOne(n, t0+sk-late, t[2], uns)
			}(n)
		}
		wg.Wait()
		// let every scheduled delivery happen
		time.Sleep(40 * time.Second)
		synctest.Wait()
		return w.entries()
	case "gc":
		w.sleepTo(hx.Atoi64(t[1]))
		i, _ := strconv.Atoi(t[2])
		n, _ := w.insts[i].log.GC()
		return fmt.Sprintf("%d %s", n, w.entries())
	case "crash": // crash <t> <i> <keep 0|1>
		w.sleepTo(hx.Atoi64(t[1]))
		i, _ := strconv.Atoi(t[2])
		var snap []byte
		if t[3] == "1" {
			var buf bytes.Buffer
			if _, err := w.insts[i].log.Snapshot(&buf); err != nil {
				panic(err)
			}
			snap = buf.Bytes()
		}
		w.buildInst(w.insts[i], snap)
		return w.entries()
	case "redeliver": // redeliver <t> <src> <dst>: everything src ever broadcast arrives (again) at dst
		w.sleepTo(hx.Atoi64(t[1]))
		s, _ := strconv.Atoi(t[2])
		d, _ := strconv.Atoi(t[3])
		for _, b := range w.insts[s].bcasts {
			w.deliver(w.insts[s], w.insts[d], b)
		}
		return w.entries()
	}
	panic("bad op " + line)
}

func runCase(t *testing.T, tr *hx.Trace, id int, r *rand.Rand, script []string) {
	synctest.Test(t, func(t *testing.T) {
		w := &world{t0: time.Now()}
		sec := int64(time.Second)
		ms := int64(time.Millisecond)
		var header string
		n := 0
		var poss []int
		if script != nil {
			header = script[0]
			for _, f := range strings.Fields(header) {
				kv := strings.SplitN(f, "=", 2)
				if len(kv) != 2 {
					continue
				}
				switch kv[0] {
				case "retention":
					w.retention = time.Duration(hx.Atoi64(kv[1]))
				case "repeat":
					w.repeat = time.Duration(hx.Atoi64(kv[1]))
				case "sr":
					w.sendRes = kv[1] == "1"
				case "k":
					w.nint, _ = strconv.Atoi(kv[1])
				case "pos":
					for _, p := range strings.Split(kv[1], ",") {
						v, _ := strconv.Atoi(p)
						poss = append(poss, v)
					}
					n = len(poss)
				}
			}
		} else {
			n = 1 + r.IntN(3)
			poss = r.Perm(n)
			w.repeat = time.Duration(int64(1+r.IntN(4)) * 60 * sec)
			w.retention = time.Duration(int64(2+r.IntN(8)) * 60 * sec)
			w.sendRes = r.IntN(3) > 0
			w.nint = 1 + r.IntN(2)
			ps := make([]string, n)
			for i, p := range poss {
				ps[i] = strconv.Itoa(p)
			}
			srv := 0
			if w.sendRes {
				srv = 1
			}
			header = fmt.Sprintf("case %d retention=%d repeat=%d sr=%d k=%d pos=%s", id, int64(w.retention), int64(w.repeat), srv, w.nint, strings.Join(ps, ","))
		}
		logger := promslog.NewNopLogger()
		ctx, cancel := context.WithCancel(context.Background())
		w.cancel = cancel
		var err error
		w.alerts, err = mem.NewAlerts(ctx, 100*time.Hour, 0, nil, logger, eventrecorder.NopRecorder(), prometheus.NewRegistry(), nil)
		if err != nil {
			panic(err)
		}
		w.inhibitor = inhibit.NewInhibitor(w.alerts, nil, logger, eventrecorder.NopRecorder())
		w.delay = make([][]int64, n)
		for i := range n {
			w.delay[i] = make([]int64, n)
			in := &inst{w: w, idx: i, pos: poss[i]}
			if w.nint == 0 {
				w.nint = 1
			}
			for k := range w.nint {
				in.ints = append(in.ints, &integ{n: in, k: k})
			}
			w.insts = append(w.insts, in)
		}
		for _, in := range w.insts {
			w.buildInst(in, nil)
		}
		defer func() {
			w.inhibitor.Stop()
			w.alerts.Close()
			w.cancel()
			synctest.Wait()
		}()
		tr.Linef("%s", header)
		do := func(line string) {
			// the op's parameters first, then what happened (in time order), then the resulting entries
			tr.Linef("%s -> begin", line)
			tr.Flush()
			obs := w.exec(line)
			synctest.Wait()
			for _, e := range w.drain() {
				tr.Linef("%s", e)
			}
			tr.Linef("end -> %s", obs)
		}
		if script != nil {
			for _, l := range script[1:] {
				if !strings.HasPrefix(l, "ev ") && !strings.HasPrefix(l, "end") {
					do(l)
				}
			}
			return
		}
		state := make([]byte, nAlerts+1)
		bulk := byte(0)
		now := int64(0)
		healthy := r.IntN(2) == 0 // half of the cases keep every round healthy
		nops := 4 + r.IntN(8)
		for range nops {
			now += int64(20+r.IntN(200)) * sec
			switch x := r.IntN(20); {
			case x < 14:
				for i := 1; i <= nAlerts; i++ {
					switch r.IntN(6) {
					case 0:
						state[i] = 'f'
					case 1:
						if state[i] == 'f' {
							state[i] = 'r'
						}
					case 2:
						if state[i] == 'r' {
							state[i] = 0
						}
					}
				}
				var as []string
				for i := 1; i <= nAlerts; i++ {
					if state[i] != 0 {
						as = append(as, fmt.Sprintf("%d:%c", i, state[i]))
					}
				}
				// a large group now and then: its log entry is an oversized gossip message
				switch r.IntN(10) {
				case 0:
					bulk = 'f'
				case 1:
					if bulk == 'f' {
						bulk = 'r'
					}
				case 2:
					if bulk == 'r' {
						bulk = 0
					}
				}
				if bulk != 0 {
					for i := bulkLo; i <= bulkHi; i++ {
						as = append(as, fmt.Sprintf("%d:%c", i, bulk))
					}
				}
				skews := make([]string, n)
				acc := ""
				for i := range n {
					sk := int64(r.IntN(4))*sec + int64(i+1)*ms
					skews[i] = strconv.FormatInt(sk, 10)
					if !healthy && r.IntN(8) == 0 {
						skews[i] = "x"
					}
					for range w.nint {
						if !healthy && r.IntN(6) == 0 {
							acc += "0"
						} else {
							acc += "1"
						}
					}
				}
				rows := make([]string, n)
				for i := range n {
					cols := make([]string, n)
					for j := range n {
						d := int64(1+r.IntN(8))*sec + 100*ms + int64(i*3+j)*7*ms // < peerTimeout − max skew
						if !healthy {
							switch r.IntN(5) {
							case 0:
								d = -1 // lost
							case 1:
								d = int64(16+r.IntN(20))*sec + 100*ms + int64(i*3+j)*7*ms // slower than the peer timeout
							}
						}
						cols[j] = strconv.FormatInt(d, 10)
					}
					rows[i] = strings.Join(cols, ",")
				}
				lates := make([]string, n)
				for i := range n {
					l := int64(0)
					if r.IntN(3) == 0 {
						l = int64(1+r.IntN(40))*sec + int64(i)*ms
					}
					if l > now {
						l = 0
					}
					lates[i] = strconv.FormatInt(l, 10)
				}
				// an instance on which gossip has not settled yet (faulty cases only)
				uns := make([]byte, n)
				for i := range n {
					uns[i] = '0'
					if !healthy && skews[i] != "x" && r.IntN(8) == 0 {
						uns[i] = '1'
					}
				}
				do(fmt.Sprintf("round %d %s %s %s %s %s %s", now, hx.Join(as, ","), strings.Join(skews, ","), acc, strings.Join(rows, ";"), strings.Join(lates, ","), uns))
				now += 40*sec + int64(n)*int64(peerTimeout) + 4*sec
			case x < 16 && !healthy:
				do(fmt.Sprintf("gc %d %d", now, r.IntN(n)))
			case x < 18 && !healthy:
				do(fmt.Sprintf("crash %d %d %d", now, r.IntN(n), r.IntN(2)))
			case x < 20 && !healthy && n > 1:
				s := r.IntN(n)
				d := (s + 1 + r.IntN(n-1)) % n
				do(fmt.Sprintf("redeliver %d %d %d", now, s, d))
			}
		}
	})
}

func TestEngine(t *testing.T) {
	tr := hx.Open()
	defer tr.Close()
	if s := hx.Script(); s != nil {
		var cur []string
		n := 0
		flush := func() {
			if cur != nil {
				runCase(t, tr, n, nil, cur)
				n++
			}
		}
		for _, l := range s {
			if strings.HasPrefix(l, "case ") {
				flush()
				cur = []string{l}
			} else if cur != nil {
				cur = append(cur, l)
			}
		}
		flush()
		return
	}
	r := hx.Rand(8)
	for id := range hx.Cases(600, 15000) {
		runCase(t, tr, id, r, nil)
	}
}
