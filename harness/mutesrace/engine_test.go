// Engine `mutesrace` (C02): a writer racing ONE Mutes call on the real silence.Silences +
// silence.Silencer, with real goroutines and real time (no virtual clock, no seam): the store
// holds `npend` pending silences that match the alert, so the incremental query of a Mutes call
// (scan since the cached version + clone of the results) takes milliseconds; a concurrent
// Silences.Set of an ACTIVE silence matching the alert is started while that query runs.  Go's
// RWMutex hands the lock to the waiting writer the moment the reader releases it, so the Set
// lands exactly behind the scan.  Whatever the interleaving, the call AFTER both have returned
// must be exact (AM.Silence.mutesI_next_call_exact): the alert is muted by the new silence.
//
//	race <k> -> <during 0|1> <after 0|1> <active: id=name=value,…> <alert: name=value>
//	quiet <k> -> <after> <active> <alert>           (the same question after expiring the racing silence)
//	limitrace <k> -> <max> <stored afterwards> <creates accepted> <creates refused>
//	mergerace <k> <n> -> <id:upd,state of the raced id as stored afterwards> <stored0 upd> <batch upd> <expire upd>
//
//	twomutes <k> -> <first 0|1> <second 0|1> <after both 0|1> <after the older silence was expired 0|1> <active> <alert>
//
// twomutes: TWO overlapping Mutes calls for the same alert.  The first is parked (through the silencer's logger) at the
// debug line between its store query and its cache write — no lock is held there; meanwhile a second matching silence is
// created and a second call runs to completion; then the first resumes and writes what it computed.  Whatever the
// two leave in the cache, every later call must still be exact (mutesI_next_call_exact): after the older silence has
// been expired the alert is muted by the newer one.
//
//	snaprace <k> <n> -> <seam|timed> <pre> <post> <loaded>     each: <raced silence>,<its replacement>,<active>,<stored>
//
// snaprace: the store holds n active silences; Snapshot races an incompatible edit of one of them (Set with the id and
// other matchers = expire the old silence + create its replacement, one critical section of the store).  The snapshot
// is loaded into a fresh Silences: what a restart finds is the store as it was before the edit (pre) or after it (post),
// never a mixture (AM.CrashFS.snapshot_loads_one_state).  The edit is started either when the snapshot's writer receives
// its first bytes (the writer then gives the edit some time: a slow disk) or after a delay swept over the measured
// duration of a snapshot.
//
// mergerace: the store holds n active silences; a Merge of a full-state batch with a NEWER version of every one
// of them (milliseconds of work) races an API Expire of one of them.  Whatever the interleaving, the id ends up
// with the newest of the three versions (the expiry): merging never replaces a newer version by an older one.
package mutesrace

import (
	"bytes"
	"context"
	"fmt"
	"io"
	"log/slog"
	"os"
	"math/rand/v2"
	"sort"
	"strconv"
	"strings"
	"sync"
	"sync/atomic"
	"testing"
	"time"

	"github.com/prometheus/client_golang/prometheus"
	"github.com/prometheus/common/model"
	"google.golang.org/protobuf/encoding/protodelim"
	"google.golang.org/protobuf/types/known/timestamppb"

	"github.com/prometheus/alertmanager/eventrecorder"
	"github.com/prometheus/alertmanager/silence"
	pb "github.com/prometheus/alertmanager/silence/silencepb"

	"verif/harness/hx"
)

type world struct {
	s     *silence.Silences
	sl    *silence.Silencer
	alert model.LabelSet
	alias map[string]string
	cur   string // id of the racing silence of the last round
}

func (w *world) name(id string) string {
	if a, ok := w.alias[id]; ok {
		return a
	}
	a := fmt.Sprintf("s%d", len(w.alias))
	w.alias[id] = a
	return a
}

func (w *world) mkSil(start, end time.Time, val string) *pb.Silence {
	return &pb.Silence{
		Matchers: []*pb.Matcher{{Type: pb.Matcher_EQUAL, Name: "job", Pattern: val}},
		StartsAt: timestamppb.New(start), EndsAt: timestamppb.New(end), CreatedBy: "verif", Comment: "c",
	}
}

func (w *world) active() string {
	sils, _, err := w.s.Query(context.Background(), silence.QState(silence.SilenceStateActive))
	if err != nil {
		panic(err)
	}
	var parts []string
	for _, s := range sils {
		ms := s.Matchers
		if len(s.MatcherSets) > 0 {
			ms = s.MatcherSets[0].Matchers
		}
		for _, m := range ms {
			parts = append(parts, fmt.Sprintf("%s=%s=%s", w.name(s.Id), m.Name, m.Pattern))
		}
	}
	sort.Strings(parts)
	return hx.Join(parts, ",")
}

func (w *world) report(pre string) string {
	after := w.sl.Mutes(context.Background(), w.alert)
	return fmt.Sprintf("%s%d %s job=%s", pre, b2i(after), w.active(), string(w.alert["job"]))
}

func b2i(b bool) int {
	if b {
		return 1
	}
	return 0
}

// mergeRaceOnce: one Merge (full state, every silence edited) racing one Expire that starts `delay` after it.
func (w *world) mergeRaceOnce(k, n int, delay time.Duration, took *time.Duration) string {
	ctx := context.Background()
	// a fresh store per round: n active silences
	st, err := silence.New(silence.Options{Retention: time.Hour, Metrics: prometheus.NewRegistry()})
	if err != nil {
		panic(err)
	}
	now := time.Now()
	ids := make([]string, n)
	for i := 0; i < n; i++ {
		p := w.mkSil(now, now.Add(time.Hour), fmt.Sprintf("m%d", i))
		if err := st.Set(ctx, p); err != nil {
			panic(err)
		}
		ids[i] = p.Id
	}
	// the batch: the full state as another instance would send it, every silence edited (newer update time, new comment)
	b, err := st.MarshalBinary()
	if err != nil {
		panic(err)
	}
	var buf bytes.Buffer
	br := bytes.NewReader(b)
	victim := ids[(k*7)%n]
	var stored0, batchUpd int64
	for br.Len() > 0 {
		var m pb.MeshSilence
		if err := protodelim.UnmarshalFrom(br, &m); err != nil {
			panic(err)
		}
		if m.Silence.Id == victim {
			stored0 = m.Silence.UpdatedAt.AsTime().UnixNano()
		}
		m.Silence.UpdatedAt = timestamppb.New(m.Silence.UpdatedAt.AsTime().Add(time.Microsecond))
		m.Silence.Comment = "edited elsewhere"
		if m.Silence.Id == victim {
			batchUpd = m.Silence.UpdatedAt.AsTime().UnixNano()
		}
		if _, err := protodelim.MarshalTo(&buf, &m); err != nil {
			panic(err)
		}
	}
	var wg sync.WaitGroup
	started := make(chan struct{})
	wg.Add(2)
	go func() {
		defer wg.Done()
		close(started)
		t0 := time.Now()
		if err := st.Merge(buf.Bytes()); err != nil {
			panic(err)
		}
		*took = time.Since(t0)
	}()
	go func() {
		defer wg.Done()
		<-started
		if delay > 0 {
			time.Sleep(delay)
		}
		if err := st.Expire(ctx, victim); err != nil {
			panic(err)
		}
	}()
	wg.Wait()
	sils, _, err := st.Query(ctx, silence.QIDs(victim))
	if err != nil || len(sils) != 1 {
		return "missing 0 0 0"
	}
	v := sils[0]
	state := "active"
	if !v.EndsAt.AsTime().After(time.Now()) {
		state = "expired"
	}
	// the expiry's update time: Expire stamps the wall clock, later than both other versions
	expUpd := v.UpdatedAt.AsTime().UnixNano()
	if state != "expired" {
		expUpd = time.Now().UnixNano()
	}
	return fmt.Sprintf("%d,%s %d %d %d", v.UpdatedAt.AsTime().UnixNano()-stored0, state, 0, batchUpd-stored0, expUpd-stored0)
}

// slowWriter is the snapshot's destination in seam mode: when the first bytes arrive it lets the edit start and
// waits (bounded) for it to finish, like a disk that stalls.  A snapshot that holds the store lock while it writes
// makes the edit wait instead; the writer then simply goes on after the bound.
type slowWriter struct {
	buf   bytes.Buffer
	first chan struct{}
	done  chan struct{}
	once  sync.Once
}

func (sw *slowWriter) Write(p []byte) (int, error) {
	sw.once.Do(func() {
		close(sw.first)
		select {
		case <-sw.done:
		case <-time.After(30 * time.Millisecond):
		}
	})
	return sw.buf.Write(p)
}

func silState(s *pb.Silence, ts time.Time) string {
	switch {
	case ts.Before(s.StartsAt.AsTime()):
		return "pending"
	case ts.After(s.EndsAt.AsTime()):
		return "expired"
	}
	return "active"
}

// snapDigest: <state of old>,<state of new>,<active>,<stored> of a store at ts
func snapDigest(st *silence.Silences, oldID, newID string, ts time.Time) string {
	all, _, err := st.Query(context.Background())
	if err != nil {
		panic(err)
	}
	o, n, act := "missing", "missing", 0
	for _, s := range all {
		x := silState(s, ts)
		if x == "active" {
			act++
		}
		if s.Id == oldID {
			o = x
		}
		if newID != "" && s.Id == newID {
			n = x
		}
	}
	return fmt.Sprintf("%s,%s,%d,%d", o, n, act, len(all))
}

// snapRaceOnce: one Snapshot racing one incompatible edit of `victim`.
func (w *world) snapRaceOnce(st *silence.Silences, victim string, tag int, seam bool, delay time.Duration) (pre, post, loaded string) {
	ctx := context.Background()
	pre = snapDigest(st, victim, "", time.Now())
	now := time.Now()
	repl := w.mkSil(now, now.Add(time.Hour), fmt.Sprintf("edited%d", tag))
	repl.Id = victim
	sw := &slowWriter{first: make(chan struct{}), done: make(chan struct{})}
	var plain bytes.Buffer
	started := make(chan struct{})
	var wg sync.WaitGroup
	wg.Add(2)
	go func() {
		defer wg.Done()
		close(started)
		var dst io.Writer = &plain
		if seam {
			dst = sw
		}
		if _, err := st.Snapshot(dst); err != nil {
			panic(err)
		}
	}()
	go func() {
		defer wg.Done()
		defer close(sw.done)
		<-started
		if seam {
			select {
			case <-sw.first:
			case <-time.After(2 * time.Second): // an empty snapshot writes nothing
			}
		} else if delay > 0 {
			time.Sleep(delay)
		}
		if err := st.Set(ctx, repl); err != nil {
			panic(err)
		}
	}()
	wg.Wait()
	time.Sleep(time.Millisecond)
	ts := time.Now()
	post = snapDigest(st, victim, repl.Id, ts)
	b := plain.Bytes()
	if seam {
		b = sw.buf.Bytes()
	}
	st2, err := silence.New(silence.Options{Retention: time.Hour, Metrics: prometheus.NewRegistry(), SnapshotReader: bytes.NewReader(b)})
	if err != nil {
		return pre, post, "unloadable,-,0,0"
	}
	return pre, post, snapDigest(st2, victim, repl.Id, ts)
}

// parkHandler parks the goroutine that emits the silencer's "determined current silences state" debug line while armed.
type parkHandler struct {
	armed   atomic.Bool
	parked  chan struct{}
	release chan struct{}
}

func (h *parkHandler) Enabled(context.Context, slog.Level) bool { return true }
func (h *parkHandler) Handle(_ context.Context, r slog.Record) error {
	if strings.Contains(r.Message, "determined current silences state") && h.armed.CompareAndSwap(true, false) {
		close(h.parked)
		<-h.release
	}
	return nil
}
func (h *parkHandler) WithAttrs([]slog.Attr) slog.Handler { return h }
func (h *parkHandler) WithGroup(string) slog.Handler      { return h }

func (w *world) twoMutes(k int) string {
	ctx := context.Background()
	st, err := silence.New(silence.Options{Retention: time.Hour, Metrics: prometheus.NewRegistry()})
	if err != nil {
		panic(err)
	}
	h := &parkHandler{parked: make(chan struct{}), release: make(chan struct{})}
	sl := silence.NewSilencer(st, slog.New(h), eventrecorder.NopRecorder())
	now := time.Now()
	job := string(w.alert["job"])
	s1 := w.mkSil(now, now.Add(time.Hour), job)
	if err := st.Set(ctx, s1); err != nil {
		panic(err)
	}
	// k%3 = 1, 2: other silences stored before / between, so that the raced silence is not the only or last one indexed
	if k%3 == 1 {
		if err := st.Set(ctx, w.mkSil(now, now.Add(time.Hour), "other")); err != nil {
			panic(err)
		}
	}
	if k%2 == 1 {
		sl.Mutes(ctx, w.alert) // a cache entry exists already: the raced calls are incremental
	}
	var first bool
	done := make(chan struct{})
	h.armed.Store(true)
	go func() {
		defer close(done)
		first = sl.Mutes(ctx, w.alert)
	}()
	select {
	case <-h.parked:
	case <-done: // the line was not reached (no debug line on this path): nothing is interleaved
	case <-time.After(5 * time.Second):
		panic("twomutes: first call neither parked nor returned")
	}
	s2 := w.mkSil(now, now.Add(time.Hour), job)
	s2.Comment = "second"
	if err := st.Set(ctx, s2); err != nil {
		panic(err)
	}
	if k%3 == 2 {
		if err := st.Set(ctx, w.mkSil(now, now.Add(time.Hour), "other")); err != nil {
			panic(err)
		}
	}
	second := sl.Mutes(ctx, w.alert)
	close(h.release)
	<-done
	both := sl.Mutes(ctx, w.alert)
	if err := st.Expire(ctx, s1.Id); err != nil {
		panic(err)
	}
	time.Sleep(2 * time.Millisecond) // the expiry takes effect at its own instant
	after := sl.Mutes(ctx, w.alert)
	ws := &world{s: st, alias: map[string]string{}}
	return fmt.Sprintf("%d %d %d %d %s job=%s", b2i(first), b2i(second), b2i(both), b2i(after), ws.active(), job)
}

func (w *world) exec(line string) string {
	t := strings.Fields(line)
	switch t[0] {
	case "twomutes":
		k, _ := strconv.Atoi(t[1])
		return w.twoMutes(k)
	case "race":
		k, _ := strconv.Atoi(t[1])
		// make the alert's cache entry stale first (a Set + Expire of an unrelated silence), so that the
		// raced call does the incremental since-query over all pending silences
		now := time.Now()
		u := w.mkSil(now, now.Add(time.Hour), "other")
		if err := w.s.Set(context.Background(), u); err != nil {
			panic(err)
		}
		if err := w.s.Expire(context.Background(), u.Id); err != nil {
			panic(err)
		}
		n := w.mkSil(now, now.Add(time.Hour), string(w.alert["job"]))
		var wg sync.WaitGroup
		var during bool
		started := make(chan struct{})
		wg.Add(2)
		go func() {
			defer wg.Done()
			close(started)
			during = w.sl.Mutes(context.Background(), w.alert)
		}()
		go func() {
			defer wg.Done()
			<-started
			// spread the writer's arrival over the reader's scan
			if d := time.Duration(k%4) * 40 * time.Microsecond; d > 0 {
				time.Sleep(d)
			}
			if err := w.s.Set(context.Background(), n); err != nil {
				panic(err)
			}
		}()
		wg.Wait()
		w.cur = n.Id
		return w.report(fmt.Sprintf("%d ", b2i(during)))
	case "mergerace":
		k, _ := strconv.Atoi(t[1])
		n, _ := strconv.Atoi(t[2])
		// the Expire has to arrive while Merge is at work: sweep its start over the measured duration of a Merge
		var took time.Duration
		out := w.mergeRaceOnce(k, n, 0, &took)
		for j := 1; j <= 16 && strings.Contains(out, ",expired "); j++ {
			var t2 time.Duration
			out = w.mergeRaceOnce(k+j, n, took*time.Duration(j)/16, &t2)
		}
		return out
	case "snaprace":
		k, _ := strconv.Atoi(t[1])
		n, _ := strconv.Atoi(t[2])
		ctx := context.Background()
		st, err := silence.New(silence.Options{Retention: time.Hour, Metrics: prometheus.NewRegistry()})
		if err != nil {
			panic(err)
		}
		now := time.Now()
		ids := make([]string, n)
		for i := 0; i < n; i++ {
			p := w.mkSil(now, now.Add(time.Hour), fmt.Sprintf("m%d", i))
			if err := st.Set(ctx, p); err != nil {
				panic(err)
			}
			ids[i] = p.Id
		}
		t0 := time.Now()
		if _, err := st.Snapshot(io.Discard); err != nil {
			panic(err)
		}
		took := time.Since(t0)
		// attempt 0: the edit starts when the writer has the first bytes; then its start is swept over the first
		// half of the measured duration of a snapshot (the earlier it lands, the more entries are read after it)
		mode, pre, post, loaded := "seam", "", "", ""
		for j := 0; j <= 3; j++ {
			if j > 0 {
				mode = "timed"
			}
			pre, post, loaded = w.snapRaceOnce(st, ids[(k*7+j)%n], j, j == 0, took*time.Duration(j)/8)
			if loaded != pre && loaded != post {
				break
			}
		}
		return fmt.Sprintf("%s %s %s %s", mode, pre, post, loaded)
	case "limitrace":
		// MaxSilences = m, m-1 stored, three concurrent creates: exactly one fits.  The limit callback sleeps, so a check
		// that is not atomic with the insert would let all three pass it.
		k, _ := strconv.Atoi(t[1])
		m := 2 + k%3
		ctx := context.Background()
		opts := silence.Options{Retention: time.Hour, Metrics: prometheus.NewRegistry()}
		opts.Limits.MaxSilences = func() int {
			time.Sleep(2 * time.Millisecond)
			return m
		}
		st, err := silence.New(opts)
		if err != nil {
			panic(err)
		}
		now := time.Now()
		for i := 0; i < m-1; i++ {
			if err := st.Set(ctx, w.mkSil(now, now.Add(time.Hour), fmt.Sprintf("f%d", i))); err != nil {
				panic(err)
			}
		}
		var wg sync.WaitGroup
		var okN, errN atomic.Int32
		for i := 0; i < 3; i++ {
			wg.Add(1)
			go func() {
				defer wg.Done()
				if err := st.Set(ctx, w.mkSil(now, now.Add(time.Hour), fmt.Sprintf("c%d", i))); err != nil {
					errN.Add(1)
				} else {
					okN.Add(1)
				}
			}()
		}
		wg.Wait()
		all, _, err := st.Query(ctx)
		if err != nil {
			panic(err)
		}
		return fmt.Sprintf("%d %d %d %d", m, len(all), okN.Load(), errN.Load())
	case "quiet":
		if w.cur != "" {
			if err := w.s.Expire(context.Background(), w.cur); err != nil {
				panic(err)
			}
			w.cur = ""
		}
		return w.report("")
	}
	panic("bad op " + line)
}

// onlyOps restricts generated cases to one kind of op (see lib/props/C11.py).
var onlyOps = os.Getenv("VERIF_MUTESRACE_OPS")

func runCase(tr *hx.Trace, id int, r *rand.Rand, script []string) {
	var header string
	npend := 0
	if script != nil {
		header = script[0]
		for _, f := range strings.Fields(header) {
			if v, ok := strings.CutPrefix(f, "npend="); ok {
				npend, _ = strconv.Atoi(v)
			}
		}
	} else if onlyOps != "" {
		// a property that borrows single ops of this engine (VERIF_MUTESRACE_OPS=snaprace for C11)
		header = fmt.Sprintf("case %d npend=0 ops=%s", id, onlyOps)
	} else {
		npend = []int{200, 1000, 3000}[r.IntN(3)]
		header = fmt.Sprintf("case %d npend=%d", id, npend)
	}
	tr.Linef("%s", header)
	s, err := silence.New(silence.Options{Retention: time.Hour, Metrics: prometheus.NewRegistry()})
	if err != nil {
		panic(err)
	}
	w := &world{s: s, alias: map[string]string{}, alert: model.LabelSet{"job": model.LabelValue(fmt.Sprintf("j%d", id))}}
	w.sl = silence.NewSilencer(s, slog.New(slog.DiscardHandler), eventrecorder.NopRecorder())
	now := time.Now()
	for i := 0; i < npend; i++ {
		p := w.mkSil(now.Add(time.Hour), now.Add(2*time.Hour), string(w.alert["job"]))
		if err := s.Set(context.Background(), p); err != nil {
			panic(err)
		}
	}
	do := func(line string) { tr.Linef("%s -> %s", line, w.exec(line)) }
	if script != nil {
		for _, l := range script[1:] {
			do(l)
		}
		return
	}
	if onlyOps == "snaprace" {
		for k := 0; k < 3; k++ {
			do(fmt.Sprintf("snaprace %d %d", k+id, []int{300, 1500}[r.IntN(2)]))
		}
		return
	}
	rounds := 4 + r.IntN(8)
	for k := 0; k < rounds; k++ {
		do(fmt.Sprintf("race %d", k))
		do(fmt.Sprintf("quiet %d", k))
	}
	for k := 0; k < 6; k++ {
		do(fmt.Sprintf("twomutes %d", k+id))
	}
	do(fmt.Sprintf("limitrace %d", id))
	for k := 0; k < 3; k++ {
		do(fmt.Sprintf("mergerace %d %d", k+id, []int{300, 1500}[r.IntN(2)]))
	}
	if id%2 == 0 {
		do(fmt.Sprintf("snaprace %d %d", id, []int{300, 1500}[r.IntN(2)]))
	}
}

func TestEngine(t *testing.T) {
	tr := hx.Open()
	defer tr.Close()
	if s := hx.Script(); s != nil {
		var cur []string
		n := 0
		flush := func() {
			if cur != nil {
				runCase(tr, n, nil, cur)
				n++
			}
		}
		for _, l := range s {
			if strings.HasPrefix(l, "case ") {
				flush()
				cur = []string{l}
			} else if cur != nil {
				cur = append(cur, l)
			}
		}
		flush()
		return
	}
	r := hx.Rand(29)
	for id := range hx.Cases(30, 600) {
		runCase(tr, id, r, nil)
	}
}
