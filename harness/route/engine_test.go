// Engine `route` (C07): random and exhaustive routing trees × label sets through
// the real path config.Load(yaml) → dispatch.NewRoute → Route.Match; writes the
// trace the Lean driver replays on AM.Route.
package route

import (
	"fmt"
	"go/ast"
	"go/parser"
	"go/token"
	"go/types"
	"math/rand/v2"
	"os"
	"os/exec"
	"path/filepath"
	"sort"
	"strings"
	"sync"
	"testing"

	"github.com/prometheus/common/model"

	"github.com/prometheus/alertmanager/pkg/labels"

	"verif/harness/hx"
	"verif/harness/rtx"
)

// world is the state of one case while its script runs.
type world struct {
	nodes []*rtx.Node
	tree  *rtx.Tree
	err   error
}

func (w *world) build() {
	w.tree, w.err = nil, nil
	root := rtx.Assemble(w.nodes)
	if root == nil {
		w.err = fmt.Errorf("no root")
		return
	}
	w.tree, w.err = rtx.Load(root)
}

// oracle evaluates a regex matcher the way NewMatcher anchors it, on a fresh matcher object.
func oracle(pat, val string) string {
	m, err := labels.NewMatcher(labels.MatchRegexp, "x", pat)
	if err != nil {
		return "e"
	}
	if m.Matches(val) {
		return "1"
	}
	return "0"
}

func (w *world) exec(line string) string {
	t := strings.Fields(line)
	switch t[0] {
	case "node":
		w.nodes = append(w.nodes, rtx.ParseNode(line))
		w.tree = nil
		return ""
	case "build":
		w.build()
		if w.err != nil {
			return "error " + hx.Hex(w.err.Error())
		}
		return w.tree.BuildObs()
	case "match":
		if w.tree == nil && w.err == nil {
			w.build()
		}
		if w.err != nil {
			return "error " + hx.Hex(w.err.Error())
		}
		ls := rtx.ParseLabelSet(t[1])
		var ids []string
		for _, r := range w.tree.Root.Match(ls) {
			ids = append(ids, w.tree.IDOf[r])
		}
		var verdicts []string
		seen := map[string]bool{}
		var orc []string
		for _, id := range w.tree.Order {
			r := w.tree.ByID[id]
			v := "0"
			if r.Matchers.Matches(ls) {
				v = "1"
			}
			verdicts = append(verdicts, id+":"+v)
			for _, m := range r.Matchers {
				if m.Type == labels.MatchRegexp || m.Type == labels.MatchNotRegexp {
					val := string(ls[model.LabelName(m.Name)])
					k := hx.Hex(m.Value) + ":" + hx.Hex(val)
					if !seen[k] {
						seen[k] = true
						orc = append(orc, k+":"+oracle(m.Value, val))
					}
				}
			}
		}
		sort.Strings(orc)
		return hx.Join(ids, ",") + " " + hx.Join(verdicts, ",") + " " + hx.Join(orc, ",")
	case "amtool":
		// the real `amtool config routes test` binary (built from the tree under check) on the configuration of this case
		if w.tree == nil && w.err == nil {
			w.build()
		}
		if w.err != nil {
			return "error " + hx.Hex(w.err.Error())
		}
		ls := rtx.ParseLabelSet(t[1])
		var want []string
		for _, r := range w.tree.Root.Match(ls) {
			want = append(want, r.RouteOpts.Receiver)
		}
		return amtoolRoutes(rtx.Config(rtx.Assemble(w.nodes)), ls) + " " + hx.Join(want, ",")
	case "fact":
		return facts(t[1])
	case "begin": // no-op first line of a case (keeps the minimiser's last candidate a failing one)
		return ""
	}
	panic("bad op " + line)
}

func runScript(tr *hx.Trace, lines []string) {
	w := &world{}
	tr.Linef("%s", lines[0])
	for _, l := range lines[1:] {
		obs := w.exec(l)
		if obs == "" {
			tr.Linef("%s", l)
		} else {
			tr.Linef("%s -> %s", l, obs)
		}
	}
}

func caseLines(id string, root *rtx.Node, lsets []model.LabelSet) []string {
	lines := []string{fmt.Sprintf("case %s recv=%s", id, strings.Join(rtx.Receivers, ".")), "begin"}
	root.Walk(func(n *rtx.Node) { lines = append(lines, n.Line()) })
	lines = append(lines, "build")
	for _, ls := range lsets {
		lines = append(lines, "match "+rtx.LabelSetTok(ls))
	}
	return lines
}

// ---- exhaustive stream (thorough): all trees ≤ 5 nodes over a 2-label alphabet ----

// shapes enumerates ordered rooted trees with n nodes as parent vectors (pre-order).
func shapes(n int) [][]int {
	var out [][]int
	var rec func(par []int, path []int)
	rec = func(par []int, path []int) {
		if len(par) == n {
			out = append(out, append([]int(nil), par...))
			return
		}
		// the next pre-order node may hang under any node on the current right-most path
		for i := len(path) - 1; i >= 0; i-- {
			rec(append(par, path[i]), append(append([]int(nil), path[:i+1]...), len(par)))
		}
	}
	rec([]int{-1}, []int{0})
	return out
}

var exMatchers = []rtx.M{{Op: "eq", Name: "a", Value: "x"}, {Op: "ne", Name: "a", Value: "x"}, {Op: "re", Name: "b", Value: "x|y"}, {Op: "nre", Name: "b", Value: "x"}}

func exhaustive(tr *hx.Trace) {
	var lsets []model.LabelSet
	for _, a := range []string{"", "x", "y"} {
		for _, b := range []string{"", "x", "z"} {
			ls := model.LabelSet{}
			if a != "" {
				ls["a"] = model.LabelValue(a)
			}
			if b != "" {
				ls["b"] = model.LabelValue(b)
			}
			lsets = append(lsets, ls)
		}
	}
	id := 0
	for n := 1; n <= 5; n++ {
		for _, par := range shapes(n) {
			k := n - 1
			total := 1
			for range k {
				total *= 8 // 4 matchers × continue
			}
			for code := range total {
				nodes := make([]*rtx.Node, n)
				nodes[0] = &rtx.Node{ID: "r", Recv: "r0", GB: "n", GW: "-", GI: "-", RI: "-"}
				c := code
				for i := 1; i < n; i++ {
					p := nodes[par[i]]
					nd := &rtx.Node{ID: fmt.Sprintf("%s.%d", p.ID, len(p.Kids)), Parent: p.ID, GB: "n", GW: "-", GI: "-", RI: "-",
						Cont: c%2 == 1, Matchers: []rtx.M{exMatchers[(c/2)%4]}}
					c /= 8
					p.Kids = append(p.Kids, nd)
					nodes[i] = nd
				}
				runScript(tr, caseLines(fmt.Sprintf("x%d", id), nodes[0], lsets))
				id++
			}
		}
	}
}

// ---- amtool: the real binary ----

var (
	amtoolOnce sync.Once
	amtoolBin  string
	amtoolErr  string
)

func amtoolRoutes(cfgYAML string, ls model.LabelSet) string {
	amtoolOnce.Do(func() {
		dir, err := os.MkdirTemp("", "verif-amtool-")
		if err != nil {
			amtoolErr = "tmp"
			return
		}
		gobin := os.Getenv("VERIF_GO")
		if gobin == "" {
			gobin = "go"
		}
		bin := filepath.Join(dir, "amtool")
		cmd := exec.Command(gobin, "build", "-o", bin, "./cmd/amtool")
		cmd.Dir = repoDir()
		cmd.Env = append(os.Environ(), "GOFLAGS=-mod=mod", "GOPROXY=off")
		if out, err := cmd.CombinedOutput(); err != nil {
			amtoolErr = "build:" + hx.Hex(string(out))
			return
		}
		amtoolBin = bin
	})
	if amtoolBin == "" {
		return "E" + amtoolErr
	}
	f, err := os.CreateTemp("", "verif-amtool-cfg-*.yml")
	if err != nil {
		return "Etmp"
	}
	defer os.Remove(f.Name())
	f.WriteString(cfgYAML)
	f.Close()
	args := []string{"config", "routes", "test", "--config.file=" + f.Name()}
	var names []string
	for n := range ls {
		names = append(names, string(n))
	}
	sort.Strings(names)
	for _, n := range names {
		args = append(args, fmt.Sprintf("%s=%q", n, string(ls[model.LabelName(n)])))
	}
	out, err := exec.Command(amtoolBin, args...).Output()
	if err != nil {
		return "Erun"
	}
	return hx.Join(strings.Split(strings.TrimSpace(string(out)), ","), ",")
}

// ---- three consumers: the call sites that make API, amtool and dispatcher agree ----

func repoDir() string {
	if d := os.Getenv("VERIF_REPO"); d != "" {
		return d
	}
	return "/repo"
}

// callsIn lists the call expressions (printed) inside function `fn` of file `rel`.
func callsIn(rel, fn string) []string {
	fset := token.NewFileSet()
	f, err := parser.ParseFile(fset, filepath.Join(repoDir(), rel), nil, 0)
	if err != nil {
		return nil
	}
	var out []string
	for _, d := range f.Decls {
		fd, ok := d.(*ast.FuncDecl)
		if !ok || fd.Name.Name != fn || fd.Body == nil {
			continue
		}
		ast.Inspect(fd.Body, func(n ast.Node) bool {
			switch x := n.(type) {
			case *ast.CallExpr:
				out = append(out, types.ExprString(x))
			case *ast.AssignStmt:
				for i := range x.Lhs {
					if i < len(x.Rhs) {
						out = append(out, types.ExprString(x.Lhs[i])+" = "+types.ExprString(x.Rhs[i]))
					}
				}
			case *ast.RangeStmt:
				out = append(out, "range "+types.ExprString(x.X))
			}
			return true
		})
	}
	return out
}

func has(l []string, want string) bool {
	for _, s := range l {
		if s == want {
			return true
		}
	}
	return false
}

func hasPrefix(l []string, want string) bool {
	for _, s := range l {
		if strings.HasPrefix(s, want) {
			return true
		}
	}
	return false
}

// facts checks one consumer's call sites: the route tree is dispatch.NewRoute(cfg.Route, nil)
// and the routes of an alert are tree.Match(labels), receivers read from RouteOpts.Receiver.
func facts(which string) string {
	ok := false
	switch which {
	case "api":
		u := callsIn("api/v2/api.go", "Update")
		g := callsIn("api/v2/api.go", "getAlertsHandler")
		ok = has(u, "api.route = dispatch.NewRoute(cfg.Route, nil)") &&
			has(g, "routes = api.route.Match(alert.Labels)") && has(g, "range routes") &&
			has(g, "receivers = append(receivers, r.RouteOpts.Receiver)")
	case "amtool":
		a := callsIn("cli/test_routing.go", "routingTestAction")
		r := callsIn("cli/test_routing.go", "resolveAlertReceivers")
		ok = has(a, "mainRoute = dispatch.NewRoute(cfg.Route, nil)") && hasPrefix(a, "receivers = resolveAlertReceivers(mainRoute, ") &&
			has(r, "finalRoutes = mainRoute.Match(convertClientToCommonLabelSet(*labels))") && has(r, "range finalRoutes") &&
			has(r, "receivers = append(receivers, r.RouteOpts.Receiver)")
	case "dispatcher":
		rl := callsIn("app/reloader.go", "reload")
		ra := callsIn("dispatch/dispatch.go", "routeAlert")
		nd := callsIn("dispatch/dispatch.go", "NewDispatcher")
		gr := callsIn("dispatch/dispatch.go", "Groups")
		ok = has(rl, "routes = dispatch.NewRoute(conf.Route, nil)") && has(ra, "range d.route.Match(alert.Labels)") &&
			has(ra, "d.groupAlert(ctx, alert, r)") && hasPrefix(nd, "disp = &Dispatcher{") &&
			has(gr, "receiver = d.routeGroupsSlice[i].route.RouteOpts.Receiver")
		// the reloader hands exactly that tree to the dispatcher
		found := false
		for _, c := range rl {
			if strings.HasPrefix(c, "dispatch.NewDispatcher(") && strings.Contains(c, ", routes, ") {
				found = true
			}
		}
		ok = ok && found
	}
	if ok {
		return "ok"
	}
	return "changed"
}

func TestEngine(t *testing.T) {
	tr := hx.Open()
	defer tr.Close()
	defer func() {
		if amtoolBin != "" {
			os.RemoveAll(filepath.Dir(amtoolBin))
		}
	}()
	if s := hx.Script(); s != nil {
		var cur []string
		flush := func() {
			if cur != nil {
				runScript(tr, cur)
			}
		}
		for _, l := range s {
			if strings.HasPrefix(l, "case ") {
				flush()
				cur = []string{l}
			} else if cur != nil {
				cur = append(cur, l)
			}
		}
		flush()
		return
	}
	runScript(tr, []string{"case facts", "begin", "fact api", "fact amtool", "fact dispatcher"})
	r := hx.Rand(7)
	g := rtx.GenOpts{MaxDepth: 4, MaxFan: 4, MaxNodes: 14, Names: rtx.LabelNames, Timers: true}
	for id := range hx.Cases(6000, 60000) {
		root := rtx.GenTree(r, g)
		n := 4 + r.IntN(5)
		lsets := make([]model.LabelSet, n)
		for i := range lsets {
			lsets[i] = rtx.GenLabelSet(r, rtx.LabelNames)
		}
		lines := caseLines(fmt.Sprint(id), root, lsets)
		if id%40 == 0 {
			lines = append(lines, "amtool "+rtx.LabelSetTok(lsets[0]))
		}
		runScript(tr, lines)
	}
	if hx.Thorough() && os.Getenv("VERIF_CASES") == "" {
		exhaustive(tr)
	}
}

var _ = rand.Int
