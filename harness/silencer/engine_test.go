// Engine `silencer` (C02): one real silence.Silences + silence.Silencer under
// virtual time.  Histories mix Set / edit (compatible, and every minimal
// variation of the matcher sets) / Expire / Merge (late, duplicated,
// out-of-order versions, revivals of expired silences) / GC / alert GC (PostGC)
// / snapshot reload; after every operation Mutes is asked for (most of) a
// panel of label sets — so that cache entries of different ages coexist — and
// the state is dumped.  Some Mutes calls are *interleaved*: store operations
// run between the steps of one call (silx.WithInjection).
package silencer

import (
	"fmt"
	"math/rand/v2"
	"strings"
	"testing"
	"testing/synctest"
	"time"

	"verif/harness/hx"
	"verif/harness/silx"
)

const grid = silx.Grid

type gen struct {
	r      *rand.Rand
	w      *silx.World
	now    int64
	ret    int64
	pool   []silx.Mesh
	ids    []string
	setsOf map[string][][]silx.Matcher
	nm     int
	panel  []string
}

func (g *gen) learn(l []silx.Mesh) {
	for _, m := range l {
		if _, ok := g.setsOf[m.ID]; !ok {
			g.setsOf[m.ID] = m.Sets
			g.ids = append(g.ids, m.ID)
		}
		g.pool = append(g.pool, m)
	}
}

func (g *gen) learnBC(tok string) {
	for _, msg := range hx.Split(tok, "/") {
		g.learn(silx.ParseMeshes(msg))
	}
}

// the panel grows (up to a cap) by label sets on both sides of what was generated
func (g *gen) addPanel(lss []map[string]string, n int) {
	for _, ls := range lss {
		if n == 0 || len(g.panel) >= 18 {
			return
		}
		tok := "L" + silx.LsStr(ls)
		dup := false
		for _, p := range g.panel {
			dup = dup || p == tok
		}
		if !dup {
			g.panel = append(g.panel, tok)
			n--
		}
	}
}

func (g *gen) stored() []silx.Mesh { return g.w.State(0) }

// a version for delivery through Merge
func (g *gen) version() silx.Mesh {
	r := g.r
	st := g.stored()
	switch x := r.IntN(10); {
	case x < 3 && len(st) > 0:
		// revival / extension / remote expiry of something stored
		m := hx.Pick(r, st)
		m.Updated = max(m.Updated+int64(r.IntN(2))*grid, g.now-int64(r.IntN(2))*grid)
		switch r.IntN(3) {
		case 0:
			m.End = g.now + int64(1+r.IntN(4))*grid // unexpired again
		case 1:
			m.End = g.now - int64(r.IntN(2))*grid // remote expiry
		default:
			m.Start = g.now + grid // pending again
			m.End = m.Start + int64(r.IntN(3))*grid
		}
		if m.End < m.Start {
			m.Start = m.End
		}
		m.Exp = m.End + g.ret
		m.Comment = silx.Comment(r)
		return m
	case x < 6 && len(g.pool) > 0:
		return hx.Pick(r, g.pool) // late / duplicated / out-of-order
	default:
		var id string
		if len(g.ids) > 0 && r.IntN(2) == 0 {
			id = hx.Pick(r, g.ids)
		} else if g.nm < 3 {
			g.nm++
			id = fmt.Sprintf("m%d", g.nm)
		} else {
			id = fmt.Sprintf("m%d", 1+r.IntN(3))
		}
		sets, ok := g.setsOf[id]
		if !ok {
			sets = hx.Pick(r, silx.Catalog)
		}
		m := silx.Mesh{Sil: silx.Sil{ID: id, Sets: sets, Comment: silx.Comment(r)}}
		m.Start = g.now + int64(r.IntN(5)-2)*grid
		m.End = m.Start + int64(r.IntN(5))*grid
		m.Updated = g.now - int64(r.IntN(3))*grid
		if m.Updated < 0 {
			m.Updated = 0
		}
		m.Exp = m.End + g.ret
		if r.IntN(6) == 0 {
			m.Exp = g.now + int64(r.IntN(3)-1)*grid
		}
		return m
	}
}

// catalog entry, preferably one that matches ls (nil: any)
func (g *gen) catalogFor(ls map[string]string) [][]silx.Matcher {
	if ls != nil && g.r.IntN(4) > 0 {
		var ok [][][]silx.Matcher
		for _, c := range silx.Catalog {
			if m, _ := silx.MatchSets(c, ls); m {
				ok = append(ok, c)
			}
		}
		if len(ok) > 0 {
			return hx.Pick(g.r, ok)
		}
	}
	return hx.Pick(g.r, silx.Catalog)
}

// store operations: (line, index of the broadcast field in the observation or -1)

func (g *gen) opCreate(ls map[string]string) (string, int) {
	r := g.r
	start := silx.I64(g.now + int64(r.IntN(4)-1)*grid)
	if r.IntN(4) == 0 {
		start = "-"
	}
	end := silx.I64(g.now + int64(r.IntN(6))*grid)
	sets := g.catalogFor(ls)
	g.addPanel(silx.BothSides(r, sets), 2) // label sets on both sides of one of its matchers
	return silx.SetLine("set", 0, g.now, "-", start, end, silx.Comment(r), sets, false), 2
}

func (g *gen) opEdit() (string, int) {
	r := g.r
	if len(g.ids) == 0 {
		return "", -1
	}
	sid := hx.Pick(r, g.ids)
	sets := g.setsOf[sid]
	switch x := r.IntN(10); {
	case x < 4:
		// minimal variation of the stored matcher sets: never updatable in place
		v, kind := silx.VaryAny(r, sets)
		if kind != "" {
			d := silx.Discriminators(sets, v)
			r.Shuffle(len(d), func(i, j int) { d[i], d[j] = d[j], d[i] })
			g.addPanel(d, 2)
			g.addPanel(silx.BothSides(r, v), 2)
			sets = v
		}
	case x < 5:
		sets = hx.Pick(r, silx.Catalog)
	}
	start := g.now + int64(r.IntN(3)-1)*grid
	for _, m := range g.stored() {
		if m.ID == sid && r.IntN(3) > 0 {
			start = m.Start
		}
	}
	end := g.now + int64(r.IntN(6)-1)*grid
	kind := "set"
	if r.IntN(3) == 0 {
		kind = "setq" // read-modify-write on the object a lookup by id returned
	}
	return silx.SetLine(kind, 0, g.now, sid, silx.I64(start), silx.I64(end), silx.Comment(r), sets, false), 2
}

func (g *gen) opExpire() (string, int) {
	if len(g.ids) == 0 {
		return "", -1
	}
	return fmt.Sprintf("expire 0 %d %s", g.now, hx.Pick(g.r, g.ids)), 1
}

func (g *gen) opMerge() (string, int) {
	n := 1 + g.r.IntN(3)
	var b []silx.Mesh
	for range n {
		m := g.version()
		g.learn([]silx.Mesh{m})
		b = append(b, m)
	}
	ov := "0"
	if len(g.w.Encode(b)) > 700 {
		ov = "1"
	}
	return fmt.Sprintf("merge 0 %d %s %s", g.now, ov, silx.MeshesStr(b)), -1
}

// an interleaved Mutes: 1-2 store operations at q1 / e1 / q2 / e2 / w
func (g *gen) imutesLine(p string) string {
	r := g.r
	ls := map[string]string{}
	for k, v := range silx.ParseLs(strings.TrimPrefix(p, "L")) {
		ls[string(k)] = string(v)
	}
	line := fmt.Sprintf("imutes 0 %d %s", g.now, p)
	n := 1 + r.IntN(2)
	for range n {
		var op string
		switch x := r.IntN(10); {
		case x < 4:
			op, _ = g.opCreate(ls)
		case x < 5:
			op, _ = g.opEdit()
		case x < 7:
			op, _ = g.opExpire()
		case x < 9:
			op, _ = g.opMerge()
		default:
			op = fmt.Sprintf("gc 0 %d", g.now)
		}
		if op == "" {
			op, _ = g.opCreate(ls)
		}
		pt := hx.Pick(r, []string{"q1", "q1", "q1", "q2", "e1", "e2", "w"})
		line += " " + pt + "~" + strings.ReplaceAll(op, " ", "~")
	}
	return line
}

// broadcasts of the operations that ran inside an interleaved Mutes
func (g *gen) learnInjected(obs string) {
	f := strings.Fields(obs)
	for _, tok := range f[min(2, len(f)):] {
		p := strings.Split(tok, "~")
		if len(p) < 3 {
			continue
		}
		switch {
		case len(p) == 6: // pt res id bcs ver dump  (set)
			g.learnBC(p[3])
		case len(p) == 5 && (p[1] == "ok" || p[1] == "notfound"): // pt res bcs ver dump  (expire)
			g.learnBC(p[2])
		}
	}
}

func runCase(t *testing.T, tr *hx.Trace, id int, r *rand.Rand, script []string) {
	synctest.Test(t, func(t *testing.T) {
		var header string
		if script != nil {
			header = script[0]
		} else {
			header = fmt.Sprintf("case %d retention=%d fix=%s", id, int64(r.IntN(5))*grid, silx.FixFlag())
		}
		h := silx.ParseHeader(header)
		retention := silx.HInt(h, "retention", 0)
		w := silx.NewWorld(1, time.Duration(retention), 0, 0)
		tr.Linef("%s", header)
		if script != nil {
			for _, l := range script[1:] {
				tr.Linef("%s -> %s", l, w.Exec(l))
			}
			return
		}
		g := &gen{r: r, w: w, ret: retention, setsOf: map[string][][]silx.Matcher{}, panel: silx.AllPanel()}
		do := func(line string) string {
			obs := w.Exec(line)
			tr.Linef("%s -> %s", line, obs)
			return obs
		}
		local := func(line string, bcField int) {
			if line == "" {
				return
			}
			obs := strings.Fields(do(line))
			if bcField >= 0 && len(obs) > bcField {
				g.learnBC(obs[bcField])
			}
		}
		nops := 8 + r.IntN(14)
		for range nops {
			if r.IntN(4) > 0 {
				g.now += int64(r.IntN(3)) * grid
			}
			switch x := r.IntN(20); {
			case x < 3:
				local(g.opCreate(nil))
			case x < 6:
				local(g.opEdit())
			case x < 8:
				local(g.opExpire())
			case x < 14:
				local(g.opMerge())
			case x < 16:
				do(fmt.Sprintf("gc 0 %d", g.now))
			case x < 18: // alert GC evicts cache entries
				var l []string
				for _, p := range g.panel {
					if r.IntN(3) == 0 {
						l = append(l, p)
					}
				}
				if len(l) == 0 {
					l = []string{hx.Pick(r, g.panel)}
				}
				do(fmt.Sprintf("postgc 0 %s", strings.Join(l, ";")))
			case x < 19:
				do("reload 0")
			default:
				do(fmt.Sprintf("query 0 %d all %s %s", g.now, hx.Pick(r, []string{"-", "a", "ap", "e"}), silx.PanelTok(r)))
			}
			// the mute verdicts, for most of the panel (entries skipped keep an older cache version);
			// now and then with store operations interleaved into the call
			for _, p := range g.panel {
				switch x := r.IntN(12); {
				case x < 4:
				case x < 5:
					g.learnInjected(do(g.imutesLine(p)))
				case x < 6:
					do(fmt.Sprintf("cmutes 0 %d %s", g.now, p))
				default:
					do(fmt.Sprintf("mutes 0 %d %s", g.now, p))
				}
			}
		}
		// every label set once more, so that what an interleaved call left behind is used
		for _, p := range g.panel {
			do(fmt.Sprintf("mutes 0 %d %s", g.now, p))
		}
	})
}

func TestEngine(t *testing.T) {
	silx.EnableInjection()
	tr := hx.Open()
	defer tr.Close()
	if s := hx.Script(); s != nil {
		for k, c := range silx.SplitCases(s) {
			runCase(t, tr, k, nil, c)
		}
		return
	}
	r := hx.Rand(2)
	for id := range hx.Cases(2000, 24000) {
		runCase(t, tr, id, r, nil)
	}
}
