// Engine `matcher` (C16): differential testing of the matcher printer
// (labels.Matcher.String / labels.Matchers.String), the classic parser
// (pkg/labels), the UTF-8 parser (matcher/parse) and the fallback parser
// (matcher/compat), plus Matcher(s).Matches / MatcherSet.Matches. It writes the
// trace that the Lean driver replays on the AM.Model.Matcher* models.
//
// Tokens (space-free):
//
//	string  hx.Hex of the raw bytes ("-" when empty)
//	M       <eq|ne|re|nre>,<nameHex>,<valueHex>
//	ML      M;M;…            ("-" when empty)
//	LS      nameHex=valueHex,…  ("-" when empty)
//	RES     K<M> | K<ML> | E | R (regexp compile error) | P (panic) | T (timeout)
//
// Op lines:
//
//	rt <M> -> <printedHex> <C1> <U1> <F1>          | badmatcher
//	rtl <ML> -> <printedHex> <CL> <UL> <FL>        | badmatcher
//	parse <inputHex> -> <C1> <U1> <F1> <CL> <UL> <FL>
//	match <ML> <LS> -> <overall> <bits> <anch> <search>
//	mset <ML>|<ML>|… <LS> -> <0|1> <anch>|<anch>|…
//	apimatch <ML> <LS> -> <0|1|E|S> <anch>          GET /api/v2/alerts?filter=<printed matcher>&… on the real API handler with one
//	                                                alert carrying LS (empty-valued labels left out): is it listed?  E = the API
//	                                                refused the filter, S = not applicable (no non-empty label / invalid UTF-8)
//
// Regexp oracle.  `anch` has one character per matcher of the list: 'x' for = / !=,
// otherwise what Go's regexp package says about "the pattern matches the WHOLE
//	apisil <ML> <LS> -> <0|1|S> <anch>              POST /api/v2/silences on the real API handler with the matchers as JSON objects
//	                                                (isEqual left out where it has its documented default, true, on every second call),
//	                                                then: does the stored silence mute LS (Silences.Query, QMatches)?  S = the API refused it
// label value": regexp.Compile("^(?:" + value + ")$").MatchString(lset[name]),
// '1' / '0', or 'E' when that expression does not compile.  It is computed by
// the harness from the matcher's Value alone, independently of labels.NewMatcher
// and of whatever expression the matcher under test compiled for itself.
// `search` is the same for the bare pattern, regexp.Compile(value) (an
// unanchored search: diagnostic, it names the failure class).
package matcher

import (
	"context"
	"encoding/json"
	"fmt"
	"math/rand/v2"
	"net/http"
	"net/http/httptest"
	"net/url"
	"regexp"
	"strconv"
	"strings"
	"testing"
	"time"
	"unicode"
	"unicode/utf8"

	"github.com/prometheus/common/model"
	"github.com/prometheus/common/promslog"

	apiv2 "github.com/prometheus/alertmanager/api/v2"
	"github.com/prometheus/alertmanager/config"
	"github.com/prometheus/alertmanager/eventrecorder"
	"github.com/prometheus/alertmanager/featurecontrol"
	"github.com/prometheus/alertmanager/matcher/compat"
	"github.com/prometheus/alertmanager/matcher/parse"
	"github.com/prometheus/alertmanager/pkg/labels"
	"github.com/prometheus/alertmanager/provider/mem"
	"github.com/prometheus/alertmanager/silence"
	"github.com/prometheus/alertmanager/types"
	"github.com/prometheus/client_golang/prometheus"

	"verif/harness/hx"
)

// ---- protocol tokens ----

var opNames = []string{"eq", "ne", "re", "nre"} // index = labels.MatchType

type mt struct {
	op          int
	name, value string
}

func (m mt) tok() string { return opNames[m.op] + "," + hx.Hex(m.name) + "," + hx.Hex(m.value) }

func parseM(s string) mt {
	p := strings.Split(s, ",")
	if len(p) != 3 {
		panic("bad matcher token " + s)
	}
	for i, n := range opNames {
		if n == p[0] {
			return mt{op: i, name: hx.Unhex(p[1]), value: hx.Unhex(p[2])}
		}
	}
	panic("bad matcher operator " + s)
}

func mlTok(ms []mt) string {
	s := make([]string, len(ms))
	for i, m := range ms {
		s[i] = m.tok()
	}
	return hx.Join(s, ";")
}

func parseML(s string) []mt {
	var out []mt
	for _, p := range hx.Split(s, ";") {
		out = append(out, parseM(p))
	}
	return out
}

type label struct{ name, value string }

func lsTok(ls []label) string {
	s := make([]string, len(ls))
	for i, l := range ls {
		s[i] = hx.Hex(l.name) + "=" + hx.Hex(l.value)
	}
	return hx.Join(s, ",")
}

func parseLS(s string) model.LabelSet {
	out := model.LabelSet{}
	for _, p := range hx.Split(s, ",") {
		i := strings.Index(p, "=")
		if i < 0 {
			panic("bad label token " + p)
		}
		out[model.LabelName(hx.Unhex(p[:i]))] = model.LabelValue(hx.Unhex(p[i+1:]))
	}
	return out
}

// ---- guarded calls into the code under test ----

const callTimeout = 5 * time.Second

// guard runs f in its own goroutine. status is "" when f returned, "P" when it
// panicked, "T" when it did not return in time.
func guard[T any](f func() T) (v T, status string) {
	type res struct {
		v T
		p bool
	}
	ch := make(chan res, 1)
	go func() {
		defer func() {
			if r := recover(); r != nil {
				ch <- res{p: true}
			}
		}()
		ch <- res{v: f()}
	}()
	tm := time.NewTimer(callTimeout)
	defer tm.Stop()
	select {
	case r := <-ch:
		if r.p {
			return v, "P"
		}
		return r.v, ""
	case <-tm.C:
		return v, "T"
	}
}

// call is guard for functions that render their own observation.
func call(f func() string) string {
	s, st := guard(f)
	if st != "" {
		return st
	}
	return s
}

func errRes(err error) string {
	s := err.Error()
	switch {
	case strings.Contains(s, "parser panic"):
		return "P"
	case strings.Contains(s, "error parsing regexp"):
		return "R"
	}
	return "E"
}

func fromLM(m *labels.Matcher) mt { return mt{op: int(m.Type), name: m.Name, value: m.Value} }

func one(f func(string) (*labels.Matcher, error), in string) string {
	return call(func() string {
		m, err := f(in)
		if err != nil {
			return errRes(err)
		}
		return "K" + fromLM(m).tok()
	})
}

func many(f func(string) ([]*labels.Matcher, error), in string) string {
	return call(func() string {
		ms, err := f(in)
		if err != nil {
			return errRes(err)
		}
		out := make([]mt, len(ms))
		for i, m := range ms {
			out[i] = fromLM(m)
		}
		return "K" + mlTok(out)
	})
}

func c1(in string) string { return one(labels.ParseMatcher, in) }
func u1(in string) string { return one(parse.Matcher, in) }
func f1(in string) string {
	return one(func(s string) (*labels.Matcher, error) { return compat.Matcher(s, "verif") }, in)
}
func cl(in string) string { return many(labels.ParseMatchers, in) }
func ul(in string) string {
	return many(func(s string) ([]*labels.Matcher, error) { return parse.Matchers(s) }, in)
}
func fl(in string) string {
	return many(func(s string) ([]*labels.Matcher, error) { return compat.Matchers(s, "verif") }, in)
}

// build constructs the real matchers; status is "" / "badmatcher" / "P" / "T".
func build(ms []mt) (labels.Matchers, string) {
	type res struct {
		l   labels.Matchers
		bad bool
	}
	r, st := guard(func() res {
		out := make(labels.Matchers, 0, len(ms))
		for _, m := range ms {
			lm, err := labels.NewMatcher(labels.MatchType(m.op), m.name, m.value)
			if err != nil {
				return res{bad: true}
			}
			out = append(out, lm)
		}
		return res{l: out}
	})
	if st != "" {
		return nil, st
	}
	if r.bad {
		return nil, "badmatcher"
	}
	return r.l, ""
}

func bit(b bool) string {
	if b {
		return "1"
	}
	return "0"
}

var oracleCache = map[string]*regexp.Regexp{}

func oracleRe(expr string) *regexp.Regexp {
	if re, ok := oracleCache[expr]; ok {
		return re
	}
	re, err := regexp.Compile(expr)
	if err != nil {
		re = nil
	}
	if len(oracleCache) > 1<<16 {
		oracleCache = map[string]*regexp.Regexp{}
	}
	oracleCache[expr] = re
	return re
}

// oracle renders, per matcher, what the regexp package says about its pattern and
// the label value it is asked about (see the header): anchored = whole value.
func oracle(ms []mt, lset model.LabelSet, anchored bool) string {
	if len(ms) == 0 {
		return "-"
	}
	out := make([]byte, len(ms))
	for i, m := range ms {
		if m.op < 2 {
			out[i] = 'x'
			continue
		}
		expr := m.value
		if anchored {
			expr = "^(?:" + m.value + ")$"
		}
		re := oracleRe(expr)
		switch {
		case re == nil:
			out[i] = 'E'
		case re.MatchString(string(lset[model.LabelName(m.name)])):
			out[i] = '1'
		default:
			out[i] = '0'
		}
	}
	return string(out)
}

// exec runs one op line against the implementation and returns what it observed.
func exec(line string) string {
	f := strings.Fields(line)
	need := func(n int) {
		if len(f) != n {
			panic(fmt.Sprintf("op %s takes %d argument(s)", f[0], n-1))
		}
	}
	if len(f) == 0 {
		panic("empty line")
	}
	switch f[0] {
	case "rt":
		need(2)
		lm, st := build([]mt{parseM(f[1])})
		if st != "" {
			return st
		}
		printed, st := guard(func() string { return lm[0].String() })
		if st != "" {
			return st
		}
		return hx.Hex(printed) + " " + c1(printed) + " " + u1(printed) + " " + f1(printed)
	case "rtl":
		need(2)
		lm, st := build(parseML(f[1]))
		if st != "" {
			return st
		}
		printed, st := guard(func() string { return lm.String() })
		if st != "" {
			return st
		}
		return hx.Hex(printed) + " " + cl(printed) + " " + ul(printed) + " " + fl(printed)
	case "parse":
		need(2)
		in := hx.Unhex(f[1])
		return c1(in) + " " + u1(in) + " " + f1(in) + " " + cl(in) + " " + ul(in) + " " + fl(in)
	case "match":
		need(3)
		ms := parseML(f[1])
		lm, st := build(ms)
		if st != "" {
			return st
		}
		lset := parseLS(f[2])
		overall := call(func() string { return bit(lm.Matches(lset)) })
		bits := call(func() string {
			var b strings.Builder
			for _, m := range lm {
				b.WriteString(bit(m.Matches(string(lset[model.LabelName(m.Name)]))))
			}
			if b.Len() == 0 {
				return "-"
			}
			return b.String()
		})
		return overall + " " + bits + " " + oracle(ms, lset, true) + " " + oracle(ms, lset, false)
	case "apimatch":
		need(3)
		ms := parseML(f[1])
		lm, st := build(ms)
		if st != "" {
			return st
		}
		lset := parseLS(f[2])
		return apiMatch(lm, lset) + " " + oracle(ms, lset, true)
	case "apisil":
		need(3)
		ms := parseML(f[1])
		lm, st := build(ms)
		if st != "" {
			return st
		}
		lset := parseLS(f[2])
		return apiSil(lm, lset) + " " + oracle(ms, lset, true)
	case "mset":
		need(3)
		var set labels.MatcherSet
		lset := parseLS(f[2])
		var orc []string
		for _, p := range strings.Split(f[1], "|") {
			ms := parseML(p)
			lm, st := build(ms)
			if st != "" {
				return st
			}
			set = append(set, &lm)
			orc = append(orc, oracle(ms, lset, true))
		}
		return call(func() string { return bit(set.Matches(lset)) }) + " " + strings.Join(orc, "|")
	}
	panic("bad op " + f[0])
}

// ---- the API's alert filter (api/v2 matchFilterLabels behind GET /api/v2/alerts?filter=…) ----

var (
	apiSils   *silence.Silences
	apiAlerts *mem.Alerts
	apiH      http.Handler
	apiSeq    int
	silSeq    int
)

func apiMatch(lm labels.Matchers, lset model.LabelSet) string {
	// a fresh provider + API every 400 calls: resolved alerts stay in the store until its GC, and the handler walks the whole store
	if apiSeq%400 == 0 {
		if apiAlerts != nil {
			apiAlerts.Close()
		}
		var err error
		reg := prometheus.NewRegistry()
		apiAlerts, err = mem.NewAlerts(context.Background(), 1000*time.Hour, 0, nil, promslog.NewNopLogger(), eventrecorder.NopRecorder(), reg, nil)
		if err != nil {
			panic(err)
		}
		apiSils, err = silence.New(silence.Options{Metrics: prometheus.NewRegistry(), EventRecorder: eventrecorder.NopRecorder()})
		if err != nil {
			panic(err)
		}
		api, err := apiv2.NewAPI(apiAlerts, nil, nil, apiSils, nil, promslog.NewNopLogger(), reg)
		if err != nil {
			panic(err)
		}
		cfg, err := config.Load("route:\n  receiver: r\nreceivers:\n- name: r\n")
		if err != nil {
			panic(err)
		}
		api.Update(cfg, func(context.Context, model.LabelSet) {})
		apiH = api.Handler
	}
	ls := model.LabelSet{}
	for n, v := range lset {
		if v != "" {
			if !utf8.ValidString(string(n)) || !utf8.ValidString(string(v)) || n == "" {
				return "S"
			}
			ls[n] = v
		}
	}
	for _, m := range lm {
		if !utf8.ValidString(m.Name) || !utf8.ValidString(m.Value) {
			return "S"
		}
	}
	apiSeq++
	id := strconv.Itoa(apiSeq)
	ls["zz_verif_id"] = model.LabelValue(id)
	now := time.Now()
	a := &types.Alert{Alert: model.Alert{Labels: ls, StartsAt: now.Add(-time.Minute), EndsAt: now.Add(time.Hour)}, UpdatedAt: now}
	if err := apiAlerts.Put(context.Background(), a); err != nil {
		return "S"
	}
	q := url.Values{}
	for _, m := range lm {
		q.Add("filter", m.String())
	}
	q.Add("filter", `zz_verif_id="`+id+`"`)
	req := httptest.NewRequest("GET", "/api/v2/alerts?"+q.Encode(), nil)
	rec := httptest.NewRecorder()
	apiH.ServeHTTP(rec, req)
	// resolve it so that the provider does not grow
	a2 := *a
	a2.EndsAt = now.Add(-time.Second)
	a2.UpdatedAt = now
	_ = apiAlerts.Put(context.Background(), &a2)
	if rec.Code != 200 {
		return "E"
	}
	var out []json.RawMessage
	if err := json.Unmarshal(rec.Body.Bytes(), &out); err != nil {
		return "E"
	}
	return bit(len(out) > 0)
}

// apiSil posts a silence with the given matchers through the real handler and asks the real store whether it mutes lset.
func apiSil(lm labels.Matchers, lset model.LabelSet) string {
	apiMatch(nil, model.LabelSet{"a": "b"}) // (re)creates the API every 400 calls
	for _, m := range lm {
		if !utf8.ValidString(m.Name) || !utf8.ValidString(m.Value) {
			return "S"
		}
	}
	for n, v := range lset {
		if !utf8.ValidString(string(n)) || !utf8.ValidString(string(v)) {
			return "S"
		}
	}
	silSeq++
	type jm = map[string]any
	var jms []jm
	for _, m := range lm {
		o := jm{"name": m.Name, "value": m.Value, "isRegex": m.Type == labels.MatchRegexp || m.Type == labels.MatchNotRegexp}
		eq := m.Type == labels.MatchEqual || m.Type == labels.MatchRegexp
		if !eq || silSeq%2 == 0 {
			o["isEqual"] = eq
		}
		jms = append(jms, o)
	}
	now := time.Now()
	body, err := json.Marshal(jm{"matchers": jms, "startsAt": now.Add(-time.Second).UTC().Format(time.RFC3339Nano),
		"endsAt": now.Add(time.Hour).UTC().Format(time.RFC3339Nano), "createdBy": "verif", "comment": "c"})
	if err != nil {
		return "S"
	}
	req := httptest.NewRequest("POST", "/api/v2/silences", strings.NewReader(string(body)))
	req.Header.Set("Content-Type", "application/json")
	rec := httptest.NewRecorder()
	apiH.ServeHTTP(rec, req)
	if rec.Code != 200 {
		return "S"
	}
	var out struct {
		SilenceID string `json:"silenceID"`
	}
	if err := json.Unmarshal(rec.Body.Bytes(), &out); err != nil || out.SilenceID == "" {
		return "E"
	}
	ls := model.LabelSet{}
	for n, v := range lset {
		if v != "" {
			ls[n] = v
		}
	}
	sils, _, err := apiSils.Query(context.Background(), silence.QIDs(out.SilenceID), silence.QMatches(ls))
	if err != nil {
		return "E"
	}
	return bit(len(sils) > 0)
}

// ---- rune pool (the Lean side hard-codes this printability table) ----

var (
	printNA    = []rune{0x00E9, 0x00DF, 0x00FC, 0x03A9, 0x20AC, 0x4E16, 0x754C, 0x1F642, 0xFFFD, 0x0301}
	nonPrintNA = []rune{0x0080, 0x0085, 0x00A0, 0x00AD, 0x1680, 0x2003, 0x2028, 0x2029, 0x202F, 0x205F, 0x3000, 0x200B, 0xFEFF, 0xE000, 0x10FFFF}
	naPool     = map[rune]bool{} // membership only, never iterated
)

func init() {
	for _, r := range printNA {
		naPool[r] = true
	}
	for _, r := range nonPrintNA {
		naPool[r] = true
	}
}

func checkPool(t *testing.T) {
	chk := func(r rune, want bool) {
		if strconv.IsPrint(r) != want {
			t.Fatalf("rune pool: strconv.IsPrint(%U) = %v, the table says %v", r, !want, want)
		}
	}
	for r := rune(0); r < 0x80; r++ {
		chk(r, 0x20 <= r && r <= 0x7E)
	}
	for _, r := range printNA {
		chk(r, true)
	}
	for _, r := range nonPrintNA {
		chk(r, false)
	}
	for _, r := range ncRunes {
		if isReserved(r) || (r >= 0x80 && !naPool[r]) {
			t.Fatalf("ncRunes: %U is reserved or outside the pool", r)
		}
	}
	for _, r := range reservedRunes {
		if !isReserved(r) || (r >= 0x80 && !naPool[r]) {
			t.Fatalf("reservedRunes: %U is not reserved or outside the pool", r)
		}
	}
}

func inPool(s string) bool {
	if !utf8.ValidString(s) {
		return false
	}
	for _, r := range s {
		if r >= 0x80 && !naPool[r] {
			return false
		}
	}
	return true
}

// isReserved is the predicate of pkg/labels and matcher/parse.
func isReserved(r rune) bool {
	return unicode.IsSpace(r) || strings.ContainsRune("{}!=~,\\\"'`", r)
}

// ---- generators ----

const (
	nameFirst = "abcdefghijklmnopqrstuvwxyzABCDEFGHIJKLMNOPQRSTUVWXYZ_:"
	nameRest  = nameFirst + "0123456789"
)

var (
	classicRe = regexp.MustCompile(`^[a-zA-Z_:][a-zA-Z0-9_:]*$`)

	// non-reserved runes that make a name non-classic
	ncRunes = []rune{0x00E9, 0x00DF, 0x00FC, 0x03A9, 0x20AC, 0x4E16, 0x754C, 0x1F642, 0xFFFD, 0x0301,
		0x0080, 0x00AD, 0x200B, 0xFEFF, 0xE000, 0x10FFFF, 0x00, 0x01, 0x08, 0x1B, 0x1F, 0x7F,
		'-', '.', '/', '+', '@', '#', '%', '0', '1', '7', '9', '(', ')', '[', ']', '*', '|', '$', '^', '?', '<', '>', ';'}
	reservedRunes = []rune{' ', '\t', '\n', '\v', '\f', '\r', 0x0085, 0x00A0, 0x2028, 0x3000,
		'{', '}', '!', '=', '~', ',', '\\', '"', '\'', '`'}

	heavy      = []string{`"`, `\`, "\n", "\t", ",", "{", "}", " ", "=", "~", "!"}
	lookalikes = []string{`\n`, `\"`, `\\`, `\x41`, `\u00e9`, `\t`, `\'`}

	smallNames = []string{"a", "b", "c", "é", "a b"}

	wsFrags  = []string{" ", "\t", "\n", "\v", "\f", "\r", "\u0085", "\u00a0", "\u2028", "\u3000"}
	wsNA     = []string{"\u0085", "\u00a0", "\u2028", "\u3000"}
	opFrags  = []string{"=", "!=", "=~", "!~", "!", "~", "=="}
	opSyms   = []string{"=", "!=", "=~", "!~"}
	badBytes = []string{"\xff", "\xc0\x80", "\xe4\xb8", "\x80"}
	// bodies of double-quoted strings: escapes valid and invalid for strconv.Unquote;
	// every code point they denote is in the pool
	escapes = []string{`\\`, `\"`, `\n`, `\t`, `\a`, `\'`, `\q`, `\x41`, `\x4`, `\xff`, `\xe4\xb8\x96`, `\xc3\x28`,
		"é", "世", `\u12`, `\ud800`, `\U0001f642`, `\U00110000`, `\101`, `\777`, `\08`, "\n",
		`\u00e9`, `\u2028`, `\x7f`, `\x00`}
	specialWords = []string{"é", "世", "🙂", "né", "世界", "a🙂", "ü1", "Ω", "x\u200b", "\ufeffy", "a-b", "a.b", "a/b"}
	regexWords   = []string{"a.*", "a|b", "(a)", "a+", ".+", "5..", "[a-z]+", "a(", "*", "[", "a)", "(?:a|b)c", "^a$", "a?"}
)

type gen struct{ r *rand.Rand }

func (g *gen) chance(pct int) bool { return g.r.IntN(100) < pct }

func (g *gen) poolRune() rune {
	switch x := g.r.IntN(100); {
	case x < 55:
		return rune(0x20 + g.r.IntN(0x5F)) // printable ASCII
	case x < 65:
		if c := g.r.IntN(33); c < 32 {
			return rune(c)
		}
		return 0x7F
	case x < 85:
		return hx.Pick(g.r, printNA)
	}
	return hx.Pick(g.r, nonPrintNA)
}

func (g *gen) poolString(max int) string {
	var b strings.Builder
	for range g.r.IntN(max + 1) {
		b.WriteRune(g.poolRune())
	}
	return b.String()
}

func (g *gen) classicName() string {
	n := 1 + g.r.IntN(6)
	b := make([]byte, n)
	b[0] = nameFirst[g.r.IntN(len(nameFirst))]
	for i := 1; i < n; i++ {
		b[i] = nameRest[g.r.IntN(len(nameRest))]
	}
	return string(b)
}

func (g *gen) nonClassicName() string {
	var b strings.Builder
	for range 1 + g.r.IntN(5) {
		if g.chance(55) {
			b.WriteRune(hx.Pick(g.r, ncRunes))
		} else {
			b.WriteByte(nameRest[g.r.IntN(len(nameRest))])
		}
	}
	s := b.String()
	if classicRe.MatchString(s) {
		s = string(hx.Pick(g.r, ncRunes)) + s
	}
	return s
}

func (g *gen) reservedName() string {
	n := 1 + g.r.IntN(5)
	pos := g.r.IntN(n)
	var b strings.Builder
	for i := range n {
		switch {
		case i == pos || g.chance(25):
			b.WriteRune(hx.Pick(g.r, reservedRunes))
		case g.chance(50):
			b.WriteByte(nameRest[g.r.IntN(len(nameRest))])
		default:
			b.WriteRune(g.poolRune())
		}
	}
	return b.String()
}

func (g *gen) name() string {
	switch x := g.r.IntN(100); {
	case x < 45:
		return g.classicName()
	case x < 70:
		return g.nonClassicName()
	case x < 97:
		return g.reservedName()
	}
	return ""
}

func (g *gen) value() string {
	if g.chance(12) {
		return ""
	}
	var b strings.Builder
	for range 1 + g.r.IntN(8) {
		switch x := g.r.IntN(100); {
		case x < 30:
			b.WriteString(hx.Pick(g.r, heavy))
		case x < 43:
			b.WriteString(hx.Pick(g.r, lookalikes))
		case x < 63:
			b.WriteByte(nameRest[g.r.IntN(len(nameRest))])
		default:
			b.WriteRune(g.poolRune())
		}
	}
	return b.String()
}

// -- regular expressions: a small AST rendered to Go syntax --

const (
	rxLit = iota
	rxDot
	rxGroup // ( … )
	rxNC    // (?: … )
	rxAlt   // subs are rxCat
	rxCat   // subs are atoms (rxLit, rxDot, rxGroup, rxNC)
)

type rx struct {
	kind int
	r    rune
	post byte // 0, '*', '+', '?': at most one postfix per atom
	subs []*rx
}

func (x *rx) render(b *strings.Builder) {
	switch x.kind {
	case rxLit:
		b.WriteString(regexp.QuoteMeta(string(x.r)))
	case rxDot:
		b.WriteByte('.')
	case rxGroup, rxNC:
		if x.kind == rxGroup {
			b.WriteString("(")
		} else {
			b.WriteString("(?:")
		}
		x.subs[0].render(b)
		b.WriteByte(')')
	case rxAlt:
		for i, s := range x.subs {
			if i > 0 {
				b.WriteByte('|')
			}
			s.render(b)
		}
	case rxCat:
		for _, s := range x.subs {
			s.render(b)
		}
	}
	if x.post != 0 {
		b.WriteByte(x.post)
	}
}

func (x *rx) String() string {
	var b strings.Builder
	x.render(&b)
	return b.String()
}

func (g *gen) rxLitRune(simple bool) rune {
	if simple || g.chance(50) {
		return rune("abc"[g.r.IntN(3)])
	}
	return g.poolRune()
}

// rxExpr needs *budget > 0; budget counts atoms (groups included).
func (g *gen) rxExpr(depth int, budget *int, simple bool) *rx {
	if *budget >= 2 && g.chance(25) {
		a := &rx{kind: rxAlt}
		for k := 2 + g.r.IntN(2); k > 0 && *budget > 0; k-- {
			a.subs = append(a.subs, g.rxCat(depth, budget, simple))
		}
		return a
	}
	return g.rxCat(depth, budget, simple)
}

func (g *gen) rxCat(depth int, budget *int, simple bool) *rx {
	c := &rx{kind: rxCat}
	for n := 1 + g.r.IntN(3); n > 0 && *budget > 0; n-- {
		c.subs = append(c.subs, g.rxAtom(depth, budget, simple))
	}
	return c
}

func (g *gen) rxAtom(depth int, budget *int, simple bool) *rx {
	*budget--
	var a *rx
	switch x := g.r.IntN(100); {
	case x < 22 && depth < 2 && *budget > 0:
		a = &rx{kind: rxGroup}
		if g.chance(40) {
			a.kind = rxNC
		}
		a.subs = []*rx{g.rxExpr(depth+1, budget, simple)}
	case x < 37:
		a = &rx{kind: rxDot}
	default:
		a = &rx{kind: rxLit, r: g.rxLitRune(simple)}
	}
	if g.chance(30) {
		a.post = "*+?"[g.r.IntN(3)]
	}
	return a
}

// dotRune is a pool rune that `.` matches.
func (g *gen) dotRune() rune {
	for {
		if r := g.poolRune(); r != '\n' {
			return r
		}
	}
}

// rxSample returns a string of the language of x.
func (g *gen) rxSample(x *rx) string {
	once := func() string {
		switch x.kind {
		case rxLit:
			return string(x.r)
		case rxDot:
			return string(g.dotRune())
		case rxGroup, rxNC:
			return g.rxSample(x.subs[0])
		case rxAlt:
			return g.rxSample(hx.Pick(g.r, x.subs))
		}
		var b strings.Builder
		for _, s := range x.subs {
			b.WriteString(g.rxSample(s))
		}
		return b.String()
	}
	n := 1
	switch x.post {
	case '*':
		n = g.r.IntN(3)
	case '+':
		n = 1 + g.r.IntN(2)
	case '?':
		n = g.r.IntN(2)
	}
	var b strings.Builder
	for range n {
		b.WriteString(once())
	}
	return b.String()
}

// gm is a generated matcher: for re/nre it remembers how to produce members
// of the regexp's language (ast, or the literal lit when ast is nil); for the
// anchor shapes, cands are strings near the language (members of the
// sub-patterns and their concatenations: full matches and strings that only
// contain a match).
type gm struct {
	mt
	ast   *rx
	lit   string
	cands []string
}

// -- patterns that interact with the ^(?:…)$ wrapping which NewMatcher applies --
//
// α β γ δ stand for small anchor-free sub-patterns.  The first group looks like
// the wrapping itself (a pattern that begins with "^(?:" and/or ends with ")$"
// is NOT thereby anchored: `^(?:a)|(b)$` is an alternation of two half-anchored
// branches); then explicit anchors at the ends and inside, .* prefixes and
// suffixes, top-level alternations and nested groups; the last group is outside
// the fragment the Lean driver can evaluate itself (flags, classes, counted
// repetition, \A \z \b): there the regexp oracle alone is the spec side.
var anchorShapes = []string{
	`^(?:α)|(β)$`, `^(?:α)β|γ(?:δ)$`, `^(?:α)|(?:β)$`, `^(?:α)$`, `^(?:α)(?:β)$`, `^(?:α)|β`, `α|(?:β)$`, `^(?:α|β)$γ`, `^(?:α)`, `(?:α)$`, `^(?:^(?:α)$)$`, `^(?:α)$|β`, `^(?:α))|((?:β)$`,
	`^α$`, `^α`, `α$`, `^α|β$`, `(^α)|(β$)`, `(?:^α$)|β`, `α^β`, `α$β`, `$α`, `α^`, `^^α$$`, `(^)α($)`, `^(α|^β)γ$`, `(α$|β)γ`, `α(^|β)`, `(?:$|α)β`,
	`.*α`, `α.*`, `.*α.*`, `.*(α|β).*`, `.*`, `.+`, `(.*)α(.*)`, `.*α|β.*`, `.?α.?`,
	`α|β`, `α|β|γ`, `(α|β)γ`, `α(β|γ)`, `((α)|(?:β(γ)))`, `(?:(?:α)|(?:(β)|γ))δ`, `(α|β)|(γ|δ)`, `α||β`, `|α`, `((α))`, `(α)*β`, `(α|β)+`, `(?:α|β)?γ`,
	`(?i)α`, `(?i:α)β`, `(?s)α.β`, `(?m)^α$`, `(?m:^α$)|β`, `(?U)α+`, `[abc]α`, `[^a]α`, `α[a-c]*`, `\w+α`, `(?:α){2}`, `(?:α){1,2}β`, `\Aα\z`, `\bα\b`, `α\z`, `(?-s:.)α`, `(?s:.)α`,
}

// sub is a small sub-pattern without anchors and one member of its language.
func (g *gen) sub(simple bool) (string, string) {
	for {
		budget := 1 + g.r.IntN(3)
		ast := g.rxExpr(1, &budget, simple)
		if len(ast.subs) > 1 && ast.kind == rxAlt && g.chance(50) {
			ast = &rx{kind: rxNC, subs: []*rx{ast}}
		}
		v := ast.String()
		if _, err := regexp.Compile(v); err == nil {
			return v, g.rxSample(ast)
		}
	}
}

// anchorPattern instantiates one of anchorShapes.
func (g *gen) anchorPattern(simple bool) (string, []string) {
	for {
		shape := hx.Pick(g.r, anchorShapes)
		var b strings.Builder
		var mem []string
		for _, r := range shape {
			if r == 'α' || r == 'β' || r == 'γ' || r == 'δ' {
				p, m := g.sub(simple)
				b.WriteString(p)
				mem = append(mem, m)
			} else {
				b.WriteRune(r)
			}
		}
		v := b.String()
		if _, err := regexp.Compile("^(?:" + v + ")$"); err != nil {
			continue // e.g. `^(?:α))|((?:β)$` compiles only unwrapped
		}
		// every in-order concatenation of a non-empty subset of the members
		var cands []string
		for mask := 1; mask < 1<<len(mem); mask++ {
			var c strings.Builder
			for i, m := range mem {
				if mask&(1<<i) != 0 {
					c.WriteString(m)
				}
			}
			cands = append(cands, c.String())
		}
		if len(cands) == 0 {
			cands = []string{"", "a", g.poolString(3)}
		}
		return v, cands
	}
}

func (g *gen) regexValue(simple bool) (string, *rx, string) {
	budget := 1 + g.r.IntN(6)
	ast := g.rxExpr(0, &budget, simple)
	v := ast.String()
	if _, err := regexp.Compile("^(?:" + v + ")$"); err != nil {
		lit := strings.ToValidUTF8(g.value(), "")
		return regexp.QuoteMeta(lit), nil, lit
	}
	return v, ast, ""
}

func (g *gen) member(m gm) string {
	if m.op < 2 {
		return m.value
	}
	if len(m.cands) > 0 {
		return hx.Pick(g.r, m.cands) // near the language, not necessarily in it
	}
	s := m.lit
	if m.ast != nil {
		s = g.rxSample(m.ast)
	}
	if !regexp.MustCompile("^(?:" + m.value + ")$").MatchString(s) {
		panic(fmt.Sprintf("generator bug: %q is not in the language of %q", s, m.value))
	}
	return s
}

func (g *gen) matcher() gm {
	m := gm{mt: mt{op: g.r.IntN(4), name: g.name()}}
	if m.op < 2 {
		m.value = g.value()
	} else if g.chance(15) {
		m.value, m.cands = g.anchorPattern(false) // ^ $ | ( ) in values through the printer and the parsers
	} else {
		m.value, m.ast, m.lit = g.regexValue(false)
	}
	return m
}

func (g *gen) matchers(max int) []gm {
	ms := make([]gm, g.r.IntN(max+1))
	for i := range ms {
		ms[i] = g.matcher()
	}
	return ms
}

func toks(ms []gm) []mt {
	out := make([]mt, len(ms))
	for i, m := range ms {
		out[i] = m.mt
	}
	return out
}

// -- kind=match --

func (g *gen) matchMatcher() gm {
	m := gm{mt: mt{op: g.r.IntN(4), name: hx.Pick(g.r, smallNames)}}
	if m.op >= 2 {
		if g.chance(40) {
			m.value, m.cands = g.anchorPattern(g.chance(70))
			return m
		}
		m.value, m.ast, m.lit = g.regexValue(g.chance(60))
		return m
	}
	switch x := g.r.IntN(100); {
	case x < 15:
	case x < 65:
		for range 1 + g.r.IntN(3) {
			m.value += string("abc"[g.r.IntN(3)])
		}
	default:
		m.value = g.value()
	}
	return m
}

func (g *gen) labelValue(m gm) (string, bool) {
	switch g.r.IntN(9) {
	case 5, 6:
		// a value that CONTAINS a member without being one: extended by letters of the
		// patterns' alphabet, a newline, or another member, before and/or after
		s := g.member(m)
		ext := hx.Pick(g.r, []string{"a", "b", "c", "\n", "x", "ab", s, g.member(m)})
		switch g.r.IntN(3) {
		case 0:
			s = ext + s
		case 1:
			s += ext
		default:
			s = ext + s + hx.Pick(g.r, []string{ext, "\n", "c"})
		}
		return s, true
	case 7:
		// other case / one rune short
		s := g.member(m)
		if g.chance(50) {
			return strings.ToUpper(s), true
		}
		if rs := []rune(s); len(rs) > 0 {
			if g.chance(50) {
				return string(rs[1:]), true
			}
			return string(rs[:len(rs)-1]), true
		}
		return "a", true
	case 0:
		return "", false // label missing
	case 1:
		return "", true
	case 2:
		return g.member(m), true
	case 3:
		s := g.member(m)
		k := 1 + g.r.IntN(3)
		if k&1 != 0 {
			s = string(g.dotRune()) + s
		}
		if k&2 != 0 {
			s += string(g.dotRune())
		}
		return s, true
	case 4:
		rs := []rune(g.member(m))
		if len(rs) == 0 {
			return string(g.poolRune()), true
		}
		i := g.r.IntN(len(rs))
		for {
			if r := g.poolRune(); r != rs[i] {
				rs[i] = r
				break
			}
		}
		return string(rs), true
	}
	return g.poolString(5), true
}

func (g *gen) labelSet(ms []gm) []label {
	var ls []label
	decided := map[string]bool{} // membership only
	set := func(n, v string) {
		for i := range ls {
			if ls[i].name == n {
				ls[i].value = v
				return
			}
		}
		ls = append(ls, label{n, v})
	}
	del := func(n string) {
		for i := range ls {
			if ls[i].name == n {
				ls = append(ls[:i], ls[i+1:]...)
				return
			}
		}
	}
	for _, m := range ms {
		if decided[m.name] && g.chance(50) {
			continue
		}
		decided[m.name] = true
		if v, present := g.labelValue(m); present {
			set(m.name, v)
		} else {
			del(m.name)
		}
	}
	for range g.r.IntN(3) {
		n := hx.Pick(g.r, smallNames)
		if decided[n] || len(ls) >= 4 {
			continue
		}
		decided[n] = true
		set(n, g.poolString(4))
	}
	return ls
}

func (g *gen) variation(ms []gm) []mt {
	var out []mt
	for _, m := range ms {
		if g.chance(60) {
			out = append(out, m.mt)
		}
	}
	if len(out) > 0 && g.chance(30) {
		out[g.r.IntN(len(out))].op ^= 1 // eq<->ne, re<->nre: still compiles
	}
	if g.chance(15) {
		out = append(out, g.matchMatcher().mt)
	}
	return out
}

// -- adversarial inputs --

func (g *gen) word() string {
	switch x := g.r.IntN(100); {
	case x < 38:
		return g.classicName()
	case x < 60:
		return hx.Pick(g.r, specialWords)
	case x < 72:
		return strconv.Itoa(g.r.IntN(1000))
	case x < 82:
		w := g.classicName()
		i := g.r.IntN(len(w) + 1)
		return w[:i] + hx.Pick(g.r, badBytes) + w[i:]
	case x < 92:
		return hx.Pick(g.r, regexWords)
	}
	return g.nonClassicName()
}

func (g *gen) quoted() string {
	var b strings.Builder
	b.WriteByte('"')
	for range g.r.IntN(6) {
		switch x := g.r.IntN(100); {
		case x < 30:
			b.WriteByte(nameRest[g.r.IntN(len(nameRest))])
		case x < 50:
			b.WriteRune(g.poolRune())
		case x < 92:
			b.WriteString(hx.Pick(g.r, escapes))
		default:
			b.WriteString(hx.Pick(g.r, badBytes))
		}
	}
	switch x := g.r.IntN(100); {
	case x < 8: // unterminated
	case x < 13:
		b.WriteString(`\"`) // trailing lone backslash
	default:
		b.WriteByte('"')
	}
	return b.String()
}

func (g *gen) fragment() string {
	switch x := g.r.IntN(100); {
	case x < 6:
		return "{"
	case x < 12:
		return "}"
	case x < 20:
		return ","
	case x < 38:
		return hx.Pick(g.r, opFrags)
	case x < 50:
		return hx.Pick(g.r, wsFrags)
	case x < 70:
		return g.word()
	case x < 86:
		return g.quoted()
	case x < 88:
		return "'" + g.word() + "'"
	case x < 90:
		return "`" + g.word() + "`"
	case x < 93:
		return `\`
	case x < 98:
		return hx.Pick(g.r, badBytes)
	}
	return string(g.poolRune())
}

func (g *gen) soup() string {
	var fr []string
	if g.chance(65) {
		// grammar-guided: [{] name op value [, name op value] [}] with slots
		// occasionally replaced by a random fragment (at most 10 fragments)
		slot := func(f func() string) {
			if g.chance(8) {
				fr = append(fr, g.fragment())
			} else {
				fr = append(fr, f())
			}
		}
		term := func() string {
			if g.chance(50) {
				return g.word()
			}
			return g.quoted()
		}
		op := func() string {
			if g.chance(85) {
				return hx.Pick(g.r, opSyms)
			}
			return hx.Pick(g.r, opFrags)
		}
		if g.chance(40) {
			fr = append(fr, "{")
		}
		slot(term)
		slot(op)
		slot(term)
		if g.chance(40) {
			fr = append(fr, ",")
			if g.chance(80) {
				slot(term)
				slot(op)
				slot(term)
			}
		}
		if g.chance(40) {
			fr = append(fr, "}")
		}
		if len(fr) < 10 && g.chance(50) {
			i := g.r.IntN(len(fr) + 1)
			fr = append(fr[:i], append([]string{hx.Pick(g.r, wsFrags)}, fr[i:]...)...)
		}
	} else {
		for range 1 + g.r.IntN(10) {
			fr = append(fr, g.fragment())
		}
	}
	return strings.Join(fr, "")
}

func (g *gen) simpleValue() string {
	switch g.r.IntN(6) {
	case 0:
		return "bar"
	case 1:
		return strconv.Itoa(g.r.IntN(100))
	case 2:
		return hx.Pick(g.r, specialWords)
	case 3:
		return hx.Pick(g.r, regexWords)
	}
	return g.classicName()
}

func (g *gen) wellFormed() string {
	switch x := g.r.IntN(100); {
	case x < 25:
		if lm, st := build([]mt{g.matcher().mt}); st == "" {
			if s, st := guard(func() string { return lm[0].String() }); st == "" {
				return s
			}
		}
	case x < 45:
		if lm, st := build(toks(g.matchers(3))); st == "" {
			if s, st := guard(func() string { return lm.String() }); st == "" {
				return s
			}
		}
	}
	n1, n2 := g.classicName(), g.classicName()
	v1, v2 := g.simpleValue(), g.simpleValue()
	o1, o2 := hx.Pick(g.r, opSyms), hx.Pick(g.r, opSyms)
	switch g.r.IntN(14) {
	case 0:
		return n1 + o1 + v1
	case 1:
		return n1 + " " + o1 + ` "` + v1 + `"`
	case 2:
		return `{` + n1 + o1 + `"` + v1 + `",` + n2 + `=~"a|b"}`
	case 3:
		return n1 + o1 + v1 + "," + n2 + o2 + v2 + ","
	case 4:
		return "{" + n1 + o1 + v1 + "}"
	case 5:
		return n1 + o1 + `"` + v1 + "," + v2 + `"`
	case 6:
		return n1 + o1 + v1 + `\"` + v2
	case 7:
		return n1 + o1 + `"` + v1 + `"` + v2 + `"`
	case 8:
		return n1 + o1 + `"` + v1 + `"` + v2 + `"c"`
	case 9:
		return "{" + n1 + " " + o1 + ` "` + v1 + `", ` + n2 + " " + o2 + ` "` + v2 + `", }`
	case 10:
		return n1 + `=~"` + v1 + `.*"`
	case 11:
		return n1 + "!~" + v1 + "." + v2
	case 12:
		return `"` + hx.Pick(g.r, specialWords) + `"` + o1 + `"` + v1 + `"`
	}
	return `{"` + n1 + " " + n2 + `"` + o1 + `"` + v1 + `\n` + v2 + `"}`
}

func (g *gen) mutated() string {
	b := []byte(g.wellFormed())
	for range g.r.IntN(4) {
		switch g.r.IntN(5) {
		case 0: // delete
			if len(b) > 0 {
				i := g.r.IntN(len(b))
				b = append(b[:i], b[i+1:]...)
			}
		case 1: // duplicate
			if len(b) > 0 {
				i := g.r.IntN(len(b))
				b = append(b[:i+1], b[i:]...)
			}
		case 2: // insert a pool rune or a raw bad byte
			ins := string(g.poolRune())
			if g.chance(30) {
				ins = hx.Pick(g.r, badBytes)
			}
			i := g.r.IntN(len(b) + 1)
			b = append(b[:i], append([]byte(ins), b[i:]...)...)
		case 3: // swap neighbours
			if len(b) > 1 {
				i := g.r.IntN(len(b) - 1)
				b[i], b[i+1] = b[i+1], b[i]
			}
		case 4: // truncate
			b = b[:g.r.IntN(len(b)+1)]
		}
	}
	return string(b)
}

func (g *gen) probeValue() string {
	a, c := g.simpleValue(), g.simpleValue()
	switch g.r.IntN(16) {
	case 0:
		return a + `\` + c
	case 1:
		return a + `\n` + c
	case 2:
		return a + " " + c
	case 3:
		return hx.Pick(g.r, specialWords)
	case 4:
		return a + `"` + c
	case 5:
		return a + "}"
	case 6:
		return a + `\`
	case 7:
		return `\`
	case 8:
		return a + `\"` + c
	case 9:
		return `"` + a
	case 10:
		return a + `"`
	case 11:
		return a + "\n" + c
	case 12:
		return a + `\\` + c
	case 13:
		return a + hx.Pick(g.r, wsNA) + c
	case 14:
		return `"` + a + `\` + c + `"`
	}
	return a
}

func (g *gen) probe() string {
	switch x := g.r.IntN(100); {
	case x < 3:
		return ""
	case x < 6:
		return "{}"
	case x < 10:
		var b strings.Builder
		for range 1 + g.r.IntN(3) {
			b.WriteString(hx.Pick(g.r, wsFrags))
		}
		return b.String()
	case x < 13:
		return hx.Pick(g.r, []string{"{", "}", ",", "{,}", "{ }", ",,", "{}}", "{{}"})
	}
	ws := func(pct int) string {
		if !g.chance(pct) {
			return ""
		}
		if g.chance(60) {
			return hx.Pick(g.r, wsNA)
		}
		return hx.Pick(g.r, wsFrags)
	}
	one := func() string {
		n := g.classicName()
		if g.chance(20) {
			n = g.word()
		}
		return n + ws(15) + hx.Pick(g.r, opSyms) + ws(15) + g.probeValue()
	}
	s := one()
	for g.chance(30) {
		sep := ","
		if g.chance(12) {
			sep = ",," // empty segment
		}
		s += ws(15) + sep + ws(15) + one()
	}
	if g.chance(25) {
		s += "," + ws(30) // trailing comma
	}
	s = ws(30) + s + ws(30)
	switch x := g.r.IntN(100); {
	case x < 15:
		s = "{" + s
	case x < 30:
		s += "}"
	case x < 45:
		s = "{" + s + "}"
	}
	return ws(10) + s + ws(10)
}

func (g *gen) adversarial() string {
	switch g.r.IntN(3) {
	case 0:
		return g.soup()
	case 1:
		return g.mutated()
	}
	return g.probe()
}

// ---- cases ----

func allInPool(ms []mt) bool {
	for _, m := range ms {
		if !inPool(m.name) || !inPool(m.value) {
			return false
		}
	}
	return true
}

func runCase(tr *hx.Trace, id int, g *gen, do func(string) string) {
	switch x := g.r.IntN(100); {
	case x < 45:
		tr.Linef("case %d kind=rt", id)
		ms := toks(g.matchers(4))
		do("rtl " + mlTok(ms))
		for _, m := range ms {
			do("rt " + m.tok())
		}
	case x < 85:
		tr.Linef("case %d kind=adv", id)
		f := strings.Fields(do("parse " + hx.Hex(g.adversarial())))
		rc1, ru1, rcl, rul := f[0], f[1], f[3], f[4]
		single := func(tok string) {
			if m := parseM(tok[1:]); inPool(m.name) && inPool(m.value) {
				do("rt " + m.tok())
			}
		}
		list := func(tok string) {
			if ms := parseML(tok[1:]); len(ms) > 0 && len(ms) <= 6 && allInPool(ms) {
				do("rtl " + mlTok(ms))
			}
		}
		if ru1[0] == 'K' {
			single(ru1)
		}
		if rc1[0] == 'K' && rc1 != ru1 {
			single(rc1)
		}
		if rul[0] == 'K' {
			list(rul)
		}
		if rcl[0] == 'K' && rcl != rul {
			list(rcl)
		}
	default:
		tr.Linef("case %d kind=match", id)
		ms := make([]gm, 1+g.r.IntN(4))
		for i := range ms {
			ms[i] = g.matchMatcher()
		}
		ml := mlTok(toks(ms))
		var sets []string
		for range 3 + g.r.IntN(4) {
			ls := lsTok(g.labelSet(ms))
			sets = append(sets, ls)
			do("match " + ml + " " + ls)
			if g.r.IntN(3) == 0 {
				do("apimatch " + ml + " " + ls)
			}
			if g.r.IntN(4) == 0 {
				do("apisil " + ml + " " + ls)
			}
		}
		lists := make([]string, 1+g.r.IntN(3))
		for i := range lists {
			lists[i] = mlTok(g.variation(ms))
		}
		do("mset " + strings.Join(lists, "|") + " " + hx.Pick(g.r, sets))
	}
}

func TestEngine(t *testing.T) {
	checkPool(t)
	flags, _ := featurecontrol.NewFlags(promslog.NewNopLogger(), "")
	compat.InitFromFlags(promslog.NewNopLogger(), flags) // no feature flags: fallback mode

	tr := hx.Open()
	defer tr.Close()
	do := func(line string) string {
		obs := exec(line)
		tr.Linef("%s -> %s", line, obs)
		return obs
	}
	if s := hx.Script(); s != nil {
		for _, l := range s {
			if l == "case" || strings.HasPrefix(l, "case ") {
				tr.Linef("%s", l)
				continue
			}
			func() {
				defer func() {
					if r := recover(); r != nil {
						t.Fatalf("bad script line %q: %v", l, r)
					}
				}()
				do(l)
			}()
		}
		return
	}
	g := &gen{r: hx.Rand(16)}
	for id := range hx.Cases(30000, 600000) {
		runCase(tr, id, g, do)
	}
}
