// Package hx holds what every correspondence engine shares: the seeded PRNG,
// the trace writer and tier-dependent case counts.
package hx

import (
	"bufio"
	"encoding/hex"
	"fmt"
	"math/rand/v2"
	"os"
	"sort"
	"strconv"
	"strings"
)

// Seed returns VERIF_SEED (default 1).
func Seed() uint64 {
	if s := os.Getenv("VERIF_SEED"); s != "" {
		if v, err := strconv.ParseUint(s, 10, 64); err == nil {
			return v
		}
	}
	return 1
}

// Thorough reports whether VERIF_TIER=thorough.
func Thorough() bool { return os.Getenv("VERIF_TIER") == "thorough" }

// Cases picks the number of cases: VERIF_CASES overrides, else by tier.
func Cases(quick, thorough int) int {
	if s := os.Getenv("VERIF_CASES"); s != "" {
		if v, err := strconv.Atoi(s); err == nil {
			return v
		}
	}
	if Thorough() {
		return thorough
	}
	return quick
}

// Rand returns the engine's PRNG; every random choice of an engine derives from it.
func Rand(engineID uint64) *rand.Rand {
	return rand.New(rand.NewPCG(Seed(), engineID))
}

// Trace writes the line protocol to VERIF_OUT (or stdout).
type Trace struct {
	f *os.File
	w *bufio.Writer
}

func Open() *Trace {
	p := os.Getenv("VERIF_OUT")
	if p == "" {
		return &Trace{w: bufio.NewWriter(os.Stdout)}
	}
	f, err := os.Create(p)
	if err != nil {
		panic(err)
	}
	return &Trace{f: f, w: bufio.NewWriterSize(f, 1<<20)}
}

func (t *Trace) Linef(format string, a ...any) {
	// a case that kills the process must still be visible: everything before it is flushed
	if strings.HasPrefix(format, "case ") || strings.HasPrefix(format, "%s") && len(a) == 1 && strings.HasPrefix(fmt.Sprint(a[0]), "case ") {
		t.w.Flush()
	}
	fmt.Fprintf(t.w, format, a...)
	t.w.WriteByte('\n')
}

// Flush forces the buffered lines out (engines call it before an operation that may kill the process).
func (t *Trace) Flush() { t.w.Flush() }

func (t *Trace) Close() {
	t.w.Flush()
	if t.f != nil {
		t.f.Close()
	}
}

// Script returns the lines of VERIF_SCRIPT (a replay: the op part of trace
// lines, ` -> …` stripped) or nil when the engine should generate.
func Script() []string {
	p := os.Getenv("VERIF_SCRIPT")
	if p == "" {
		return nil
	}
	b, err := os.ReadFile(p)
	if err != nil {
		panic(err)
	}
	var out []string
	for _, l := range strings.Split(string(b), "\n") {
		l = strings.TrimSpace(l)
		if l == "" || strings.HasPrefix(l, "#") {
			continue
		}
		if i := strings.Index(l, " -> "); i >= 0 {
			l = l[:i]
		}
		out = append(out, l)
	}
	return out
}

// Hex encodes a string for the protocol ("-" for empty).
func Hex(s string) string {
	if s == "" {
		return "-"
	}
	return hex.EncodeToString([]byte(s))
}

// Unhex is the inverse of Hex.
func Unhex(s string) string {
	if s == "-" {
		return ""
	}
	b, err := hex.DecodeString(s)
	if err != nil {
		panic(err)
	}
	return string(b)
}

// Join joins with sep, "-" when empty.
func Join(l []string, sep string) string {
	if len(l) == 0 {
		return "-"
	}
	return strings.Join(l, sep)
}

// Split is the inverse of Join.
func Split(s, sep string) []string {
	if s == "-" || s == "" {
		return nil
	}
	return strings.Split(s, sep)
}

// U64s renders a list of numbers '.'-joined in the given order.
func U64s(l []uint64) string {
	s := make([]string, len(l))
	for i, v := range l {
		s[i] = strconv.FormatUint(v, 10)
	}
	return Join(s, ".")
}

func ParseU64s(s string) []uint64 {
	var out []uint64
	for _, p := range Split(s, ".") {
		v, _ := strconv.ParseUint(p, 10, 64)
		out = append(out, v)
	}
	return out
}

// Sorted returns a sorted copy.
func Sorted(l []string) []string {
	c := append([]string(nil), l...)
	sort.Strings(c)
	return c
}

// Pick returns a random element.
func Pick[T any](r *rand.Rand, l []T) T { return l[r.IntN(len(l))] }

// Atoi64 parses or panics.
func Atoi64(s string) int64 {
	v, err := strconv.ParseInt(s, 10, 64)
	if err != nil {
		panic(err)
	}
	return v
}
