// Engine `ingest` (C13): drives the real API v2 HTTP handler (POST and GET
// /api/v2/alerts) in-process on top of the real mem.Alerts provider and a real
// Inhibitor, under virtual time; submission histories per label set on an
// instant grid, interleaved with the provider's GC and reads.
//
//	case <id> rt=<ns> pgc=<ns>
//	post <now> <a1|a2|…>      -> <http code> <dump>       a = labels@start@end@payload@annNames ('-' = missing)
//	get <now>                 -> <http code> <items> <dump>
//	wait <now>                -> <dump>
//	getc <now>                -> <http code> <dump>       GET /api/v2/alerts whose request context is already cancelled (the client went away)
//	update <now> <rt>         -> ok|blocked <dump>        a configuration reload reaches the API: API.Update (same routes, resolve_timeout rt)
//
// Once an `update` did not return the API is unusable (every handler queues behind the waiting writer):
// the remaining post / get / getc / update ops of the case answer `wedged` without calling it.
//
// dump  = provider content: labels@start@end@updated@timeout@payload;… (sorted)
// items = GET result: labels@start@end@updated@state@inhibitedBy@receivers;… (sorted)
package ingest

import (
	"bytes"
	"context"
	"encoding/json"
	"fmt"
	"math/rand/v2"
	"net/http/httptest"
	"sort"
	"strings"
	"testing"
	"testing/synctest"
	"time"

	"github.com/prometheus/client_golang/prometheus"
	"github.com/prometheus/common/model"
	"github.com/prometheus/common/promslog"

	apiv2 "github.com/prometheus/alertmanager/api/v2"
	"github.com/prometheus/alertmanager/config"
	amcommoncfg "github.com/prometheus/alertmanager/config/common"
	"github.com/prometheus/alertmanager/eventrecorder"
	"github.com/prometheus/alertmanager/inhibit"
	"github.com/prometheus/alertmanager/pkg/labels"
	"github.com/prometheus/alertmanager/provider/mem"

	"verif/harness/hx"
)

const (
	second = int64(time.Second)
	minute = int64(time.Minute)
	ms     = int64(time.Millisecond)
	tfmt   = "2006-01-02T15:04:05.000Z07:00"
)

// The fixed configuration of the engine (mirrored in lean/Driver/Ingest.lean).
const cfgYAML = `
global:
  resolve_timeout: %s
route:
  receiver: r0
  routes:
  - receiver: r1
    matchers: [ 'sev="crit"' ]
    continue: true
  - receiver: r2
    matchers: [ 'role=~"src|both"' ]
receivers:
- name: r0
- name: r1
- name: r2
`

func encLabels(ls map[string]string) string {
	var p []string
	for n, v := range ls {
		p = append(p, n+"="+hx.Hex(v))
	}
	sort.Strings(p)
	return hx.Join(p, ",")
}

func decLabels(s string) map[string]string {
	ls := map[string]string{}
	for _, p := range hx.Split(s, ",") {
		i := strings.Index(p, "=")
		ls[p[:i]] = hx.Unhex(p[i+1:])
	}
	return ls
}

type world struct {
	t0     time.Time
	alerts *mem.Alerts
	ih     *inhibit.Inhibitor
	api    *apiv2.API
	known  map[string]string // fingerprint string -> encoded labels
	wedged bool              // an API.Update did not return
}

// API.Update is run by a goroutine OUTSIDE the synctest bubble and bounded in real time: a goroutine
// waiting for a sync.RWMutex is not durably blocked, so inside the bubble neither synctest.Wait nor a
// virtual timer would ever get past it, and a goroutine stuck for ever could not be stopped before
// the bubble ends.  Update only takes api.mtx and stores the configuration, the route tree
// (dispatch.NewRoute: pure) and the callback; channels used across the bubble boundary are package
// level (created outside any bubble).
type updJob struct {
	api *apiv2.API
	cfg *config.Config
	fn  func(context.Context, model.LabelSet)
}

var (
	updc     = make(chan updJob)
	updReply = make(chan string)
	// generous: on the unchanged tree Update returns within microseconds, the bound is only ever
	// waited out when the API is wedged
	updBound = 10 * time.Second
	wedges   = 0
)

func updWorker() {
	for j := range updc {
		done := make(chan struct{})
		go func() {
			j.api.Update(j.cfg, j.fn)
			close(done)
		}()
		select {
		case <-done:
			updReply <- "ok"
		case <-time.After(updBound):
			updReply <- "blocked"
		}
	}
}

func (w *world) sleepTo(off int64) {
	if d := w.t0.Add(time.Duration(off)).Sub(time.Now()); d > 0 {
		time.Sleep(d)
	}
	synctest.Wait()
}

func (w *world) ts(off string) string {
	return w.t0.Add(time.Duration(hx.Atoi64(off))).UTC().Format(tfmt)
}

func (w *world) rel(s string) int64 {
	t, err := time.Parse(time.RFC3339Nano, s)
	if err != nil {
		panic(err)
	}
	return int64(t.Sub(w.t0))
}

func (w *world) dump() string {
	it := w.alerts.GetPending()
	var p []string
	for a := range it.Next() {
		d := a.Data
		to := 0
		if d.Timeout {
			to = 1
		}
		ls := map[string]string{}
		for n, v := range d.Labels {
			ls[string(n)] = string(v)
		}
		pl := string(d.Annotations["v"])
		if pl == "" {
			pl = "-"
		}
		p = append(p, fmt.Sprintf("%s@%d@%d@%d@%d@%s", encLabels(ls), d.StartsAt.Sub(w.t0), d.EndsAt.Sub(w.t0), d.UpdatedAt.Sub(w.t0), to, pl))
	}
	it.Close()
	sort.Strings(p)
	return hx.Join(p, ";")
}

type gettable struct {
	Labels    map[string]string `json:"labels"`
	StartsAt  string            `json:"startsAt"`
	EndsAt    string            `json:"endsAt"`
	UpdatedAt string            `json:"updatedAt"`
	Receivers []struct {
		Name string `json:"name"`
	} `json:"receivers"`
	Status struct {
		State       string   `json:"state"`
		InhibitedBy []string `json:"inhibitedBy"`
		SilencedBy  []string `json:"silencedBy"`
	} `json:"status"`
}

func (w *world) exec(line string) string {
	t := strings.Fields(line)
	if w.wedged && t[0] != "wait" {
		return "wedged"
	}
	switch t[0] {
	case "getc":
		w.sleepTo(hx.Atoi64(t[1]))
		ctx, cancel := context.WithCancel(context.Background())
		cancel()
		req := httptest.NewRequest("GET", "/api/v2/alerts", nil).WithContext(ctx)
		rec := httptest.NewRecorder()
		w.api.Handler.ServeHTTP(rec, req)
		synctest.Wait()
		return fmt.Sprintf("%d %s", rec.Code, w.dump())
	case "update":
		w.sleepTo(hx.Atoi64(t[1]))
		cfg, err := config.Load(fmt.Sprintf(cfgYAML, model.Duration(hx.Atoi64(t[2])).String()))
		if err != nil {
			panic(err)
		}
		updc <- updJob{w.api, cfg, func(ctx context.Context, ls model.LabelSet) { w.ih.Mutes(ctx, ls) }}
		res := <-updReply
		if res != "ok" {
			w.wedged = true
			wedges++
		}
		return fmt.Sprintf("%s %s", res, w.dump())
	case "post":
		w.sleepTo(hx.Atoi64(t[1]))
		var body []map[string]any
		for _, as := range hx.Split(t[2], "|") {
			f := strings.Split(as, "@")
			ls := decLabels(f[0])
			m := map[string]any{"labels": ls}
			ann := map[string]string{}
			if f[3] != "-" {
				ann["v"] = f[3]
			}
			for _, n := range hx.Split(f[4], ".") {
				ann[hx.Unhex(n)] = "x"
			}
			m["annotations"] = ann
			if f[1] != "-" {
				m["startsAt"] = w.ts(f[1])
			}
			if f[2] != "-" {
				m["endsAt"] = w.ts(f[2])
			}
			body = append(body, m)
			// remember the fingerprint of the cleaned label set
			fl := model.LabelSet{}
			cl := map[string]string{}
			for n, v := range ls {
				if v != "" {
					fl[model.LabelName(n)] = model.LabelValue(v)
					cl[n] = v
				}
			}
			w.known[fl.Fingerprint().String()] = encLabels(cl)
		}
		b, _ := json.Marshal(body)
		req := httptest.NewRequest("POST", "/api/v2/alerts", bytes.NewReader(b))
		req.Header.Set("Content-Type", "application/json")
		rec := httptest.NewRecorder()
		w.api.Handler.ServeHTTP(rec, req)
		synctest.Wait()
		return fmt.Sprintf("%d %s", rec.Code, w.dump())
	case "get":
		w.sleepTo(hx.Atoi64(t[1]))
		req := httptest.NewRequest("GET", "/api/v2/alerts", nil)
		rec := httptest.NewRecorder()
		w.api.Handler.ServeHTTP(rec, req)
		synctest.Wait()
		if rec.Code != 200 {
			return fmt.Sprintf("%d - %s", rec.Code, w.dump())
		}
		var res []gettable
		if err := json.Unmarshal(rec.Body.Bytes(), &res); err != nil {
			return "badjson - " + w.dump()
		}
		var items []string
		for _, g := range res {
			var by []string
			for _, fp := range g.Status.InhibitedBy {
				if e, ok := w.known[fp]; ok {
					by = append(by, e)
				} else {
					by = append(by, "?"+fp)
				}
			}
			sort.Strings(by)
			var rc []string
			for _, r := range g.Receivers {
				rc = append(rc, r.Name)
			}
			st := g.Status.State
			if len(g.Status.SilencedBy) > 0 {
				st += "+silenced"
			}
			items = append(items, fmt.Sprintf("%s@%d@%d@%d@%s@%s@%s", encLabels(g.Labels), w.rel(g.StartsAt), w.rel(g.EndsAt), w.rel(g.UpdatedAt), st, hx.Join(by, "|"), hx.Join(rc, ".")))
		}
		sort.Strings(items)
		return fmt.Sprintf("%d %s %s", rec.Code, hx.Join(items, ";"), w.dump())
	case "wait":
		w.sleepTo(hx.Atoi64(t[1]))
		return w.dump()
	}
	panic("bad op " + line)
}

// ---- generator ----

type postAlert struct {
	labels     map[string]string
	start, end string // offsets or "-"
	payload    string
	annNames   []string
}

func (p postAlert) String() string {
	an := make([]string, len(p.annNames))
	for i, n := range p.annNames {
		an[i] = hx.Hex(n)
	}
	return fmt.Sprintf("%s@%s@%s@%s@%s", encLabels(p.labels), p.start, p.end, p.payload, hx.Join(an, "."))
}

func genLabels(r *rand.Rand) map[string]string {
	switch r.IntN(6) {
	case 0: // the only two label sets on the source side of the inhibit rule
		return map[string]string{"alertname": "Root", "e": hx.Pick(r, []string{"1", "2"})}
	default:
		ls := map[string]string{"alertname": hx.Pick(r, []string{"A", "B"}), "sev": hx.Pick(r, []string{"crit", "warn", "info"})}
		if r.IntN(3) > 0 {
			ls["e"] = hx.Pick(r, []string{"1", "2"})
		}
		if r.IntN(3) == 0 {
			ls["role"] = hx.Pick(r, []string{"src", "tgt", "both"})
		}
		return ls
	}
}

func runCase(t *testing.T, tr *hx.Trace, id int, r *rand.Rand, script []string) {
	synctest.Test(t, func(t *testing.T) {
		var (
			rt, pgc int64
			header  string
		)
		if script != nil {
			header = script[0]
			for _, f := range strings.Fields(header) {
				if strings.HasPrefix(f, "rt=") {
					rt = hx.Atoi64(f[3:])
				}
				if strings.HasPrefix(f, "pgc=") {
					pgc = hx.Atoi64(f[4:])
				}
			}
		} else {
			rt = hx.Pick(r, []int64{minute, 5 * minute, 2 * minute})
			pgc = hx.Pick(r, []int64{3 * minute, 10 * minute, 30 * minute})
			header = fmt.Sprintf("case %d rt=%d pgc=%d", id, rt, pgc)
		}
		tr.Linef("%s", header)

		ctx, cancel := context.WithCancel(context.Background())
		w := &world{t0: time.Now(), known: map[string]string{}}
		var err error
		reg := prometheus.NewRegistry()
		w.alerts, err = mem.NewAlerts(ctx, time.Duration(pgc), 0, nil, promslog.NewNopLogger(), eventrecorder.NopRecorder(), reg, nil)
		if err != nil {
			t.Fatal(err)
		}
		src, _ := labels.NewMatcher(labels.MatchEqual, "alertname", "Root")
		tgt, _ := labels.NewMatcher(labels.MatchRegexp, "sev", "warn|info")
		w.ih = inhibit.NewInhibitor(w.alerts, []amcommoncfg.InhibitRule{{SourceMatchers: amcommoncfg.Matchers{src}, TargetMatchers: amcommoncfg.Matchers{tgt}, Equal: []string{"e"}}},
			promslog.NewNopLogger(), eventrecorder.NopRecorder())
		go w.ih.Run()
		w.ih.WaitForLoading()
		w.api, err = apiv2.NewAPI(w.alerts, nil, nil, nil, nil, promslog.NewNopLogger(), reg)
		if err != nil {
			t.Fatal(err)
		}
		cfg, err := config.Load(fmt.Sprintf(cfgYAML, model.Duration(rt).String()))
		if err != nil {
			t.Fatal(err)
		}
		w.api.Update(cfg, func(ctx context.Context, ls model.LabelSet) { w.ih.Mutes(ctx, ls) })
		synctest.Wait()
		defer func() {
			w.ih.Stop()
			w.alerts.Close()
			cancel()
			synctest.Wait()
		}()

		do := func(line string) { tr.Linef("%s -> %s", line, w.exec(line)) }
		if script != nil {
			for _, l := range script[1:] {
				do(l)
			}
			return
		}
		pool := []map[string]string{}
		for range 3 + r.IntN(3) {
			pool = append(pool, genLabels(r))
		}
		now := int64(0)
		payload := 0
		// the end last submitted for a label set (empty-valued labels dropped): a later submission sometimes starts at exactly that instant
		lastEnd := map[string]string{}
		cleanKey := func(ls map[string]string) string {
			cl := map[string]string{}
			for k, v := range ls {
				if v != "" {
					cl[k] = v
				}
			}
			return encLabels(cl)
		}
		half := 30 * second
		nops := 4 + r.IntN(9)
		for range nops {
			// instants: mostly on the 30 s grid, sometimes just off it
			switch r.IntN(6) {
			case 0:
				now += ms
			case 1:
				now = (now/half+1)*half + ms*int64(1+r.IntN(3))
			default:
				now = (now/half + 1 + int64(r.IntN(8))) * half
			}
			if r.IntN(12) == 0 {
				now = (now/half + int64(10+r.IntN(60))) * half
			}
			switch x := r.IntN(10); {
			case x < 6:
				n := 1 + r.IntN(3)
				var batch []string
				for range n {
					payload++
					ls := map[string]string{}
					for k, v := range hx.Pick(r, pool) {
						ls[k] = v
					}
					if r.IntN(12) == 0 {
						ls = genLabels(r)
					}
					p := postAlert{labels: ls, start: "-", end: "-", payload: fmt.Sprint(payload)}
					g := func(lo, hi int) string { return fmt.Sprint((now/half + int64(lo+r.IntN(hi-lo+1))) * half) }
					switch r.IntN(7) {
					case 0: // neither
					case 1: // end only, future
						p.end = g(1, 8)
					case 2: // end only, past or now
						p.end = g(-4, 0)
						if r.IntN(3) == 0 {
							p.end = fmt.Sprint(now)
						}
					case 3: // start only
						p.start = g(-6, 1)
					default: // both
						p.start = g(-8, 2)
						p.end = g(-6, 10)
						if r.IntN(8) > 0 && hx.Atoi64(p.end) < hx.Atoi64(p.start) {
							p.start, p.end = p.end, p.start
						}
					}
					if e, ok := lastEnd[cleanKey(ls)]; ok && r.IntN(5) == 0 {
						// the alert fires again starting at the very instant its previous episode ended (no overlap: a new episode)
						p.start = e
						p.end = "-"
						if r.IntN(2) == 0 {
							p.end = fmt.Sprint(hx.Atoi64(e) + int64(r.IntN(8))*half)
						}
					}
					switch r.IntN(24) {
					case 0:
						p.labels = map[string]string{}
					case 1:
						p.labels = map[string]string{"alertname": "", "sev": ""}
					case 2:
						p.labels[hx.Pick(r, []string{"a-b", "1x", "a.b"})] = "x"
					case 3:
						p.annNames = []string{hx.Pick(r, []string{"a-b", "9"})}
					case 4, 5:
						p.labels[hx.Pick(r, []string{"role", "zz", "e"})] = "" // empty-valued: dropped before fingerprinting
					}
					if p.end != "-" {
						lastEnd[cleanKey(p.labels)] = p.end
					}
					batch = append(batch, p.String())
				}
				do(fmt.Sprintf("post %d %s", now, strings.Join(batch, "|")))
				if r.IntN(2) == 0 {
					do(fmt.Sprintf("get %d", now))
				}
			case x < 9:
				do(fmt.Sprintf("get %d", now))
			default:
				do(fmt.Sprintf("wait %d", now))
			}
			// a client that went away before the listing started; a configuration reload (now or some ops later)
			if r.IntN(8) == 0 {
				do(fmt.Sprintf("getc %d", now))
				if r.IntN(2) == 0 {
					rt = hx.Pick(r, []int64{minute, 5 * minute, 2 * minute})
					do(fmt.Sprintf("update %d %d", now, rt))
				}
			} else if r.IntN(8) == 0 {
				rt = hx.Pick(r, []int64{minute, 5 * minute, 2 * minute})
				do(fmt.Sprintf("update %d %d", now, rt))
			}
		}
	})
}

func TestEngine(t *testing.T) {
	tr := hx.Open()
	defer tr.Close()
	go updWorker()
	if s := hx.Script(); s != nil {
		var cur []string
		n := 0
		flush := func() {
			if cur != nil {
				runCase(t, tr, n, nil, cur)
				n++
			}
		}
		for _, l := range s {
			if strings.HasPrefix(l, "case ") {
				flush()
				cur = []string{l}
			} else if cur != nil {
				cur = append(cur, l)
			}
		}
		flush()
		return
	}
	r := hx.Rand(13)
	for id := range hx.Cases(4000, 80000) {
		if wedges >= 2 {
			break // every further case that reloads after an aborted read would wait out the bound
		}
		runCase(t, tr, id, r, nil)
	}
}
