// Engine `timeint` (C15): interval specifications are rendered as YAML/JSON and
// parsed by the REAL unmarshallers (timeinterval.* and config.Load); the real
// ContainsTime / Intervener.Mutes / TimeMuteStage / TimeActiveStage are then
// evaluated at generated instants.  For every instant the harness also writes
// what Go's time package says about it in every zone of the case (offset and
// civil fields), so that the Lean driver can (a) check its own calendar against
// Go's, (b) replay the model, (c) evaluate the spec predicate on Go's fields.
//
// Lines (DESIGN §2.3 protocol; strings hex, lists ','/';' joined, '-' empty):
//
//	case <id> kind=<gen|edge|bad>
//	set <namehex> <ti|mti>
//	iv <style> <times> <weekdays> <days_of_month> <months> <years> <loc>      -> ok <times> <wd> <dom> <mon> <yr> locok=<0|1> | err locok=<0|1>
//	     field: nil (key absent) | null (explicit null) | - (empty list) | item;item…   item = 'x'+hex (times item = xstart,xend; x00 = key omitted)
//	     style: 0 flow single-quoted, 1 flow unquoted where safe, 2 JSON, 3 block
//	load <routes>                                                             -> ok | err
//	     routes: r;r;…  r = mutenames/activenames, names ','-joined hex
//	z <unix> <zonehex,zonehex…>                                               -> zone:off:y:m:d:wd:h:mi:dim:dimloc …   (dim: month length, calendar; dimloc: the pinned expression evaluated in the zone, diagnostic)
//	c <unix> <callerzonehex>                                                  -> bits.bits.…   (one group per set, '-' empty set)
//	m <unix> <names> [<callerzonehex>]                                        -> <0|1> <names|-> | err
//	st <unix|nonow> <a|m|p> <mutenames|nokey> <activenames|nokey> <n> <route> [<callerzonehex>] -> <nout> <err> <muted> <markernames|->
//	local <zonehex>                                                           (time.Local for the rest of the case; UTC at the start of every case)
//
// Caller zones.  A Go time.Time is an instant plus a location.  C15 is about the
// instant: `m` and `st` hand the SAME instant to Intervener.Mutes / put it into
// the stage's context carried in the caller zone given on the line (default
// UTC): an IANA zone, `Fixed/<seconds east>` (time.FixedZone) or `Local`
// (time.Unix(u, 0) as it is: the process's zone, which is what the
// dispatcher's timer instants carry; the `local` op sets it).
package timeint

import (
	"context"
	"encoding/hex"
	"encoding/json"
	"fmt"
	"math/rand/v2"
	"os"
	"reflect"
	"regexp"
	"strconv"
	"strings"
	"testing"
	"time"
	_ "time/tzdata" // fallback when the system has no zoneinfo

	"github.com/prometheus/client_golang/prometheus"
	"github.com/prometheus/common/model"
	"github.com/prometheus/common/promslog"
	"gopkg.in/yaml.v2"

	"github.com/prometheus/alertmanager/alert"
	"github.com/prometheus/alertmanager/config"
	"github.com/prometheus/alertmanager/featurecontrol"
	"github.com/prometheus/alertmanager/marker"
	"github.com/prometheus/alertmanager/notify"
	"github.com/prometheus/alertmanager/timeinterval"

	"verif/harness/hx"
)

// ---------- specification of one interval (raw strings) ----------

type field struct {
	state string // "nil", "null", "list"
	items []string
}

type spec struct {
	style                 int
	times                 field // items "start,end" (raw, not hex)
	wd, dom, mon, yr, loc field // loc: state nil|list with one item
}

// items carry an 'x' prefix so that an empty string stays distinguishable from the empty list
func ihex(s string) string { return "x" + hex.EncodeToString([]byte(s)) }

func iunhex(s string) string {
	b, err := hex.DecodeString(s[1:])
	if err != nil {
		panic(err)
	}
	return string(b)
}

func encField(f field, pair bool) string {
	if f.state != "list" {
		return f.state
	}
	if len(f.items) == 0 {
		return "-"
	}
	out := make([]string, len(f.items))
	for i, it := range f.items {
		if pair {
			p := strings.SplitN(it, ",", 2)
			out[i] = ihex(p[0]) + "," + ihex(p[1])
		} else {
			out[i] = ihex(it)
		}
	}
	return strings.Join(out, ";")
}

func decField(s string, pair bool) field {
	switch s {
	case "nil", "null":
		return field{state: s}
	case "-":
		return field{state: "list"}
	}
	f := field{state: "list"}
	for _, it := range strings.Split(s, ";") {
		if pair {
			p := strings.SplitN(it, ",", 2)
			f.items = append(f.items, iunhex(p[0])+","+iunhex(p[1]))
		} else {
			f.items = append(f.items, iunhex(it))
		}
	}
	return f
}

func (s spec) tokens() string {
	return fmt.Sprintf("%d %s %s %s %s %s %s", s.style, encField(s.times, true), encField(s.wd, false),
		encField(s.dom, false), encField(s.mon, false), encField(s.yr, false), encField(s.loc, false))
}

func parseSpecTokens(t []string) spec {
	st, _ := strconv.Atoi(t[0])
	return spec{style: st, times: decField(t[1], true), wd: decField(t[2], false), dom: decField(t[3], false),
		mon: decField(t[4], false), yr: decField(t[5], false), loc: decField(t[6], false)}
}

var safePlain = regexp.MustCompile(`^(-?[0-9]+|[A-Za-z][A-Za-z0-9_/]*)(:(-?[0-9]+|[A-Za-z][A-Za-z0-9_/]*))?$`)
var yamlWords = map[string]bool{"null": true, "true": true, "false": true, "yes": true, "no": true, "on": true, "off": true, "y": true, "n": true}

func scalar(s string, style int) string {
	switch style {
	case 2:
		b, _ := json.Marshal(s)
		return string(b)
	case 1:
		if safePlain.MatchString(s) && !yamlWords[strings.ToLower(s)] {
			return s
		}
	}
	return "'" + strings.ReplaceAll(s, "'", "''") + "'"
}

func key(k string, style int) string {
	if style == 2 {
		return `"` + k + `":`
	}
	return k + ": "
}

// flow renders the interval as one flow mapping (styles 0, 1, 2).
func (s spec) flow() string {
	st := s.style
	var parts []string
	add := func(k string, f field, pair bool) {
		switch f.state {
		case "nil":
			return
		case "null":
			if st == 2 {
				parts = append(parts, key(k, st)+"null")
			} else {
				parts = append(parts, key(k, st)+"~")
			}
			return
		}
		items := make([]string, len(f.items))
		for i, it := range f.items {
			if pair {
				p := strings.SplitN(it, ",", 2)
				var kv []string
				if p[0] != "\x00" {
					kv = append(kv, key("start_time", st)+scalar(p[0], st))
				}
				if p[1] != "\x00" {
					kv = append(kv, key("end_time", st)+scalar(p[1], st))
				}
				items[i] = "{" + strings.Join(kv, ", ") + "}"
			} else {
				items[i] = scalar(it, st)
			}
		}
		parts = append(parts, key(k, st)+"["+strings.Join(items, ", ")+"]")
	}
	add("times", s.times, true)
	add("weekdays", s.wd, false)
	add("days_of_month", s.dom, false)
	add("months", s.mon, false)
	add("years", s.yr, false)
	if s.loc.state == "list" {
		parts = append(parts, key("location", st)+scalar(s.loc.items[0], st))
	} else if s.loc.state == "null" {
		if st == 2 {
			parts = append(parts, key("location", st)+"null")
		} else {
			parts = append(parts, key("location", st)+"~")
		}
	}
	return "{" + strings.Join(parts, ", ") + "}"
}

// block renders the interval in block style (style 3); lines without indentation.
func (s spec) block() []string {
	var out []string
	add := func(k string, f field, pair bool) {
		switch f.state {
		case "nil":
			return
		case "null":
			out = append(out, k+":")
			return
		}
		if len(f.items) == 0 {
			out = append(out, k+": []")
			return
		}
		out = append(out, k+":")
		for _, it := range f.items {
			if pair {
				p := strings.SplitN(it, ",", 2)
				first := true
				emit := func(l string) {
					if first {
						out = append(out, "- "+l)
						first = false
					} else {
						out = append(out, "  "+l)
					}
				}
				if p[0] != "\x00" {
					emit("start_time: " + scalar(p[0], 0))
				}
				if p[1] != "\x00" {
					emit("end_time: " + scalar(p[1], 0))
				}
				if first {
					out = append(out, "- {}")
				}
			} else {
				out = append(out, "- "+scalar(it, 0))
			}
		}
	}
	add("times", s.times, true)
	add("weekdays", s.wd, false)
	add("days_of_month", s.dom, false)
	add("months", s.mon, false)
	add("years", s.yr, false)
	if s.loc.state == "list" {
		out = append(out, "location: "+scalar(s.loc.items[0], 0))
	} else if s.loc.state == "null" {
		out = append(out, "location:")
	}
	if len(out) == 0 {
		out = []string{"{}"}
	}
	return out
}

// parseOne runs the interval's text through the real unmarshaller on its own.
func (s spec) parseOne() (timeinterval.TimeInterval, error) {
	var ti timeinterval.TimeInterval
	switch s.style {
	case 2:
		return ti, json.Unmarshal([]byte(s.flow()), &ti)
	case 3:
		return ti, yaml.UnmarshalStrict([]byte(strings.Join(s.block(), "\n")+"\n"), &ti)
	}
	return ti, yaml.UnmarshalStrict([]byte(s.flow()+"\n"), &ti)
}

func fmtIR(n int, get func(int) (int, int), isNil bool) string {
	if isNil {
		return "nil"
	}
	if n == 0 {
		return "-"
	}
	out := make([]string, n)
	for i := range out {
		b, e := get(i)
		out[i] = fmt.Sprintf("%d.%d", b, e)
	}
	return strings.Join(out, ",")
}

func dumpTI(ti timeinterval.TimeInterval) string {
	return strings.Join([]string{
		fmtIR(len(ti.Times), func(i int) (int, int) { return ti.Times[i].StartMinute, ti.Times[i].EndMinute }, ti.Times == nil),
		fmtIR(len(ti.Weekdays), func(i int) (int, int) { return ti.Weekdays[i].Begin, ti.Weekdays[i].End }, ti.Weekdays == nil),
		fmtIR(len(ti.DaysOfMonth), func(i int) (int, int) { return ti.DaysOfMonth[i].Begin, ti.DaysOfMonth[i].End }, ti.DaysOfMonth == nil),
		fmtIR(len(ti.Months), func(i int) (int, int) { return ti.Months[i].Begin, ti.Months[i].End }, ti.Months == nil),
		fmtIR(len(ti.Years), func(i int) (int, int) { return ti.Years[i].Begin, ti.Years[i].End }, ti.Years == nil),
	}, " ")
}

// ---------- the world of one case ----------

type namedSet struct {
	name  string
	kind  string // ti | mti
	specs []spec
	ivs   []timeinterval.TimeInterval // parsed one by one
	ok    bool
}

type world struct {
	sets       []*namedSet
	loaded     bool
	intervener *timeinterval.Intervener
	cfgSets    map[string][]timeinterval.TimeInterval
	marker     marker.GroupMarker
	tas        *notify.TimeActiveStage
	tms        *notify.TimeMuteStage
}

func loadLoc(name string) (*time.Location, error) { return time.LoadLocation(name) }

// fixedZones: caller zones without a tz database entry (far east / far west, odd minutes, seconds).
var fixedZones = []string{"Fixed/50400", "Fixed/46800", "Fixed/-43200", "Fixed/-39600", "Fixed/20700", "Fixed/-12600", "Fixed/34200", "Fixed/-16966", "Fixed/3600"}

var locCache = map[string]*time.Location{}

// mustLoc resolves a zone of the protocol (z / c / m / st / local lines): IANA name, UTC, Local, Fixed/<seconds>.
func mustLoc(name string) *time.Location {
	if name == "Local" {
		return time.Local
	}
	if l, ok := locCache[name]; ok {
		return l
	}
	if strings.HasPrefix(name, "Fixed/") {
		secs, err := strconv.Atoi(name[len("Fixed/"):])
		if err != nil {
			panic(err)
		}
		l := time.FixedZone(name, secs)
		locCache[name] = l
		return l
	}
	l, err := loadLoc(name)
	if err == nil {
		locCache[name] = l
	}
	if err != nil {
		panic(err)
	}
	return l
}

func (w *world) configYAML(routes string) string {
	var b strings.Builder
	b.WriteString("route:\n  receiver: r\n")
	rs := hx.Split(routes, ";")
	if len(rs) > 0 {
		b.WriteString("  routes:\n")
		for _, r := range rs {
			p := strings.SplitN(r, "/", 2)
			b.WriteString("  - receiver: r\n")
			for i, k := range []string{"mute_time_intervals", "active_time_intervals"} {
				names := hx.Split(p[i], ",")
				if len(names) == 0 {
					continue
				}
				q := make([]string, len(names))
				for j, n := range names {
					q[j] = scalar(hx.Unhex(n), 0)
				}
				fmt.Fprintf(&b, "    %s: [%s]\n", k, strings.Join(q, ", "))
			}
		}
	}
	b.WriteString("receivers:\n- name: r\n")
	for _, kind := range []string{"ti", "mti"} {
		first := true
		for _, s := range w.sets {
			if s.kind != kind {
				continue
			}
			if first {
				if kind == "ti" {
					b.WriteString("time_intervals:\n")
				} else {
					b.WriteString("mute_time_intervals:\n")
				}
				first = false
			}
			fmt.Fprintf(&b, "- name: %s\n", scalar(s.name, 0))
			if len(s.specs) == 0 {
				b.WriteString("  time_intervals: []\n")
				continue
			}
			b.WriteString("  time_intervals:\n")
			for _, sp := range s.specs {
				if sp.style == 3 {
					for i, l := range sp.block() {
						if i == 0 {
							b.WriteString("  - " + l + "\n")
						} else {
							b.WriteString("    " + l + "\n")
						}
					}
				} else {
					b.WriteString("  - " + sp.flow() + "\n")
				}
			}
		}
	}
	return b.String()
}

func civil(t time.Time) string {
	// month length by Go's own date normalisation, evaluated in UTC (pure calendar)
	dim := time.Date(t.Year(), t.Month()+1, 0, 12, 0, 0, 0, time.UTC).Day()
	// diagnostic only: the same expression evaluated in t's location, as the pinned daysInMonth does (F12)
	dimLoc := time.Date(t.Year(), t.Month()+1, 0, 12, 0, 0, 0, t.Location()).Day()
	_, off := t.Zone()
	return fmt.Sprintf("%d:%d:%d:%d:%d:%d:%d:%d:%d", off, t.Year(), int(t.Month()), t.Day(), int(t.Weekday()), t.Hour(), t.Minute(), dim, dimLoc)
}

func names(tok string) []string {
	var out []string
	for _, n := range hx.Split(tok, ",") {
		out = append(out, hx.Unhex(n))
	}
	return out
}

func encNames(l []string) string {
	out := make([]string, len(l))
	for i, n := range l {
		out[i] = hx.Hex(n)
	}
	return hx.Join(out, ",")
}

// instantIn is the instant u carried in the caller zone given by token i of the line (UTC when absent).
func instantIn(u int64, t []string, i int) time.Time {
	if len(t) <= i {
		return time.Unix(u, 0).UTC()
	}
	if z := hx.Unhex(t[i]); z != "Local" {
		return time.Unix(u, 0).In(mustLoc(z))
	}
	return time.Unix(u, 0) // as time.Now() and timer channels deliver it: in time.Local
}

// exec runs one script line and returns the observation ("" = none).
func (w *world) exec(line string) string {
	t := strings.Fields(line)
	switch t[0] {
	case "set":
		w.sets = append(w.sets, &namedSet{name: hx.Unhex(t[1]), kind: t[2], ok: true})
		return ""
	case "iv":
		sp := parseSpecTokens(t[1:])
		s := w.sets[len(w.sets)-1]
		s.specs = append(s.specs, sp)
		locok := 1
		if sp.loc.state == "list" {
			if _, err := loadLoc(sp.loc.items[0]); err != nil {
				locok = 0
			}
		}
		ti, err := sp.parseOne()
		if err != nil {
			s.ok = false
			return fmt.Sprintf("err locok=%d", locok)
		}
		s.ivs = append(s.ivs, ti)
		return fmt.Sprintf("ok %s locok=%d", dumpTI(ti), locok)
	case "load":
		c, err := config.Load(w.configYAML(t[1]))
		if err != nil {
			return "err"
		}
		// the same map app/reloader.go builds
		m := make(map[string][]timeinterval.TimeInterval)
		for _, ti := range c.MuteTimeIntervals {
			m[ti.Name] = ti.TimeIntervals
		}
		for _, ti := range c.TimeIntervals {
			m[ti.Name] = ti.TimeIntervals
		}
		// harness self-check: the intervals inside the config equal the ones parsed one by one
		for _, s := range w.sets {
			got := m[s.name]
			if len(got) != len(s.ivs) || (len(got) > 0 && !reflect.DeepEqual(got, s.ivs)) {
				panic(fmt.Sprintf("harness: set %q parsed differently inside the config:\n%#v\n%#v", s.name, got, s.ivs))
			}
		}
		w.cfgSets = m
		w.intervener = timeinterval.NewIntervener(m)
		w.marker = marker.NewGroupMarker()
		metrics := notify.NewMetrics(prometheus.NewRegistry(), featurecontrol.NoopFlags{})
		w.tas = notify.NewTimeActiveStage(w.intervener, w.marker, metrics)
		w.tms = notify.NewTimeMuteStage(w.intervener, w.marker, metrics)
		w.loaded = true
		return "ok"
	case "z":
		u := hx.Atoi64(t[1])
		var out []string
		for _, zh := range hx.Split(t[2], ",") {
			out = append(out, zh+":"+civil(time.Unix(u, 0).In(mustLoc(hx.Unhex(zh)))))
		}
		return strings.Join(out, " ")
	case "c":
		u := hx.Atoi64(t[1])
		tm := time.Unix(u, 0).In(mustLoc(hx.Unhex(t[2])))
		var out []string
		for _, s := range w.sets {
			ivs := w.cfgSets[s.name]
			if len(ivs) == 0 {
				out = append(out, "-")
				continue
			}
			bits := make([]byte, len(ivs))
			for i, iv := range ivs {
				bits[i] = '0'
				if iv.ContainsTime(tm) {
					bits[i] = '1'
				}
			}
			out = append(out, string(bits))
		}
		return hx.Join(out, ".")
	case "local":
		time.Local = mustLoc(hx.Unhex(t[1]))
		return ""
	case "m":
		u := hx.Atoi64(t[1])
		muted, by, err := w.intervener.Mutes(names(t[2]), instantIn(u, t, 3))
		if err != nil {
			return "err"
		}
		b := 0
		if muted {
			b = 1
		}
		return fmt.Sprintf("%d %s", b, encNames(by))
	case "st":
		ctx := context.Background()
		if t[1] != "nonow" {
			ctx = notify.WithNow(ctx, instantIn(hx.Atoi64(t[1]), t, 7))
		}
		ctx = notify.WithGroupKey(ctx, "g")
		ctx = notify.WithRouteID(ctx, t[6])
		if t[3] != "nokey" {
			ctx = notify.WithMuteTimeIntervals(ctx, names(t[3]))
		}
		if t[4] != "nokey" {
			ctx = notify.WithActiveTimeIntervals(ctx, names(t[4]))
		}
		n, _ := strconv.Atoi(t[5])
		alerts := make([]*alert.Alert, n)
		for i := range alerts {
			alerts[i] = &alert.Alert{Alert: model.Alert{Labels: model.LabelSet{"a": model.LabelValue(strconv.Itoa(i))}}}
		}
		var stage notify.Stage
		switch t[2] {
		case "a":
			stage = w.tas
		case "m":
			stage = w.tms
		default:
			stage = notify.MultiStage{w.tas, w.tms} // the order notify.PipelineBuilder uses
		}
		_, out, err := stage.Exec(ctx, promslog.NewNopLogger(), alerts...)
		e := 0
		if err != nil {
			e = 1
		}
		by, muted := w.marker.Muted(t[6], "g")
		mu := 0
		if muted {
			mu = 1
		}
		return fmt.Sprintf("%d %d %d %s", len(out), e, mu, encNames(by))
	}
	panic("bad op " + line)
}

// ---------- zones and their transitions ----------

var zoneNames = []string{
	"Europe/Berlin", "Europe/London", "Europe/Dublin", "America/New_York", "America/Los_Angeles", "America/Sao_Paulo",
	"America/St_Johns", "Australia/Sydney", "Australia/Lord_Howe", "Pacific/Auckland", "Pacific/Chatham",
	"Asia/Kolkata", "Asia/Kathmandu", "Asia/Tehran", "Asia/Tokyo", "Africa/Cairo", "Africa/Casablanca",
	"Pacific/Apia", "Pacific/Kiritimati", "Antarctica/Troll", "America/Caracas", "Asia/Pyongyang",
}

var (
	scanFrom = time.Date(1850, 1, 1, 0, 0, 0, 0, time.UTC).Unix()
	scanTo   = time.Date(2100, 1, 1, 0, 0, 0, 0, time.UTC).Unix()
)

type transition struct {
	zone string
	at   int64 // first second with the new offset
}

func offsetAt(loc *time.Location, u int64) int {
	_, off := time.Unix(u, 0).In(loc).Zone()
	return off
}

// scanZone finds every change of UTC offset between scanFrom and scanTo: walk in
// 6 h steps; when the offset differs, bisect to the first second with another
// offset and continue from there.
func scanZone(name string) []transition {
	loc := mustLoc(name)
	var out []transition
	const step = 6 * 3600
	u := scanFrom
	prev := offsetAt(loc, u)
	for u < scanTo {
		next := u + step
		if offsetAt(loc, next) == prev {
			u = next
			continue
		}
		a, b := u, next // offset(a) == prev, offset(b) != prev
		for b-a > 1 {
			mid := a + (b-a)/2
			if offsetAt(loc, mid) == prev {
				a = mid
			} else {
				b = mid
			}
		}
		out = append(out, transition{name, b})
		prev = offsetAt(loc, b)
		u = b
	}
	return out
}

var allTransitions []transition
var transByZone = map[string][]transition{}

// allSystemZones lists the canonical zones of the system's zone1970.tab (thorough tier).
func allSystemZones() []string {
	b, err := os.ReadFile("/usr/share/zoneinfo/zone1970.tab")
	if err != nil {
		return nil
	}
	var out []string
	for _, l := range strings.Split(string(b), "\n") {
		if l == "" || l[0] == '#' {
			continue
		}
		if f := strings.Split(l, "\t"); len(f) >= 3 {
			out = append(out, f[2])
		}
	}
	return out
}

func initZones(t *testing.T) {
	var have []string
	if hx.Thorough() {
		zoneNames = uniq(append(zoneNames, allSystemZones()...))
	}
	for _, z := range zoneNames {
		if _, err := time.LoadLocation(z); err != nil {
			t.Logf("zone %s unavailable: %v", z, err)
			continue
		}
		have = append(have, z)
	}
	if len(have) < 12 {
		t.Fatalf("only %d IANA zones available", len(have))
	}
	zoneNames = have
	for _, z := range zoneNames {
		tr := scanZone(z)
		transByZone[z] = tr
		allTransitions = append(allTransitions, tr...)
	}
}

// ---------- generator ----------

type gen struct {
	r *rand.Rand
}

func (g *gen) p(num, den int) bool { return g.r.IntN(den) < num }

var wdNames = []string{"sunday", "monday", "tuesday", "wednesday", "thursday", "friday", "saturday"}
var monNames = []string{"", "january", "february", "march", "april", "may", "june", "july", "august", "september", "october", "november", "december"}

func (g *gen) caseVar(s string) string {
	switch g.r.IntN(6) {
	case 0:
		return strings.ToUpper(s)
	case 1:
		return strings.ToUpper(s[:1]) + s[1:]
	}
	return s
}

func hhmm(m int) string { return fmt.Sprintf("%02d:%02d", m/60, m%60) }

func (g *gen) rangeStr(a, b string) string {
	if a == b && g.p(3, 4) {
		return a
	}
	return a + ":" + b
}

func clampI(v, lo, hi int) int {
	if v < lo {
		return lo
	}
	if v > hi {
		return hi
	}
	return v
}

type clock struct {
	y, mo, d, wd, mod, dim int
}

func clockOf(t time.Time) clock {
	return clock{t.Year(), int(t.Month()), t.Day(), int(t.Weekday()), t.Hour()*60 + t.Minute(),
		time.Date(t.Year(), t.Month()+1, 0, 12, 0, 0, 0, time.UTC).Day()}
}

func (g *gen) monthTok(m int) string {
	if m >= 1 && m <= 12 && g.p(1, 2) {
		return g.caseVar(monNames[m])
	}
	s := strconv.Itoa(m)
	if g.p(1, 12) {
		s = "0" + s
	}
	if g.p(1, 20) && m >= 0 {
		s = "+" + s
	}
	return s
}

// field generators: `k` (optional) biases the ranges towards a clock reading so
// that verdicts are not almost always "outside".
func (g *gen) timesField(k *clock) field {
	f := field{state: "list"}
	for range 1 + g.r.IntN(3) {
		var a, b int
		if k != nil && g.p(2, 3) {
			a = clampI(k.mod-g.r.IntN(3)*g.r.IntN(40), 0, 1439)
			switch g.r.IntN(4) {
			case 0:
				b = k.mod // exclusive end: the reading is just outside
			case 1:
				b = k.mod + 1
			default:
				b = k.mod + 1 + g.r.IntN(90)
			}
			if g.p(1, 6) {
				a = clampI(k.mod+1, 0, 1439) // starts one minute later
			}
			b = clampI(b, 0, 1440)
			if b <= a {
				b = clampI(a+1+g.r.IntN(30), a+1, 1440)
			}
		} else {
			a = g.r.IntN(1440)
			if g.p(1, 2) {
				a = a / 60 * 60
			}
			b = a + 1 + g.r.IntN(1440-a)
			if g.p(1, 5) {
				b = 1440
			}
			if g.p(1, 8) {
				a = 0
			}
		}
		f.items = append(f.items, hhmm(a)+","+hhmm(b))
	}
	return f
}

func (g *gen) wdField(k *clock) field {
	f := field{state: "list"}
	for range 1 + g.r.IntN(2) {
		var a, b int
		if k != nil && g.p(2, 3) {
			a = clampI(k.wd-g.r.IntN(3), 0, 6)
			b = clampI(k.wd+g.r.IntN(3)-g.r.IntN(2), a, 6)
			if g.p(1, 6) {
				a = clampI(k.wd+1, 0, 6)
				b = clampI(a+g.r.IntN(2), a, 6)
			}
		} else {
			a = g.r.IntN(7)
			b = a + g.r.IntN(7-a)
		}
		f.items = append(f.items, g.rangeStr(g.caseVar(wdNames[a]), g.caseVar(wdNames[b])))
	}
	return f
}

func (g *gen) domField(k *clock) field {
	f := field{state: "list"}
	for range 1 + g.r.IntN(2) {
		var a, b int
		form := g.r.IntN(5) // 0,1 positive; 2,3 negative; 4 mixed
		d, dim := 1+g.r.IntN(31), 28+g.r.IntN(4)
		if k != nil && g.p(3, 4) {
			d, dim = k.d, k.dim
		}
		switch {
		case form < 2:
			a = clampI(d-g.r.IntN(3), 1, 31)
			b = clampI(d+g.r.IntN(4)-1, a, 31)
			if g.p(1, 5) {
				b = 31
			}
			if g.p(1, 8) {
				a, b = clampI(dim+g.r.IntN(3), 1, 31), 31 // begins at / after the month's end
			}
		case form < 4:
			n := d - dim - 1 // the negative index of day d
			a = clampI(n-g.r.IntN(3), -31, -1)
			b = clampI(n+g.r.IntN(4)-1, a, -1)
			if g.p(1, 6) {
				a = -31
			}
			if g.p(1, 8) {
				a, b = clampI(-dim-1+g.r.IntN(3), -31, -1), clampI(-dim+g.r.IntN(3), -31, -1)
				if b < a {
					b = a
				}
			}
		default:
			a = clampI(d-g.r.IntN(3), 1, 27)
			n := d - dim - 1
			b = clampI(n+g.r.IntN(4)-1, -28, -1)
			if a > 28+b { // the parser's "always before" check
				a = clampI(28+b, 1, 27)
				if a > 28+b {
					b = -1
				}
			}
		}
		f.items = append(f.items, g.rangeStr(strconv.Itoa(a), strconv.Itoa(b)))
	}
	return f
}

func (g *gen) monField(k *clock) field {
	f := field{state: "list"}
	for range 1 + g.r.IntN(2) {
		var a, b int
		if k != nil && g.p(2, 3) {
			a = clampI(k.mo-g.r.IntN(3), 1, 12)
			b = clampI(k.mo+g.r.IntN(3)-g.r.IntN(2), a, 12)
			if g.p(1, 6) {
				a = clampI(k.mo+1, 1, 12)
				b = clampI(a+g.r.IntN(2), a, 12)
			}
		} else {
			a = 1 + g.r.IntN(12)
			b = a + g.r.IntN(13-a)
		}
		if g.p(1, 25) { // the parser does not range-check months
			a, b = g.r.IntN(2), 12+g.r.IntN(3)
		}
		f.items = append(f.items, g.rangeStr(g.monthTok(a), g.monthTok(b)))
	}
	return f
}

func (g *gen) yrField(k *clock) field {
	f := field{state: "list"}
	for range 1 + g.r.IntN(2) {
		var a, b int
		if k != nil && g.p(3, 4) {
			a = k.y - g.r.IntN(3)
			b = k.y + g.r.IntN(3) - g.r.IntN(2)
			if g.p(1, 6) {
				a = k.y + 1
			}
			if b < a {
				b = a
			}
		} else {
			a = 1880 + g.r.IntN(240)
			b = a + g.r.IntN(30)
		}
		if g.p(1, 40) {
			a = -g.r.IntN(50)
		}
		f.items = append(f.items, g.rangeStr(strconv.Itoa(a), strconv.Itoa(b)))
	}
	return f
}

func (g *gen) absent() field {
	if g.p(1, 10) {
		return field{state: "null"}
	}
	return field{state: "nil"}
}

// validInterval draws an interval the parser accepts.  loc "" = no location.
func (g *gen) validInterval(k *clock, loc string, pPresent int) spec {
	s := spec{style: g.r.IntN(4)}
	pick := func(mk func(*clock) field) field {
		if g.r.IntN(100) >= pPresent {
			return g.absent()
		}
		if g.p(1, 40) {
			return field{state: "list"} // `[]`: present but empty
		}
		return mk(k)
	}
	s.times = pick(g.timesField)
	s.wd = pick(g.wdField)
	s.dom = pick(g.domField)
	s.mon = pick(g.monField)
	s.yr = pick(g.yrField)
	s.loc = field{state: "nil"}
	if loc != "" {
		s.loc = field{state: "list", items: []string{loc}}
	}
	return s
}

var badTimes = []string{"17:00,09:00", "09:00,09:00", "09:00,24:01", "09:00,25:00", "9:00,17:00", "09:00,17:60", "0900,1700",
	",17:00", "09:00,", "\x00,17:00", "09:00,\x00", "09:00:00,17:00", " 09:00,17:00", "-1:00,17:00", "24:00,24:00", "23:59,24:00",
	"00:00,24:00", "00:00,00:01", "09:00,17:00 ", "09.00,17.00", "24:00,23:00", "1a:00,17:00", "09:5,17:00"}
var badWd = []string{"saturday:sunday", "friday:monday", "mon", "1", "monday:", ":", "", "monday:tuesday:wednesday", "funday",
	"sunday:saturday", "monday :friday", "0:6", "monday:1", "Sunday", "SATURDAY:saturday"}
var badDom = []string{"0", "32", "-32", "0:5", "-5:5", "5:1", "-1:-5", "28:-1", "29:-1", "27:-1", "1:32", "a", "1:", "1:2:3", "1.5", "1e1",
	"0x10", "1_0", " 1", "-0", "00", "+5", "007", "+5:+7", "-31:-31", "31:31", "-31:-1", "1:-1", "27:-2", "-1:1", "--1", "+-1", "1:-32",
	"31:-1", "-28:-29", "-31:31", "-28:28", "-3:30", "-1:31", "", ":", "9223372036854775808", "-9223372036854775808"}
var badMon = []string{"3:1", "december:january", "jan", "13:12", "foo", "", "1:2:3", "0:13", "13", "00:013", "january:3", "+1:december",
	"may:may", "-1:1", "december:13", "1:", ":1", "march:2"}
var badYr = []string{"2022:2020", "abc", "99999999999999999999", "-9223372036854775809", "2020:", "2020", "-5:2020", "+2020:2030",
	"9223372036854775807", "-9223372036854775808:0", "2020:2020:2020", "20_20", "2020.0", "", "0", "٢٠٢٠"}
var badLoc = []string{"Nowhere/Zone", "Mars/Phobos", "../etc/passwd", "Europe/Berlinx", "UTC", "", "Europe/Berlin", "Etc/GMT+3"}

const fuzzAlphabet = "0123456789::--+ a"

func (g *gen) fuzz() string {
	n := g.r.IntN(7)
	b := make([]byte, n)
	for i := range b {
		b[i] = fuzzAlphabet[g.r.IntN(len(fuzzAlphabet))]
	}
	return string(b)
}

// spoil replaces or adds one item from the tricky pools (some of them are in fact valid).
func (g *gen) spoil(s spec) spec {
	if s.style == 1 {
		s.style = 0
	}
	item := func(pool []string) string {
		if g.p(1, 4) {
			return g.fuzz()
		}
		return hx.Pick(g.r, pool)
	}
	put := func(f field, v string) field {
		if f.state != "list" || len(f.items) == 0 || g.p(1, 2) {
			return field{state: "list", items: append(append([]string{}, f.items...), v)}
		}
		it := append([]string{}, f.items...)
		it[g.r.IntN(len(it))] = v
		return field{state: "list", items: it}
	}
	switch g.r.IntN(6) {
	case 0:
		v := hx.Pick(g.r, badTimes)
		if g.p(1, 5) {
			v = g.fuzz() + "," + g.fuzz()
		}
		s.times = put(s.times, v)
	case 1:
		s.wd = put(s.wd, item(badWd))
	case 2:
		s.dom = put(s.dom, item(badDom))
	case 3:
		s.mon = put(s.mon, item(badMon))
	case 4:
		s.yr = put(s.yr, item(badYr))
	default:
		s.loc = field{state: "list", items: []string{hx.Pick(g.r, badLoc)}}
	}
	return s
}

func (g *gen) gridInstant() int64 {
	lo, hi := int64(-2208988800), int64(4102444800) // 1900 … 2100
	if g.p(1, 10) {
		lo, hi = scanFrom, -2208988800
	}
	u := lo + g.r.Int64N(hi-lo)
	u -= ((u % 60) + 60) % 60
	switch g.r.IntN(3) {
	case 0:
		u += 59
	case 1:
		u += int64(g.r.IntN(60))
	}
	return u
}

// boundaryInstant builds a local date-time out of the interval's own bounds.
func (g *gen) boundaryInstant(ti timeinterval.TimeInterval) int64 {
	loc := time.UTC
	if ti.Location != nil {
		loc = ti.Location.Location
	}
	y := 1900 + g.r.IntN(201)
	if len(ti.Years) > 0 && g.p(3, 4) {
		r := hx.Pick(g.r, ti.Years)
		y = hx.Pick(g.r, []int{r.Begin - 1, r.Begin, r.End, r.End + 1})
		if y < 1850 || y > 2150 {
			y = clampI(y, 1850, 2150)
		}
	} else if g.p(1, 3) {
		y = hx.Pick(g.r, []int{1900, 2000, 2024, 2100, 2023, 1996, 1999})
	}
	mo := 1 + g.r.IntN(12)
	if len(ti.Months) > 0 && g.p(3, 4) {
		r := hx.Pick(g.r, ti.Months)
		mo = clampI(hx.Pick(g.r, []int{r.Begin - 1, r.Begin, r.End, r.End + 1}), 1, 12)
	} else if g.p(1, 3) {
		mo = 2
	}
	dim := time.Date(y, time.Month(mo)+1, 0, 12, 0, 0, 0, time.UTC).Day()
	d := 1 + g.r.IntN(dim)
	if len(ti.DaysOfMonth) > 0 && g.p(3, 4) {
		r := hx.Pick(g.r, ti.DaysOfMonth)
		v := hx.Pick(g.r, []int{r.Begin, r.End})
		if v < 0 {
			v = dim + v + 1
		}
		d = clampI(v+g.r.IntN(3)-1, 1, dim)
	} else if g.p(1, 3) {
		d = hx.Pick(g.r, []int{1, 28, 29, 30, 31, dim})
		if d > dim {
			d = dim
		}
	}
	if len(ti.Weekdays) > 0 && g.p(1, 2) {
		// move inside the month to a boundary weekday
		r := hx.Pick(g.r, ti.Weekdays)
		want := ((hx.Pick(g.r, []int{r.Begin - 1, r.Begin, r.End, r.End + 1}) % 7) + 7) % 7
		cur := int(time.Date(y, time.Month(mo), d, 12, 0, 0, 0, time.UTC).Weekday())
		nd := d + (want-cur+7)%7
		if nd > dim {
			nd -= 7
		}
		if nd >= 1 {
			d = nd
		}
	}
	mod := g.r.IntN(1440)
	if len(ti.Times) > 0 && g.p(3, 4) {
		r := hx.Pick(g.r, ti.Times)
		mod = clampI(hx.Pick(g.r, []int{r.StartMinute - 1, r.StartMinute, r.EndMinute - 1, r.EndMinute}), 0, 1439)
	} else if g.p(1, 3) {
		mod = hx.Pick(g.r, []int{0, 1, 1439, 720})
	}
	sec := hx.Pick(g.r, []int{0, 0, 59, g.r.IntN(60)})
	return time.Date(y, time.Month(mo), d, 0, mod, sec, 0, loc).Unix()
}

var transDeltas = []int64{-120, -61, -60, -1, 0, 1, 59, 60, 120}

func uniq(l []string) []string {
	seen := map[string]bool{}
	var out []string
	for _, s := range l {
		if !seen[s] {
			seen[s] = true
			out = append(out, s)
		}
	}
	return out
}

type caseRun struct {
	tr      *hx.Trace
	w       *world
	local   string   // the process's zone set by the `local` op ("" = UTC)
	callers []string // caller zones of the case besides UTC / Local / the intervals' zones
}

// newCase starts a case: fresh world, time.Local back to UTC.
func newCase(tr *hx.Trace) *caseRun {
	time.Local = time.UTC
	return &caseRun{tr: tr, w: &world{}}
}

// zonesForCase picks the process's zone (two cases in three: not UTC) and two
// caller zones: a fixed offset (far east / far west, odd minutes) and an IANA zone.
func (g *gen) zonesForCase(c *caseRun) {
	if g.p(2, 3) {
		c.local = hx.Pick(g.r, zoneNames)
		if g.p(1, 3) {
			c.local = hx.Pick(g.r, fixedZones)
		}
		c.do("local " + hx.Hex(c.local))
	}
	c.callers = []string{hx.Pick(g.r, fixedZones), hx.Pick(g.r, zoneNames)}
	if g.p(1, 2) {
		c.callers[0] = hx.Pick(g.r, fixedZones[:4]) // +14:00, +13:00, -12:00, -11:00
	}
}

func (c *caseRun) do(line string) string {
	obs := c.w.exec(line)
	if obs == "" {
		c.tr.Linef("%s", line)
	} else {
		c.tr.Linef("%s -> %s", line, obs)
	}
	return obs
}

func (g *gen) subset(l []string, pEach int) []string {
	var out []string
	for _, s := range l {
		if g.r.IntN(100) < pEach {
			out = append(out, s)
		}
	}
	return out
}

// callerTok draws the zone in which the next m / st line carries its instant:
// UTC, the process's zone (Local), one of the case's caller zones (a fixed
// far-east / far-west offset, an IANA zone with DST) or an interval's zone.
func (g *gen) callerTok(c *caseRun, zones []string) string {
	switch x := g.r.IntN(100); {
	case x < 20:
		return hx.Hex("UTC")
	case x < 45:
		return hx.Hex("Local")
	case x < 85 && len(c.callers) > 0:
		return hx.Hex(hx.Pick(g.r, c.callers))
	}
	return hx.Hex(hx.Pick(g.r, zones))
}

// otherCaller draws a caller zone different from tok.
func (g *gen) otherCaller(c *caseRun, zones []string, tok string) string {
	for range 8 {
		if o := g.callerTok(c, zones); o != tok {
			return o
		}
	}
	return hx.Hex("UTC")
}

// evaluate writes the z/c/m/st lines of one instant.
func (g *gen) evaluate(c *caseRun, u int64, zones []string, setNames []string) {
	zones = uniq(append(append([]string{}, zones...), c.callers...))
	if c.local != "" {
		zones = uniq(append(zones, c.local))
	}
	zh := make([]string, len(zones))
	for i, z := range zones {
		zh[i] = hx.Hex(z)
	}
	c.do(fmt.Sprintf("z %d %s", u, strings.Join(zh, ",")))
	caller := "UTC"
	if g.p(1, 5) {
		caller = hx.Pick(g.r, zones)
	}
	c.do(fmt.Sprintf("c %d %s", u, hx.Hex(caller)))
	if len(setNames) == 0 {
		return
	}
	nameList := func() string {
		l := g.subset(setNames, 50)
		if g.p(1, 3) {
			g.r.Shuffle(len(l), func(i, j int) { l[i], l[j] = l[j], l[i] })
		}
		if g.p(1, 30) {
			l = append(l, "ghost")
		}
		if g.p(1, 30) && len(l) > 0 {
			l = append(l, l[0])
		}
		return encNames(l)
	}
	if g.p(1, 2) {
		nl, ct := nameList(), g.callerTok(c, zones)
		c.do(fmt.Sprintf("m %d %s %s", u, nl, ct))
		if g.p(1, 2) {
			// the same question with the instant carried in another zone
			c.do(fmt.Sprintf("m %d %s %s", u, nl, g.otherCaller(c, zones, ct)))
		}
	}
	for range g.r.IntN(3) {
		now := strconv.FormatInt(u, 10)
		if g.p(1, 40) {
			now = "nonow"
		}
		mn, an := nameList(), nameList()
		if g.p(1, 12) {
			mn = "nokey"
		}
		if g.p(1, 12) {
			an = "nokey"
		}
		if g.p(1, 4) {
			an = "-"
		}
		if g.p(1, 6) {
			mn = "-"
		}
		mode := hx.Pick(g.r, []string{"a", "m", "p", "p"})
		n := 1 + g.r.IntN(2)
		if mode != "p" && g.p(1, 10) {
			n = 0
		}
		route, ct := g.r.IntN(2), g.callerTok(c, zones)
		c.do(fmt.Sprintf("st %s %s %s %s %d r%d %s", now, mode, mn, an, n, route, ct))
		if g.p(1, 3) {
			c.do(fmt.Sprintf("st %s %s %s %s %d r%d %s", now, mode, mn, an, n, route, g.otherCaller(c, zones, ct)))
		}
	}
}

var nameAlphabet = []string{"a", "b", "c", "weekends", "office hours", "nights", "x1", "ünï", "q"}

func (g *gen) declareSets(c *caseRun, nsets int, mk func() spec, maxIv int) (setNames []string) {
	perm := g.r.Perm(len(nameAlphabet))
	for i := range nsets {
		name := nameAlphabet[perm[i]]
		kind := "ti"
		if g.p(1, 4) {
			kind = "mti"
		}
		c.do(fmt.Sprintf("set %s %s", hx.Hex(name), kind))
		setNames = append(setNames, name)
		n := g.r.IntN(maxIv + 1)
		if n == 0 && g.p(2, 3) {
			n = 1
		}
		for range n {
			c.do("iv " + mk().tokens())
		}
	}
	return setNames
}

func (g *gen) routes(setNames []string) string {
	var rs []string
	for range g.r.IntN(3) {
		rs = append(rs, encNames(g.subset(setNames, 40))+"/"+encNames(g.subset(setNames, 40)))
	}
	return hx.Join(rs, ";")
}

func (c *caseRun) zonesOf(extra ...string) []string {
	z := []string{"UTC"}
	for _, s := range c.w.sets {
		for _, sp := range s.specs {
			if sp.loc.state == "list" {
				z = append(z, sp.loc.items[0])
			}
		}
	}
	return uniq(append(z, extra...))
}

// genCase: random intervals, instants from the grid, the intervals' own boundaries and nearby transitions.
func (g *gen) genCase(tr *hx.Trace, id int) {
	c := newCase(tr)
	tr.Linef("case %d kind=gen", id)
	g.zonesForCase(c)
	pool := []string{hx.Pick(g.r, zoneNames), hx.Pick(g.r, zoneNames)}
	anchor := clockOf(time.Unix(g.gridInstant(), 0).In(mustLoc(pool[0])))
	mk := func() spec {
		loc := ""
		switch g.r.IntN(6) {
		case 0, 1:
			loc = pool[0]
		case 2:
			loc = pool[1]
		case 3:
			loc = "UTC"
		}
		var k *clock
		if g.p(1, 2) {
			k = &anchor
		}
		return g.validInterval(k, loc, 25+g.r.IntN(40))
	}
	setNames := g.declareSets(c, 1+g.r.IntN(3), mk, 3)
	if c.do("load "+g.routes(setNames)) != "ok" {
		return
	}
	zones := c.zonesOf(pool[0])
	var all []timeinterval.TimeInterval
	for _, s := range c.w.sets {
		all = append(all, s.ivs...)
	}
	for range 6 + g.r.IntN(10) {
		var u int64
		switch x := g.r.IntN(10); {
		case x < 3 || len(all) == 0:
			u = g.gridInstant()
		case x < 8:
			u = g.boundaryInstant(hx.Pick(g.r, all))
		default:
			// an offset change of one of the case's zones, the caller zones and the process zone included
			z := hx.Pick(g.r, uniq(append(append([]string{c.local}, c.callers...), zones...)))
			if ts := transByZone[z]; len(ts) > 0 {
				u = hx.Pick(g.r, ts).at + hx.Pick(g.r, transDeltas)
			} else {
				u = g.gridInstant()
			}
		}
		g.evaluate(c, u, zones, setNames)
	}
}

// edgeCase: a run of consecutive transitions of one zone, every instant ± 2 min,
// against intervals built around the local readings on both sides of the edge.
// Where the offset jumps by six hours or more (a zone changing sides of the
// date line: local calendar days are skipped or repeated) the surrounding ten
// weeks are sampled daily as well and every interval has a days_of_month field.
func (g *gen) edgeCase(tr *hx.Trace, id int, ts []transition) {
	c := newCase(tr)
	tr.Linef("case %d kind=edge", id)
	g.zonesForCase(c)
	zone := ts[0].zone
	if g.p(1, 4) {
		// the process itself runs in the zone whose offset changes
		c.local = zone
		c.do("local " + hx.Hex(zone))
	}
	loc := mustLoc(zone)
	var instants []int64
	big := false
	for _, t := range ts {
		for _, d := range transDeltas {
			instants = append(instants, t.at+d)
		}
		if j := offsetAt(loc, t.at) - offsetAt(loc, t.at-1); j >= 6*3600 || j <= -6*3600 {
			big = true
			for k := int64(-35); k <= 35; k++ {
				instants = append(instants, t.at+k*86400+int64(g.r.IntN(86400)))
			}
		}
	}
	mk := func() spec {
		k := clockOf(time.Unix(hx.Pick(g.r, instants), 0).In(loc))
		l := zone
		if g.p(1, 6) {
			l = "" // read in the caller's zone instead
		}
		s := g.validInterval(&k, l, 45)
		if big && s.dom.state != "list" {
			s.dom = g.domField(&k)
		}
		return s
	}
	setNames := g.declareSets(c, 2, mk, 3)
	if c.do("load "+g.routes(setNames)) != "ok" {
		return
	}
	zones := c.zonesOf(zone)
	for _, u := range instants {
		g.evaluate(c, u, zones, setNames)
	}
}

// badCase: specifications from the tricky pools; only accept/reject (and the parsed values) are compared.
func (g *gen) badCase(tr *hx.Trace, id int) {
	c := newCase(tr)
	tr.Linef("case %d kind=bad", id)
	g.zonesForCase(c)
	mk := func() spec {
		s := g.validInterval(nil, hx.Pick(g.r, []string{"", "", "UTC", "Europe/Berlin"}), 30)
		if g.p(3, 4) {
			s = g.spoil(s)
		}
		if g.p(1, 4) {
			s = g.spoil(s)
		}
		return s
	}
	setNames := g.declareSets(c, 1+g.r.IntN(2), mk, 2)
	routes := g.routes(setNames)
	if g.p(1, 10) {
		routes = hx.Join(append(hx.Split(routes, ";"), encNames([]string{"undefined"})+"/-"), ";")
	}
	if g.p(1, 12) && len(setNames) > 0 {
		// duplicate set name
		c.do(fmt.Sprintf("set %s %s", hx.Hex(setNames[0]), hx.Pick(g.r, []string{"ti", "mti"})))
	}
	if g.p(1, 25) {
		c.do(fmt.Sprintf("set %s ti", hx.Hex("")))
	}
	if c.do("load "+routes) != "ok" {
		return
	}
	// what was accepted must also evaluate like the model
	zones := c.zonesOf()
	for range 3 {
		g.evaluate(c, g.gridInstant(), zones, setNames)
	}
}

func replay(tr *hx.Trace, script []string) {
	var c *caseRun
	for _, l := range script {
		if strings.HasPrefix(l, "case ") {
			c = newCase(tr)
			tr.Linef("%s", l)
			continue
		}
		if c == nil {
			continue
		}
		op := strings.Fields(l)[0]
		if (op == "z" || op == "c" || op == "m" || op == "st") && !c.w.loaded {
			continue // the minimiser may have dropped the load line
		}
		if op == "iv" && len(c.w.sets) == 0 {
			continue
		}
		c.do(l)
	}
}

func TestEngine(t *testing.T) {
	tr := hx.Open()
	defer tr.Close()
	if s := hx.Script(); s != nil {
		replay(tr, s)
		return
	}
	initZones(t)
	tr.Linef("# zones=%d offset-changes=%d (1850-2100)", len(zoneNames), len(allTransitions))
	g := &gen{r: hx.Rand(15)}
	id := 0
	// every transition of every zone; thorough: three independent draws of intervals per run of transitions
	rounds := 1
	if hx.Thorough() {
		rounds = 3
	}
	for round := range rounds {
		for zi, z := range zoneNames {
			if round > 0 && zi >= 22 {
				break // the additional system zones (thorough) get one round
			}
			ts := transByZone[z]
			for i := 0; i < len(ts); i += 4 {
				g.edgeCase(tr, id, ts[i:min(i+4, len(ts))])
				id++
			}
		}
	}
	n := hx.Cases(6000, 200000)
	for i := range n {
		if i%5 == 4 {
			g.badCase(tr, id)
		} else {
			g.genCase(tr, id)
		}
		id++
	}
}
