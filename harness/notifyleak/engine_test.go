// Engine `notifyleak` (C17): sending notifications must not change the loaded configuration.  A configuration whose
// notifier endpoints (global defaults and per-receiver URLs) point at a loopback httptest server and whose secret
// fields carry canaries is loaded; every integration of every receiver is built as app/reloader.go does
// (receiver.BuildReceiverIntegrations) and asked to deliver a firing and a resolved notification; afterwards the
// textual form of the configuration (what the status API serves) must be what it was before, and hold no canary.
//
//	notify <n> -> <kind:sent|err,…> <text same|changed> <leaked canaries|->
package notifyleak

import (
	"context"
	"fmt"
	"io"
	"net/http"
	"net/http/httptest"
	"net/url"
	"sort"
	"strings"
	"testing"
	"time"

	"github.com/prometheus/common/model"
	"github.com/prometheus/common/promslog"
	"gopkg.in/yaml.v2"

	"github.com/prometheus/alertmanager/config"
	"github.com/prometheus/alertmanager/config/receiver"
	"github.com/prometheus/alertmanager/notify"
	"github.com/prometheus/alertmanager/template"
	"github.com/prometheus/alertmanager/types"

	"verif/harness/hx"
)

var canaries = []string{"CANARYvictoropskey", "CANARYopsgeniekey", "CANARYwechatsecret", "CANARYpagerdutykey", "CANARYpushovertoken", "CANARYpushoveruser", "CANARYwebexauth"}

func cfgText(base string) string {
	return fmt.Sprintf(`
global:
  victorops_api_url: %[1]s/victorops/
  victorops_api_key: CANARYvictoropskey
  opsgenie_api_url: %[1]s/opsgenie/
  opsgenie_api_key: CANARYopsgeniekey
  wechat_api_url: %[1]s/wechat/
  wechat_api_secret: CANARYwechatsecret
  wechat_api_corp_id: corp
  pagerduty_url: %[1]s/pagerduty/
  webex_api_url: %[1]s/webex/
route:
  receiver: all
receivers:
- name: all
  victorops_configs:
  - routing_key: team-a
  - routing_key: team-b
  opsgenie_configs:
  - send_resolved: true
  wechat_configs:
  - to_user: u
    agent_id: '1'
  pagerduty_configs:
  - routing_key: CANARYpagerdutykey
  pushover_configs:
  - token: CANARYpushovertoken
    user_key: CANARYpushoveruser
  webex_configs:
  - room_id: r
    http_config:
      authorization:
        credentials: CANARYwebexauth
  webhook_configs:
  - url: %[1]s/webhook/
`, base)
}

func run(n int) string {
	srv := httptest.NewServer(http.HandlerFunc(func(rw http.ResponseWriter, req *http.Request) {
		io.Copy(io.Discard, req.Body)
		rw.Header().Set("Content-Type", "application/json")
		rw.WriteHeader(http.StatusOK)
		rw.Write([]byte(`{"ok":true,"errcode":0,"access_token":"t","expires_in":7200}`))
	}))
	defer srv.Close()
	cfg, err := config.Load(cfgText(srv.URL))
	if err != nil {
		return "loaderror:" + hx.Hex(err.Error()) + " - -"
	}
	before := cfg.String()
	tmpl, err := template.FromGlobs(nil)
	if err != nil {
		panic(err)
	}
	tmpl.ExternalURL, _ = url.Parse("http://am.example")
	var res []string
	for _, rcv := range cfg.Receivers {
		ints, err := receiver.BuildReceiverIntegrations(rcv, tmpl, promslog.NewNopLogger())
		if err != nil {
			return "builderror:" + hx.Hex(err.Error()) + " - -"
		}
		for _, in := range ints {
			ok := "sent"
			for k := 0; k < n; k++ {
				now := time.Now()
				a := &types.Alert{Alert: model.Alert{Labels: model.LabelSet{"alertname": "A", "k": model.LabelValue(fmt.Sprint(k))}, StartsAt: now.Add(-time.Minute)}, UpdatedAt: now}
				if k%2 == 1 {
					a.EndsAt = now.Add(-time.Second)
				}
				ctx, cancel := context.WithTimeout(context.Background(), 5*time.Second)
				ctx = notify.WithGroupKey(ctx, "gk")
				ctx = notify.WithReceiverName(ctx, rcv.Name)
				ctx = notify.WithGroupLabels(ctx, model.LabelSet{"alertname": "A"})
				func() {
					defer func() {
						if recover() != nil {
							ok = "panic"
						}
					}()
					if _, err := in.Notify(ctx, a); err != nil {
						ok = "err"
					}
				}()
				cancel()
			}
			res = append(res, in.Name()+":"+ok)
		}
	}
	sort.Strings(res)
	after := cfg.String()
	// the property speaks of secrets and of the routing tree / inhibition rules / time intervals the text loads back to;
	// a notifier that writes a default into its own receiver section (pagerduty: severity) changes the text but none of those
	text := "same"
	if after != before {
		text = "changed-elsewhere"
		part := func(txt string) string {
			c, err := config.Load(txt)
			if err != nil {
				return "unloadable"
			}
			r, _ := yaml.Marshal(c.Route)
			i, _ := yaml.Marshal(c.InhibitRules)
			ti, _ := yaml.Marshal(c.TimeIntervals)
			return string(r) + "\n" + string(i) + "\n" + string(ti)
		}
		if part(after) != part(before) {
			text = "changed-routing"
		}
	}
	var leaked []string
	for _, c := range canaries {
		if strings.Contains(after, c) {
			leaked = append(leaked, c)
		}
	}
	return fmt.Sprintf("%s %s %s", hx.Join(res, ","), text, hx.Join(leaked, ","))
}

func TestEngine(t *testing.T) {
	tr := hx.Open()
	defer tr.Close()
	if s := hx.Script(); s != nil {
		for _, l := range s {
			if strings.HasPrefix(l, "case ") {
				tr.Linef("%s", l)
			} else if f := strings.Fields(l); len(f) == 2 && f[0] == "notify" {
				n := 1
				fmt.Sscan(f[1], &n)
				tr.Linef("%s -> %s", l, run(n))
			}
		}
		return
	}
	for id := range hx.Cases(3, 12) {
		tr.Linef("case %d", id)
		op := fmt.Sprintf("notify %d", 1+id%3)
		tr.Linef("%s -> %s", op, run(1+id%3))
	}
}
