// Engine `nflog` (C10): drives two real nflog.Log instances under virtual time
// with generated or replayed operation sequences and writes the trace that the
// Lean driver replays on AM.Nflog.
package nflog

import (
	"bytes"
	"fmt"
	"math/rand/v2"
	"os"
	"sort"
	"strconv"
	"strings"
	"testing"
	"testing/synctest"
	"time"

	"github.com/prometheus/client_golang/prometheus"
	"google.golang.org/protobuf/encoding/protodelim"
	"google.golang.org/protobuf/types/known/timestamppb"

	"github.com/prometheus/alertmanager/cluster"
	"github.com/prometheus/alertmanager/nflog"
	pb "github.com/prometheus/alertmanager/nflog/nflogpb"

	"verif/harness/hx"
)

type entry struct {
	key      string
	ts, exp  int64
	firing   []uint64
	resolved []uint64
	data     string
}

func (e entry) String() string {
	return fmt.Sprintf("%s,%d,%d,%s,%s,%s", e.key, e.ts, e.exp, hx.U64s(e.firing), hx.U64s(e.resolved), e.data)
}

func parseEntry(s string) entry {
	p := strings.Split(s, ",")
	return entry{key: p[0], ts: hx.Atoi64(p[1]), exp: hx.Atoi64(p[2]), firing: hx.ParseU64s(p[3]), resolved: hx.ParseU64s(p[4]), data: p[5]}
}

func splitKey(k string) (string, *pb.Receiver) {
	i := strings.Index(k, ":")
	gk, rk := k[:i], k[i+1:]
	p := strings.Split(rk, "/")
	idx, _ := strconv.Atoi(p[2])
	return gk, &pb.Receiver{GroupName: p[0], Integration: p[1], Idx: uint32(idx)}
}

type world struct {
	t0    time.Time
	logs  [2]*nflog.Log
	bc    [2][][]byte // captured broadcasts
	dir   string      // scratch directory of the case (snapshot files)
	maint time.Duration
	stopc [2]chan struct{}
	done  [2]chan struct{}
}

// maintPeriod never ties with an op instant (multiples of 0.3 s) within a case: k·2.03 s = m·0.3 s only for k = 30.
const maintPeriod = 2030 * time.Millisecond

func (w *world) snapf(i int) string { return fmt.Sprintf("%s/nflog-%d", w.dir, i) }

// startMaintenance runs the REAL Log.Maintenance loop (GC + snapshot to file every period, final snapshot on stop).
func (w *world) startMaintenance(i int) {
	w.stopc[i] = make(chan struct{})
	w.done[i] = make(chan struct{})
	l, stop, done := w.logs[i], w.stopc[i], w.done[i]
	go func() {
		defer close(done)
		l.Maintenance(w.maint, w.snapf(i), stop, nil)
	}()
}

func (w *world) stopMaintenance(i int) {
	if w.stopc[i] != nil {
		close(w.stopc[i])
		<-w.done[i]
		w.stopc[i] = nil
	}
}

func (w *world) abs(off int64) time.Time { return w.t0.Add(time.Duration(off)) }
func (w *world) rel(t time.Time) int64    { return int64(t.Sub(w.t0)) }

func (w *world) toPB(e entry) *pb.MeshEntry {
	gk, r := splitKey(e.key)
	var rd map[string]*pb.ReceiverDataValue
	if e.data != "-" {
		rd = map[string]*pb.ReceiverDataValue{"d": {Value: &pb.ReceiverDataValue_StrVal{StrVal: e.data}}}
	}
	return &pb.MeshEntry{
		Entry: &pb.Entry{Receiver: r, GroupKey: []byte(gk), Timestamp: timestamppb.New(w.abs(e.ts)),
			FiringAlerts: e.firing, ResolvedAlerts: e.resolved, ReceiverData: rd},
		ExpiresAt: timestamppb.New(w.abs(e.exp)),
	}
}

func (w *world) fromPB(m *pb.MeshEntry) entry {
	r := m.Entry.Receiver
	d := "-"
	if v, ok := m.Entry.ReceiverData["d"]; ok {
		d = v.GetStrVal()
	}
	return entry{
		key: fmt.Sprintf("%s:%s/%s/%d", m.Entry.GroupKey, r.GroupName, r.Integration, r.Idx),
		ts:  w.rel(m.Entry.Timestamp.AsTime()), exp: w.rel(m.ExpiresAt.AsTime()),
		firing: m.Entry.FiringAlerts, resolved: m.Entry.ResolvedAlerts, data: d,
	}
}

func (w *world) decode(b []byte) []entry {
	var out []entry
	br := bytes.NewReader(b)
	for br.Len() > 0 {
		var m pb.MeshEntry
		if err := protodelim.UnmarshalFrom(br, &m); err != nil {
			panic(err)
		}
		out = append(out, w.fromPB(&m))
	}
	return out
}

func (w *world) dump(i int) string {
	b, err := w.logs[i].MarshalBinary()
	if err != nil {
		return "unmarshalable"
	}
	es := w.decode(b)
	sort.Slice(es, func(a, b int) bool { return es[a].key < es[b].key })
	s := make([]string, len(es))
	for j, e := range es {
		s[j] = e.String()
	}
	return hx.Join(s, ";")
}

func (w *world) newLog(i int, retention time.Duration, snap []byte) {
	o := nflog.Options{Retention: retention, Metrics: prometheus.NewRegistry()}
	if snap != nil {
		o.SnapshotReader = bytes.NewReader(snap)
	}
	l, err := nflog.New(o)
	if err != nil {
		panic(err)
	}
	l.SetBroadcast(func(b []byte) { w.bc[i] = append(w.bc[i], b) })
	w.logs[i] = l
}

func (w *world) sleepTo(off int64) {
	d := w.abs(off).Sub(time.Now())
	if d > 0 {
		time.Sleep(d)
	}
}

// exec runs one script line against the implementation and returns what it observed.
func (w *world) exec(line string, retention time.Duration) string {
	t := strings.Fields(line)
	switch t[0] {
	case "log":
		i, _ := strconv.Atoi(t[1])
		w.sleepTo(hx.Atoi64(t[2]))
		gk, r := splitKey(t[3])
		var st *nflog.Store
		if t[6] != "-" {
			st = nflog.NewStore(nil)
			st.SetStr("d", t[6])
		}
		n0 := len(w.bc[i])
		if err := w.logs[i].Log(r, gk, hx.ParseU64s(t[4]), hx.ParseU64s(t[5]), st, time.Duration(hx.Atoi64(t[7]))); err != nil {
			return "error " + w.dump(i)
		}
		bc := "none"
		if len(w.bc[i]) > n0 {
			bc = w.decode(w.bc[i][len(w.bc[i])-1])[0].String()
		}
		return bc + " " + w.dump(i)
	case "logbad":
		// a Log call that cannot be serialised (a receiver-data string that is not valid UTF-8): it fails, and the log is
		// what it was — in particular it can still be snapshotted and exchanged
		i, _ := strconv.Atoi(t[1])
		w.sleepTo(hx.Atoi64(t[2]))
		gk, r := splitKey(t[3])
		st := nflog.NewStore(nil)
		st.SetStr("d", "\xff\xfe bad")
		res := "ok"
		if err := w.logs[i].Log(r, gk, []uint64{77}, nil, st, 0); err != nil {
			res = "error"
		}
		return res + " " + w.dump(i)
	case "merge":
		i, _ := strconv.Atoi(t[1])
		w.sleepTo(hx.Atoi64(t[2]))
		var buf bytes.Buffer
		for _, s := range hx.Split(t[4], ";") {
			if _, err := protodelim.MarshalTo(&buf, w.toPB(parseEntry(s))); err != nil {
				panic(err)
			}
		}
		ov := "0"
		if cluster.OversizedMessage(buf.Bytes()) {
			ov = "1"
		}
		if ov != t[3] {
			return "oversized-flag-mismatch " + ov
		}
		n0 := len(w.bc[i])
		if err := w.logs[i].Merge(buf.Bytes()); err != nil {
			return "error " + w.dump(i)
		}
		return fmt.Sprintf("%d %s", len(w.bc[i])-n0, w.dump(i))
	case "gc":
		i, _ := strconv.Atoi(t[1])
		w.sleepTo(hx.Atoi64(t[2]))
		n, err := w.logs[i].GC()
		if err != nil {
			return "error " + w.dump(i)
		}
		return fmt.Sprintf("%d %s", n, w.dump(i))
	case "query":
		i, _ := strconv.Atoi(t[1])
		w.sleepTo(hx.Atoi64(t[2]))
		gk, r := splitKey(t[3])
		es, err := w.logs[i].Query(nflog.QGroupKey(gk), nflog.QReceiver(r))
		if err == nflog.ErrNotFound {
			return "notfound"
		}
		if err != nil || len(es) != 1 {
			return "error"
		}
		e := w.fromPB(&pb.MeshEntry{Entry: es[0], ExpiresAt: timestamppb.New(w.t0)})
		return fmt.Sprintf("%s,%d,%s,%s,%s", e.key, e.ts, hx.U64s(e.firing), hx.U64s(e.resolved), e.data)
	case "storemut":
		// what a notifier does with the receiver data of a queried entry: derive a Store, edit it.
		// Nothing is logged, so the log must be unchanged.
		i, _ := strconv.Atoi(t[1])
		w.sleepTo(hx.Atoi64(t[2]))
		gk, r := splitKey(t[3])
		es, err := w.logs[i].Query(nflog.QGroupKey(gk), nflog.QReceiver(r))
		if err != nil || len(es) != 1 {
			return "notfound " + w.dump(i)
		}
		st := nflog.NewStore(es[0])
		st.SetStr("d", t[4])
		st.SetInt("n", 7)
		if t[4] == "del" {
			st.Delete("d")
		}
		return "edited " + w.dump(i)
	case "reload":
		i, _ := strconv.Atoi(t[1])
		if w.maint > 0 {
			// restart through the real persistence path: stop the maintenance loop (it writes the shutdown
			// snapshot), then start a new Log from the snapshot file
			w.sleepTo(hx.Atoi64(t[2]))
			w.stopMaintenance(i)
			o := nflog.Options{Retention: retention, Metrics: prometheus.NewRegistry(), SnapshotFile: w.snapf(i)}
			l, err := nflog.New(o)
			if err != nil {
				return "error-loading-own-snapshot"
			}
			l.SetBroadcast(func(b []byte) { w.bc[i] = append(w.bc[i], b) })
			w.logs[i] = l
			w.startMaintenance(i)
			return w.dump(i)
		}
		var buf bytes.Buffer
		if _, err := w.logs[i].Snapshot(&buf); err != nil {
			panic(err)
		}
		w.newLog(i, retention, buf.Bytes())
		return w.dump(i)
	}
	panic("bad op " + line)
}

// ---- generator ----

var (
	keys = []string{"g1:r1/webhook/0", "g1:r1/email/1", "g2:r1/webhook/0", "g2:r2/slack/0", "g3:r2/slack/0"}
	grid = int64(300 * time.Millisecond) // instants are multiples of 0.3 s: ties are frequent by construction and
	// timestamps differ in seconds and in nanoseconds independently (k*0.3 s mod 1 s takes the values .0 .3 .6 .9 .2 .5 .8 .1 .4 .7)
)

type gen struct {
	r      *rand.Rand
	now    int64
	known  []entry // entries offered or broadcast so far (material for re-delivery)
	usedTS map[string]bool
}

func (g *gen) u64s() []uint64 {
	n := g.r.IntN(3)
	out := make([]uint64, n)
	for i := range out {
		out[i] = uint64(1 + g.r.IntN(4))
	}
	return out
}

func (g *gen) fresh(retention int64, conv bool) entry {
	k := hx.Pick(g.r, keys)
	ts := g.now + int64(g.r.IntN(9)-5)*grid
	if ts < 0 {
		ts = 0
	}
	exp := ts + int64(g.r.IntN(8))*grid
	if retention > 50*grid && g.r.IntN(2) == 0 {
		exp = ts + retention
	}
	if g.r.IntN(4) == 0 {
		exp = g.now + int64(g.r.IntN(3)-1)*grid // around `now`: the refusal boundary
	}
	if conv {
		// convergence cases stay inside the hypotheses of fold_merge_perm/converges:
		// distinct timestamps per key, nothing expires during the case.
		for g.usedTS[fmt.Sprintf("%s@%d", k, ts)] {
			ts += grid
		}
		g.usedTS[fmt.Sprintf("%s@%d", k, ts)] = true
		exp = int64(1000) * grid
	}
	d := "-"
	if g.r.IntN(3) == 0 {
		d = fmt.Sprintf("d%d", g.r.IntN(100))
	}
	if g.r.IntN(40) == 0 {
		d = strings.Repeat("x", 750) // oversize
	}
	return entry{key: k, ts: ts, exp: exp, firing: g.u64s(), resolved: g.u64s(), data: d}
}

func (g *gen) batch(retention int64, conv bool) []entry {
	n := 1 + g.r.IntN(3)
	if g.r.IntN(8) == 0 {
		n = 4
	}
	var b []entry
	for range n {
		if len(g.known) > 0 && g.r.IntN(2) == 0 {
			b = append(b, hx.Pick(g.r, g.known)) // duplicate / late re-delivery
		} else {
			e := g.fresh(retention, conv)
			g.known = append(g.known, e)
			b = append(b, e)
		}
	}
	if conv {
		// one wire message never carries two versions of one key in convergence cases
		seen := map[string]bool{}
		var c []entry
		for _, e := range b {
			if !seen[e.key] {
				seen[e.key] = true
				c = append(c, e)
			}
		}
		b = c
	}
	return b
}

func (w *world) oversized(b []entry) string {
	var buf bytes.Buffer
	for _, e := range b {
		protodelim.MarshalTo(&buf, w.toPB(e))
	}
	if cluster.OversizedMessage(buf.Bytes()) {
		return "1"
	}
	return "0"
}

func entriesStr(b []entry) string {
	s := make([]string, len(b))
	for i, e := range b {
		s[i] = e.String()
	}
	return hx.Join(s, ";")
}

func runCase(t *testing.T, tr *hx.Trace, id int, r *rand.Rand, script []string) {
	synctest.Test(t, func(t *testing.T) {
		w := &world{t0: time.Now()}
		var retention int64
		conv := false
		var header string
		if script != nil {
			header = script[0]
			for _, f := range strings.Fields(header) {
				if strings.HasPrefix(f, "retention=") {
					retention = hx.Atoi64(f[len("retention="):])
				}
				if f == "conv=1" {
					conv = true
				}
				if strings.HasPrefix(f, "maint=") {
					w.maint = time.Duration(hx.Atoi64(f[len("maint="):]))
				}
			}
		} else {
			retention = int64(r.IntN(6)) * grid
			conv = r.IntN(3) == 0
			if conv {
				retention = 500 * grid
			}
			c := 0
			if conv {
				c = 1
			}
			if !conv && r.IntN(2) == 0 {
				w.maint = maintPeriod
				if r.IntN(2) == 0 {
					// long-lived entries: snapshots are rewritten although GC removes nothing and the
					// number of entries stays the same (an entry replaced by a newer one)
					retention = 100 * grid
				}
			}
			header = fmt.Sprintf("case %d retention=%d conv=%d maint=%d", id, retention, c, int64(w.maint))
		}
		tr.Linef("%s", header)
		w.newLog(0, time.Duration(retention), nil)
		w.newLog(1, time.Duration(retention), nil)
		if w.maint > 0 {
			dir, err := os.MkdirTemp("", "verif-nflog-")
			if err != nil {
				panic(err)
			}
			w.dir = dir
			defer os.RemoveAll(dir)
			w.startMaintenance(0)
			w.startMaintenance(1)
			defer w.stopMaintenance(1)
			defer w.stopMaintenance(0)
		}
		do := func(line string) {
			tr.Linef("%s -> %s", line, w.exec(line, time.Duration(retention)))
		}
		if script != nil {
			for _, l := range script[1:] {
				do(l)
			}
			if conv {
				tr.Linef("converge -> %s %s", w.dump(0), w.dump(1))
			}
			return
		}
		g := &gen{r: r, usedTS: map[string]bool{}}
		nops := 6 + r.IntN(14)
		for range nops {
			if r.IntN(3) > 0 {
				g.now += int64(r.IntN(3)) * grid
			}
			i := r.IntN(2)
			switch x := r.IntN(20); {
			case x < 6:
				k := hx.Pick(r, keys)
				d := "-"
				if r.IntN(3) == 0 {
					d = fmt.Sprintf("d%d", r.IntN(100))
				}
				expiry := int64(r.IntN(7)) * grid
				if retention > 50*grid && r.IntN(2) == 0 {
					expiry = 0 // the entry lives for the whole retention
				}
				if conv {
					if g.usedTS[fmt.Sprintf("%s@%d", k, g.now)] {
						continue
					}
					g.usedTS[fmt.Sprintf("%s@%d", k, g.now)] = true
					expiry = 0
				}
				if g.r.IntN(15) == 0 {
					do(fmt.Sprintf("logbad %d %d %s", i, g.now, k))
				}
				do(fmt.Sprintf("log %d %d %s %s %s %s %d", i, g.now, k, hx.U64s(g.u64s()), hx.U64s(g.u64s()), d, expiry))
				if n := len(w.bc[i]); n > 0 {
					g.known = append(g.known, w.decode(w.bc[i][n-1])...)
				}
			case x < 13:
				b := g.batch(retention, conv)
				do(fmt.Sprintf("merge %d %d %s %s", i, g.now, w.oversized(b), entriesStr(b)))
			case x < 15 && !conv:
				do(fmt.Sprintf("gc %d %d", i, g.now))
			case x < 18:
				do(fmt.Sprintf("query %d %d %s", i, g.now, hx.Pick(r, keys)))
			case x < 19:
				do(fmt.Sprintf("storemut %d %d %s %s", i, g.now, hx.Pick(r, keys), hx.Pick(r, []string{"m1", "m2", "del"})))
			default:
				do(fmt.Sprintf("reload %d %d", i, g.now))
			}
		}
		if conv {
			// deliver everything known to both instances, each in its own random order,
			// singly or batched, with duplicates; then the two logs must agree.
			for i := range 2 {
				p := r.Perm(len(g.known))
				for j := 0; j < len(p); {
					n := 1 + r.IntN(3)
					seen := map[string]bool{}
					var b []entry
					for ; j < len(p) && len(b) < n; j++ {
						e := g.known[p[j]]
						if seen[e.key] {
							break
						}
						seen[e.key] = true
						b = append(b, e)
					}
					if len(b) == 0 {
						continue
					}
					do(fmt.Sprintf("merge %d %d %s %s", i, g.now, w.oversized(b), entriesStr(b)))
					if r.IntN(4) == 0 {
						do(fmt.Sprintf("merge %d %d %s %s", i, g.now, w.oversized(b), entriesStr(b)))
					}
				}
			}
			tr.Linef("converge -> %s %s", w.dump(0), w.dump(1))
		}
	})
}

func TestEngine(t *testing.T) {
	tr := hx.Open()
	defer tr.Close()
	if s := hx.Script(); s != nil {
		// a replay may hold several cases
		var cur []string
		n := 0
		flush := func() {
			if cur != nil {
				runCase(t, tr, n, nil, cur)
				n++
			}
		}
		for _, l := range s {
			if strings.HasPrefix(l, "case ") {
				flush()
				cur = []string{l}
			} else if strings.HasPrefix(l, "converge") {
				continue
			} else if cur != nil {
				cur = append(cur, l)
			}
		}
		flush()
		return
	}
	r := hx.Rand(10)
	for id := range hx.Cases(1500, 40000) {
		runCase(t, tr, id, r, nil)
	}
}
