// Engine `trunc` (C20): notify.TruncateInRunes / notify.TruncateInBytes on
// multi-byte heavy strings with limits near the rune and byte counts; every call
// is guarded by recover (a panic is an observation, F6).
package trunc

import (
	"fmt"
	"math/rand/v2"
	"strconv"
	"strings"
	"testing"
	"unicode/utf8"

	"github.com/prometheus/alertmanager/notify"

	"verif/harness/hx"
)

func call(f func(string, int) (string, bool), s string, n int) (out string) {
	defer func() {
		if r := recover(); r != nil {
			out = "panic " + hx.Hex(fmt.Sprint(r))
		}
	}()
	o, fl := f(s, n)
	flag := 0
	if fl {
		flag = 1
	}
	valid := 0
	if utf8.ValidString(o) {
		valid = 1
	}
	return fmt.Sprintf("%s %d %d %d %d", hx.Hex(o), flag, len(o), utf8.RuneCountInString(o), valid)
}

func exec(line string) string {
	t := strings.Fields(line)
	s := hx.Unhex(t[1])
	n, _ := strconv.Atoi(t[2])
	switch t[0] {
	case "runes", "rawrunes":
		return call(notify.TruncateInRunes, s, n)
	case "bytes", "rawbytes":
		return call(notify.TruncateInBytes, s, n)
	}
	panic("bad op " + line)
}

var alphabet = []string{"a", "z", " ", "é", "ß", "€", "…", "世", "😀", "𝄞"}

func genString(r *rand.Rand) string {
	n := r.IntN(12)
	switch r.IntN(6) {
	case 0:
		n = r.IntN(3)
	case 1:
		n = 10 + r.IntN(30)
	case 2:
		n = 30 + r.IntN(40)
	}
	var b strings.Builder
	heavy := r.IntN(3) == 0 // mostly 3/4-byte runes
	for range n {
		if heavy {
			b.WriteString(alphabet[5+r.IntN(5)])
		} else {
			b.WriteString(hx.Pick(r, alphabet))
		}
	}
	return b.String()
}

func genLimit(r *rand.Rand, s string) int {
	switch r.IntN(5) {
	case 0:
		return r.IntN(6)
	case 1:
		return max(0, utf8.RuneCountInString(s)+r.IntN(7)-3)
	case 2, 3:
		return max(0, len(s)+r.IntN(9)-6)
	}
	return r.IntN(len(s) + 4)
}

func TestEngine(t *testing.T) {
	tr := hx.Open()
	defer tr.Close()
	do := func(line string) { tr.Linef("%s -> %s", line, exec(line)) }
	if s := hx.Script(); s != nil {
		for _, l := range s {
			if strings.HasPrefix(l, "case ") {
				tr.Linef("%s", l)
				continue
			}
			do(l)
		}
		return
	}
	r := hx.Rand(201)
	for id := range hx.Cases(4000, 150000) {
		tr.Linef("case %d", id)
		for range 1 + r.IntN(4) {
			s := genString(r)
			n := genLimit(r, s)
			kind := "bytes"
			if r.IntN(3) == 0 {
				kind = "runes"
			}
			if r.IntN(25) == 0 {
				// invalid UTF-8: totality and bounds only
				b := []byte(s + "\xff\xfe")
				if len(b) > 3 {
					b = b[1:] // may cut a multi-byte rune in half
				}
				s, kind = string(b), "raw"+kind
			}
			do(fmt.Sprintf("%s %s %d", kind, hx.Hex(s), n))
		}
	}
}
