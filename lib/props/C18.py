SPEC = {
    "lean_modules": ["AM.Props.C18"],
    "theorems": [
        "AM.Bucket.unexpired_le_cap", "AM.Bucket.listed_unexpired_le_cap", "AM.Bucket.resend_always_ok",
        "AM.Bucket.room_only_by_expiry", "AM.Bucket.evicted_was_expired", "AM.Bucket.reject_only_when_full_unexpired",
        "AM.Bucket.stale_bucket_drop_safe", "AM.Bucket.refused_changes_nothing", "AM.Bucket.every_refusal_reported",
        "AM.Bucket.stale_bucket_drop_unsafe_old", "AM.Bucket.unexpired_le_cap_false_old", "AM.Bucket.resend_refused_old",
        "AM.Bucket.f4_history_repaired",
        "AM.SilLimits.count_le_max", "AM.SilLimits.set_count_bound", "AM.SilLimits.size_le_max",
        "AM.SilLimits.rejected_op_changes_nothing", "AM.SilLimits.refusals_justified", "AM.SilLimits.accepted_is_stored",
        "AM.Sem.inflight_le_cap", "AM.Sem.refused_gets_503_and_counter", "AM.Sem.posts_unlimited",
    ],
    "engines": [
        {"name": "limits", "pkg": "./limits", "search_cases": 30000},
        {"name": "sillimits", "pkg": "./sillimits", "search_cases": 20000},
        {"name": "sem", "pkg": "./sem", "search_cases": 8000},
        # concurrent creates with one slot left (real goroutines, real time; the limit callback widens the window)
        {"name": "mutesrace", "pkg": "./mutesrace", "search_cases": 60, "timeout_quick": 300, "only": ["count_le_max"]},
    ],
    "rule": "limits: random admission / re-send / wait / GC sequences on real store.Alerts.WithPerAlertLimit (real limit.Bucket heaps) and, in a quarter "
            "of the cases, real mem.Alerts (Put, own GC ticker, alerts_limited_total) under synctest virtual time; limit 0..4, two alert names, "
            "7 label sets, end times on a minute grid around `now` (ends == now frequent); non-trivial = hits a tagged branch "
            "(set:resend/evict-expired/refused/resend-expired, gc:bucket-dropped, gc:last-slot-expired-but-live-item, mem:gc-tick); sem: the real mux of API.Register under synctest, 1-4 slots, blocked / quick GETs and POSTs "
            "on the router mounted at / AND quick GETs on the API's own mount point (/api/v2/silences): one limit for all GETs of the mux",
    "assumptions": [
        "container/heap contract (slot 0 is a minimum after Push/Pop/Fix): assumed by reject_only_when_full_unexpired; the array-level model's root is checked to be a minimum at run time (DIFF heap-contract)",
        "array-level model vs abstract map model: agreement of verdicts and contents is checked at run time on every step (DIFF refine.*), not proved",
        "model.Fingerprint is injective on the generated label sets; an alert's name is a function of its label set",
        "alerts carry a non-zero EndsAt (the API layer guarantees it); a zero EndsAt would be an immediately evictable, never-resolving alert",
    ],
}
