SPEC = {
    "lean_modules": ["AM.Props.Suppress", "AM.Props.C07", "AM.Props.C15"],
    "theorems": [
        "AM.Suppress.time_muted_nothing_survives", "AM.Suppress.time_muted_path_empty", "AM.Suppress.suppressed_never_notified",
        # calendar (AM.Base.Calendar)
        "AM.Calendar.civil_roundtrip", "AM.Calendar.civil_roundtrip_inv", "AM.Calendar.civil_valid",
        "AM.Calendar.civil_unique", "AM.Calendar.toDays_injective",
        "AM.Calendar.days_in_month_correct", "AM.Calendar.days_in_month_leap_rule",
        "AM.Calendar.daysBeforeYear_step", "AM.Calendar.next_day_correct",
        "AM.Calendar.toDays_strictMono", "AM.Calendar.toDays_lt_iff", "AM.Calendar.civilFromDays_strictMono",
        "AM.Calendar.weekday_correct", "AM.Calendar.weekday_range", "AM.Calendar.weekday_epoch", "AM.Calendar.epoch_anchor",
        # ContainsTime
        "AM.TimeInterval.clamp_is_intersection", "AM.TimeInterval.clamp_alone_is_wrong", "AM.TimeInterval.clamp_spec",
        "AM.TimeInterval.containsClock_iff", "AM.TimeInterval.containsClock_iff_partial", "AM.TimeInterval.pinned_month_length_counterexample",
        "AM.TimeInterval.contains_iff_spec", "AM.TimeInterval.containsTime_iff_spec",
        "AM.TimeInterval.specB_iff", "AM.TimeInterval.clockOf_valid",
        "AM.TimeInterval.empty_field_rejects", "AM.TimeInterval.absent_fields_accept",
        # Mutes and the stages
        "AM.TimeInterval.mutes_spec", "AM.TimeInterval.mute_gate", "AM.TimeInterval.active_gate",
        "AM.TimeInterval.stages_transparent", "AM.TimeInterval.route_gate",
        # the location carried by the caller's time.Time is irrelevant (UTC by default; Mutes normalises with now.UTC())
        "AM.TimeInterval.containsTime_caller_zone_irrelevant", "AM.TimeInterval.containsTime_no_location",
        "AM.TimeInterval.containsTime_alone_depends_on_caller_zone",
        "AM.TimeInterval.mutes_caller_zone_irrelevant", "AM.TimeInterval.mutes_reads_utc_by_default",
        "AM.TimeInterval.mute_stage_caller_zone_irrelevant", "AM.TimeInterval.active_stage_caller_zone_irrelevant",
        "AM.TimeInterval.pipeline_caller_zone_irrelevant",
        # validation
        "AM.TimeInterval.rangeValid_weekday", "AM.TimeInterval.rangeValid_dom", "AM.TimeInterval.parseTimeRange_valid",
    ],
    "engines": [
        {"name": "timeint", "pkg": "./timeint", "search_cases": 6000},
        # which interval names gate a route is decided by the routing tree: a route uses its OWN mute/active intervals, never an ancestor's (C07's engine)
        {"name": "route", "pkg": "./route", "search_cases": 20000, "quick_cases": 2500, "only": ["inherit_spec"]},
        # the whole pipeline: the assembled instance (engine sys of C01/C04/C05) never lists a suppressed alert in a notification
        {"name": "sys", "pkg": "./sys", "search_cases": 4000, "quick_cases": 250, "timeout_quick": 90, "only": ["route_gate"]},
        # "the group is reported as muted … by the API": the group marker of a live group survives every interleaving of
        # maintenance with the re-creation of the group (C06's scheduled engine; its stage is a muted flush)
        {"name": "groupsched", "pkg": "./groupsched", "search_cases": 3000, "quick_cases": 600, "only": ["route_gate"]},
        # "the group is reported as muted, with the muting interval names, by the API" — and only that group (C17's engine: the real application, op gmuted)
        {"name": "reload", "pkg": "./reload", "search_cases": 4, "timeout_quick": 400, "timeout_thorough": 900, "timeout_search": 400, "only": ["route_gate"]},
    ],
    "rule": "interval specifications rendered as YAML (flow quoted / flow plain / block) or JSON and parsed by the real unmarshallers and config.Load "
            "(weekday names and ranges, negative and mixed days of month, month names and numbers, years, 1-3 time ranges incl. 24:00, locations, "
            "absent / null / empty-list fields) x instants: every UTC-offset change 1850-2100 of 22 IANA zones at -120,-61,-60,-1,0,+1,+59,+60,+120 s, "
            "a minute grid 1850-2100 with seconds 0/59/random, and local date-times built from the interval's own bounds (range ends +-1, month ends, 29 Feb); "
            "per instant ContainsTime for every interval (UTC or another caller zone), Intervener.Mutes on name lists, TimeMuteStage / TimeActiveStage / "
            "MultiStage{active,mute} Exec with the group marker read back; the instant handed to Mutes / put into the stage context is carried in a caller zone drawn per line: "
            "UTC, Local (time.Unix(u,0) as timer channels deliver it; the process zone time.Local is set per case to one of the IANA zones or a fixed offset, UTC in a third of the cases), "
            "fixed offsets +14:00 +13:00 -12:00 -11:00 +05:45 -03:30 +09:30 -04:42:46 +01:00, IANA zones with DST, the intervals' own zones; for both location-less intervals and intervals "
            "with a location; half of the Mutes lines and a third of the stage lines are repeated at once with another caller zone and must give the same answer; "
            "the spec side reads Go's civil fields in the interval's own location (UTC when it has none), never in the caller's; a fifth of the random cases draws from pools of invalid and tricky-valid strings "
            "plus short fuzz strings and compares accept/reject and the parsed ranges; a case is non-trivial when it hits a tagged branch "
            "(c:in, time:at-end, dom:negative, dom:begins-after-month-end, dom:end-clamped, zone:offset-with-seconds, gate:*, m:/st:caller-non-utc, m:/st:caller-zone-would-differ, m:/st:two-caller-zones ...); distinct = hash of the case's lines",
    "assumptions": [
        "the tz database is data: the harness reports the offset Go's time package gives for (zone, instant); the driver checks the model's civil fields against Go's for every (instant, zone)",
        "YAML/JSON libraries and strings.ToLower on ASCII are trusted; generated range strings are ASCII (plus one non-ASCII digit string in the invalid pool)",
        "time.LoadLocation's verdict on a location name is an input (locok) to the model's validation",
        "the model's month length is the calendar's; the pinned code evaluates it in the interval's location (finding F12, fixes/F12.diff)",
        "a Go time.Time is modelled as (unix seconds, offset of the location it carries): callerOff; time.Time.UTC() is utcOff (offset 0, same instant); "
        "the harness assigns time.Local inside the test process (single goroutine) to stand for a process started with another TZ",
        "gate theorems: route id, group key and now are in the context and every listed name is configured (config.Load guarantees it); other contexts are compared against the model only",
    ],
}
