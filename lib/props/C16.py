SPEC = {
    "lean_modules": ["AM.Props.C16"],
    "theorems": [
        "AM.Mt.utf8_roundtrip", "AM.Mt.classic_roundtrip", "AM.Mt.fallback_roundtrip",
        "AM.Mt.utf8_roundtrip_list", "AM.Mt.classic_roundtrip_list",
        "AM.Mt.printPinned_eq_print", "AM.Mt.empty_name_counterexample",
        "AM.Mt.fallback_spec", "AM.Mt.fallback_spec_list",
        "AM.Mt.fallback_prefers_classic", "AM.Mt.fallback_prefers_classic_list",
        "AM.Mt.classic_only_still_accepted", "AM.Mt.classic_only_still_accepted_list",
        "AM.Mt.brace_guard_rejects_classic_input", "AM.Mt.parsers_total",
        "AM.Mt.matchesValue_spec", "AM.Mt.get_missing", "AM.Mt.matches_spec", "AM.Mt.matcherset_spec",
        "AM.Mt.unesc_omEscape", "AM.Mt.unquote_quote", "AM.Mt.unquote_omEscape",
    ],
    "engines": [
        {"name": "matcher", "pkg": "./matcher", "search_cases": 40000},
    ],
    "rule": "",
    "assumptions": [],
}
