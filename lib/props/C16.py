SPEC = {
    "lean_modules": ["AM.Props.C16"],
    "theorems": [
    ],
    "engines": [
        {"name": "matcher", "pkg": "./matcher", "search_cases": 40000},
    ],
    "rule": "",
    "assumptions": [],
}
