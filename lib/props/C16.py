SPEC = {
    "lean_modules": ["AM.Props.C16"],
    "theorems": [
        # round trips (printer = Matcher.String with fixes/F7.diff), any strings / any list length
        "AM.Mt.utf8_roundtrip", "AM.Mt.classic_roundtrip", "AM.Mt.fallback_roundtrip",
        "AM.Mt.utf8_roundtrip_list", "AM.Mt.classic_roundtrip_list", "AM.Mt.fallback_roundtrip_list",
        "AM.Mt.unesc_omEscape", "AM.Mt.unquote_quote", "AM.Mt.unquote_omEscape",
        # the pinned printer and F7
        "AM.Mt.printPinned_eq_print", "AM.Mt.empty_name_counterexample",
        # parser agreement
        "AM.Mt.fallback_spec", "AM.Mt.fallback_spec_list",
        "AM.Mt.fallback_prefers_classic", "AM.Mt.fallback_prefers_classic_list",
        "AM.Mt.classic_only_still_accepted", "AM.Mt.classic_only_still_accepted_list",
        "AM.Mt.brace_guard_rejects_classic_input",
        # totality
        "AM.Mt.parsers_total",
        # match semantics
        "AM.Mt.matchesValue_spec", "AM.Mt.get_missing", "AM.Mt.matches_spec", "AM.Mt.matcherset_spec",
        # regular expressions: what "fully anchored" means (AM.Model.MatcherRegex: Den / Search / FullMatch / matchRe)
        "AM.Mt.nullable_iff", "AM.Mt.deriv_iff", "AM.Mt.matchRe_iff",
        "AM.Mt.wrapped_search_iff_full_match", "AM.Mt.search_of_full_match",
        "AM.Mt.lookalike_is_not_anchored", "AM.Mt.search_is_weaker_than_full_match",
        "AM.Mt.regex_matcher_is_wrapped_search",
    ],
    "engines": [
        {"name": "matcher", "pkg": "./matcher", "search_cases": 40000},
        # "silences … use this same meaning": a stored silence mutes exactly the label sets its own stored matchers hold for (C02's engine)
        {"name": "silencer", "pkg": "./silencer", "search_cases": 6000, "quick_cases": 800, "only": ["mutes_eq_bruteforce", "edit_incompatible_expires_old_creates_new"]},
        # "inhibition rules … use this same meaning" (a missing label reads as the empty string, also for =~): C03's engine
        {"name": "inhibit", "pkg": "./inhibit", "search_cases": 8000, "quick_cases": 3000, "only": ["mutes_iff_spec"]},
        # "routes … use this same meaning": a route holds with exactly its configured matchers (C07's engine)
        {"name": "route", "pkg": "./route", "search_cases": 20000, "quick_cases": 2500, "only": ["route_key_spec", "accepts_newRoute", "match_iff_selects"]},
    ],
    "rule": "three case kinds from one seeded PRNG: rt (45 %: a list of 0-4 generated matchers - classic / UTF-8 / reserved-rune / empty names, "
            "values over a fixed rune pool incl. quotes, backslashes, LF, tabs, braces, commas, non-BMP, controls, escape look-alikes, all four operators, "
            "regex values from a small AST - printed by the real Matcher.String / Matchers.String and parsed back by labels.ParseMatcher(s), parse.Matcher(s), "
            "compat.Matcher(s) in fallback mode), adv (40 %: token soup, edited well-formed text, classic-vs-UTF-8 probes, invalid UTF-8, through all six parsers, "
            "recover + 5 s bound per call; every accepted result is printed and parsed again), match (15 %: matcher lists x label sets, Matchers.Matches, "
            "Matcher.Matches per matcher, MatcherSet.Matches; regex values from the AST or (40 %) from ~80 shapes that interact with the ^(?:...)$ wrapping: patterns beginning "
            "with '^(?:' and/or ending with ')$' that are not thereby anchored, explicit ^ / $ at the ends and inside, .* prefixes/suffixes, top-level alternations, nested groups, "
            "and flag / class / counted / \\A \\z \\b patterns; label values: members of the language, members extended before/after by letters of the alphabet, a line feed or another member, "
            "other case, one rune short, one rune changed, random). Per (pattern, value) the harness reports Go's regexp verdict on the explicitly anchored expression "
            "^(?:pattern)$, computed from the Value alone and independently of NewMatcher: that is the spec side `fm`; the driver's derivative matcher must agree with it on its fragment. "
            "A case is non-trivial when it hits a tagged branch (rt:*-branch, adv1/advL agreement classes, "
            "match:true/false/missing-label/regex/value-contains-match-only/pattern-*); distinct = distinct hash of the case's lines",
    "assumptions": [
        "strconv.IsPrint is a parameter of the printer model; the theorems hold for every table that does not call LF printable; the driver uses a fixed table "
        "for the harness' rune pool (the harness asserts it against the real strconv.IsPrint) and compares the printer only on strings inside the pool",
        "regexp.Compile is the parameter `compiles`; the driver runs the model with compiles = true and accepts the implementation's answer R (regexp compile error) "
        "where the model reaches NewMatcher (single classic parser) or without comparison (list parsers, parse.Matcher); fallback is then compared through the spec "
        "predicates on the implementation's own outputs only",
        "regexp matching is the parameter `fm` (pattern matches the whole value). The spec side of the engine is Go's regexp package asked about the explicitly anchored "
        "expression ^(?:pattern)$ (regexp.Compile + MatchString are trusted as the meaning of the pattern language; the expression is built by the harness, not by the code under test). "
        "For the fragment literals, QuoteMeta escapes, '.', groups, alternation, one postfix * + ?, and ^ $ anywhere, the driver also evaluates AM.Mt.matchRe "
        "(proved to decide FullMatch: matchRe_iff; searching the wrapped expression = full match: wrapped_search_iff_full_match) and reports DIFF regex-oracle when the two disagree",
        "reflect.DeepEqual on *labels.Matcher is equality of (Type, Name, Value): the compiled regexp is a function of Value",
        "positions/columns of the UTF-8 lexer and all error texts are dropped: only accept/reject (+ 'regexp error') and the parsed matchers are compared",
        "the single-matcher fallback/UTF-8 parsers of compat refuse input with a leading '{' or trailing '}' before parsing (modelled; classic_only_still_accepted "
        "for one matcher carries that hypothesis, see brace_guard_rejects_classic_input)",
    ],
}
