SPEC = {
    "lean_modules": ["AM.Props.Suppress", "AM.Props.C02", "AM.Props.C02I", "AM.Props.C02M"],
    "theorems": [
        "AM.Suppress.suppressed_never_notified", "AM.Suppress.unsuppressed_firing_listed", "AM.Suppress.verdicts_only_at_flush",
        "AM.Silence.mutes_correct", "AM.Silence.inv_step", "AM.Silence.reachable_inv",
        "AM.Silence.mutes_eq_bruteforce", "AM.Silence.takes_effect_next_flush", "AM.Silence.effective_after_merge",
        "AM.Silence.mutes_eq_bruteforce_partial", "AM.Silence.revival_counterexample",
        "AM.Silence.cacheInv_step", "AM.Silence.cacheInv_time", "AM.Silence.cacheInv_postGC", "AM.Silence.cacheInv_fresh",
        "AM.Silence.step_mergeOne", "AM.Silence.step_gc", "AM.Silence.set_step", "AM.Silence.expire_step",
        "AM.Silence.index_inv_preserved", "AM.Silence.query_eq_filter",
        # one Mutes call as the code runs it: store operations between its steps (AM.Props.C02I)
        "AM.Silence.mutesI_atomic", "AM.Silence.mutesI_cacheInv", "AM.Silence.mutes_interleaved_bracket",
        "AM.Silence.mutesI_linearizable", "AM.Silence.mutesI_next_call_exact", "AM.Silence.mutesI_during_set",
        "AM.Silence.expire_keepsActive", "AM.Silence.set_keepsActive",
        "AM.Silence.interleaved_update_lost_counterexample", "AM.Silence.merge_interleaving_not_linearizable",
        # the matchers stored under an id / the compiled-matcher index (AM.Props.C02M)
        "AM.Silence.set_keeps_matchers", "AM.Silence.expire_keeps_matchers",
        "AM.Silence.stMi_setSilence", "AM.Silence.stMi_gc", "AM.Silence.stMi_reload", "AM.Silence.stMi_mergeOne",
        "AM.Silence.merge_stale_index_counterexample",
        "AM.Silence.api_run", "AM.Silence.mutes_eq_bruteforce_api",
    ],
    "engines": [
        {"name": "silencer", "pkg": "./silencer", "search_cases": 10000},
        # a real writer goroutine racing one real Mutes call (real time, no seam): the call after both returned is exact
        {"name": "mutesrace", "pkg": "./mutesrace", "search_cases": 60, "timeout_quick": 300},
        # the whole pipeline: the assembled instance (engine sys of C01/C04/C05) never lists a suppressed alert in a notification
        {"name": "sys", "pkg": "./sys", "search_cases": 4000, "quick_cases": 250, "timeout_quick": 90, "only": ["takes_effect_next_flush"]},
        # "… and in the status the API reports for the alert": the real application's status callback (C17's engine, op astatus)
        {"name": "reload", "pkg": "./reload", "search_cases": 4, "timeout_quick": 400, "timeout_thorough": 900, "timeout_search": 400, "only": ["mutes_eq_bruteforce"]},
    ],
    "rule": "random histories on one real silence.Silences + silence.Silencer under synctest virtual time (1 s grid): Set create/edit "
            "(compatible; every minimal variation of the stored matcher sets - operator only, value only, name only, one matcher added / "
            "dropped / moved, a set added / dropped / moved; other catalog entries), Expire, Merge of batches 1-3 (late, duplicated, "
            "out-of-order pooled versions; crafted versions around the tie / retention boundaries; revivals, remote expiries and re-pendings "
            "of stored silences), GC, PostGC eviction of random panel subsets, snapshot reload (new Silences + new Silencer), Query; over <= ~6 "
            "ids x 13 matcher sets (=, !=, =~, !~, two OR-ed sets, UTF-8 name, pairs of distinct matchers whose name+operator+pattern texts coincide: a=\"~1\" / a=~\"1\", \"a=\"=\"1\" / a=\"=1\", alone and OR-ed in one silence; a third of the edits are read-modify-write on the object QueryOne(QIDs) returned) and their variations x a panel of 10 label sets that grows (<= 16) "
            "by label sets on which an edit's old and new matchers disagree; after every operation Mutes (with a marker in the context, so "
            "silencedBy is observed) for a random part of the panel, so cache entries of different ages coexist; one call in twelve is "
            "INTERLEAVED (imutes): 1-2 store operations (Set create - mostly matching this alert - / edit, Expire, Merge, GC) run on the same "
            "Silences at the start of the 1st / 2nd Silences.Query span of that very Mutes call or at its debug log line before the cache "
            "write (OpenTelemetry span processor + slog handler: no source hook), i.e. between its version read, re-query, since-scan and "
            "cache write; the driver replays them on the micro-step model mutesI, compares model = impl, holds every plain answer against the "
            "brute force over the implementation's own dump with the matchers as dumped (evaluated in Lean, independent of Silences.mi; "
            "classes stale-matcher-index / interleaved-update-lost / revival / verdict / silencedBy) and every interleaved answer against the "
            "bracket of mutes_interleaved_bracket over the dumps seen during the call; non-trivial = tagged branch "
            "(mutes:fast-path/recheck-cached/scan-since/cached+since/muted, imutes:q1|q2|w:<op>, imutes:*-not-reached, merge:revival/newer/older/"
            "tie/duplicate/past-retention, set:in-place/replace, postgc, reload, gc:removed, ...)",
    "assumptions": [
        "fingerprints are injective on the panel (a cache key is the label set itself)",
        "matchers: for histories without merges nothing is assumed (mutes_eq_bruteforce_api: msOf is constructed from the history; only "
        "pairwise distinct uuids); a merged version of an id carries the matcher sets of that id (Op.Ok: msOf) - Silences.Merge neither checks "
        "this nor recompiles the matcher index (merge_stale_index_counterexample); the generators keep merges inside this hypothesis",
        "time does not go backwards between operations (Run); all clock reads inside one Mutes call return the same instant (the harness "
        "clock is frozen during a call); store operations are atomic at lock granularity, a Mutes call is four such accesses (mutesI)",
        "mutesI_linearizable needs KeepsActive of the interleaved operations (proved for Expire and Set at a frozen clock; an in-place edit "
        "may move an active silence's start within the current second: excluded by hypothesis hstart); arbitrary merges only satisfy the "
        "bracket (merge_interleaving_not_linearizable)",
        "regex semantics is a parameter of the theorems (env.re); the driver executes the fragment the generators emit (alternatives of literal, .*, .+, lit.*, .*lit)",
        "theorems and model describe the repaired Silences.Merge of fixes/F1.diff; for the pinned tree: revival_counterexample + mutes_eq_bruteforce_partial (VERIF_F1FIX=0 selects that discipline in the driver)",
        "MuteStage.Exec / marker.SetSilenced are modelled only as 'drop iff Mutes' and 'silencedBy = active ids' (takes_effect_next_flush, second conjunct of mutes_eq_bruteforce); the whole-pipeline variant belongs to engine sys",
    ],
}
