SPEC = {
    "lean_modules": ["AM.Props.C02"],
    "theorems": [
        "AM.Silence.mutes_correct", "AM.Silence.inv_step", "AM.Silence.reachable_inv",
        "AM.Silence.mutes_eq_bruteforce", "AM.Silence.takes_effect_next_flush", "AM.Silence.effective_after_merge",
        "AM.Silence.mutes_eq_bruteforce_partial", "AM.Silence.revival_counterexample",
        "AM.Silence.cacheInv_step", "AM.Silence.cacheInv_time", "AM.Silence.cacheInv_postGC", "AM.Silence.cacheInv_fresh",
        "AM.Silence.step_mergeOne", "AM.Silence.step_gc", "AM.Silence.set_step", "AM.Silence.expire_step",
        "AM.Silence.index_inv_preserved", "AM.Silence.query_eq_filter",
    ],
    "engines": [
        {"name": "silencer", "pkg": "./silencer", "search_cases": 10000},
    ],
    "rule": "random histories on one real silence.Silences + silence.Silencer under synctest virtual time (1 s grid): Set create/edit "
            "(compatible and incompatible), Expire, Merge of batches 1-3 (late, duplicated, out-of-order pooled versions; crafted versions "
            "around the tie / retention boundaries; revivals, remote expiries and re-pendings of stored silences), GC, PostGC eviction of "
            "random panel subsets, snapshot reload (new Silences + new Silencer), Query; over <= ~6 ids x 7 matcher sets (=, !=, =~, !~, two "
            "OR-ed sets, UTF-8 name) x a panel of 8 label sets; after every operation Mutes (with a marker in the context, so silencedBy is "
            "observed) for a random two thirds of the panel, so cache entries of different ages coexist; the driver compares model = impl and "
            "impl verdict / silencedBy = brute force over the implementation's own dump; non-trivial = tagged branch "
            "(mutes:fast-path/recheck-cached/scan-since/cached+since/muted, merge:revival/newer/older/tie/duplicate/past-retention, postgc, reload, gc:removed, ...)",
    "assumptions": [
        "fingerprints are injective on the panel (a cache key is the label set itself)",
        "versions of one silence id carry the same matcher sets (Op.Ok: msOf); the uuid drawn by Set is not the id of a stored silence",
        "time does not go backwards between operations (Run); one Mutes call is one atomic step (both clock reads agree)",
        "regex semantics is a parameter of the theorems (env.re); the driver executes the fragment the generators emit (alternatives of literal, .*, .+, lit.*, .*lit)",
        "theorems and model describe the repaired Silences.Merge of fixes/F1.diff; for the pinned tree: revival_counterexample + mutes_eq_bruteforce_partial (VERIF_F1FIX=0 selects that discipline in the driver)",
        "MuteStage.Exec / marker.SetSilenced are modelled only as 'drop iff Mutes' and 'silencedBy = active ids' (takes_effect_next_flush, second conjunct of mutes_eq_bruteforce); the whole-pipeline variant belongs to engine sys",
    ],
}
