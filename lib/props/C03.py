SPEC = {
    "lean_modules": ["AM.Props.Registry", "AM.Props.Suppress", "AM.Props.C03"],
    "theorems": [
        "AM.Registry.subscribe_keeps_served", "AM.Registry.gc_keeps_live", "AM.Registry.keysFresh_run", "AM.Registry.len_keyed_displaces_live_subscriber",
        "AM.Suppress.suppressed_never_notified", "AM.Suppress.surviving_iff",
        # repaired code (fixes/F2.diff): full statements
        "AM.Inhibit.mutes_iff_spec", "AM.Inhibit.verdict_order_independent",
        "AM.Inhibit.status_reports_a_real_inhibitor", "AM.Inhibit.run_inv", "AM.Inhibit.inhibitedB_iff",
        "AM.Inhibit.hasEqual_iff_clause",
        # pinned tree: partial statement + kernel-decided counterexamples (finding F2)
        "AM.Inhibit.mutes_iff_spec_partial",
        "AM.Inhibit.single_slot_resolved_sibling", "AM.Inhibit.single_slot_gc_sibling",
        "AM.Inhibit.single_slot_two_sided", "AM.Inhibit.mutes_iff_spec_false_for_pinned_tree",
    ],
    "engines": [
        {"name": "inhibit", "pkg": "./inhibit", "search_cases": 20000},
        # the whole pipeline: the assembled instance (engine sys of C01/C04/C05) never lists a suppressed alert in a notification
        {"name": "sys", "pkg": "./sys", "search_cases": 4000, "quick_cases": 250, "timeout_quick": 90, "only": ["mutes_iff_spec"]},
        # "an inhibited alert is reported as suppressed with an inhibiting alert by the API": the real application (C17's engine, op astatus)
        {"name": "reload", "pkg": "./reload", "search_cases": 4, "timeout_quick": 400, "timeout_thorough": 900, "timeout_search": 400, "only": ["status_reports_a_real_inhibitor"]},
    ],
    "rule": "random histories on the real mem.Alerts provider + inhibit.Inhibitor under synctest virtual time: 1-3 rules "
            "(matchers with all four operators over sev/role/x/e, 0-2 equal labels, sides that overlap), a pool of 4-7 label sets "
            "drawn from a tiny vocabulary so that several sources share equal-label values; ops put (fire / refresh with another end / "
            "explicit resolve / past end / timeout flag), wait (to an exact end instant, a few minutes, past the 15-minute cache GC, "
            "past the provider GC); after each op Mutes for a panel of 3-5 label sets and now and then the verdict of a fresh inhibitor "
            "on the same provider; a case is non-trivial when it hits a tagged branch (mutes:true, put:merge, gc:cache-collected, "
            "share-eq, mutes:sibling-found-by-scan, …); distinct = distinct hash of the case's op lines",
    "assumptions": [
        "fingerprints (alert, equal-label set) are injective: the model uses the canonical label list itself",
        "regular expressions: theorems hold for any predicate on label sets; the driver's matcher for the generated fragment is "
        "compared with Go regexp on every (pattern, value) pair a case uses (rematch lines)",
        "stored alerts carry a non-zero EndsAt (the API handler always sets one)",
        "the cache GC (gcAlerts + gcCallback) is one atomic step w.r.t. processAlert (true under synctest; in production the two "
        "run on different goroutines without a common lock)",
        "the model + full theorems describe the tree with fixes/F2.diff applied; the pinned tree is described by AM.Inhibit.Legacy",
    ],
}
