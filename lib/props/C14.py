SPEC = {
    "lean_modules": ["AM.Props.C13", "AM.Props.C14", "AM.Props.C01", "AM.Props.C05", "AM.Props.C06Conc"],
    "theorems": [
        "AM.Ingest.putValue_identity",
        "AM.PutOrder.group_holds_stored_version", "AM.PutOrder.split_put_reorders",
        # repaired ingestion (fixes/F3.diff): full statement over all schedules
        "AM.Workers.final_is_last_submitted", "AM.Workers.fire_then_resolve_not_stale",
        "AM.Workers.resolve_then_fire_not_dropped", "AM.Workers.run_inv", "AM.Workers.not_quiescent_can_step",
        # pinned tree: counterexample decided by the kernel, partial statement (one worker)
        "AM.Workers.two_worker_reorder", "AM.Workers.final_is_last_submitted_false_for_pinned_tree",
        "AM.Workers.final_is_last_submitted_partial",
        # dispatcher (re)start: the snapshot of SlurpAndSubscribe is routed before the workers start (code as it is): full statement;
        # snapshot routed concurrently with the workers: counterexample decided by the kernel
        "AM.Workers.Load.loadAll_spec", "AM.Workers.Load.seq_decompose", "AM.Workers.Load.final_is_last_submitted",
        "AM.Workers.Load.restart_holds_latest", "AM.Workers.Load.no_worker_step_while_loading",
        "AM.Workers.Load.initial_load_reorder", "AM.Workers.Load.initial_load_reorder_not_sequential",
        "AM.Workers.Load.final_is_last_submitted_false_for_concurrent_load",
        # the group side of "applied in order": the group that holds the re-fired alert stays alive and keeps flushing
        "AM.Group.flush_gap_le", "AM.Group.refire_survives_flush", "AM.GroupMap.no_orphan_live_group",
    ],
    "engines": [
        {"name": "workers", "pkg": "./workers", "search_cases": 10000},
        # store-and-publish atomicity of the provider: two real concurrent submitters, a dawdling PostStore callback
        {"name": "putorder", "pkg": "./putorder", "timeout_quick": 120, "search_cases": 600},
        # the provider itself must hold the most recently submitted version, also when two submissions carry the same receive time (C13's engine)
        {"name": "ingest", "pkg": "./ingest", "search_cases": 8000, "quick_cases": 1500, "only": ["putValue_identity"]},
        # "every aggregation group holding that alert holds the most recently submitted version": no orphaned live group may keep
        # a superseded version notifying (C06's scheduled engine: maintenance racing the re-creation of a group)
        {"name": "groupsched", "pkg": "./groupsched", "search_cases": 3000, "quick_cases": 600, "only": ["no_orphan_live_group", "insert_lands"]},
        # "a resolve-then-fire is never notified as resolved and dropped": a re-fire applied while the group's "resolved" notification is in flight
        # stays in a live group that keeps flushing (the whole-system engine of C01/C05: real provider, dispatcher, pipeline, slow receivers)
        {"name": "sys", "pkg": "./sys", "timeout_quick": 90, "search_cases": 6000, "only": ["flush_gap_le", "refire_survives_flush", "no_orphan_live_group", "flush_lists_all"]},
    ],
    "rule": "real mem.Alerts provider + dispatch.Dispatcher under synctest; the dispatcher's debug log line 'Received alert' "
            "(emitted by the ingestion worker between channel receive and group insert) is used as a yield point through a "
            "slog.Handler, so receive/apply steps are serialised in a generated order: 2-6 updates (fire / refresh / resolve / "
            "re-fire) of 1-3 alerts, 2/3/4/8 workers, parked workers released in random order; group content observed after "
            "every release and at the end; plus ungated stress runs of 2000 back-to-back fire->resolve pairs (2 quick, 20 "
            "thorough); a case is non-trivial when two updates were in flight at once or the final check ran; "
            "dispatcher (re)start (half as many cases again, header load=1): 1-4 updates are put into the provider before any dispatcher "
            "exists, then a dispatcher is started (and in 1 of 3 cases restarted later on the same provider): the initial load "
            "(Run routing the SlurpAndSubscribe snapshot) parks at the same log line at each snapshot alert (^alert:ver), while 1-4 newer "
            "updates of already-loaded, being-loaded, not-yet-loaded and new alerts are published; whatever is parked (the load, "
            "and any worker) is released in random order; Groups() is 'loading' until the load is done; plus ungated lstress runs: 2000 "
            "alerts in the provider, dispatcher started while all 2000 resolve",
    "assumptions": [
        "channel receive and store.Alerts.Set are atomic steps; the model has one group per alert (all groups of an alert get "
        "the same inserts inside one worker step)",
        "the owner of an alert (fingerprint mod N) is computed by the harness and passed in the case header; the theorem "
        "holds for every owner function",
        "worker queues are unbounded in the model (64 in fixes/F3.diff: a full queue only delays the distributor)",
        "the model + full theorem describe the tree with fixes/F3.diff applied; the pinned tree is AM.Workers.Legacy",
        "initial load: SlurpAndSubscribe takes the snapshot and registers the subscription in one critical section of the provider "
        "(so every snapshot version is older than every subscribed version of the same alert): read off provider/mem, not checked here; "
        "the snapshot's order is a Go map iteration order: the model takes it from the trace (any order is a schedule)",
        "snapshot items are recognised by content (the versions the provider held when the dispatcher was started), not by goroutine",
    ],
}
