SPEC = {
    "lean_modules": ["AM.Props.C06", "AM.Props.C08", "AM.Props.Registry"],
    "theorems": [
        "AM.Route.route_key_spec",
        "AM.Cluster.sound_init", "AM.Cluster.sound_step", "AM.Cluster.sound_run",
        "AM.Cluster.entry_implies_sent", "AM.Cluster.at_least_once",
        "AM.Cluster.sent_congr", "AM.Cluster.slot_congr", "AM.Cluster.deliver_sets_slot", "AM.Cluster.healthy_step_refines",
        "AM.Cluster.quiet_after_record", "AM.Cluster.healthy_no_duplicate", "AM.Cluster.duplicate_without_gossip",
        "AM.Dedup.eligible_listed_or_recorded",
        # the staggering by position: members that agree on the member list hold pairwise distinct positions (mesh engine)
        "AM.Registry.position_lt_of_lt", "AM.Registry.positions_distinct", "AM.Registry.table_position_collides",
    ],
    "engines": [
        {"name": "cluster", "pkg": "./cluster", "timeout_quick": 90, "search_cases": 8000},
        # "each notification owed per C01/C04/C05" is the single-instance engine (a flush period that grows with the
        # cluster wait breaks the healthy case); the log entries travel through the gossip layer of C19
        {"name": "sys", "pkg": "./sys", "timeout_quick": 90, "search_cases": 6000, "quick_cases": 300},
        {"name": "gossip", "pkg": "./gossip", "search_cases": 6000, "quick_cases": 600},
        # the group key is the key of the replicated log: every instance must derive the same one from the same configuration (C07's engine)
        {"name": "route", "pkg": "./route", "search_cases": 20000, "quick_cases": 2500, "only": ["route_key_spec"]},
        # a (re)started instance must receive the cluster's notification log at join time: the application registers its
        # states before it joins (C19's engine: real memberlist; the order in app/app.go is read from the source)
        {"name": "mesh", "pkg": "./mesh", "search_cases": 4, "timeout_quick": 400, "only": ["full_state_superset", "positions_distinct"]},
        # the replicated notification log is what keeps later-positioned instances silent: an older entry must never replace a newer one (C10's engine)
        {"name": "nflog", "pkg": "./nflog", "search_cases": 8000, "quick_cases": 1200, "only": ["merge_monotone", "fold_merge_perm"]},
    ],
    "rule": "1-3 REAL pipelines (PipelineBuilder.New incl. the real ClusterWaitStage, wait = position x 15 s, every assignment of positions) each on its own real "
            "nflog.Log, joined by a scripted gossip channel (per-link delay below / above the peer timeout, loss, late re-delivery of everything ever broadcast), "
            "instances missing a round, rejecting integrations, log GC, crashes with and without snapshot, tick skew 0-3 s, under synctest virtual time; half of the "
            "cases keep every round healthy (all links faster than the peer timeout, all instances up) and must then show at most one send per round; the driver "
            "replays every flush/deliver/gc/crash event on AM.Cluster and checks at_least_once, entry_implies_sent and healthy_no_duplicate on the implementation's "
            "own sends and entries; non-trivial = hits a tagged branch; distinct = distinct hash of the case's lines",
    "assumptions": [
        "healthy_no_duplicate is stated over one shared log consulted by the staggered flushes of a round; healthy_step_refines shows that per-instance logs agree with that shared log position by position when (hypothesis H1) every entry recorded "
        "by an earlier-positioned instance has been merged before a later-positioned instance's wait ends; equal clocks up to `skew` <= repeat_interval); "
        "duplicate_without_gossip shows the hypothesis is needed",
        "memberlist dissemination, real clock skew and TCP are not modelled (C19 covers the transport at the delegate level)",
        "one (group, integration) per case; alerts identified by hash; the flush inputs of the instances of one round are the same batch",
    ],
}
