SPEC = {
    "lean_modules": ["AM.Props.C04"],
    "theorems": [
        "AM.Dedup.needsUpdate_iff", "AM.Dedup.path_send_iff", "AM.Dedup.flush_sent_iff", "AM.Dedup.sent_firing",
        "AM.Dedup.flush_no_firing_only_after_firing", "AM.Dedup.run_eq_runG",
        "AM.Dedup.inv_flush", "AM.Dedup.inv_gc", "AM.Dedup.inv_everywhere",
        "AM.Dedup.notify_only_if_changed_or_repeat", "AM.Dedup.gone_implies_repeat_elapsed",
        "AM.Dedup.early_repeat_when_retention_short",
        "AM.Dedup.repeat_on_time", "AM.Dedup.no_repeat_before", "AM.Dedup.repeat_when_entry_gone", "AM.Dedup.repeat_window",
        "AM.Dedup.no_resolved_only_first", "AM.Dedup.logged_with_firing_was_sent",
    ],
    "engines": [
        {"name": "pipe", "pkg": "./pipe", "timeout_quick": 90, "search_cases": 20000},
        {"name": "sys", "pkg": "./sys", "timeout_quick": 90, "search_cases": 6000},
        # "across notification-log GC, snapshot reload and restarts": the log itself, restarted through the real
        # Maintenance loop and its snapshot file (C10's engine)
        {"name": "nflog", "pkg": "./nflog", "timeout_quick": 90, "search_cases": 30000},
        # repeats must survive a rejected reload: the running dispatcher stays in place (C17's engine: the real reload closure)
        {"name": "reload", "pkg": "./reload", "search_cases": 4, "timeout_quick": 400, "timeout_thorough": 900, "timeout_search": 400, "only": ["failed_reload_keeps_running", "failed_reload_keeps_config", "repeat_on_time"]},
        # the deliveries themselves: the real e-mail notifier against a loopback SMTP server that accepts the message and then fails QUIT
        # (421 / 5xx / connection dropped): delivered once per flush, logged, the unchanged group is not notified again (engine email, real time)
        {"name": "email", "pkg": "./email", "search_cases": 40, "timeout_quick": 120},
        # an orphaned live group (maintenance racing the re-creation of a group) keeps notifying on its own: C06's scheduled engine
        {"name": "groupsched", "pkg": "./groupsched", "search_cases": 3000, "quick_cases": 600, "only": ["no_orphan_live_group"]},
    ],
    "rule": "random histories of one alert group (4 alerts appearing/firing/resolving/vanishing, some muted per flush) flushed through the REAL "
            "PipelineBuilder.New stage chain with 1-2 integrations (send_resolved on/off, per-flush accept/reject, delivery delay, tick lagging "
            "behind the wall clock) on a real nflog under synctest virtual time, interleaved with log GC and snapshot+reload; repeat 1-6 s, "
            "retention 1-14 s so that retention<repeat, =repeat and >2*repeat all occur; non-trivial = hits a tagged pipeline path/reason; "
            "distinct = distinct hash of the case's op lines",
    "assumptions": [
        "hashAlert is injective on the label sets used (alerts are identified by hash)",
        "wall clocks move forward; two flushes of one group never log at the same nanosecond (Chain hypothesis of the history theorems)",
        "sentence 2 (repeat window upper bound repeat+group_interval) composes repeat_on_time with the timer theorem flush_gap_le of C01",
        "the early re-notification for retention < repeat_interval is proved to exist (early_repeat_when_retention_short), as the property's own caveat says",
    ],
}
