SPEC = {
    "lean_modules": ["AM.Props.Registry", "AM.Props.Suppress", "AM.Props.C01", "AM.Props.C07", "AM.Props.C14", "AM.Props.C13", "AM.Props.C17"],
    "theorems": [
        "AM.Registry.subscribe_keeps_served",
        "AM.Suppress.unsuppressed_firing_listed", "AM.Suppress.surviving_iff",
        "AM.PutOrder.group_holds_stored_version", "AM.PutOrder.split_put_reorders",
        "AM.Group.first_tick_le", "AM.Group.flush_gap_le", "AM.Group.stored_firing_is_flushed",
        "AM.Dedup.flushStep_fail_keeps_state", "AM.Dedup.cause_mono_tick", "AM.Dedup.failed_flush_keeps_obligation",
        "AM.Dedup.eligible_listed_or_recorded", "AM.Dedup.eligible_listed_within_bound", "AM.Dedup.latest_never_omits",
        "AM.Dedup.inv_everywhere", "AM.Dedup.logged_with_firing_was_sent",
        "AM.Group.ginv_step", "AM.Group.ginv_run", "AM.Group.refused_iff_map_full", "AM.Group.count_le_limit",
        "AM.Route.match_nonempty", "AM.Route.every_selected_route_has_receiver",
        "AM.Ingest.post_defaults", "AM.Ingest.timeout_end_pushed_forward",
        "AM.Config.successful_reload_applies", "AM.Config.failed_reload_keeps_running", "AM.Config.failed_reload_keeps_config",
    ],
    "engines": [
        {"name": "sys", "pkg": "./sys", "timeout_quick": 90, "search_cases": 6000},
        # "every integration of every receiver that the routing tree selects": the routing half of the property is the
        # C07 engine (real config.Load -> NewRoute -> Match against the documented rule), run here with fewer cases
        {"name": "route", "pkg": "./route", "search_cases": 20000, "quick_cases": 2500},
        # store-and-publish atomicity of the provider: two real concurrent submitters, a dawdling PostStore callback
        {"name": "putorder", "pkg": "./putorder", "timeout_quick": 120, "search_cases": 600},
        # a reload that fails must leave the running dispatcher consuming alerts (C17's engine: the real reload closure)
        {"name": "reload", "pkg": "./reload", "search_cases": 4, "timeout_quick": 400, "timeout_thorough": 900, "timeout_search": 400, "only": ["failed_reload_keeps_running", "failed_reload_keeps_config", "successful_reload_applies"]},
        # when a firing alert stops being "continuously firing" is decided at ingestion: an alert re-sent without endsAt ends resolve_timeout after
        # the RECEIVE time, every re-send pushes that end forward (C13's engine)
        {"name": "ingest", "pkg": "./ingest", "search_cases": 8000, "quick_cases": 1500, "only": ["post_defaults", "timeout_end_pushed_forward"]},
        # "the latest notification for its group never omits it": updates of one alert reach its group in submission order also
        # under a backlog of the ingestion workers (C14's engine)
        {"name": "workers", "pkg": "./workers", "search_cases": 4000, "quick_cases": 2500, "only": ["final_is_last_submitted"]},
        # a route is muted by its own time intervals exactly when the calendar says so (C15's engine) …
        {"name": "timeint", "pkg": "./timeint", "search_cases": 3000, "quick_cases": 1500, "only": ["contains_iff_spec", "mute_gate", "active_gate"]},
        # … and a delivery that times out on its own per-request timeout is retried inside the flush (C20's engine)
        {"name": "webhook", "pkg": "./webhook", "search_cases": 40, "timeout_quick": 300, "only": ["request_timeout_retried"]},
    ],
    "rule": "random alert timelines (4 alerts in 2 groups: fire, heartbeat, explicit resolve, short time-outs, re-fire; silences created/expired) through the REAL mem.Alerts provider + Dispatcher + PipelineBuilder.New pipeline + nflog assembled as app/reloader.go does, under synctest virtual time; 1-2 integrations (send_resolved on/off) with scripted outcomes (ok / recoverable / unrecoverable / hang, latencies up to and beyond the flush deadline so that deliveries are in flight while alerts re-fire), log GC, dispatcher restarts (config reload); a recording stage observes every flush (tick, wall, alerts handed over, outcome, log entries); the driver predicts ticks, flush contents, sends, log entries, group deletion exactly (delivery instants are trace inputs) and evaluates the property predicates on the implementation's events; non-trivial = hits a tagged branch; distinct = distinct hash of the case's lines",
    "assumptions": [
        "routing of the alert to its receivers is C07, grouping C06, suppression verdicts C02/C03/C15: here the flush input is 'stored, not ended, not muted'",
        "retry back-off instants are trace inputs (random jitter): the model accepts any delivery instant inside the flush deadline",
        "partial: goroutine order inside one virtual instant, start-up settling and cluster wait (0 in this engine; C08 covers wait > 0)",
    ],
}
