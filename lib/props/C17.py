SPEC = {
    "lean_modules": ["AM.Props.C17"],
    "theorems": [
        "AM.Config.validate_ok_wellformed", "AM.Config.illformed_rejected",
        "AM.Config.failed_reload_keeps_config", "AM.Config.invalid_reload_keeps_config", "AM.Config.successful_reload_applies",
        "AM.Config.ordered_failed_reload_keeps_running", "AM.Config.reloaderSteps_safe", "AM.Config.failed_reload_keeps_running",
        "AM.Config.reload_fails_at_every_fallible_step", "AM.Config.successful_reload_in_force",
        "AM.Config.tracingAfterStop_unsafe", "AM.Config.fallible_after_stop_breaks",
        "AM.Config.secret_leaves_masked", "AM.Config.render_subset",
        "AM.Config.print_load_stable_partial", "AM.Config.print_load_loses_empty_group_by",
        # F13: the deprecated regular-expression maps print and load back, the empty expression included (repaired printer; the pinned one refuted)
        "AM.Config.regexp_print_load", "AM.Config.regexp_load_compiled", "AM.Config.regexp_print_load_old_fails", "AM.Config.regexp_print_old_agrees",
        # F14: no integration entry is left null by the loader, so applying a loaded configuration never dereferences nil (pinned loader refuted)
        "AM.Config.apply_total_after_load", "AM.Config.fillNulls_keeps_given", "AM.Config.null_entry_kills_apply_old",
        "AM.Config.firstErr_none_all", "AM.Config.receiversErr_none", "AM.Config.nodeErr_none",
    ],
    "engines": [
        {"name": "config", "pkg": "./config", "search_cases": 3000, "timeout_quick": 300, "timeout_thorough": 900},
        # the real application in-process on loopback, real time: few scenarios; the widened search re-runs with 4 random ones
        {"name": "reload", "pkg": "./reload", "search_cases": 4, "timeout_quick": 400, "timeout_thorough": 900, "timeout_search": 400},
        # delivering notifications must not change the loaded configuration (text served by the status API, secrets)
        {"name": "notifyleak", "pkg": "./notifyleak", "search_cases": 6, "timeout_quick": 200},
    ],
    "rule": "generated raw configurations (routing trees depth<=3 with receivers/matchers/group_by incl. explicit [] and '...', mute/active intervals, "
            "durations; receivers; time intervals; inhibit rules; global block; 0-2 injected faults out of 24 kinds) -> YAML -> real config.Load: accept/reject "
            "class vs AM.Config.validate, the accepted *Config re-encoded and checked against the eight well-formedness clauses, Load(Config.String()) "
            "compared for secret-free configs, and Config.String() compared before / after dispatch.NewRoute(cfg.Route) (a quarter of the configurations have a route "
            "combining match / match_re with 3, 5, 6 or 7 matchers lines); a configuration with all 18 integration kinds and 45 secret-bearing fields set to unique canaries: "
            "Config.String() searched for every canary; real config.Coordinator on a file rewritten to valid/invalid/subscriber-refused configs; "
            "reflect walk over config.Config vs pinned harness/config/secret_fields.txt; malformed-input stream (null injection, line edits, "
            "type swaps, aliases, truncation, random bytes) with recover and a 5 s bound; engine `reload`: the REAL application in-process "
            "(app.New/Start/Reload/Stop on 127.0.0.1:0, cluster off, config file in a scratch dir, webhook receivers = an httptest server): "
            "valid config -> alert posted through /api/v2/alerts -> notification observed at the receiver of the routed branch; reloads (POST /-/reload "
            "and App.Reload) with configurations rejected at every reachable stage (YAML error, unknown field, undefined receiver, zero interval; template "
            "syntax error, bad template glob; receiver whose http client cannot be built; tracing TLS CA / header file missing) -> error AND a NEW alert is "
            "still notified by the OLD routing tree's receiver AND /api/v2/status still serves the old configuration; then a valid reload takes effect; a reload applied while status requests are in flight (the previous configuration has 3000 routes, "
            "the reloader is parked on a template FIFO until the requests are under way): /api/v2/status serves the new configuration afterwards; "
            "the source order of fallible / live-state steps of reloader.reload (go/ast) vs AM.Config.reloaderSteps and safeOrder. Non-trivial = hits a tagged branch; distinct = hash of the case's lines",
    "assumptions": [
        "YAML decoding itself (yaml.v2) is trusted: RawConfig is what it yields; a decoding fault is generated alone (class 'decode')",
        "document key order global, route, receivers, mute_time_intervals, time_intervals, inhibit_rules (error identity depends on it)",
        "label names are classic names or empty (validLabel = non-empty); matcher names are non-empty (F7 belongs to C16)",
        "secret_leaves_masked: canaries are unique (not also a key / plain value) and differ from '<secret>'",
        "print_load_stable: secret-free configurations; partial: a child route's explicit `group_by: []` is lost (open finding F8, class=groupby-empty-override)",
        "totality on arbitrary bytes ('never panics or hangs') is a TEST (malformed-input stream), not a theorem",
        "reloader model: a step that fails has no effect on the running instance (tracing.Manager.ApplyConfig builds the new provider before swapping); "
        "the effect classes of the steps (Stop / Store / apih.Update / eventRecorder.ApplyConfig) are read off app/reloader.go by go/ast on every run",
        "engine reload runs in real time on loopback: a notification due after group_wait=100ms is awaited for 20 s, twice",
    ],
}
