SPEC = {
    "lean_modules": ["AM.Props.C10", "AM.Props.C19"],
    "theorems": [
        "AM.Nflog.merge_monotone", "AM.Nflog.merge_refuses_expired", "AM.Nflog.merge_idem",
        "AM.Nflog.merge_dup", "AM.Nflog.merge_result", "AM.Nflog.merge_comm", "AM.Nflog.fold_merge_perm",
        "AM.Nflog.gc_spec", "AM.Nflog.gc_keeps_unexpired", "AM.Nflog.gc_drops_expired",
        "AM.Nflog.query_spec", "AM.Nflog.log_spec", "AM.Nflog.data_preserved", "AM.Nflog.decodeBatch_last_wins",
        "AM.Nflog.fold_merge_newest", "AM.Nflog.fold_merge_from_offers", "AM.Nflog.mergeBatch_fst", "AM.Nflog.foldl_merge_ge",
        # the gossip layer in front of Log.Merge
        "AM.Gossip.full_state_superset", "AM.Gossip.mergeRemote_covers", "AM.Gossip.bad_part_does_not_block_others", "AM.Gossip.unknown_key_inert", "AM.Gossip.broadcast_routed_once",
    ],
    "engines": [
        {"name": "nflog", "pkg": "./nflog", "timeout_quick": 90, "search_cases": 30000},
        # real goroutines, real time: a Merge racing a local Log of the same key; Maintenance after a failed rename
        {"name": "nflograce", "pkg": "./nflograce", "search_cases": 30, "timeout_quick": 300},
        # "every entry received ... reaches the log": the gossip layer in front of Log.Merge (delegate.MergeRemoteState / NotifyMsg), C19's engine:
        # a part of a known state key is merged whatever else the batch carries (unknown keys, parts that fail to decode)
        {"name": "gossip", "pkg": "./gossip", "search_cases": 6000, "quick_cases": 600,
         "only": ["full_state_superset", "bad_part_does_not_block_others", "unknown_key_inert", "broadcast_routed_once"]},
    ],
    "rule": "random op sequences (log/merge batch 1-4/gc/query/snapshot+reload) on two real nflog.Log under synctest virtual time, "
            "5 state keys, instants on a 1 s grid so equal timestamps and expiry boundaries are frequent; a case is non-trivial when it "
            "hits at least one tagged branch (merge:newer/older/tie/expired, log:equal-ts/skipped-future, gc:removed, converge:checked); "
            "distinct = distinct hash of the case's op lines",
    "assumptions": [
        "state keys are compared as strings (stateKey format trusted)",
        "protobuf field codec round-trips (the harness decodes MarshalBinary output to observe the state)",
        "fold_merge_perm/convergence: versions of one key carry distinct timestamps (NoTie) and nothing expires between deliveries",
    ],
}
