SPEC = {
    "lean_modules": ["AM.Props.C20"],
    "theorems": [
        "AM.Retry.recoverable_retried_until_deadline", "AM.Retry.unrecoverable_not_retried", "AM.Retry.failure_reported",
        "AM.Retry.stage_success", "AM.Retry.hang_is_failure", "AM.Retry.request_timeout_retried", "AM.Retry.http_status_classes",
        "AM.Fanout.log_only_after_success", "AM.Fanout.success_is_logged", "AM.Fanout.failed_retry_fails_chain",
        "AM.Fanout.chain_order", "AM.Fanout.sibling_isolated",
        "AM.TemplateData.data_lists_exactly_batch", "AM.TemplateData.sent_spec", "AM.TemplateData.status_firing_iff_any",
        "AM.TemplateData.common_is_intersection",
        "AM.Trunc.max_alerts_truncation", "AM.Trunc.truncate_runes_le", "AM.Trunc.truncate_bytes_le_and_valid",
        "AM.Trunc.truncate_bytes_panics_old", "AM.Trunc.truncate_bytes_f6_repaired", "AM.Trunc.truncBytesOld_agrees",
    ],
    "engines": [
        {"name": "retry", "pkg": "./retry", "search_cases": 12000},
        {"name": "trunc", "pkg": "./trunc", "search_cases": 60000},
        {"name": "tmpldata", "pkg": "./tmpldata", "search_cases": 15000},
        # real time: the real webhook notifier with a per-request timeout, alone and inside the real RetryStage
        {"name": "webhook", "pkg": "./webhook", "search_cases": 60, "timeout_quick": 300, "timeout_thorough": 900},
    ],
    "rule": "retry: the real pipeline from notify.PipelineBuilder.New (gossip-settle, mute/time stages with empty inhibitor/silencer/intervener, then per "
            "integration Wait→Dedup→Retry→SetNotifies fanned out) with 1-3 scripted notifiers, one case in eight 5-8 of them with at least four that hang / fail recoverably until the flush deadline placed before a healthy one in configuration order (sibling_isolated class starved-by-siblings: an integration with something to send and a wait shorter than the deadline is attempted) (0-6 scripted outcomes each: ok/recoverable/unrecoverable/hang, "
            "durations from 0 to beyond the deadline), fake NotificationLog, flush deadline 0.3 s-3 min, cluster wait 0/50/500 ms, 1-4 alerts firing/resolved, "
            "send_resolved on/off, under synctest; every attempt observed at its virtual instant; backoff instants are accepted against the randomised "
            "exponential windows, not predicted. tmpldata: Template.Data and the real webhook notifier's JSON (loopback httptest) on batches of 0-5 alerts over a "
            "3x3 label alphabet incl. empty annotation values, and `webhookp`: two or three consecutive notifications with different batches through ONE webhook notifier with a custom `payload` "
            "(a YAML list holding a map, a template string, a nested list), the dump rebuilt from the rendered payload must describe the batch of that notification; webhook (real time): the real notify/webhook notifier (real net/http client) with a per-request timeout of 30-120 ms against a loopback endpoint that hangs "
            "or answers 2xx/4xx/5xx per script, as single Notify calls under a flush context a minute long and inside the real RetryStage (flush deadline 20-30 s, one or two "
            "recoverable failures, then the attempt that ends the loop); trunc: TruncateInRunes/InBytes on strings of 1-4-byte runes with limits around rune and byte counts "
            "(4% invalid UTF-8, totality only). non-trivial = hits a tagged branch.",
    "assumptions": [
        "the stage order (Wait, Dedup, Retry, SetNotifies) and the outer MultiStage order are read from notify/notify.go by a go/ast fact check on every run and compared with AM.Fanout.receiverOrder",
        "scripted integrations honour the context (return at the deadline with the context's error, flagged recoverable), as net/http based notifiers do",
        "backoff parameters are cenkalti/backoff/v5 defaults (500 ms, x1.5, +-50 %, max 60 s); the ticker's jitter is an input to the model (trace acceptor)",
        "strings are sequences of Unicode scalar values; invalid UTF-8 is checked for totality and bounds only; truncation limits are non-negative",
        "Dedup is driven by a fake log that either knows nothing or knows a previous notification about another alert, so its decision is 'notify unless nothing fires and nothing was notified before' (C04 covers Dedup itself)",
        "Template.Data: a label/annotation missing from an alert reads as the empty string in the common-pairs loop (so an empty-valued annotation of the first alert counts as common with alerts lacking it); modelled as is",
    ],
}
