SPEC = {
    "lean_modules": ["AM.Props.C20"],
    "theorems": [
        "AM.Retry.recoverable_retried_until_deadline", "AM.Retry.unrecoverable_not_retried", "AM.Retry.failure_reported",
        "AM.Retry.stage_success", "AM.Retry.hang_is_failure",
        "AM.Fanout.log_only_after_success", "AM.Fanout.success_is_logged", "AM.Fanout.failed_retry_fails_chain",
        "AM.Fanout.chain_order", "AM.Fanout.sibling_isolated",
        "AM.TemplateData.data_lists_exactly_batch", "AM.TemplateData.sent_spec", "AM.TemplateData.status_firing_iff_any",
        "AM.TemplateData.common_is_intersection",
        "AM.Trunc.max_alerts_truncation", "AM.Trunc.truncate_runes_le", "AM.Trunc.truncate_bytes_le_and_valid",
        "AM.Trunc.truncate_bytes_panics_old", "AM.Trunc.truncate_bytes_f6_repaired", "AM.Trunc.truncBytesOld_agrees",
    ],
    "engines": [
        {"name": "retry", "pkg": "./retry", "search_cases": 12000},
        {"name": "trunc", "pkg": "./trunc", "search_cases": 60000},
        {"name": "tmpldata", "pkg": "./tmpldata", "search_cases": 15000},
    ],
    "rule": "",
    "assumptions": [],
}
