SPEC = {
    "lean_modules": ["AM.Props.C12", "AM.Props.C02M"],
    "theorems": [
        "AM.Silence.create_fresh_id", "AM.Silence.create_start_not_past",
        "AM.Silence.edit_compatible_keeps_id", "AM.Silence.edit_incompatible_expires_old_creates_new",
        "AM.Silence.unknown_id_rejected", "AM.Silence.api_rejects_past_end", "AM.Silence.rejected_op_changes_nothing",
        "AM.Silence.invalid_input_rejected", "AM.Silence.validate_false_of_bad_set",
        "AM.Silence.expire_effective", "AM.Silence.expire_idempotent",
        "AM.Silence.expired_stays_step", "AM.Silence.expired_never_active_again",
        "AM.Silence.queryable_until_retention", "AM.Silence.gc_removes_after_retention",
        "AM.Silence.gc_never_removes_pending_or_active",
        "AM.Silence.index_inv_preserved", "AM.Silence.query_eq_filter", "AM.Silence.reload_lossless",
        "AM.Silence.set_keeps_matchers", "AM.Silence.expire_keeps_matchers",
    ],
    "engines": [
        {"name": "sillife", "pkg": "./sillife", "search_cases": 20000},
    ],
    "rule": "random lifecycles on one real silence.Silences driven through the api/v2 HTTP handlers in-process (POST /silences, DELETE and GET "
            "/silence/{id}, GET /silences via api.Handler.ServeHTTP) and through Silences.Set/Expire/GC/Query directly, under synctest virtual "
            "time on a 500 ms grid; the next instant is drawn from the boundaries (-1,0,+1 step) of stored silences' start / end / end+retention, "
            "sometimes repeating the same instant; creates, compatible and incompatible edits (same matchers / one component of the stored matcher sets changed - operator only, value only, name only, a matcher or a set added, dropped or moved / another catalog entry; half of the direct edits are read-modify-write (`setq`: the proto handed to Set is the object Silences.QueryOne(QIDs(id)) returned, edited field by field; a third of the API edits are the client round trip `postg`: the matchers POSTed back are the ones GET /api/v2/silence/{id} returned, in that order, for silences created with matchers in non-alphabetical order too); same/shifted start "
            "within and across a second, end before/at/after now), nil start/end (direct Set), unknown ids, invalid-input stream (no or empty "
            "matcher set, all matchers matching empty - in the first or only in a later matcher set of a multi-set silence, on create and on edit (`invalid_input_rejected`) -, bad regex, empty name, end<start, end in the past), size limit and count limit; "
            "non-trivial = hits a tagged branch (set:create/in-place/replace/invalid/notfound/limit/toobig/silently-dropped, post:400/404, "
            "expire:pending/active/expired/unknown/tie-dropped, gc:removed/at-retention-boundary, get:at-end-boundary, list:multi-set-500)",
    "assumptions": [
        "the uuid drawn by Set is an input of the model; freshness is checked on the implementation's answers (create_fresh_id class reused-id) and assumed by expired_never_active_again (FreshFor)",
        "proto.Size against MaxSilenceSizeBytes is an input flag (the harness uses comments far below / above the limit)",
        "time does not go backwards between operations (Ordered)",
        "edits/expiries issued at the very instant of the silence's previous update are dropped by state.merge (UpdatedAt tie): theorems carry `p.sil.updated < now`; the engine tags these (set:silently-dropped, expire:tie-dropped)",
        "swagger-level request validation is only observed as status class (422 counted as 400)",
    ],
}
