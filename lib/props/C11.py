SPEC = {
    "lean_modules": ["AM.Props.C11"],
    "theorems": [
        "AM.Snapshot.varint_roundtrip", "AM.Snapshot.decode_encode", "AM.Snapshot.decode_truncated",
        "AM.Snapshot.decode_prefix_never_invalid", "AM.Snapshot.sil_post_prepare", "AM.Snapshot.sil_legacy_upgrade",
        "AM.Snapshot.sil_decode_encode",
        "AM.CrashFS.crash_any_point_loads_old_or_new", "AM.CrashFS.crash_history", "AM.CrashFS.crash_old_or_new",
        "AM.CrashFS.snapshot_preserves",
        "AM.CrashFS.HInv.crashFS", "AM.CrashFS.HInv_mid", "AM.CrashFS.HInv_attempt_point", "AM.CrashFS.runAttempt_inv",
        "AM.CrashFS.crashed_attempts_history", "AM.CrashFS.crashed_attempts_history_trunc",
        "AM.CrashFS.stale_temp_without_trunc_mixed", "AM.CrashFS.stale_temp_with_trunc_clean", "AM.CrashFS.stale_temp_fresh_name_clean",
        "AM.CrashFS.history_never_refuses_own_file_partial", "AM.CrashFS.oversize_record_refused_any",
        "AM.CrashFS.rename_before_fsync_torn", "AM.CrashFS.no_fsync_torn", "AM.CrashFS.in_place_torn",
        "AM.CrashFS.never_refuses_own_file_partial", "AM.CrashFS.never_refuses_first_snapshot",
        "AM.CrashFS.oversize_record_refused", "AM.CrashFS.restart_keeps_muting_and_dedup",
    ],
    "engines": [
        {"name": "snapshot", "pkg": "./snapshot", "search_cases": 200, "timeout_quick": 300, "timeout_thorough": 900},
    ],
    "rule": "real nflog.Log and silence.Silences: (a) generated stores (0..200 records quick, ..5000 thorough; shapes mix/min/multi/big, "
            "contents through Merge and through the write APIs Log/Set) -> Snapshot or real Maintenance -> load through SnapshotReader/SnapshotFile "
            "-> compare query dumps; (b) the loader on every prefix and a single-byte corruption at every position of small real snapshots, on "
            "hand-made files (legacy matcher list + comment list, bad varints, oversize sizes) and random bytes, result compared with the model's "
            "decodeState; (c) strace of a child running the real Maintenance: extracted create/write/fsync/close/rename order vs the model's "
            "sequence; (d) every crash state (i ops, j persisted dir ops, m unsynced bytes; both FS models) of that order materialised as files "
            "and loaded by the real New(Options{SnapshotFile}). A case is non-trivial when it hits a tagged branch; distinct = distinct hash of its lines",
    "assumptions": [
        "protobuf field codec round-trips (decodeMsg (encodeMsg m) = some m): the harness uses proto.Unmarshal as the oracle for payloads",
        "file system: fsync makes the file's data durable on return; rename is atomic; directory operations persist in order (weak) or on return (strong); "
        "truncation by open(O_TRUNC) is immediate; no hard links, one open descriptor per snapshot run",
        "the temp name chosen by openReplace is fresh (rand.Int63 suffix) and differs from the target",
        "never_refuses_own_file is partial: every record <= protodelim MaxSize 4 MiB (open finding F9, class=oversize-record)",
        "totality on arbitrary bytes ('never panics') is a test (prefix/corruption/random stream with recover), not a theorem",
    ],
}
