SPEC = {
    "lean_modules": ["AM.Props.C02", "AM.Props.C11"],
    "theorems": [
        "AM.Snapshot.varint_roundtrip", "AM.Snapshot.decode_encode", "AM.Snapshot.decode_truncated",
        "AM.Snapshot.decode_prefix_never_invalid", "AM.Snapshot.sil_post_prepare", "AM.Snapshot.sil_legacy_upgrade",
        "AM.Snapshot.sil_decode_encode",
        "AM.CrashFS.crash_any_point_loads_old_or_new", "AM.CrashFS.crash_history", "AM.CrashFS.crash_old_or_new",
        "AM.CrashFS.snapshot_preserves",
        "AM.CrashFS.HInv.crashFS", "AM.CrashFS.HInv_mid", "AM.CrashFS.HInv_attempt_point", "AM.CrashFS.runAttempt_inv",
        "AM.CrashFS.crashed_attempts_history", "AM.CrashFS.crashed_attempts_history_trunc", "AM.CrashFS.histOKb_iff",
        "AM.CrashFS.never_refuses_own_file_partial_4MiB",
        "AM.CrashFS.stale_temp_without_trunc_mixed", "AM.CrashFS.stale_temp_with_trunc_clean", "AM.CrashFS.stale_temp_fresh_name_clean",
        "AM.CrashFS.history_never_refuses_own_file_partial", "AM.CrashFS.oversize_record_refused_any",
        "AM.CrashFS.rename_before_fsync_torn", "AM.CrashFS.no_fsync_torn", "AM.CrashFS.in_place_torn",
        "AM.CrashFS.never_refuses_own_file_partial", "AM.CrashFS.never_refuses_first_snapshot",
        "AM.CrashFS.oversize_record_refused", "AM.CrashFS.restart_keeps_muting_and_dedup",
        "AM.CrashFS.snapshot_loads_one_state", "AM.CrashFS.streaming_snapshot_mixed",
    ],
    "engines": [
        {"name": "snapshot", "pkg": "./snapshot", "search_cases": 200, "timeout_quick": 300, "timeout_thorough": 900},
        # "so silences keep muting ... after a restart": the mute verdict after snapshot reload is C02's engine
        {"name": "silencer", "pkg": "./silencer", "search_cases": 6000, "quick_cases": 1200},
        # the loader's verdict is only as good as what the application does with it: a torn notification-log snapshot in the
        # data directory of the REAL application (app.New): it must refuse to start and leave the file alone (only the torn cases run here)
        {"name": "reload", "pkg": "./reload", "search_cases": 6, "timeout_quick": 400, "timeout_thorough": 900, "timeout_search": 400,
         "env": {"VERIF_RELOAD_ONLY": "torn"}, "only": ["decode_truncated"]},
        # the CONTENT of a snapshot written while the store is being edited (real goroutines, real time): op snaprace only
        {"name": "mutesrace", "pkg": "./mutesrace", "search_cases": 60, "timeout_quick": 300, "env": {"VERIF_MUTESRACE_OPS": "snaprace"},
         "only": ["snapshot_loads_one_state"]},
        # "writing a snapshot and loading it back reproduces every … log entry with identical content", also after gossip merges
        # replaced locally logged entries (C10's engine: two real logs, merges, restart through the real Maintenance loop)
        {"name": "nflog", "pkg": "./nflog", "search_cases": 8000, "quick_cases": 1200, "only": ["reload_lossless", "data_preserved"]},
        # "already-sent notifications are not repeated after a restart": what the log stores about a notification (alert hashes) must mean the same to the next process (C04's engine)
        {"name": "pipe", "pkg": "./pipe", "search_cases": 6000, "quick_cases": 800, "only": ["entry_is_last_delivered"]},
    ],
    "rule": "real nflog.Log and silence.Silences: (a) generated stores (0..200 records quick, ..5000 thorough; shapes mix/min/multi/big, "
            "contents through Merge and through the write APIs Log/Set) -> Snapshot or real Maintenance -> load through SnapshotReader/SnapshotFile "
            "-> compare query dumps; (a') one record of a chosen encoded size per case, every run: 60 KiB, 70 KiB, 1 MiB, just under and EXACTLY 4 MiB "
            "(protodelim's default limit) plus log-uniform sizes 32 KiB..4 MiB, inflated through each field in turn (nflog: firing/resolved alert hashes, "
            "receiver data, group key; silence: many matchers, many matcher sets, annotation, comment), exact size as a peer's state through Merge or "
            "through Log/Set; a refusal of such a record by the loader or by Merge is class own-file-refused / own-record-refused-by-merge, only a record "
            "> 4194304 bytes is the open finding F9 (class oversize-record-over-4MiB, computed by the driver from the written record lengths); (b) the loader on every prefix and a single-byte corruption at every position of small real snapshots, on "
            "hand-made files (legacy matcher list + comment list, bad varints, oversize sizes) and random bytes, result compared with the model's "
            "decodeState; (c) strace of a child running the real Maintenance, both stores, shutdown path (closed stop channel) and periodic path "
            "(ticker snapshot, then shutdown snapshot): every attempt's open flags (O_TRUNC/O_EXCL/O_APPEND), temp path (tokens T1,T2.. by distinct real path), "
            "write/fsync/close/rename order vs the model's sequence for that name and flag, every token accounted for; (d) every crash state (i ops, j persisted dir ops, m unsynced bytes; both FS models) of that order materialised as files "
            "and loaded by the real New(Options{SnapshotFile}); (e) histories: attempt 1 (larger state, traced) crashes at every (i,j) and selected m, "
            "its crash state is materialised WITH the temp file under the name the real code used; a second process's attempt is traced over such a "
            "directory (name + flags -> the discipline HistOK is evaluated by histOKb on every crash point of attempt 1), then the REAL Maintenance "
            "snapshots a smaller state (0-1 records) in-process over each materialised crash state, the target is read back (must be exactly the new "
            "snapshot, compared with the model's runHist) and loaded by the real loader. (f) engine reload, torn cases only: a 3-record notification-log snapshot cut 1..20 bytes before its end in the data directory of the REAL "
            "application (app.New): it refuses to start and the file is untouched. "
            "(g) mutesrace/snaprace (real goroutines, real time): Silences.Snapshot over 300/1500 active silences racing an incompatible edit of one of them (expire + replacement in one critical section), the edit started when the snapshot's writer has its first bytes (the writer stalls <= 30 ms) or after 1/8..3/8 of the measured duration of a snapshot; the snapshot is loaded into a fresh Silences and must be the store before or after the edit (snapshot_loads_one_state, class snapshot-mixed-state). "
            "A case is non-trivial when it hits a tagged branch; distinct = distinct hash of its lines",
    "assumptions": [
        "protobuf field codec round-trips (decodeMsg (encodeMsg m) = some m): the harness uses proto.Unmarshal as the oracle for payloads",
        "file system: fsync makes the file's data durable on return; rename is atomic; directory operations persist in order (weak) or on return (strong); "
        "truncation by open(O_TRUNC) is immediate; no hard links, one open descriptor per snapshot run",
        "temp-file discipline (HistOK, checked on the traced names/flags): temp name != target, and the temp file is empty when first written: "
        "the open truncates (os.Create = O_TRUNC, the code as it is; then even one fixed name is safe) OR the name does not exist at that moment "
        "(rand.Int63 suffix: fresh except with probability 2^-63, not relied upon)",
        "never_refuses_own_file is partial: every record <= protodelim MaxSize 4 MiB = 4194304 bytes (open finding F9, class=oversize-record-over-4MiB); "
        "records of exactly 4194304 bytes are generated and must load",
        "an in-place write into the synced part of an inode makes it dirty from the write position (min synced off): only reachable without O_TRUNC",
        "totality on arbitrary bytes ('never panics') is a test (prefix/corruption/random stream with recover), not a theorem",
    ],
}
