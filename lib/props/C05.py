SPEC = {
    "lean_modules": ["AM.Props.Suppress", "AM.Props.C05", "AM.Props.C13", "AM.Props.C20"],
    "theorems": [
        "AM.Suppress.sent_lists_flush",
        "AM.Group.never_resolved_early", "AM.Group.partition_lists_all", "AM.Group.lookup_foldl_delStep",
        "AM.Group.refire_survives_flush", "AM.Group.delete_only_resolved_unmodified", "AM.Group.resolvedSlice_resolved",
        "AM.Group.destroy_only_if_empty", "AM.Group.insert_refused_iff_destroyed", "AM.Group.insert_lands",
        "AM.Dedup.send_resolved_false_never_lists_resolved", "AM.Dedup.all_resolved_before_first_flush_sends_nothing",
        "AM.Dedup.resolved_listed_next_flush", "AM.Dedup.resolved_lost_when_entry_expired",
        # when an alert ends is decided at ingestion: the end the sender announced, or receive time + resolve_timeout marked as a time-out
        # (a time-out end yields to any later announced end; an announced end in the past resolves at once)
        "AM.Ingest.batch_best_effort", "AM.Ingest.post_defaults", "AM.Ingest.timeout_end_pushed_forward", "AM.Ingest.explicit_past_end_resolves",
        # what the receiver is told: every alert of the notification carries its own status (EndsAt against the instant of the notification,
        # the end instant itself included), the same status the flush, the dedup stage and the log use
        "AM.TemplateData.data_lists_exactly_batch", "AM.TemplateData.status_firing_iff_any",
    ],
    "engines": [
        {"name": "sys", "pkg": "./sys", "timeout_quick": 90, "search_cases": 6000},
        # a re-fire racing a resolve of the same alert: the group must end up with the version the provider stored (C14's engine)
        {"name": "putorder", "pkg": "./putorder", "search_cases": 400, "only": ["group_holds_stored_version"]},
        # a resolved update posted together with an invalid alert is stored all the same (C13's engine: best-effort batches)
        {"name": "ingest", "pkg": "./ingest", "search_cases": 8000, "quick_cases": 1500, "only": ["batch_best_effort", "post_defaults", "timeout_end_pushed_forward", "explicit_past_end_resolves"]},
        # "reported ... only when true": the status the notification's template data gives each alert, an alert ending at this very instant included (C20's engine)
        {"name": "tmpldata", "pkg": "./tmpldata", "search_cases": 8000, "quick_cases": 800, "only": ["data_lists_exactly_batch", "status_firing_iff_any"]},
    ],
    "rule": "random alert timelines (4 alerts in 2 groups: fire, heartbeat, explicit resolve, short time-outs, re-fire; silences created/expired) through the REAL mem.Alerts provider + Dispatcher + PipelineBuilder.New pipeline + nflog assembled as app/reloader.go does, under synctest virtual time; 1-2 integrations (send_resolved on/off) with scripted outcomes (ok / recoverable / unrecoverable / hang, latencies up to and beyond the flush deadline so that deliveries are in flight while alerts re-fire), log GC, dispatcher restarts (config reload); a recording stage observes every flush (tick, wall, alerts handed over, outcome, log entries); the driver predicts ticks, flush contents, sends, log entries, group deletion exactly (delivery instants are trace inputs) and evaluates the property predicates on the implementation's events; non-trivial = hits a tagged branch; distinct = distinct hash of the case's lines",
    "assumptions": [
        "resolved_listed_next_flush needs the log entry that told the receiver 'firing' to be alive (EntryAlive); resolved_lost_when_entry_expired exhibits the excluded corner",
        "an alert hash is listed either as firing or as resolved by one flush (the partition is by status), hence x in entry.firing implies x not in entry.resolved for the same entry",
        "goroutine order inside one virtual instant is not modelled; generated op instants carry unique sub-second offsets so that they never tie with timers",
        "hashAlert / fingerprints are injective on the label sets used",
    ],
}
