SPEC = {
    "lean_modules": ["AM.Props.C06", "AM.Props.C06Sched", "AM.Props.C13"],
    "theorems": [
        "AM.Route.group_labels_spec", "AM.Route.same_group_iff", "AM.Route.group_key_pure", "AM.Route.route_key_spec",
        "AM.Route.child_key_spec", "AM.Route.ginv_ingestRoute", "AM.Route.ingestRoute_lands",
        "AM.Route.groups_api_is_partition", "AM.Route.groups_api_no_duplicates", "AM.Route.flush_lists_all_unsuppressed",
        "AM.GroupMap.inv_init", "AM.GroupMap.inv_step", "AM.GroupMap.inv_run", "AM.GroupMap.reachable_inv",
        "AM.GroupMap.cas_replaces_only_destroyed", "AM.GroupMap.maintenance_deletes_only_destroyed",
        "AM.GroupMap.no_orphan_live_group", "AM.GroupMap.insert_lands", "AM.GroupMap.loss_only_by_giveup_or_limit",
        # schedule replay (engine groupsched): the blocks between yield points are runs of the micro-step model
        "AM.GroupMap.run_append", "AM.GroupMap.macroStep_is_run", "AM.GroupMap.replay_stays_reachable", "AM.GroupMap.replay_inv",
        "AM.GroupMap.vStep_default",
        # the mistakes the replay is there to catch, decided on the model (unchanged code next to each variant)
        "AM.GroupMap.maintVsRecreate_ok", "AM.GroupMap.delete_by_key_orphans_live_group",
        "AM.GroupMap.casRace_ok", "AM.GroupMap.store_for_cas_orphans_live_group",
        "AM.GroupMap.losRace_ok", "AM.GroupMap.store_for_loadOrStore_orphans_live_group",
        "AM.GroupMap.flushVsInsert_ok", "AM.GroupMap.insert_into_destroyed_is_lost",
        # what reaches the dispatcher (engine ingest of C13, through the API's POST handler and the provider): no empty-valued label
        # (equal group_by values = one group), and an alert that fires again at the instant its resolved episode ended is a new
        # alert with its own start (the re-created group gets a fresh group_wait)
        "AM.Ingest.removeEmpty_spec", "AM.Ingest.refire_after_end_starts_anew",
    ],
    "engines": [
        {"name": "group", "pkg": "./group", "search_cases": 8000, "timeout_quick": 600},
        {"name": "groupsched", "pkg": "./groupsched", "search_cases": 6000, "timeout_quick": 240},
        # "contains every non-suppressed alert of that group known at flush time", across dispatcher restarts (engine sys of C01/C04/C05)
        {"name": "sys", "pkg": "./sys", "search_cases": 4000, "quick_cases": 300, "timeout_quick": 90, "only": ["flush_lists_all", "no_orphan_live_group", "flush_sent_content", "refire_after_end_starts_anew"]},
        # the alerts the dispatcher groups are the ones POST /api/v2/alerts + mem.Alerts.Put store (C13's engine): an empty-valued label would
        # split a group (group_by sees `zone=""` next to no zone), a re-fire merged into the resolved episode would re-create its group without group_wait
        {"name": "ingest", "pkg": "./ingest", "search_cases": 15000, "quick_cases": 1500, "only": ["removeEmpty_spec", "refire_after_end_starts_anew"]},
        # "GET /alerts/groups shows exactly this partition": never a half-built one while a (re)started dispatcher is still loading (C14's engine)
        {"name": "workers", "pkg": "./workers", "search_cases": 4000, "quick_cases": 800, "only": ["groups_api_is_partition"]},
        # never two live dispatchers (two live groups per key) while a reload is in progress (C17's engine, slow reload)
        {"name": "reload", "pkg": "./reload", "search_cases": 4, "timeout_quick": 400, "timeout_thorough": 900, "timeout_search": 400, "only": ["successful_reload_applies"]},
    ],
    "rule": "random routing trees (<= 7 nodes, depth <= 3; group_by lists / [] / '...' / inherited; continue) through the real "
            "config.Load -> dispatch.NewRoute, a real dispatch.Dispatcher (8 ingestion workers) fed through a real mem.Alerts under "
            "testing/synctest; 8-22 ops per case: alerts fire (young or already older than group_wait), are refreshed, resolve, fire again; "
            "time advances over several group_interval rounds; maintenance interval 7 s / 15 s / 10 min so that re-creation hits both the "
            "CompareAndSwap path (destroyed group still mapped) and the LoadOrStore path; observed after every op: all notifications "
            "(time, group key, receiver, group labels, alert list with resolved flags) and Dispatcher.Groups(); non-trivial = tagged branch "
            "(group-created, immediate-flush, group-destroyed, put-after-destroy, multi-route, several-alerts, resolved-sent); "
            "engine groupsched (schedule replay): one route, one group key; the goroutines of a real Dispatcher (4 ingestion workers fed by "
            "mem.Alerts.Put, the maintenance goroutine, every group's flush) are serialised through dispatch.VerifYield "
            "(worker:received, groupAlert:loaded / beforeCAS / beforeLoadOrStore, doMaintenance:beforeCompareAndDelete; goroutines "
            "identified by goroutine id, labelled by the alert just published) and through the notification stage (a flush parks between "
            "List and DeleteIfNotModified); virtual time advances one second at a time until a flush or maintenance parks; 9 directed "
            "schedules (maintenance vs re-creation through CompareAndSwap and through LoadOrStore, two/three creators racing through "
            "LoadOrStore and through CompareAndSwap, worker vs flush-destroy both ways) + random schedules over the alphabet of "
            "AM.GroupMap.Act (begin / step of 3 threads, flush begin / end, maintenance to its yield point / its CompareAndDelete; 10-50 "
            "ops, 2-6 fresh alerts, 30-80 % of them already resolved); every op is replayed on AM.Model.GroupMap as a block of micro-steps "
            "(macroStep, maintToYield: AM.GroupMap.replay_stays_reachable) and compared (yield point reached, Groups() content, which "
            "incarnation flushes); spec predicates on the implementation's output after every op and after quiescence + one more "
            "group_interval: every firing alert whose groupAlert returned is shown by Groups() exactly once, one group per key, every "
            "notification lists only alerts Groups() shows, one notifying incarnation per key and interval, every firing alert notified",
    "assumptions": [
        "sync.Map is linearizable and store.Alerts' mutex gives atomic critical sections (the granularity of AM.Model.GroupMap's micro-steps); Go memory model not modelled",
        "label-set fingerprints are injective (the map key is the canonical group-label list)",
        "the 100-retry give-up and the aggregation-group limit are explicit outcomes of the model; insert_lands excludes them",
        "the window between CompareAndDelete and marker.DeleteByGroupKey (acknowledged TODO in doMaintenance) concerns the muted marker only and is not modelled",
        "engine: what the provider stored for a Put (overlap merging, C13) is read back and fed to the model; regexes in generated trees stay in the executable fragment of Driver.Group.reFrag",
        "groupsched realises the schedules of AM.Model.GroupMap in which a thread's micro-steps between two yield points are adjacent; "
        "not realisable through the five yield points (no hook there): a step between LoadOrStore returning an existing group and "
        "agExisting.insert (model pc insExisting), a stale Range entry / a step between destroyed(), ag.stop() and the yield point in "
        "doMaintenance (model mPick of an unmapped group, mpc check/stop), and a step between a refused insert and the group-limit "
        "read (model pc create; thread-local when no limit is set, as in the engine); those interleavings are covered by the theorems only",
        "groupsched identifies a goroutine by the id parsed from runtime.Stack; one group key per case (the slots of the sync.Map are "
        "independent; the shared group counter only matters with a limit, which the engine does not set)",
    ],
}
