SPEC = {
    "lean_modules": ["AM.Props.C17", "AM.Props.C06", "AM.Props.C07"],
    "theorems": [
        "AM.Route.route_key_spec",
        "AM.Route.match_iff_selects", "AM.Route.match_iff_selects_real", "AM.Route.selects_complete", "AM.Route.selects_unique",
        "AM.Route.child_selects_iff_child_matches", "AM.Route.matchP_nil_iff", "AM.Route.match_nonempty",
        "AM.Route.accepts_newRoute", "AM.Route.inherit_spec", "AM.Route.lookup_mergeLabels", "AM.Route.newRoute_opts",
        "AM.Route.matchP_subset_nodes", "AM.Route.nodes_receiver_mem", "AM.Route.every_selected_route_has_receiver",
        "AM.Route.three_consumers_agree",
    ],
    "engines": [
        {"name": "route", "pkg": "./route", "search_cases": 20000},
        # "the root always matches ... every alert is always routed to at least one receiver" rests on what config.Load
        # accepts (C17's engine); "the dispatcher's actual groups agree" is observed by C06's engine on a real dispatcher
        {"name": "config", "pkg": "./config", "search_cases": 8000, "only": ["validate_ok_wellformed", "load_total"]},
        {"name": "group", "pkg": "./group", "search_cases": 8000, "quick_cases": 1500, "timeout_quick": 600},
        # "every alert is always routed to at least one receiver … the dispatcher's actual groups agree": a receiver WITHOUT integrations
        # (`- name: blackhole`) is a routing target like any other: the assembled pipeline (engine sys of C01/C04/C05, header sr= empty)
        # has a stage for it, every flush succeeds with nothing sent, resolved alerts are deleted and the group goes away
        {"name": "sys", "pkg": "./sys", "search_cases": 4000, "quick_cases": 250, "timeout_quick": 90, "only": ["every_selected_route_has_receiver"]},
        # "the receivers shown by the API, amtool and the dispatcher's actual groups agree": a rejected reload must not switch one of them (C17's engine)
        {"name": "reload", "pkg": "./reload", "search_cases": 4, "timeout_quick": 400, "timeout_thorough": 900, "timeout_search": 400, "only": ["failed_reload_keeps_running", "failed_reload_keeps_config"]},
        # a route's matchers hold with the one matcher semantics of C16 (fully anchored regex, missing label = empty string)
        {"name": "matcher", "pkg": "./matcher", "search_cases": 20000, "quick_cases": 8000, "only": ["matches_spec", "matcherset_spec"]},
    ],
    "rule": "random routing trees (depth <= 4, fan-out <= 4, <= 14 nodes; continue; =, !=, =~, !~; legacy match/match_re; "
            "receiver/group_by (list, [], '...')/timers/labels/time-interval overrides) x 4-8 label sets over 3 label names, through the real "
            "config.Load(yaml) -> dispatch.NewRoute -> Route.Match; RouteOpts, Idx, Key(), ID(), sorted matchers compared per node; matched "
            "route list compared by node path; the documented rule is re-evaluated on the implementation's own per-node verdicts, and "
            "inheritance on its own per-node options; thorough adds all trees <= 5 nodes x 4 matchers x continue over a 2-label alphabet x 9 label sets; "
            "a case is non-trivial when it hits a tagged branch (continue-multi, root-fallback, inner-node-self, negative-on-absent, "
            "group_by overrides, merged labels, legacy match_re, inherited receiver); distinct = distinct hash of the case's lines",
    "assumptions": [
        "regular expressions: Go regexp is an oracle (pattern, value) -> bool reported by the harness from a fresh labels.NewMatcher; theorems hold for every such function",
        "yaml.v2 decoding of the generated (JSON-syntax) configuration and the classic matcher parser are trusted to deliver the matchers the harness wrote (the harness reads them back from Route.Matchers and the driver compares)",
        "three_consumers_agree rests on the go/ast call-site pin (`fact api|amtool|dispatcher`), not on running the HTTP handler or amtool",
        "every_selected_route_has_receiver assumes Config.UnmarshalYAML's checks (root receiver set, root without matchers, checkReceiver, receiver names non-empty): C17",
    ],
}
