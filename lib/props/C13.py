SPEC = {
    "lean_modules": ["AM.Props.C13"],
    "theorems": [
        "AM.Ingest.post_defaults", "AM.Ingest.prepare_spec", "AM.Ingest.removeEmpty_spec",
        "AM.Ingest.batch_best_effort", "AM.Ingest.valid_alerts_are_stored", "AM.Ingest.post_ok_iff_all_valid",
        "AM.Ingest.overlap_keeps_earliest_start", "AM.Ingest.refire_after_end_starts_anew", "AM.Ingest.timeout_end_pushed_forward",
        "AM.Ingest.explicit_past_end_resolves", "AM.Ingest.putValue_identity",
        "AM.Ingest.get_returns_unexpired", "AM.Ingest.get_filter_flags", "AM.Ingest.get_filter_flags_hides_inhibited", "AM.Ingest.gc_only_resolved", "AM.Ingest.put_leaves_others",
    ],
    "engines": [
        {"name": "ingest", "pkg": "./ingest", "search_cases": 15000},
        # the API's resolve_timeout, routing tree (receivers of GET /alerts) and served configuration belong to the configuration in force (C17's engine);
        # its `astatus` op is where an alert is silenced AND inhibited behind the real status callback: the query flags of GET (get_filter_flags)
        {"name": "reload", "pkg": "./reload", "search_cases": 4, "timeout_quick": 400, "timeout_thorough": 900, "timeout_search": 400, "only": ["failed_reload_keeps_running", "failed_reload_keeps_config", "get_filter_flags"]},
    ],
    "rule": "random submission histories through the real API v2 HTTP handler (POST/GET /api/v2/alerts, in-process) on the real "
            "mem.Alerts provider + a real Inhibitor under synctest virtual time: 3-5 label sets per case, batches of 1-3 alerts "
            "with/without startsAt/endsAt on a 30 s instant grid (overlapping, disjoint, out of order, end in the past or equal to "
            "now, re-fired), the same label set twice in a batch, empty-valued labels, invalid label/annotation names, empty label "
            "sets, end before start; interleaved with GETs and with waits across the provider's GC ticks (3/10/30 min); "
            "`getc` = a GET whose request context is already cancelled (client gone) while the provider holds alerts, `update` = a configuration reload "
            "reaching the API (API.Update with another resolve_timeout, run outside the bubble and bounded in real time): it must return, and later POSTs "
            "use the new resolve_timeout (valid_alerts_are_stored class api-wedged-after-aborted-read); "
            "resolve_timeout 1/2/5 min; a case is non-trivial when it hits a tagged branch (post:overlap, post:timeout-resend, "
            "post:explicit-past-end, post:400, gc:collected, get:end-equals-now, get:suppressed, …); engine reload (the real application): an alert that is "
            "silenced AND inhibited plus its active source, GET /api/v2/alerts with inhibited=false / silenced=false / active=false: who is listed "
            "(AM.Ingest.passesFlags on the statuses the API itself reports)",
    "assumptions": [
        "fingerprints are injective (the model keys alerts by their label list)",
        "label values are valid UTF-8 (the JSON decoder guarantees it); compat.IsValidLabelName is in its default classic mode",
        "go-openapi request validation accepts every generated body (observed: no other status than 200/400)",
        "GET: timestamps are rendered with millisecond precision (strfmt); the generators use whole milliseconds",
        "receivers: the engine's fixed two-level route tree is re-implemented in the driver (Route.Match proper is C07); "
        "status: the C03 rule (executable form proved equivalent in AM.Props.C03) for one fixed inhibit rule whose sources are "
        "unique per equal-key, so finding F2 cannot interfere",
    ],
}
