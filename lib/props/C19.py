SPEC = {
    "lean_modules": ["AM.Props.C19"],
    "theorems": [
        "AM.Gossip.broadcast_routed_once", "AM.Gossip.broadcast_conservation", "AM.Gossip.oversize_reaches_every_peer",
        "AM.Gossip.busy_takes_nothing", "AM.Gossip.unknown_key_inert", "AM.Gossip.malformed_inert",
        "AM.Gossip.bad_part_does_not_block_others", "AM.Gossip.duplicate_inert", "AM.Gossip.full_state_superset",
        "AM.Gossip.mergeRemote_monotone", "AM.Gossip.mergeRemote_covers", "AM.Gossip.lookup_mergeKV",
        "AM.Gossip.bad_part_blocks_others_old", "AM.Gossip.f5_repaired", "AM.Gossip.old_agrees_without_failure",
    ],
    "engines": [
        {"name": "gossip", "pkg": "./gossip", "search_cases": 15000},
    ],
    "rule": "",
    "assumptions": [],
}
