SPEC = {
    "lean_modules": ["AM.Props.Registry", "AM.Props.C19", "AM.Props.C09"],
    "theorems": [
        "AM.Registry.targets_are_live_members", "AM.Registry.join_makes_member", "AM.Registry.leave_of_other_keeps_member", "AM.Registry.address_keyed_table_marks_live_peer_failed",
        "AM.Registry.position_lt_of_lt", "AM.Registry.positions_distinct", "AM.Registry.table_position_collides",
        "AM.ConnPool.borrow_alive", "AM.ConnPool.inv_send", "AM.ConnPool.recovers_after_one_failure", "AM.ConnPool.delivered_stays_delivered", "AM.ConnPool.stale_entry_never_recovers",
        "AM.Frame.decode_stream", "AM.Frame.le32_decode", "AM.Frame.split_frames_interleave_breaks",
        "AM.Gossip.broadcast_routed_once", "AM.Gossip.broadcast_conservation", "AM.Gossip.oversize_reaches_every_peer",
        "AM.Gossip.busy_takes_nothing", "AM.Gossip.unknown_key_inert", "AM.Gossip.malformed_inert",
        "AM.Gossip.bad_part_does_not_block_others", "AM.Gossip.duplicate_inert", "AM.Gossip.full_state_superset",
        "AM.Gossip.mergeRemote_monotone", "AM.Gossip.mergeRemote_covers", "AM.Gossip.lookup_mergeKV",
        "AM.Gossip.bad_part_blocks_others_old", "AM.Gossip.f5_repaired", "AM.Gossip.old_agrees_without_failure",
        # the relay step of the dissemination is the receivers' Merge: every accepted update goes back to the gossip layer
        "AM.Silence.accepted_iff_changed", "AM.Silence.merge_relays_accepted", "AM.Silence.merge_update_relayed",
    ],
    "engines": [
        {"name": "gossip", "pkg": "./gossip", "search_cases": 15000},
        {"name": "mesh", "pkg": "./mesh", "search_cases": 6, "timeout_quick": 300, "timeout_thorough": 900},
        # the TLS gossip transport: concurrent senders on the pooled connection of one peer
        {"name": "tlsframe", "pkg": "./tlsframe", "search_cases": 200, "timeout_quick": 300},
        # "a broadcast reaches every peer": memberlist transmits an update a bounded number of times, the rest of the fan-out is the
        # re-broadcast by every receiver whose Merge accepted it (C09's engine: what Silences.Merge hands back to its broadcast function)
        {"name": "silmerge", "pkg": "./silmerge", "search_cases": 20000, "quick_cases": 1500, "only": ["merge_relays_accepted", "full_state_superset"]},
    ],
    "rule": "gossip: two real cluster delegates (tagged export) over last-writer-wins test states with registries drawn from {sil,nfl},{sil},{nfl},{nfl,sil,xtra}; "
            "NotifyMsg with well-formed parts (known / unknown key, good / rejected payload) and arbitrary bytes; MergeRemoteState with 1-3 parts incl. rejected "
            "payloads before good ones, and arbitrary bytes; LocalState→MergeRemoteState exchanges; the real cluster.Channel with wrapped sizes 670-701 bytes "
            "around the 700 byte threshold, 0-2 peers, reliable sends held/released, a 204-message flood of the 200-slot oversize queue in 4% of the cases; "
            "mesh: 2-3 real cluster.Peer on 127.0.0.1 with real silence.Silences and nflog.Log, small and oversized updates from every node, a late joiner, a crash + restart on the same address (random name / a name that sorts first; every node's Position() against the member names it sees), "
            "and beside them one re-dial case: B configured with no peers, A with B and reconnect disabled, B crashes, is declared dead, A takes updates, a new B starts on the address knowing nobody — A's periodic refresh (15 s, fixed) must join it again within two refresh intervals. "
            "silmerge full_state_superset: after a full-state push the receiver holds, for every id of the sender not past retention (ended ones included), a version at least as new. "
            "silmerge (C09's engine, predicate merge_relays_accepted only): after every Silences.Merge of a non-oversized message the number of calls of the broadcast function is at least the number of records that changed the state (new ids and newer versions of known ids alike). "
            "non-trivial = hits a tagged branch",
    "assumptions": [
        "the delegate is driven through fixes/hook-cluster-export.diff (cluster/export_verif.go, build tag verif, add-only): it builds the unexported delegate over a given registry without a memberlist",
        "a registered state is abstracted to a last-writer-wins map id->version whose Merge rejects undecodable payloads (what C09/C10 prove of silences and the notification log); the engine uses such test states, the mesh engine the real ones",
        "protobuf field codec: Part/FullState round-trip; 'malformed' = proto.Unmarshal fails (arbitrary bytes that happen to decode carry an unknown key and are inert for that reason)",
        "memberlist's dissemination (gossip fan-out, SendReliable, push/pull) is observed on loopback, not proved; an oversized update is sent once, to the members the sender knows at that moment",
    ],
}
