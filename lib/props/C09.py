SPEC = {
    "lean_modules": ["AM.Props.C09", "AM.Props.C02", "AM.Props.C02M", "AM.Props.C19"],
    "theorems": [
        "AM.Silence.merge_refuses_past_retention", "AM.Silence.merge_monotone", "AM.Silence.merge_result",
        "AM.Silence.merge_idem_no_gossip", "AM.Silence.merge_old_no_gossip",
        "AM.Silence.accepted_iff_changed", "AM.Silence.merge_relays_accepted", "AM.Silence.merge_update_relayed",
        "AM.Silence.merge_comm", "AM.Silence.fold_merge_perm",
        "AM.Silence.newest_wins", "AM.Silence.converges",
        "AM.Silence.decodeBatch_last_wins", "AM.Silence.mergeBatch_st",
        "AM.Silence.set_state_is_merge", "AM.Silence.expire_state_is_merge",
        "AM.Silence.index_inv_preserved", "AM.Silence.query_eq_filter",
        "AM.Silence.reload_lossless", "AM.Silence.effective_after_merge",
        "AM.Silence.stMi_mergeOne", "AM.Silence.merge_stale_index_counterexample", "AM.Silence.set_keeps_matchers",
        "AM.Gossip.full_state_superset", "AM.Gossip.mergeRemote_covers", "AM.Gossip.broadcast_routed_once",
    ],
    "engines": [
        {"name": "silmerge", "pkg": "./silmerge", "search_cases": 20000},
        # "a silence created or expired through any instance's API is eventually effective on every connected instance": effectiveness of merged versions is the mute verdict of C02's engine
        {"name": "silencer", "pkg": "./silencer", "search_cases": 6000, "quick_cases": 1200},
        # a Merge racing a local Expire of the same id (real goroutines, real time): the newest version wins
        {"name": "mutesrace", "pkg": "./mutesrace", "search_cases": 60, "timeout_quick": 300, "only": ["merge_monotone", "mutesI_next_call_exact"]},
        # "connected instances converge": a lost update broadcast is repaired by the periodic full-state exchange of the
        # gossip layer (delegate.LocalState(join=false) -> MergeRemoteState), C19's engine
        {"name": "gossip", "pkg": "./gossip", "search_cases": 6000, "quick_cases": 600, "only": ["full_state_superset"]},
        # "eventually effective on every connected instance" over a real memberlist on loopback: several updates queued on one
        # instance within one gossip interval all reach every peer by gossip (none displaces another in the queue): C19's engine
        {"name": "mesh", "pkg": "./mesh", "search_cases": 4, "timeout_quick": 400, "only": ["broadcast_routed_once", "full_state_superset"]},
    ],
    "rule": "random op sequences on 2-3 real silence.Silences (+ Silencer) under synctest virtual time: local Set (create / compatible and "
            "incompatible edit, among them every one-component variation of the matcher sets) and Expire whose broadcasts are captured into a pool, scripted channel delivering pool entries "
            "(late, duplicated, reordered, dropped, batched 1-3 with last-record-wins, crafted versions around the tie and retention "
            "boundaries, oversized), full-state push (MarshalBinary -> Merge), GC, snapshot reload, Query (QIDs/QSince/QState/QMatches) "
            "and Mutes; instants on a 1 s grid; a quarter of the cases with a MaxSilences limit of 1-3 (Set answers `limit`, Merge ignores it); every record a Merge accepted is counted against the re-broadcasts (merge_relays_accepted); one third of the cases are convergence cases (distinct update instants per id, retention "
            "1000 s) that end by delivering the whole pool to every instance in its own order and comparing the instances; "
            "a case is non-trivial when it hits a tagged branch (merge:newer/older/tie/duplicate/past-retention/revival/oversized, "
            "set:in-place/replace/silently-dropped, expire:*, gc:removed, converge:checked, mutes:*); distinct = distinct hash of the op lines",
    "assumptions": [
        "versions of one silence id carry the same matcher sets (every honest instance's Set draws a new id when matchers change: "
        "set_keeps_matchers; Merge itself neither checks nor recompiles: stMi_mergeOne / merge_stale_index_counterexample); "
        "legacy `comments`/`matchers` wire fields and patterns that do not compile are not generated",
        "protobuf codec round-trips (the harness decodes MarshalBinary output / broadcast payloads to observe state)",
        "newest_wins/converges: the newest version of an id is strictly newest (distinct UpdatedAt per id) and not past retention at any delivery instant",
        "GC is modelled per id; it agrees with the Go loop because no id occurs twice in the version index (index_inv_preserved: viNodup)",
        "model follows the repaired Silences.Merge of fixes/F1.diff (re-index on revival); VERIF_F1FIX=0 selects the pinned discipline",
    ],
}
