#!/usr/bin/env python3
"""Regenerates MANIFEST.json from lib/props/*.py (claimed) and lib/not_applicable.json."""
import importlib.util, json, os, sys
ROOT = os.path.dirname(os.path.dirname(os.path.abspath(__file__)))
ids = [json.loads(l)["id"] for l in open(os.path.join(ROOT, "properties.jsonl"))]
checks, engines, na = [], {}, []
na_reasons = json.load(open(os.path.join(ROOT, "lib", "not_applicable.json")))
for pid in ids:
    p = os.path.join(ROOT, "lib", "props", pid + ".py")
    if not os.path.exists(p) or pid in na_reasons:
        na.append({"property_id": pid, "reason": na_reasons.get(pid, "no check built yet in this session; see DESIGN.md")})
        continue
    spec = importlib.util.spec_from_file_location("p", p); m = importlib.util.module_from_spec(spec); spec.loader.exec_module(m)
    S = m.SPEC
    for e in S["engines"]:
        engines.setdefault(e["name"], {"name": e["name"], "path": "harness/" + e["pkg"].lstrip("./"), "serves_properties": [],
                                       "kind_free_text": "Go correspondence engine (real packages in-process, synctest virtual time) + Lean driver `amdrv %s`" % e.get("driver", e["name"])})
        engines[e["name"]]["serves_properties"].append(pid)
    checks.append({
        "property_id": pid,
        "quick_cmd": "./check %s" % pid,
        "thorough_cmd": "./check %s --tier thorough" % pid,
        "evidence_file": "/verif/evidence/%s.json" % pid,
        "replay_cmd_template": "./check %s --replay {path}" % pid,
        "engine": ",".join(e["name"] for e in S["engines"]),
        "level_claimed": {"category": "proof", "text": S.get("level_text", "%d theorems, unbounded (no bound on sizes, steps or histories), checked by Lean's kernel and audited for axioms; the model they are about is executed against the real packages by %d engine(s) (%d of them borrowed from neighbouring properties for named predicates) on every run" % (len(S["theorems"]), len(S["engines"]), len([e for e in S["engines"] if e.get("only")]))), "design_ref": "DESIGN.md §5 " + pid},
        "level_note": S.get("level_note", "Lean kernel + propext/Classical.choice/Quot.sound; the model is tied to /repo by the correspondence check (harness + amdrv), whose reach is bounded by its generators"),
        "technique": S.get("technique", "Lean 4 theorems over a hand-written executable model + differential correspondence check against the real Go packages"),
    })
man = {
    "version": 1,
    "setup_cmd": "./setup.sh",
    "hooks": json.load(open(os.path.join(ROOT, "lib", "hooks.json"))),
    "engines": list(engines.values()),
    "checks": checks,
    "not_applicable": na,
    "notes": "Every check: lake build of the property's theorem module + #print axioms audit + Go correspondence engine against /repo's working tree + Lean driver. See DESIGN.md.",
}
json.dump(man, open(os.path.join(ROOT, "MANIFEST.json"), "w"), indent=1)
print("MANIFEST.json: %d checks, %d not_applicable" % (len(checks), len(na)))
