#!/bin/sh
# usage: lib/intake.sh <property id> <round suffix e.g. r2>   — confirm MUT/1,2 of /tmp/mut2-<id> and run them against the property's check
cd "$(dirname "$0")/.."
P=$1; R=$2; WT=/tmp/mut2-$P; [ "$R" = "r1" ] && WT=/tmp/mut-$P; [ "$R" = "r3" ] && WT=/tmp/mut3-$P; [ "$R" = "r4" ] && WT=/tmp/mut4-$P; [ "$R" = "r5" ] && WT=/tmp/mut5-$P; [ "$R" = "r6" ] && WT=/tmp/mut6-$P; [ "$R" = "r7" ] && WT=/tmp/mut7-$P
for i in 1 2; do
  N=$P-$R-$i
  if python3 lib/seedtest.py confirm $WT $i $N > /tmp/confirm-$N.log 2>&1; then
    SEED_WT=${SEED_WT:-/tmp/seedrepo-lead} python3 lib/seedtest.py run $N 2>&1 | tail -1 | cut -c1-220
  else
    echo "$N NOT-CONFIRMED"; tail -6 /tmp/confirm-$N.log | cut -c1-200
  fi
done
