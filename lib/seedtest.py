#!/usr/bin/env python3
"""Seeded-change bookkeeping.

  seedtest.py confirm <worktree> <i> <name>   confirm MUT/<i> of a mutation agent's worktree (compiles, existing tests of the
                                              touched packages pass, demo fails with / passes without) and store it as seeded/<name>/
  seedtest.py run <name> [check ids…]         apply seeded/<name>/patch.diff to /repo, run the checks (default: the property's own),
                                              undo, append the outcome to seeded/RESULTS.json
  seedtest.py table                           regenerate seeded/RESULTS.md
"""
import glob, json, os, re, shutil, subprocess, sys, time

ROOT = os.path.dirname(os.path.dirname(os.path.abspath(__file__)))
SEEDED = os.path.join(ROOT, "seeded")


def sh(cmd, cwd=None, timeout=1800):
    env = dict(os.environ); env["GOFLAGS"] = "-mod=mod"; env["GOPROXY"] = "off"; env.pop("GOSUMDB", None)
    p = subprocess.run(cmd, cwd=cwd, shell=True, env=env, timeout=timeout, stdout=subprocess.PIPE, stderr=subprocess.STDOUT, text=True, errors="replace")
    return p.returncode, p.stdout


def touched_pkgs(patch):
    pk = set()
    for m in re.finditer(r"^\+\+\+ b/(\S+\.go)", open(patch).read(), re.M):
        pk.add("./" + os.path.dirname(m.group(1)))
    return sorted(pk)


def confirm(wt, i, name):
    mut = os.path.join(wt, "MUT", str(i))
    meta = json.load(open(os.path.join(mut, "meta.json")))
    patch = os.path.join(mut, "patch.diff")
    demo = meta["demo"]
    # run only the `go test …` part of the agent's command: the demo files are copied here
    m = re.search(r"go test [^;&()]+", demo["cmd"])
    demo = dict(demo); demo["cmd"] = m.group(0).strip() if m else demo["cmd"]
    log = {}
    sh("git checkout -- . && git clean -fdq -e MUT", cwd=wt)
    # ui/web.go embeds the git-ignored ui/app/dist (present in /repo, absent in a fresh worktree)
    os.makedirs(os.path.join(wt, "ui/app/dist"), exist_ok=True)
    if not os.path.exists(os.path.join(wt, "ui/app/dist/index.html")):
        open(os.path.join(wt, "ui/app/dist/index.html"), "w").write("<html></html>")
    # demo files: every *_test.go / *.go next to meta.json
    demos = [f for f in os.listdir(mut) if f.endswith(".go")]
    dst = os.path.join(wt, demo["copy_to"].split()[0])
    def put_demo():
        os.makedirs(dst, exist_ok=True)
        for f in demos: shutil.copy(os.path.join(mut, f), os.path.join(dst, f))
    def del_demo():
        for f in demos:
            p = os.path.join(dst, f)
            if os.path.exists(p): os.remove(p)
    # without patch: demo passes
    put_demo()
    rc0, out0 = sh(demo["cmd"], cwd=wt)
    log["demo_without_patch"] = "PASS" if rc0 == 0 else "FAIL"
    del_demo()
    # with patch
    rc, out = sh("git apply %s" % patch, cwd=wt)
    if rc != 0:
        log["apply"] = out[-400:]; sh("git checkout -- .", cwd=wt); return False, log
    rcb, outb = sh("go build ./...", cwd=wt)
    log["build"] = "ok" if rcb == 0 else outb[-400:]
    pk = touched_pkgs(patch)
    rct, outt = sh("go test -count=1 %s" % " ".join(p + "/..." for p in pk), cwd=wt)
    log["existing_tests"] = {"pkgs": pk, "result": "ok" if rct == 0 else outt[-800:]}
    put_demo()
    rc1, out1 = sh(demo["cmd"], cwd=wt)
    log["demo_with_patch"] = "PASS" if rc1 == 0 else "FAIL"
    del_demo()
    sh("git checkout -- .", cwd=wt)
    ok = rc0 == 0 and rcb == 0 and rct == 0 and rc1 != 0
    if ok:
        d = os.path.join(SEEDED, name); os.makedirs(d, exist_ok=True)
        shutil.copy(patch, os.path.join(d, "patch.diff"))
        for f in demos: shutil.copy(os.path.join(mut, f), os.path.join(d, f))
        meta["confirmed"] = log
        meta["what_was_run"] = ["git apply patch.diff", "go build ./...", "go test " + " ".join(pk), demo["cmd"] + " (with patch: FAIL, without: PASS)"]
        json.dump(meta, open(os.path.join(d, "meta.json"), "w"), indent=1)
    return ok, log


def run(name, checks):
    d = os.path.join(SEEDED, name)
    meta = json.load(open(os.path.join(d, "meta.json")))
    if not checks: checks = [meta["property"]]
    # a dedicated scratch worktree of /repo's HEAD stands in for /repo (VERIF_REPO), so that background
    # sweeps which read /repo itself are not disturbed; equivalent to `git -C /repo apply` + undo
    wt = os.environ.get("SEED_WT", "/tmp/seedrepo")
    if not os.path.isdir(wt):
        sh("git -C /repo worktree add --detach %s HEAD" % wt)
    sh("git checkout -q --detach $(git -C /repo rev-parse HEAD) && git checkout -- . && git clean -fdq", cwd=wt)
    pf = os.path.join(d, "patch.diff")
    rc, out = sh("git apply %s" % pf, cwd=wt)
    if rc != 0:   # context drifted (later hook / fix commits): retry with less context, then with fuzz
        rc, out = sh("git apply -C1 --recount %s || patch -p1 -F3 --no-backup-if-mismatch < %s" % (pf, pf), cwd=wt)
    if rc != 0:
        print("patch does not apply:", out); return 2
    res = {}
    try:
        for c in checks:
            t0 = time.time()
            rc, out = sh("VERIF_REPO=%s ./check %s" % (wt, c), cwd=ROOT, timeout=3600)
            viol = [l for l in out.splitlines() if l.startswith("VIOLATION")]
            res[c] = {"exit": rc, "violations": [v.split(" replay=")[1].split("/")[-1] + (" no-failing-input-found" if v.endswith("no-failing-input-found") else "") for v in viol],
                      "wall_s": round(time.time() - t0, 1)}
            print(name, c, "exit", rc, res[c]["violations"][:3])
    finally:
        sh("git checkout -- . && git clean -fdq", cwd=wt)
        sh("python3 lib/vcheck.py sync", cwd=ROOT)
    rp = os.path.join(SEEDED, "RESULTS.json")
    allr = json.load(open(rp)) if os.path.exists(rp) else {}
    allr.setdefault(name, {}).update(res)
    json.dump(allr, open(rp, "w"), indent=1, sort_keys=True)
    return 0


def table():
    rp = os.path.join(SEEDED, "RESULTS.json")
    allr = json.load(open(rp)) if os.path.exists(rp) else {}
    lines = ["# Seeded changes and which checks catch them", "",
             "Each change was written by a fresh sub-agent that saw only the property text and a scratch worktree of `/repo`;",
             "it compiles, passes the existing tests of the touched packages, and fails its own demonstration (`meta.json`).",
             "`caught` = the check exits 1 with a `VIOLATION` line (the replay names the failing spec predicate).", "",
             "| seeded change | property | what it needs to manifest | own check | other checks that also report it |", "|---|---|---|---|---|"]
    for name in sorted(os.listdir(SEEDED)):
        mp = os.path.join(SEEDED, name, "meta.json")
        if not os.path.exists(mp): continue
        m = json.load(open(mp))
        r = allr.get(name, {})
        own = r.get(m["property"])
        def fmt(x):
            if x is None: return "not run"
            if x["exit"] == 1: return "**caught** (" + ", ".join(sorted(set(re.sub(r"-seed.*", "", v) for v in x["violations"]))[:3]) + ")"
            return "MISSED"
        others = [c for c in r if c != m["property"] and r[c]["exit"] == 1]
        lines.append("| %s | %s | %s | %s | %s |" % (name, m["property"], m.get("needs", "").replace("|", "/")[:160], fmt(own), ", ".join(others) or "–"))
    open(os.path.join(SEEDED, "RESULTS.md"), "w").write("\n".join(lines) + "\n")
    print("\n".join(lines))


if __name__ == "__main__":
    a = sys.argv
    if a[1] == "confirm":
        ok, log = confirm(a[2], a[3], a[4]); print(json.dumps(log, indent=1)); sys.exit(0 if ok else 1)
    elif a[1] == "run":
        sys.exit(run(a[2], a[3:]))
    elif a[1] == "table":
        table()
