#!/bin/sh
# MANIFEST.setup_cmd: build the framework offline from files on disk.
set -e
cd "$(dirname "$0")"
export GOFLAGS=-mod=mod GOPROXY=off
python3 lib/vcheck.py sync
(cd lean && lake build)
# warm the Go build cache for every engine (compiles /repo's packages once)
GOBIN_=go; if command -v go1.26.8 >/dev/null 2>&1; then GOBIN_=go1.26.8; export GOTOOLCHAIN=local; fi
(cd harness && $GOBIN_ test -tags verif -count=1 -run '^$' ./... )
