#!/bin/sh
# MANIFEST.setup_cmd: build the framework offline from files on disk.
set -e
cd "$(dirname "$0")"
export GOFLAGS=-mod=mod GOPROXY=off
python3 lib/vcheck.py sync
(cd lean && lake build)
# warm the Go build cache for every engine (compiles /repo's packages once)
(cd harness && go vet -tags verif ./... >/dev/null 2>&1 || true; go test -tags verif -count=1 -run '^$' ./... )
