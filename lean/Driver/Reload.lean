/-
  Engine `reload` (C17): the real application (app.New / Start / Reload / Stop,
  config coordinator + the reloader of app/reloader.go) driven in-process; the
  trace is replayed on AM.Config's coordinator + reloader state machine and the
  spec predicate "a rejected reload leaves the running configuration in force"
  is evaluated on the implementation's own observations.

  Header: case <id> kind=reload

    steps                       -> F:<callee>,…,E:<callee>,…    source order of the fallible / live-state steps of reloader.reload
    start <cfg>                 -> ok | err:<stage>
    probe <alertname> <sev>     -> <cfg>.<receiver>[,…] | none  which webhook was notified of a NEW alert (sev x → r1, else r0)
    reload <cfg> <fault> <via>  -> ok | err:<stage>             stage = load | templates | receivers | tracing
    status                      -> <cfg> | unknown              the configuration the status API serves
    astatus <name>              -> tgt=<state>:<sil ok>:<n inh> src=<state>:<n sil>:<n inh> grp=<…> flt=<roles>:<roles>:<roles>
                                   an alert that is both silenced and inhibited + its source, as GET /api/v2/alerts reports them;
                                   flt = who is listed with inhibited=false / silenced=false / active=false
    starttorn <cfg> <cut>       -> refused:<stage>|started file=same|changed   start over a notification-log snapshot cut inside its last record
    stop                        -> ok
-/
import Driver.Util
import AM.Model.Config
import AM.Model.Ingest

namespace Driver.Reload
open Driver AM.Config

structure St where
  app : AppState String := {}
  steps : List Step := reloaderSteps
  implInForce : Option String := none   -- the configuration the implementation last reported as applied
  lastFailed : Bool := false            -- … and whether a rejected reload came after it
  lastFault : String := ""

/-- the stage at which a fault of the generator is rejected -/
def faultStage (fault : String) : String :=
  if fault = "none" ∨ fault = "template-ok" ∨ fault = "big" then "none"
  else if fault.startsWith "template" then "templates"
  else if fault.startsWith "receiver" then "receivers"
  else if fault.startsWith "tracing" then "tracing"
  else "load"

/-- one token of the `steps` observation as a model step -/
def stepOfToken (nStops : Nat) (t : String) : Option Step :=
  match t.splitOn ":" with
  | ["F", callee] =>
    if callee = "template.FromGlobs" then some ⟨"templates", true, .none⟩
    else if callee = "receiver.BuildReceiverIntegrations" then some ⟨"receivers", true, .none⟩
    else if callee = "tracingMgr.ApplyConfig" then some ⟨"tracing", true, .aux⟩
    else some ⟨callee, true, .none⟩
  | ["E", callee] =>
    if callee = "eventRecorder.ApplyConfig" then some ⟨"eventrecorder", false, .aux⟩
    else if callee.endsWith ".Stop" then some ⟨if nStops = 0 then "stop-inhibitor" else "stop-dispatcher", false, .stopOld⟩
    else if callee = "apih.Update" then some ⟨"api-update", false, .publishApi⟩
    else if callee = "inhibitor.Store" then some ⟨"start-inhibitor", false, .startNew⟩
    else if callee = "dispatcher.Store" then some ⟨"start-dispatcher", false, .startNew⟩
    else if callee.startsWith "go." then none            -- the goroutine of a component that is published by the Store after it
    else some ⟨callee, false, .aux⟩
  | _ => none

def parseSteps (s : String) : List Step :=
  ((splitList "," s).foldl (fun (acc : List Step × Nat) t =>
    match stepOfToken acc.2 t with
    | some st => (st :: acc.1, if st.effect = .stopOld then acc.2 + 1 else acc.2)
    | none => acc) ([], 0)).1.reverse

def showSteps (l : List Step) : String :=
  joinList "," (l.map fun st => s!"{if st.fallible then "F" else "E"}:{st.name}")

def indexOfStep (l : List Step) (name : String) : Option Nat := l.findIdx? (·.name = name)

def recvOf (sev : String) : String := if sev = "x" then "r1" else "r0"

def inForceFail (σ : St) (what got : String) : List Msg :=
  let want := σ.implInForce.getD "-"
  if σ.lastFailed then
    [.propfail "failed_reload_keeps_config" "old-config-not-in-force"
      s!"the reload ({σ.lastFault}) was rejected, the configuration in force before it is {want}; {what}: {got}"]
  else
    [.propfail "successful_reload_applies" "accepted-config-not-in-force"
      s!"the implementation reported {want} as applied; {what}: {got}"]

def step (σ : St) (op obs : List String) : St × List Msg :=
  -- an operation on an application that was never started (a reduced replay) observes nothing
  if obs = ["noapp"] then (σ, [.tag "noapp"]) else
  match op, obs with
  | ["steps"], [toks] =>
    let observed := parseSteps toks
    let d := expectEq "steps.order" (showSteps reloaderSteps) (showSteps observed)
    let pf : List Msg :=
      if safeOrder observed then [] else
        [.propfail "failed_reload_keeps_running" "fallible-step-after-live-change"
          s!"reloader.reload runs [{showSteps observed}]: a step that can fail comes after a step that changed the running instance"]
    ({ σ with steps := if observed.isEmpty then reloaderSteps else observed }, d ++ pf ++ [.tag "steps"])
  | ["start", cfg], [r] =>
    let (a, ok) := σ.app.reload (E := Unit) σ.steps (.ok cfg) none
    let d := expectEq "start.result" (if ok then "ok" else "err") r
    ({ σ with app := a, implInForce := if r = "ok" then some cfg else σ.implInForce, lastFailed := false }, d ++ [.tag "start"])
  | ["reload", cfg, fault, via], [r0] =>
    -- `ok-leak`: the reload was accepted, and one of the status requests answered while it was applied showed a receiver's
    -- secret URL in clear text (AM.Config.secret_leaves_masked holds of every rendering, whatever else the process does)
    let leak := r0 = "ok-leak"
    let r := if leak then "ok" else r0
    let stage := faultStage fault
    let load : Except Unit String := if stage = "load" then .error () else .ok cfg
    let failAt : Option Nat := if stage = "load" ∨ stage = "none" then none else indexOfStep σ.steps stage
    let (a, ok) := σ.app.reload σ.steps load failAt
    let d := expectEq "reload.result" (if ok then "ok" else s!"err:{stage}") r
      -- a configuration that cannot be applied is rejected every time it is presented (the model's reload is a
      -- function of the file and the running state: AM.Config.failed_reload_keeps_running)
      ++ (if !ok ∧ r = "ok" then [Msg.propfail "failed_reload_keeps_config" "unapplicable-config-accepted"
            s!"reload of {cfg} with fault {fault} (cannot be applied: {stage}) via {via} was accepted{if σ.lastFailed then " after having been rejected: " ++ σ.lastFault else ""}"] else [])
    let σ' := if r = "ok" then { σ with app := a, implInForce := some cfg, lastFailed := false, lastFault := fault }
              else { σ with app := a, lastFailed := true, lastFault := s!"{cfg} {fault} via {via}: {r}" }
    (σ', d ++ (if leak then [Msg.propfail "secret_leaves_masked" "leak-during-reload"
                  s!"a status request answered while the reload of {cfg} (via {via}) was applied shows a webhook URL (a secret) in clear text"] else [])
         ++ [.tag s!"reload:{stage}", .tag s!"via:{via}", .tag s!"fault:{fault}", .tag (if r = "ok" then "reload:accepted" else "reload:rejected")])
  | ["probe", name, sev], [who] =>
    let model := match σ.app.live.running with
      | some c => s!"{c}.{recvOf sev}"
      | none => "none"
    let d := expectEq "probe.notified" model who
    let want := s!"{σ.implInForce.getD "-"}.{recvOf sev}"
    let pf := if who = want then [] else
      if name.startsWith "slow-" then
        -- a delivery that takes 3 s fits into every flush (its budget is max(group_interval, 10 s) + cluster wait)
        [Msg.propfail "repeat_on_time" "slow-receiver-cut-off"
          s!"alert {name}: the receiver answers after 3 s; no delivery was completed (observed: {who}, expected {want}): the flush gives its deliveries less than the 10 s minimum"]
      else
      inForceFail σ s!"a new alert {name} (sev={sev}) must be notified by {want}, observed" who
    (σ, d ++ pf ++ [.tag (if σ.lastFailed then "probe:after-rejected" else "probe:after-accepted"), .tag s!"probe:{recvOf sev}"])
  | ["status"], [id] =>
    let model := σ.app.live.served.getD "unknown"
    let d := expectEq "status.served" model id
    let want := σ.implInForce.getD "-"
    let pf := if id = want then [] else inForceFail σ s!"the status API must serve {want}, observed" id
    (σ, d ++ pf ++ [.tag (if σ.lastFailed then "status:after-rejected" else "status:after-accepted")])
  | ["reload", cfg, _fault, "slow"], [r, who] =>
    -- a valid reload whose new dispatcher is held up while loading: an alert posted meanwhile belongs to the new
    -- configuration alone (the old dispatcher was stopped before the new one subscribed)
    let (a, ok) := σ.app.reload (E := Unit) σ.steps (.ok cfg) none
    let d := expectEq "reload.result" (if ok then "ok" else "err") r
    let want := s!"{cfg}.r0"
    let pf := if r ≠ "ok" ∨ who = want ∨ who = "posterr" then [] else
      [Msg.propfail "successful_reload_applies" "two-dispatchers-during-reload"
        s!"an alert posted while the dispatcher of {cfg} was loading was notified by [{who}], expected [{want}] only: the previous dispatcher was still consuming alerts"]
    ({ σ with app := a, implInForce := if r = "ok" then some cfg else σ.implInForce, lastFailed := r ≠ "ok", lastFault := "slow" },
      d ++ pf ++ [.tag "reload:slow"])
  | ["astatus", name], [tg, sc, gr, fl] =>
    let (σ', msgs) := step σ ["astatus", name] [tg, sc, gr]
    -- visibility follows the reported status (AM.Ingest.passesFlags): the target is silenced by one silence AND inhibited by
    -- one alert, the source is active; each of inhibited=false / silenced=false / active=false is an exclusion of its own
    let roles (f : AM.Ingest.Flags) : String :=
      joinList "," ((if AM.Ingest.passesFlags f 0 0 then ["src"] else []) ++ (if AM.Ingest.passesFlags f 1 1 then ["tgt"] else []))
    let want := [("inhibited", roles { inhibited := false }), ("silenced", roles { silenced := false }), ("active", roles { active := false })]
    let got := ((fl.splitOn "=").getD 1 "").splitOn ":"
    let settled := tg = "tgt=suppressed:1:1" ∧ sc = "src=active:0:0" ∧ got.length = 3 ∧ !got.contains "err"
    let pf : List Msg :=
      if !settled then [] else
        (want.zip got).filterMap fun ((flag, w), g) =>
          if w = g then none else
            some (Msg.propfail "get_filter_flags" "filter-flags"
              s!"alert {name}: role=tgt is reported silenced and inhibited ({tg}), role=src active ({sc}); GET /api/v2/alerts?{flag}=false must list [{w}], it lists [{g}]")
    (σ', msgs ++ (if settled then expectEq "astatus.flt" ("flt=" ++ ":".intercalate (want.map (·.2))) fl else []) ++ pf ++ [.tag "astatus:flags"])
  | ["gmuted", name], [a, b] =>
    -- AM.TimeInterval.route_gate on the API's view: the group of the muted route is reported muted by the interval,
    -- the group of the route without intervals is not
    (σ, (if a = "a=suppressed:always" then [] else [Msg.propfail "route_gate" "muted-group-not-reported"
            s!"group {name}-a belongs to a route inside its mute interval 'always': GET /alerts/groups reports {a}"])
        ++ (if b = "b=active:-" ∨ b = "b=unprocessed:-" then [] else [Msg.propfail "route_gate" "unmuted-group-reported-muted"
            s!"group {name}-b belongs to a route without time intervals: GET /alerts/groups reports {b}"])
        ++ [.tag "gmuted"])
  | ["astatus", name], [tg, sc, gr] =>
    let (σ', msgs) := step σ ["astatus", name] [tg, sc]
    -- GET /alerts/groups reports the CURRENT verdict too, not the one of the group's last flush
    let pg : List Msg :=
      if gr = "grp=suppressed:1:1" ∨ gr = "grp=missing" then [] else
        (match ((gr.splitOn "=").getD 1 "").splitOn ":" with
         | [state, silOk, nInh] =>
           (if nInh ≠ "0" then [] else [Msg.propfail "status_reports_a_real_inhibitor" "api-groups-status-stale"
              s!"alert {name} role=tgt: GET /api/v2/alerts reports {tg}, GET /api/v2/alerts/groups reports it as {state} with no inhibiting alert"])
           ++ (if silOk = "1" then [] else [Msg.propfail "mutes_eq_bruteforce" "api-groups-status-stale"
              s!"alert {name} role=tgt: GET /api/v2/alerts/groups reports it as {state} without the silence that matches it"])
         | _ => [])
    (σ', msgs ++ expectEq "astatus.grp" "grp=suppressed:1:1" gr ++ pg)
  | ["astatus", name], [tg, sc] =>
    -- the status callback of the API (app/reloader.go): both muters are asked, each records its own verdict:
    -- silencedBy is the brute-force list of active matching silences (C02) whether or not the alert is also inhibited (C03)
    let pf : List Msg :=
      (match ((tg.splitOn "=").getD 1 "").splitOn ":" with
       | [state, silOk, nInh] =>
         (if silOk = "1" then [] else [Msg.propfail "mutes_eq_bruteforce" "api-status-silencedBy"
            s!"alert {name} role=tgt matches an active silence created for it, GET /api/v2/alerts reports it as {state} without that silence id (inhibitedBy: {nInh})"])
         ++ (if nInh ≠ "0" then [] else [Msg.propfail "status_reports_a_real_inhibitor" "api-status-inhibitedBy"
            s!"alert {name} role=tgt is the target of a rule whose source alert fires, GET /api/v2/alerts reports it as {state} with no inhibiting alert"])
       | _ => [Msg.diff "astatus.tgt" "state:sil:inh" tg])
      ++ (if sc = "src=active:0:0" then [] else [Msg.propfail "mutes_eq_bruteforce" "api-status-unsuppressed"
            s!"alert {name} role=src is neither silenced nor inhibited, GET /api/v2/alerts reports {sc}"])
    (σ, expectEq "astatus.tgt" "tgt=suppressed:1:1" tg ++ expectEq "astatus.src" "src=active:0:0" sc ++ pf ++ [.tag "astatus"])
  | ["starttorn", _cfg, cut], [r, file] =>
    -- AM.Snapshot.decode_truncated: a snapshot cut inside its last record is not the encoding of any record list, the loader
    -- rejects it as a whole; nothing of it may be in force afterwards, nor may the file be replaced by what was salvaged
    let pf : List Msg :=
      (if r.startsWith "started" then [Msg.propfail "decode_truncated" "torn-snapshot-partially-loaded"
          s!"the notification-log snapshot in the data directory lacks the last {cut} bytes of its third record; the application started ({r}, {file}) instead of refusing the file"] else [])
      ++ (if file = "file=changed" then [Msg.propfail "decode_truncated" "torn-snapshot-replaced"
          s!"the torn notification-log snapshot (last {cut} bytes missing) was overwritten: {r} {file}"] else [])
    (σ, expectEq "starttorn" "refused:nflog" r ++ expectEq "starttorn.file" "file=same" file ++ pf ++ [.tag "starttorn"])
  | ["stop"], [r] => (σ, expectEq "stop" "ok" r)
  | _, _ => (σ, [.diff "parse" "?" (" ".intercalate op ++ " -> " ++ " ".intercalate obs)])

def engine : Engine St where
  init _ := {}
  step := step

end Driver.Reload
