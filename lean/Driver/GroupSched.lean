/-
  Engine `groupsched` (C06, concurrent part): the harness serialises the goroutines of a real
  dispatcher through the yield points of the tagged build; every op is one block of the
  micro-step model `AM.Model.GroupMap` (`begin`, `macroStep`, `flush`, `maintToYield`, `mStep`).
  The driver replays the blocks on the model (→ `DIFF`: yield point reached, `Groups()` content,
  which incarnation flushes) and evaluates the C06 invariants on the implementation's own output
  (→ `PROPFAIL`).

    case <id> threads=<n>
    begin <t> <a> <r>   -> received|busy|lost E <ev>,… G <groups>
    step <t>            -> loaded|cas|los|done|notparked E … G …
    adv                 -> ok E … G …
    fend <inc>          -> ok|notparked E … G …
    mend                -> ok|notparked E … G …
    final               -> N <ev>,… G <groups>
    ev = F<inc>:<a~r.…> | M          groups: ','-joined groups of '.'-joined alerts, '-' = none
-/
import Driver.Util
import AM.Model.GroupMap

namespace Driver.GroupSched
open Driver AM AM.AList AM.GroupMap

/-- the one group-label fingerprint of the harness (group_by [g], every alert has g=x) -/
def theFp : Nat := 7

inductive Ev where
  | flush (inc : Nat) (alerts : List (Nat × Bool))
  | maint
  deriving Repr

structure St where
  m : State := {}
  ok : Bool := true                              -- model and implementation still in step
  res : List (Nat × Bool) := []                  -- alert ↦ resolved
  thrA : List (Nat × Nat) := []                  -- thread ↦ alert it carries
  landed : List Nat := []                        -- alerts whose `groupAlert` returned (implementation)
  pend : List (Nat × Nat × List Nat) := []       -- parked flush: incarnation ↦ (model group, alerts it will delete)
  incOf : List (Nat × Nat) := []                 -- incarnation ↦ model group
  sched : List Act := []                         -- the micro-step schedule replayed so far
  mutedMk : Bool := false                            -- the group marker says "muted": a (muted) flush has entered the stage
                                                 -- since maintenance last DELETED the group's map entry

def insN (x : Nat) : List Nat → List Nat
  | [] => [x]
  | y :: ys => if x ≤ y then x :: y :: ys else y :: insN x ys
def sortN (l : List Nat) : List Nat := l.foldr insN []

def insS (s : String) : List String → List String
  | [] => [s]
  | x :: xs => if s < x then s :: x :: xs else x :: insS s xs
def sortS (l : List String) : List String := l.foldr insS []

def showGroup (l : List Nat) : String := ".".intercalate ((sortN l).map toString)
def showGroups (gs : List (List Nat)) : String := joinList "," (sortS (gs.map showGroup))

/-- the dump is `<m|u>|<groups>`: the muted flag of the group marker, then the groups -/
def groupsPart (s : String) : String := match s.splitOn "|" with | [_, g] => g | _ => s
def mutedFlag (s : String) : Option Bool := match s.splitOn "|" with | [f, _] => some (f = "m") | _ => none

def parseGroups (s : String) : List (List Nat) :=
  (splitList "," (groupsPart s)).map fun g => (g.splitOn ".").map toNat!

def parseEv (s : String) : Option Ev :=
  if s = "M" then some .maint
  else if s.startsWith "F" then
    match (s.drop 1).toString.splitOn ":" with
    | [inc, as] =>
      some (.flush (toNat! inc) ((splitList "." as).filterMap fun a =>
        match a.splitOn "~" with
        | [n, r] => some (toNat! n, r = "1")
        | _ => none))
    | _ => none
  else none

def parseEvs (s : String) : List Ev := (splitList "," s).filterMap parseEv

/-- `Groups()` hides groups without alerts -/
def modelGroups (m : State) : List (List Nat) := ((view m).map (·.2)).filter (!·.isEmpty)

def isResolved (σ : St) (a : Nat) : Bool := (σ.res.lookup a).getD false

def pointOf (m : State) (t : Nat) : String :=
  match lookup m.thrs t with
  | none => "idle"
  | some T =>
    match T.pc with
    | .load => "received"
    | .insLoaded | .create => "loaded"
    | .cas => "cas"
    | .los => "los"
    | .done => "done"
    | _ => "inside"

def runActs (σ : St) (acts : List Act) : Option St :=
  match run σ.m acts with
  | some m' => some { σ with m := m', sched := σ.sched ++ acts }
  | none => none

/-! ### spec predicates on the implementation's own output -/

/-- at every quiescent point: a firing alert whose `groupAlert` has returned is shown by `Groups()`, once;
    one group per key -/
def invChecks (σ : St) (dump : List (List Nat)) (tag : String) : List Msg :=
  let flat := dump.flatMap id
  let missing := σ.landed.filter fun a => !isResolved σ a && !flat.contains a
  let dup := flat.filter fun a => (flat.filter (· = a)).length > 1
  (if missing.isEmpty then [] else
    [Msg.propfail "no_orphan_live_group" "live-alert-unlisted"
      s!"{tag}: firing alerts {missing} were grouped (groupAlert returned) but Groups() does not show them: their group is not the one mapped for the key"]) ++
  (if dump.length ≤ 1 then [] else
    [Msg.propfail "groups_api_is_partition" "same-key-twice" s!"{tag}: Groups() shows {dump.length} groups for one group key: {showGroups dump}"]) ++
  (if dup.isEmpty then [] else
    [Msg.propfail "groups_api_is_partition" "duplicate" s!"{tag}: alerts {dup.eraseDups} listed more than once: {showGroups dump}"])

/-- a notification must come from the group `Groups()` shows: every firing alert it lists is listed there -/
def notifCheck (dump : List (List Nat)) (inc : Nat) (alerts : List (Nat × Bool)) (tag : String) : List Msg :=
  let flat := dump.flatMap id
  let orphan := (alerts.filter fun p => !p.2 && !flat.contains p.1).map (·.1)
  if orphan.isEmpty then [] else
    [Msg.propfail "no_orphan_live_group" "orphan-notifying"
      s!"{tag}: group incarnation {inc} notifies firing alerts {orphan} that Groups() does not show ({showGroups dump}): a live group outside the map"]

/-! ### events: a flush has entered the stage / maintenance has reached its yield point -/

def findFlushing (m : State) (alerts : List Nat) : Option Nat :=
  (m.grps.find? fun p => p.2.published && !p.2.destroyed && !p.2.cancelled && sortN p.2.alerts = sortN alerts).map (·.1)

def applyEv (dump : List (List Nat)) (tag : String) (acc : St × List Msg) (e : Ev) : St × List Msg :=
  let (σ, out) := acc
  match e with
  | .flush inc alerts =>
    let pf := notifCheck dump inc alerts tag
    let names := alerts.map (·.1)
    let flagDiff := (alerts.filter fun p => isResolved σ p.1 != p.2).map (·.1)
    let d0 : List Msg := if flagDiff.isEmpty then [] else [.diff "flush.resolved-flags" "as-submitted" s!"{tag} differ for {flagDiff}"]
    match findFlushing σ.m names with
    | none =>
      ({ σ with ok := false, mutedMk := true }, out ++ pf ++ d0 ++
        (if σ.ok then [Msg.diff "flush.group" "no-live-published-group-with-these-alerts" s!"{tag} F{inc}:{showGroup names}"] else []))
    | some g =>
      let known := σ.incOf.lookup inc
      let d1 : List Msg := match known with
        | some g' => if g' = g then [] else [.diff "flush.incarnation" s!"group#{g'}" s!"{tag} F{inc} now matches group#{g}"]
        | none => []
      let del := (alerts.filter (·.2)).map (·.1)
      ({ σ with mutedMk := true, pend := (inc, g, del) :: σ.pend.filter (·.1 ≠ inc), incOf := (inc, g) :: σ.incOf.filter (·.1 ≠ inc) },
        out ++ pf ++ d0 ++ d1 ++ [.tag "flush:parked"])
  | .maint =>
    match lookup σ.m.map theFp with
    | some g =>
      match runActs σ (maintToYield g) with
      | some σ' =>
        if σ'.m.mpc = .cad then (σ', out ++ [.tag "maint:parked-before-CompareAndDelete"])
        else ({ σ' with ok := false }, out ++ [.diff "maint" "mapped-group-not-destroyed" s!"{tag} parked before CompareAndDelete"])
      | none => ({ σ with ok := false }, out ++ [.diff "maint" "not-idle" s!"{tag} parked before CompareAndDelete"])
    | none => ({ σ with ok := false }, out ++ [.diff "maint" "empty-map" s!"{tag} parked before CompareAndDelete"])

/-- what every op line ends with: new events, then the `Groups()` dump -/
def tail (σ : St) (evs grp : String) (tag : String) : St × List Msg :=
  let dump := parseGroups grp
  let (σ1, out) := (parseEvs evs).foldl (applyEv dump tag) (σ, [])
  let cmp := if σ1.ok then expectEq "groups" (showGroups (modelGroups σ1.m)) (showGroups dump) else []
  let σ2 := if cmp.isEmpty then σ1 else { σ1 with ok := false }
  -- C15: a group whose (last) flush was muted is reported as muted until its map entry is collected
  let mkMsgs : List Msg := match mutedFlag grp with
    | some f => if !σ2.ok ∨ f = σ2.mutedMk then [] else
        [Msg.propfail "route_gate" (if σ2.mutedMk then "muted-marker-lost" else "stale-muted-marker")
          s!"{tag}: a muted flush of the group {if σ2.mutedMk then "has" else "has not"} happened since its map entry was last collected, the group marker reports muted={f}"]
    | none => []
  (σ2, out ++ cmp ++ mkMsgs ++ invChecks σ2 dump tag)

def stepTags (before : Option Thr) (m' : State) (t : Nat) (maintParked : Bool) : List Msg :=
  match before, lookup m'.thrs t with
  | some T, some T' =>
    let sfx := if maintParked then "+maintenance-parked" else ""
    let base : List String :=
      match T.pc, T'.pc, T'.out with
      | .load, .insLoaded, _ => ["load:found"]
      | .load, .create, _ => ["load:empty"]
      | .insLoaded, .done, _ => ["insert:landed"]
      | .insLoaded, .cas, _ => ["insert:refused-destroyed→cas"]
      | .create, .los, _ => ["create→los"]
      | .cas, .done, _ => ["cas:swapped" ++ sfx]
      | .cas, .los, _ => ["cas:lost-race→los" ++ sfx]
      | .los, .done, .created => ["los:stored" ++ sfx]
      | .los, .done, .inserted => ["los:loaded-live→inserted" ++ sfx]
      | .los, .cas, _ => ["los:loaded-destroyed→cas" ++ sfx]
      | _, _, _ => []
    base.map Msg.tag
  | _, _ => []

def step (σ : St) (op obs : List String) : St × List Msg :=
  match op, obs with
  | ["begin", t, a, r], [res, "E", evs, "G", grp] =>
    let tN := toNat! t; let aN := toNat! a
    let tag := s!"begin {t} {a}"
    if res = "received" then
      let σ0 := { σ with res := (aN, r = "1") :: σ.res, thrA := (tN, aN) :: σ.thrA.filter (·.1 ≠ tN) }
      match runActs σ0 [.begin tN aN theFp] with
      | some σ1 => let (σ2, out) := tail σ1 evs grp tag; (σ2, out)
      | none => let (σ2, out) := tail { σ0 with ok := false } evs grp tag; (σ2, [.diff "begin" "thread-busy" "received"] ++ out)
    else
      let d := match GroupMap.step σ.m (.begin tN aN theFp) with
        | some _ => if σ.ok then [Msg.diff "begin" "received" res] else []
        | none => []
      let (σ2, out) := tail σ evs grp tag
      (σ2, d ++ out)
  | ["step", t], [res, "E", evs, "G", grp] =>
    let tN := toNat! t
    let tag := s!"step {t}"
    let a := σ.thrA.lookup tN
    -- insert_lands on the implementation: the thread has returned ⇒ its alert is in the group Groups() shows
    let dump := parseGroups grp
    let landedNow : Bool := res == "done"
    let σl := match a with
      | some a => if landedNow then { σ with landed := a :: σ.landed.filter (· ≠ a) } else σ
      | none => σ
    let pfLand : List Msg := match a with
      | some a =>
        if !landedNow || (dump.flatMap id).contains a then [] else
          [.propfail "insert_lands" "not-in-mapped-group" s!"{tag}: groupAlert returned for alert {a} but Groups() shows {showGroups dump}"]
      | none => []
    match macroStep σl.m tN with
    | none =>
      let d := if res = "notparked" ∨ !σ.ok then [] else [Msg.diff "step" "notparked" res]
      let (σ2, out) := tail (if d.isEmpty then σl else { σl with ok := false }) evs grp tag
      (σ2, d ++ pfLand ++ out)
    | some (m', acts) =>
      let before := lookup σl.m.thrs tN
      let pt := pointOf m' tN
      let d := if !σ.ok then [] else expectEq "step.point" pt res
      let σ1 := { σl with m := m', sched := σl.sched ++ acts, ok := σl.ok && d.isEmpty }
      let (σ2, out) := tail σ1 evs grp tag
      (σ2, d ++ pfLand ++ out ++ stepTags before m' tN (σl.m.mpc = .cad))
  | ["adv"], [_, "E", evs, "G", grp] =>
    let (σ2, out) := tail σ evs grp "adv"
    (σ2, out)
  | ["fend", inc], [res, "E", evs, "G", grp] =>
    let i := toNat! inc
    let tag := s!"fend {inc}"
    match σ.pend.find? (·.1 = i) with
    | none =>
      let d := if res = "notparked" ∨ !σ.ok then [] else [Msg.diff "fend" "notparked" res]
      let (σ2, out) := tail σ evs grp tag
      (σ2, d ++ out)
    | some (_, g, del) =>
      if res ≠ "ok" then
        let (σ2, out) := tail { σ with ok := false } evs grp tag
        (σ2, (if σ.ok then [Msg.diff "fend" "ok" res] else []) ++ out)
      else
        let before := (lookup σ.m.grps g).map (·.alerts.length)
        let σ0 := { σ with pend := σ.pend.filter (·.1 ≠ i) }
        match runActs σ0 [.flush g del] with
        | none => let (σ2, out) := tail { σ0 with ok := false } evs grp tag; (σ2, [.diff "fend" "flush-not-enabled" res] ++ out)
        | some σ1 =>
          let G' := lookup σ1.m.grps g
          let tg : List Msg :=
            match G' with
            | some G' =>
              if G'.destroyed then [.tag "flush:emptied-and-destroyed"]
              else if before.getD 0 > del.length ∧ !del.isEmpty ∧ G'.alerts.any (fun a => !isResolved σ a) then [.tag "flush:deleted-resolved-group-survives"]
              else [.tag "flush:nothing-deleted"]
            | none => []
          let (σ2, out) := tail σ1 evs grp tag
          (σ2, out ++ tg)
  | ["mend"], [res, "E", evs, "G", grp] =>
    let tag := "mend"
    if σ.m.mpc = .cad then
      if res ≠ "ok" then
        let (σ2, out) := tail { σ with ok := false } evs grp tag
        (σ2, (if σ.ok then [Msg.diff "mend" "ok" res] else []) ++ out)
      else
        let mapped := lookup σ.m.map theFp
        match runActs σ [.mStep] with
        | none => let (σ2, out) := tail { σ with ok := false } evs grp tag; (σ2, [.diff "mend" "not-enabled" res] ++ out)
        | some σ1 =>
          let σ1 := if mapped = some σ.m.mg then { σ1 with mutedMk := false } else σ1   -- DeleteByGroupKey only after a successful delete
          let tg := if mapped = some σ.m.mg then [Msg.tag "maint:CompareAndDelete-deleted"]
                    else if mapped.isSome then [Msg.tag "maint:CompareAndDelete-refused(slot-holds-recreated-group)"]
                    else [Msg.tag "maint:CompareAndDelete-refused(slot-empty)"]
          let (σ2, out) := tail σ1 evs grp tag
          (σ2, out ++ tg)
    else
      let d := if res = "notparked" ∨ !σ.ok then [] else [Msg.diff "mend" "notparked" res]
      let (σ2, out) := tail σ evs grp tag
      (σ2, d ++ out)
  | ["final"], ["N", ns, "G", grp] =>
    let dump := parseGroups grp
    let evs := parseEvs ns
    -- model: every live group flushes (its resolved alerts go), emptied groups are destroyed and collected
    let liveGs := σ.m.grps.filter fun p => p.2.published && !p.2.destroyed
    let σ1 := liveGs.foldl (fun (σ : St) p =>
      match runActs σ [.flush p.1 (p.2.alerts.filter (isResolved σ))] with | some σ' => σ' | none => σ) σ
    let σ2 := match lookup σ1.m.map theFp with
      | some g =>
        match lookup σ1.m.grps g with
        | some G => if G.destroyed ∧ σ1.m.mpc = .idle then
            (match runActs σ1 (maintToYield g ++ [.mStep]) with | some σ' => σ' | none => σ1) else σ1
        | none => σ1
      | none => σ1
    let cmp := if σ2.ok then expectEq "final.groups" (showGroups (modelGroups σ2.m)) (showGroups dump) else []
    let flushes := evs.filterMap fun e => match e with | .flush i as => some (i, as) | .maint => none
    -- the incarnation that flushes in the last round is the one the model has mapped
    let cmpInc : List Msg := if !σ2.ok then [] else
      flushes.flatMap fun (i, _) =>
        match σ2.incOf.lookup i, lookup σ2.m.map theFp with
        | some g, some mg => if g = mg then [] else [.diff "final.incarnation" s!"group#{mg}" s!"F{i}=group#{g}"]
        | _, _ => []
    let incs := (flushes.map (·.1)).eraseDups
    let split : List Msg := if incs.length ≤ 1 then [] else
      [.propfail "no_orphan_live_group" "split-group"
        s!"final: {incs.length} live groups with the same group key notify in one group_interval: {flushes.map fun (p : Nat × List (Nat × Bool)) => s!"F{p.1}:{showGroup (p.2.map (·.1))}"}"]
    let notified := flushes.flatMap fun (_, as) => as.map (·.1)
    let silent := σ2.landed.filter fun a => !isResolved σ2 a && !notified.contains a
    let never : List Msg := if silent.isEmpty then [] else
      [.propfail "insert_lands" "never-notified"
        s!"final: firing alerts {silent} were grouped (groupAlert returned) but no live group notifies them within a group_interval"]
    let orph := flushes.flatMap fun (i, as) => notifCheck dump i as "final"
    let firing := σ2.landed.filter fun a => !isResolved σ2 a
    (σ2, cmp ++ cmpInc ++ split ++ never ++ orph ++ invChecks σ2 dump "final" ++
      [.tag "final:checked"] ++ (if firing.length ≥ 2 then [.tag "final:several-firing-alerts-one-group"] else []))
  | _, "error" :: _ => (σ, [.diff "op" "ok" "error"])
  | _, _ => (σ, [.diff "parse" "?" (" ".intercalate op)])

def engine : Engine St where
  init _ := {}
  step := step

end Driver.GroupSched
