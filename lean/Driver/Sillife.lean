/-
  Engine `sillife` (C12): one real `silence.Silences` driven through the
  api/v2 HTTP handlers and directly; replayed on `AM.Silence`, with the C12
  spec predicates evaluated on the implementation's own dumps (see
  Driver/SilenceUtil.lean `checkSetSpec`, the `expire`/`gc`/`get` branches and
  `checkDead`).

    case <id> retention=<ns> maxsil=<n> maxsize=<bytes>
    <common op> 0 …
-/
import Driver.SilenceUtil

namespace Driver.Sillife
open Driver Driver.Sil AM AM.Silence

structure St where
  cfg : Cfg := {}
  inst : Inst := {}

def step (σ : St) (op obs : List String) : St × List Msg :=
  match op with
  | o :: _i :: rest =>
    match stepSil σ.cfg σ.inst (o :: rest) obs with
    | some (x, msgs) => ({ σ with inst := x }, msgs)
    | none => (σ, [.diff "parse" "?" (" ".intercalate op)])
  | _ => (σ, [.diff "parse" "?" (" ".intercalate op)])

def engine : Engine St where
  init hdr := { cfg := { retention := kvInt hdr "retention" 0, maxSil := kvNat hdr "maxsil" 0, fix := true, merges := false } }
  step := step

end Driver.Sillife
