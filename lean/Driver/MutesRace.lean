/-
  Engine `mutesrace` (C02): a real writer goroutine racing one real Mutes call.
    race <k>  -> <during> <after> <active: id=name=value,…> <alert: name=value>
    quiet <k> -> <after> <active> <alert>
    snaprace <k> <n> -> <seam|timed> <pre> <post> <loaded>   (Snapshot racing an incompatible edit; the snapshot loaded into a fresh store)
  `after` is the answer of the call made when both goroutines have returned: by
  AM.Silence.mutesI_next_call_exact it is the brute-force verdict over the store as dumped
  (equality matchers only; evaluated here).  `during` may be either answer when the racing
  silence is the only active one (mutes_interleaved_bracket).
-/
import Driver.Util

namespace Driver.MutesRace
open Driver

structure St where
  unit : Unit := ()

def bruteForce (active alert : String) : Bool :=
  if active = "-" ∨ active = "" then false else
  (active.splitOn ",").any fun t =>
    match t.splitOn "=", alert.splitOn "=" with
    | [_, n, v], [an, av] => n = an ∧ v = av
    | _, _ => false

def verdict (thm : String) (after active alert : String) : List Msg :=
  let bf := bruteForce active alert
  if (after = "1") = bf then []
  else if bf then
    [.propfail thm "concurrent-set-lost" s!"an active silence matches {alert} ({active}) and no operation is in flight, yet Mutes answers false: the silence created while a Mutes call was querying is never applied"]
  else [.propfail thm "verdict" s!"Mutes answers true for {alert} although no active silence matches (active: {active})"]

def step (σ : St) (op obs : List String) : St × List Msg :=
  match op, obs with
  | ["race", _], [during, after, active, alert] =>
    let bf := bruteForce active alert
    (σ, verdict "mutesI_next_call_exact" after active alert
        ++ (if during = "1" ∧ ¬ bf then [Msg.propfail "mutes_interleaved_bracket" "verdict" s!"raced call answers true, nothing active matches {alert}"] else [])
        ++ [.tag (if during = "1" then "race:set-seen-by-raced-call" else "race:set-behind-raced-call")])
  | ["limitrace", _], [mx, stored, okN, errN] =>
    -- AM.SilLimits.count_le_max over any interleaving of whole Set calls: m-1 stored + three creates => exactly one fits
    (σ, (if toNat! stored ≤ toNat! mx then [] else [Msg.propfail "count_le_max" "concurrent-creates-exceed-limit"
            s!"{stored} silences stored with max_silences={mx}: {okN} of three concurrent creates were accepted with one slot left"])
        ++ (if toNat! okN + toNat! errN = 3 ∧ (toNat! okN = 1 ∨ toNat! stored > toNat! mx) then [] else
             [.diff "limitrace.accepted" "1 accepted, 2 refused" s!"{okN} accepted, {errN} refused"])
        ++ [.tag "limitrace"])
  | ["mergerace", _, _], [final, s0, bu, eu] =>
    -- three versions of the raced id: stored (update time s0), the batch's edit (bu > s0), the API expiry (eu > bu):
    -- AM.Silence.newest_wins / merge_monotone — the id holds the expiry whatever the interleaving
    let ok : Bool := match final.splitOn "," with
      | [_, st] => st == "expired"
      | _ => false
    (σ, (if toInt! s0 < toInt! bu ∧ toInt! bu < toInt! eu then [] else [.diff "mergerace.order" "stored < batch < expiry" s!"{s0} {bu} {eu}"])
        ++ (if ok then [] else [Msg.propfail "merge_monotone" "merge-overwrites-concurrent-newer"
              s!"the id holds {final} (update time relative to the stored version) after a Merge of an older edit (+{bu}) raced an API expiry (+{eu}): the merged older version replaced the newer one"])
        ++ [.tag "mergerace"])
  | ["snaprace", _, _], [mode, pre, post, loaded] =>
    -- AM.CrashFS.snapshot_loads_one_state: the snapshot holds the store as it was before the racing edit or after it.
    -- digests: <raced silence>,<its replacement>,<active>,<stored>
    let mixed := loaded ≠ pre ∧ loaded ≠ post
    let shape : List Msg := match pre.splitOn ",", post.splitOn "," with
      | [po, pn, _, _], [qo, qn, _, _] =>
        if po = "active" ∧ pn = "missing" ∧ qo = "expired" ∧ qn = "active" then []
        else [.diff "snaprace.edit" "active,missing -> expired,active" s!"{pre} -> {post}"]
      | _, _ => [.diff "parse" "?" "snaprace"]
    (σ, (if mixed then [Msg.propfail "snapshot_loads_one_state" "snapshot-mixed-state"
              s!"a snapshot taken while a silence was edited ({mode}) loads as {loaded} (raced silence, replacement, active, stored): neither the store before the edit ({pre}) nor after it ({post})"]
         else [])
        ++ shape ++ [.tag (if loaded = pre then "snaprace:before-edit" else if loaded = post then "snaprace:after-edit" else "snaprace:mixed")])
  | ["twomutes", _], [first, second, both, after, active, alert] =>
    -- two overlapping calls for one alert, a matching silence created between them, the older silence expired afterwards:
    -- an active silence matched the alert at every instant, so all four answers are "muted" (mutes_interleaved_bracket for
    -- the overlapping ones, mutesI_next_call_exact for the settled ones); the last one is also checked against the dump
    (σ, (if first = "1" ∧ second = "1" then [] else
          [Msg.propfail "mutes_interleaved_bracket" "verdict" s!"overlapping Mutes calls for {alert} answer {first} / {second} although an active silence matched it throughout"])
        ++ (if both = "1" then [] else
          [Msg.propfail "mutesI_next_call_exact" "concurrent-set-lost" s!"after two overlapping Mutes calls returned, Mutes answers false for {alert} although two active silences match it"])
        ++ verdict "mutesI_next_call_exact" after active alert
        ++ [.tag "twomutes"])
  | ["quiet", _], [after, active, alert] =>
    (σ, verdict "mutes_eq_bruteforce" after active alert ++ [.tag "quiet"])
  | _, _ => (σ, [.diff "parse" "?" (" ".intercalate op)])

def engine : Engine St where
  init _ := {}
  step := step

end Driver.MutesRace
