/-
  Engine `nflog` (C10): replays the harness trace on `AM.Nflog` and evaluates
  the C10 spec predicates on the implementation's own dumps.

  Entry token:  key,ts,exp,firing,resolved,data   (lists '.'-joined, '-' empty)
  Lines:
    case <id> retention=<ns>
    log <now> <key> <firing> <resolved> <data> <expiry>  -> <bcast entry|none> <dump>
    merge <now> <oversized> <e1;e2;…>                    -> <nbcast> <dump>
    gc <now>                                              -> <n> <dump>
    query <now> <key>                                     -> <entry-without-exp|notfound>
    reload                                                -> <dump>
  dump = entries sorted by key joined with ';' ('-' when empty)
-/
import Driver.Util
import AM.Model.Nflog

namespace Driver.Nflog
open Driver AM AM.AList AM.Nflog

def parseEntry (s : String) : Option Entry :=
  match s.splitOn "," with
  | [k, ts, exp, f, r, d] => some { key := k, ts := toInt! ts, exp := toInt! exp, firing := natList f, resolved := natList r, data := d }
  | _ => none

def showEntry (e : Entry) : String :=
  s!"{e.key},{e.ts},{e.exp},{showNatList e.firing},{showNatList e.resolved},{e.data}"

def parseEntries (s : String) : List Entry := (splitList ";" s).filterMap parseEntry

def insertSorted (e : Entry) : List Entry → List Entry
  | [] => [e]
  | x :: xs => if e.key < x.key then e :: x :: xs else x :: insertSorted e xs

def dump (s : State) : String :=
  joinList ";" ((s.foldl (fun acc kv => insertSorted kv.2 acc) []).map showEntry)

structure Inst where
  st : State := []
  implPrev : List Entry := []     -- implementation's previous dump

structure St where
  retention : Int := 0
  conv : Bool := false
  maint : Int := 0          -- period of the real Maintenance loop (0 = none): GC + snapshot at every tick
  baseA : Int := 0          -- start of instance 0's ticker
  baseB : Int := 0
  lastT : Int := 0
  a : Inst := {}
  b : Inst := {}

def St.get (σ : St) (i : String) : Inst := if i = "0" then σ.a else σ.b
def St.set (σ : St) (i : String) (x : Inst) : St := if i = "0" then { σ with a := x } else { σ with b := x }

def find (l : List Entry) (k : String) : Option Entry := l.find? (·.key = k)

/-- C10 `merge_monotone` on the implementation's consecutive dumps (GC excepted). -/
def checkMonotone (prev cur : List Entry) : List Msg :=
  prev.filterMap fun p =>
    match find cur p.key with
    | some q => if q.ts < p.ts then some (.propfail "merge_monotone" "backwards" s!"key={p.key} {p.ts}->{q.ts}") else none
    | none => some (.propfail "merge_monotone" "lost" s!"key={p.key} vanished without GC")

def stepI (retention : Int) (σ : Inst) (op obs : List String) : Inst × List Msg :=
  match op, obs with
  | ["log", now, key, f, r, d, expiry], [bc, dmp] =>
    let now := toInt! now
    let (st', out) := log now retention σ.st key (natList f) (natList r) d (toInt! expiry)
    let mb := match out with | .skipped => "none" | .broadcast e => showEntry e
    let cur := parseEntries dmp
    let tags : List Msg :=
      (match lookup σ.st key with
       | some p => if p.ts > now then [.tag "log:skipped-future"] else if p.ts = now then [.tag "log:equal-ts"] else [.tag "log:overwrite"]
       | none => [.tag "log:new"])
    let pf := checkMonotone σ.implPrev cur
      ++ (match find cur key with
          | some q => if q.ts < now then [.propfail "log_spec" "log-not-newest" s!"key={key} stored ts {q.ts} < now {now}"] else []
          | none => [.propfail "log_spec" "log-lost" s!"key={key} absent after Log"])
    ({ σ with st := st', implPrev := cur }, expectEq "log.bcast" mb bc ++ expectEq "log.dump" (dump st') dmp ++ pf ++ tags)
  | ["logbad", _now, key], [res, dmp] =>
    -- a Log call whose entry cannot be encoded returns an error and leaves the log as it was (log_spec: the log holds
    -- what was logged or received, nothing else)
    let cur := parseEntries dmp
    let pf : List Msg :=
      -- (Log answers nil without encoding anything when the key holds an entry from the future: nothing to check then)
      (if res == "error" || (match lookup σ.st key with | some p => decide (p.ts > toInt! _now) | none => false) then [] else
         [Msg.propfail "log_spec" "unencodable-entry-accepted" s!"key={key}: Log of an entry that cannot be serialised returned no error"])
      ++ (if dmp = dump σ.st then [] else [Msg.propfail "log_spec" "failed-log-changed-state"
            s!"key={key}: Log failed, yet the log is no longer what it was: {if dmp = "unmarshalable" then "it cannot be serialised any more (no snapshot, no full-state exchange)" else dmp}"])
    ({ σ with implPrev := if dmp = "unmarshalable" then σ.implPrev else cur }, pf ++ [.tag "log:unencodable"])
  | ["merge", now, ov, batch], [nb, dmp] =>
    let now := toInt! now
    let b := parseEntries batch
    let (st', n) := mergeBatch now (ov = "1") σ.st b
    let cur := parseEntries dmp
    let dec := decodeBatch b
    let tags : List Msg := dec.foldl (fun acc kv =>
        let e := kv.2
        (if e.exp < now then Msg.tag "merge:expired"
         else match lookup σ.st e.key with
          | none => Msg.tag "merge:new"
          | some p => if p.ts < e.ts then Msg.tag "merge:newer" else if p.ts = e.ts then Msg.tag "merge:tie" else Msg.tag "merge:older") :: acc) []
    let pf := checkMonotone σ.implPrev cur
      ++ dec.foldl (fun acc kv =>
          let e := kv.2
          let before := find σ.implPrev e.key
          let after := find cur e.key
          -- expired entries never accepted
          (if e.exp < now ∧ after = some e ∧ before ≠ some e then
             [Msg.propfail "merge_refuses_expired" "accepted-expired" s!"key={e.key} exp={e.exp} now={now}"] else [])
          -- newest wins: unexpired offered entry ⇒ stored ts ≥ offered ts
          ++ (if e.exp ≥ now then
               match after with
               | some q => if q.ts < e.ts then [Msg.propfail "fold_merge_perm" "newer-rejected" s!"key={e.key} stored={q.ts} offered={e.ts}"] else []
               | none => [Msg.propfail "fold_merge_perm" "newer-rejected" s!"key={e.key} absent after merge"]
              else [])
          ++ acc) []
    ({ σ with st := st', implPrev := cur }, expectEq "merge.nbcast" (toString n) nb ++ expectEq "merge.dump" (dump st') dmp ++ pf ++ tags)
  | ["gc", now], [n, dmp] =>
    let now := toInt! now
    let (st', k) := gc now σ.st
    let cur := parseEntries dmp
    let pf := σ.implPrev.foldl (fun acc p =>
        (match find cur p.key with
         | some q => if p.exp ≤ now then [Msg.propfail "gc_drops_expired" "gc-kept-expired" s!"key={p.key}"] else
                      if q ≠ p then [Msg.propfail "gc_keeps_unexpired" "gc-changed" s!"key={p.key}"] else []
         | none => if p.exp > now then [Msg.propfail "gc_keeps_unexpired" "gc-dropped-live" s!"key={p.key} exp={p.exp} now={now}"] else []) ++ acc) []
    let tags : List Msg := if k > 0 then [.tag "gc:removed"] else []
    ({ σ with st := st', implPrev := cur }, expectEq "gc.n" (toString k) n ++ expectEq "gc.dump" (dump st') dmp ++ pf ++ tags)
  | ["query", _now, key], [res] =>
    let m := match query σ.st key with
      | none => "notfound"
      | some e => s!"{e.key},{e.ts},{showNatList e.firing},{showNatList e.resolved},{e.data}"
    let spec := match find σ.implPrev key with
      | none => "notfound"
      | some e => s!"{e.key},{e.ts},{showNatList e.firing},{showNatList e.resolved},{e.data}"
    let pf := if spec = res then [] else [Msg.propfail "query_spec" "query-mismatch" s!"key={key} query={res} dump={spec}"]
    (σ, expectEq "query" m res ++ pf ++ (if m = "notfound" then [] else [.tag "query:found"]))
  | ["storemut", _now, key, _val], [res, dmp] =>
    -- editing a Store derived from a queried entry records nothing: the log is unchanged
    let cur := parseEntries dmp
    let pf := if cur = σ.implPrev then [] else
      [Msg.propfail "data_preserved" "aliased" s!"key={key} log changed by editing a derived Store: before={joinList ";" (σ.implPrev.map showEntry)} after={dmp}"]
    ({ σ with implPrev := cur }, expectEq "storemut.dump" (dump σ.st) dmp ++ pf ++ (if res = "edited" then [.tag "storemut:edited"] else []))
  | ["reload"], [dmp] =>
    let st' := reload σ.st
    let cur := parseEntries dmp
    let pf := if cur = σ.implPrev then [] else [Msg.propfail "reload_lossless" "reload-changed" s!"before={joinList ";" (σ.implPrev.map showEntry)} after={dmp}"]
    ({ σ with st := st', implPrev := cur }, expectEq "reload.dump" (dump st') dmp ++ pf)
  | ["reload", now], [dmp] =>
    -- restart through the maintenance loop: shutdown snapshot (GC at `now` first), then load the file
    let now := toInt! now
    let st' := reload (gc now σ.st).1
    let cur := parseEntries dmp
    let want := σ.implPrev.filter fun e => e.exp > now
    let pf := if cur = want then [] else [Msg.propfail "reload_lossless" "reload-changed" s!"before={joinList ";" (want.map showEntry)} after={dmp}"]
    ({ σ with st := st', implPrev := cur }, expectEq "reload.dump" (dump st') dmp ++ pf ++ [.tag "reload:via-maintenance"])
  | _, _ => (σ, [.diff "parse" "?" (" ".intercalate op)])

/-- GC of the maintenance ticks of one instance in (last, t]. -/
def applyTicks (maint base last t : Int) (x : Inst) : Inst :=
  if maint ≤ 0 then x else
  let k0 := (last - base) / maint
  let k1 := (t - base) / maint
  -- ticks k0+1 … k1 (ticks strictly after `last`; the harness never places an op on a tick instant)
  (List.range (k1 - k0).toNat).foldl (fun (x : Inst) (j : Nat) =>
    let tick := base + (k0 + 1 + (j : Int)) * maint
    if tick > base then
      { st := (gc tick x.st).1, implPrev := x.implPrev.filter fun e => e.exp > tick }
    else x) x

def opTime (op : List String) : Option Int :=
  match op with
  | _ :: _ :: t :: _ => t.toInt?
  | _ => none

def step (σ0 : St) (op obs : List String) : St × List Msg :=
  let σ := match opTime op with
    | some t => if t > σ0.lastT then
        { σ0 with a := applyTicks σ0.maint σ0.baseA σ0.lastT t σ0.a, b := applyTicks σ0.maint σ0.baseB σ0.lastT t σ0.b, lastT := t } else σ0
    | none => σ0
  match op, obs with
  | ["converge"], [da, db] =>
    -- C10 convergence, evaluated on the implementation's dumps (header conv=1:
    -- distinct timestamps per key, nothing expires during the case)
    if da = db then (σ, [.tag "converge:checked"] ++ expectEq "converge.a" (dump σ.a.st) da ++ expectEq "converge.b" (dump σ.b.st) db)
    else (σ, [.propfail "fold_merge_perm" "diverged" s!"a={da} b={db}"])
  | ["reload", i, now], _ =>
    -- without a maintenance loop the restart is Snapshot() + load, with no GC
    let (x, msgs) := stepI σ.retention (σ.get i) (if σ.maint > 0 then ["reload", now] else ["reload"]) obs
    let σ' := σ.set i x
    (if i = "0" then { σ' with baseA := toInt! now } else { σ' with baseB := toInt! now }, msgs)
  | o :: i :: rest, _ =>
    let (x, msgs) := stepI σ.retention (σ.get i) (o :: rest) obs
    (σ.set i x, msgs)
  | _, _ => (σ, [.diff "parse" "?" (" ".intercalate op)])

def engine : Engine St where
  init hdr := { retention := kvInt hdr "retention" 0, conv := kv hdr "conv" = some "1", maint := kvInt hdr "maint" 0 }
  step := step

end Driver.Nflog
