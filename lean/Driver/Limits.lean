/-
  Engine `limits` (C18): replays the harness trace of real `store.Alerts`
  (per-alert limit) / `mem.Alerts` on `AM.Bucket` and evaluates the C18 spec
  predicates on the implementation's own answers.

  Lines:
    case <id> cap=<n> layer=store|mem gcint=<ns>
    set <now> <name> <id> <ends>   -> ok|limited <dump>
    gc <now>                        -> <dump>
    mput <now> <name> <id> <ends>  -> stored|dropped <effEnds|-> <limitedCounterDelta> <dump>
    wait <now>                      -> <dump>          (mem layer: GC ticks at multiples of gcint)
  dump = `name:id:ends` of everything the store lists, sorted by (name,id), ';'-joined.

  Three models run side by side for every alert name:
    * `HSys` (array level, repaired `IsStale`)   — the prediction;
    * `HSys` with `old := true` (pinned `IsStale`) — only to *classify* a failure as F4;
    * `Sys`  (abstract; root taken from the array) — refinement glue: same verdicts, same content.
-/
import Driver.Util
import AM.Model.Bucket

namespace Driver.Limits
open Driver AM AM.AList AM.Bucket

abbrev Row := String × Nat × Int

def rowLt (a b : Row) : Bool := a.1 < b.1 ∨ (a.1 = b.1 ∧ a.2.1 < b.2.1)
def insertRow (r : Row) : List Row → List Row
  | [] => [r]
  | x :: xs => if rowLt r x then r :: x :: xs else x :: insertRow r xs
def sortRows (l : List Row) : List Row := l.foldl (fun acc r => insertRow r acc) []
def showRows (l : List Row) : String := joinList ";" ((sortRows l).map fun r => s!"{r.1}:{r.2.1}:{r.2.2}")

def parseRows (s : String) : List Row :=
  (splitList ";" s).filterMap fun e =>
    match e.splitOn ":" with
    | [n, i, x] => some (n, toNat! i, toInt! x)
    | _ => none

def sortItems (m : Items) : List (Nat × Int) :=
  m.foldl (fun acc kv =>
    let rec ins : List (Nat × Int) → List (Nat × Int)
      | [] => [kv]
      | x :: xs => if kv.1 < x.1 then kv :: x :: xs else x :: ins xs
    ins acc) []

structure St where
  cap : Nat := 0
  gcint : Int := 0
  last : Int := 0
  sys : AList String HSys := []
  old : AList String HSys := []
  abs : AList String Sys := []
  iadm : AList String Items := []      -- ghost built from the implementation's own verdicts
  prevDump : String := "-"

def getH (m : AList String HSys) (cap : Nat) (old : Bool) (n : String) : HSys :=
  (lookup m n).getD { cap := cap, old := old }
def getA (m : AList String Sys) (cap : Nat) (n : String) : Sys := (lookup m n).getD { cap := cap }
def getI (m : AList String Items) (n : String) : Items := (lookup m n).getD []

def modelDump (σ : St) : String :=
  showRows (σ.sys.foldl (fun acc kv => acc ++ kv.2.alerts.map (fun a => (kv.1, a.1, a.2))) [])

def gcAll (σ : St) (now : Int) : St :=
  { σ with sys := σ.sys.map (fun kv => (kv.1, kv.2.gc now)),
           old := σ.old.map (fun kv => (kv.1, kv.2.gc now)),
           abs := σ.abs.map (fun kv => (kv.1, kv.2.gc now)) }

/-- GC ticks of the mem layer in (from, to] -/
def ticks (gcint from_ to : Int) : List Int :=
  if gcint ≤ 0 then [] else
  let first := (from_ / gcint + 1) * gcint
  let n := if to < first then 0 else ((to - first) / gcint + 1).toNat
  (List.range n).map fun (i : Nat) => first + gcint * (i : Int)

def advance (σ : St) (now : Int) : St × List Msg :=
  let ts := ticks σ.gcint σ.last now
  let σ' := ts.foldl gcAll σ
  ({ σ' with last := now }, if ts.isEmpty then [] else [.tag "mem:gc-tick"])

/-- one admission attempt: model verdicts + spec predicates on the implementation's verdict -/
def doSet (σ : St) (now : Int) (name : String) (id : Nat) (ends : Int) (implOk : Bool) : St × Bool × List Msg :=
  let h := getH σ.sys σ.cap false name
  let ho := getH σ.old σ.cap true name
  let a := getA σ.abs σ.cap name
  let root := hroot h.heap
  let known := (hfind h.heap id 0).isSome
  let full := h.heap.length ≥ σ.cap
  let (h', ok) := h.set now id ends
  let (ho', okOld) := ho.set now id ends
  let (a', okAbs) := a.set now root id ends
  -- refinement glue (array level vs abstract)
  let glue : List Msg :=
    (if ok ≠ okAbs then [Msg.diff "refine.verdict" (toString okAbs) (toString ok)] else [])
    ++ (if sortItems a'.bucket ≠ sortItems h'.heap then [Msg.diff "refine.content" (toString (sortItems a'.bucket)) (toString (sortItems h'.heap))] else [])
    ++ (if hrootIsMin h'.heap then [] else [Msg.diff "heap-contract" "root-is-min" (toString h'.heap)])
  -- ghost from the implementation's verdicts
  let ia := getI σ.iadm name
  let ia' := if implOk then put ia id ends else ia
  let f4 := okOld = implOk ∧ ok ≠ implOk        -- the pinned discipline explains the verdict
  let pf : List Msg :=
    (if implOk ∧ σ.cap > 0 ∧ unexp ia' now > σ.cap then
       [Msg.propfail "unexpired_le_cap" (if f4 then "stale-drop" else "over-cap")
          s!"name={name} cap={σ.cap} unexpired-admitted={unexp ia' now} at={now} admitted={sortItems ia'}"] else [])
    ++ (if !implOk then
          match lookup ia id with
          | some e => if now ≤ e then
              [Msg.propfail "resend_always_ok" (if f4 then "stale-drop" else "resend-refused")
                 s!"name={name} id={id} admitted-until={e} refused at={now}"] else []
          | none => []
        else [])
    ++ (if !implOk ∧ unexp ia now < σ.cap ∧ σ.cap > 0 then
          [Msg.propfail "reject_only_when_full_unexpired" "spurious-reject"
             s!"name={name} id={id} cap={σ.cap} unexpired-admitted={unexp ia now} at={now}"] else [])
  let tags : List Msg :=
    (if σ.cap = 0 then [.tag "set:unlimited"]
     else if known then [.tag "set:resend"]
     else if !full then [.tag "set:room"]
     else if ok then [.tag "set:evict-expired"] else [.tag "set:refused"])
    ++ (if known ∧ ends < now then [.tag "set:resend-expired"] else [])
    ++ (if ends = now then [.tag "set:ends-eq-now"] else [])
  ({ σ with sys := put σ.sys name h', old := put σ.old name ho', abs := put σ.abs name a',
            iadm := put σ.iadm name ia' }, ok, glue ++ pf ++ tags)

def verdict (b : Bool) : String := if b then "ok" else "limited"

def step (σ : St) (op obs : List String) : St × List Msg :=
  match op, obs with
  | ["set", now, name, id, ends], [res, dmp] =>
    let now := toInt! now
    let implOk := res = "ok"
    let (σ', ok, msgs) := doSet σ now name (toNat! id) (toInt! ends) implOk
    let pf := if !implOk ∧ dmp ≠ σ.prevDump then
      [Msg.propfail "refused_changes_nothing" "reject-mutated" s!"before={σ.prevDump} after={dmp}"] else []
    ({ σ' with prevDump := dmp, last := now },
      expectEq "set.verdict" (verdict ok) res ++ expectEq "set.dump" (modelDump σ') dmp ++ msgs ++ pf)
  | ["gc", now], [dmp] =>
    let now := toInt! now
    let dropped := σ.sys.any (fun kv => !kv.2.heap.isEmpty ∧ hstaleNew kv.2.heap now)
    let oldOnly := σ.sys.any (fun kv => !hstaleNew kv.2.heap now ∧ hstaleOld kv.2.heap now)
    let σ' := gcAll σ now
    ({ σ' with prevDump := dmp, last := now },
      expectEq "gc.dump" (modelDump σ') dmp ++ (if dropped then [.tag "gc:bucket-dropped"] else [])
        ++ (if oldOnly then [.tag "gc:last-slot-expired-but-live-item"] else []))
  | ["mput", now, name, id, ends], [res, eff, delta, dmp] =>
    let now := toInt! now
    let (σ1, m1) := advance σ now
    let stored := res = "stored"
    let e := if stored then toInt! eff else toInt! ends
    let (σ', ok, msgs) := doSet σ1 now name (toNat! id) e stored
    let d := toNat! delta
    let pf :=
      (if !stored ∧ d = 0 then [Msg.propfail "every_refusal_reported" "silent-drop" s!"name={name} id={id} at={now}: not stored, alerts_limited_total unchanged"] else [])
      ++ (if stored ∧ d ≠ 0 then [Msg.propfail "every_refusal_reported" "phantom-count" s!"name={name} id={id} at={now}: stored, counter +{d}"] else [])
      ++ (if d > 1 then [Msg.propfail "every_refusal_reported" "double-count" s!"counter +{d}"] else [])
      ++ (if !stored ∧ m1.isEmpty ∧ dmp ≠ σ.prevDump then
            [Msg.propfail "refused_changes_nothing" "reject-mutated" s!"before={σ.prevDump} after={dmp}"] else [])
    ({ σ' with prevDump := dmp },
      expectEq "mput.verdict" (if ok then "stored" else "dropped") res ++ expectEq "mput.dump" (modelDump σ') dmp
        ++ m1 ++ msgs ++ pf ++ [.tag "mem:put"])
  | ["mputb", now, name, items], [ress, delta, dmp] =>
    -- one Put with several alerts of the name: the same per-alert rule, in batch order
    let now := toInt! now
    let (σ1, m1) := advance σ now
    let its := (items.splitOn ";").filterMap fun it => match it.splitOn "," with | [i, e] => some (toNat! i, toInt! e) | _ => none
    let rs := ress.splitOn ","
    let init : St × List Msg × Nat × List String := (σ1, [], 0, [])
    let (σ', msgs, nDropped, verdicts) := (its.zip rs).foldl (fun (acc : St × List Msg × Nat × List String) p =>
      let (σa, ms, nd, vs) := acc
      let ((id, ends), r) := p
      let stored := r.startsWith "s:"
      let e := if stored then toInt! (r.drop 2).toString else ends
      let (σb, ok, m) := doSet σa now name id e stored
      (σb, ms ++ m, if stored then nd else nd + 1, vs ++ [if ok then "s" else "d"])) init
    let d := toNat! delta
    let implV := rs.map fun r => if r.startsWith "s:" then "s" else "d"
    let pf :=
      (if d ≠ nDropped then [Msg.propfail "every_refusal_reported" (if d < nDropped then "silent-drop" else "phantom-count")
          s!"name={name} batch={items} at={now}: {nDropped} alerts not stored, alerts_limited_total +{d}"] else [])
    ({ σ' with prevDump := dmp },
      expectEq "mputb.verdicts" (",".intercalate verdicts) (",".intercalate implV) ++ expectEq "mputb.dump" (modelDump σ') dmp
        ++ m1 ++ msgs ++ pf ++ [.tag "mem:put-batch"])
  | ["wait", now], [dmp] =>
    let (σ', m1) := advance σ (toInt! now)
    ({ σ' with prevDump := dmp }, expectEq "wait.dump" (modelDump σ') dmp ++ m1)
  | _, _ => (σ, [.diff "parse" "?" (" ".intercalate op)])

def engine : Engine St where
  init hdr := { cap := kvNat hdr "cap" 0, gcint := kvInt hdr "gcint" 0 }
  step := step

end Driver.Limits
