/-
  Engine `trunc` (C20): `notify.TruncateInRunes` / `TruncateInBytes` vs `AM.Trunc`.
    runes <hex s> <n> -> <hex out> <flag> <outbytes> <outrunes> <valid> | panic <hex msg>
    bytes <hex s> <n> -> …same…
    rawrunes / rawbytes: input is not valid UTF-8 — totality and bounds only.
-/
import Driver.Util
import AM.Model.Trunc

namespace Driver.Trunc
open Driver AM.Trunc

def runesOf (hex : String) : List Nat := (unhexStr hex).toList.map Char.toNat
def hexOf (r : List Nat) : String := hexStr (String.ofList (r.map Char.ofNat))

def isPrefixForm (r out : List Nat) : Bool :=
  out == r || (match out.reverse with
    | m :: revInit => m == marker && revInit.reverse == r.take revInit.length
    | [] => false)

structure St where
  dummy : Nat := 0

def step (σ : St) (op obs : List String) : St × List Msg :=
  match op, obs with
  | [kind, hs, n], "panic" :: _ =>
    (σ, [.propfail (if kind = "runes" ∨ kind = "rawrunes" then "truncate_runes_le" else "truncate_bytes_le_and_valid") "panic"
          s!"{kind} input={hs} ({(runesOf hs).length} runes, {bytes (runesOf hs)} bytes) limit={n}"])
  | [kind, hs, n], [ho, flag, ob, orn, valid] =>
    let n := toNat! n
    let raw := kind.startsWith "raw"
    let isRunes := kind = "runes" ∨ kind = "rawrunes"
    let thm := if isRunes then "truncate_runes_le" else "truncate_bytes_le_and_valid"
    let bound : List Msg :=
      if isRunes then (if toNat! orn > n then [Msg.propfail thm "over-limit" s!"out has {orn} runes, limit {n}"] else [])
      else (if toNat! ob > n then [Msg.propfail thm "over-limit" s!"out has {ob} bytes, limit {n}"] else [])
    let val : List Msg := if valid ≠ "1" ∧ !raw then [Msg.propfail thm "split-character" s!"out={ho} is not valid UTF-8"] else []
    if raw then (σ, bound ++ [.tag "raw"]) else
    let r := runesOf hs
    let out := runesOf ho
    let (m, mf) := if isRunes then truncRunes r n else truncBytes r n
    let form : List Msg :=
      if isRunes then
        (if isPrefixForm r out ∨ out == r.take out.length then [] else [Msg.propfail thm "not-a-prefix" s!"in={hs} out={ho}"])
      else
        (if isPrefixForm r out ∨ (n ≤ 3 ∧ (out == [marker] ∨ out == List.replicate n dot)) then []
         else [Msg.propfail thm "not-a-prefix" s!"in={hs} out={ho}"])
    let unch : List Msg :=
      let fits := if isRunes then r.length ≤ n else bytes r ≤ n
      if fits ∧ (out ≠ r ∨ flag ≠ "0") then [Msg.propfail thm "cut-although-fits" s!"in={hs} out={ho} flag={flag}"] else []
    let tags : List Msg :=
      (if mf then (if n ≤ 3 then [.tag s!"{kind}:tiny-limit"] else [.tag s!"{kind}:cut"]) else [.tag s!"{kind}:fits"])
      ++ (if !isRunes ∧ mf ∧ n > 3 ∧ n - 3 > r.length then [.tag "bytes:target-beyond-runes"] else [])
      ++ (if !isRunes ∧ mf ∧ bytes m < n then [.tag "bytes:slack"] else [])
    (σ, expectEq s!"{kind}.out" (hexOf m) ho ++ expectEq s!"{kind}.flag" (if mf then "1" else "0") flag
          ++ bound ++ val ++ form ++ unch ++ tags)
  | _, _ => (σ, [.diff "parse" "?" (" ".intercalate op)])

def engine : Engine St where
  init _ := {}
  step := step

end Driver.Trunc
