/-
  Helpers shared by the Routing engines' drivers (route, group, groupsched):
  parsing of the `node` lines written by harness/rtx, assembling configuration
  trees, rendering model routes in the observation format of `rtx.Tree.Obs`.
-/
import Driver.Util
import AM.Model.Route

namespace Driver.RouteUtil
open Driver AM AM.AList AM.Lbl AM.Route

def insertStr (s : String) : List String → List String
  | [] => [s]
  | x :: xs => if s < x then s :: x :: xs else x :: insertStr s xs
def sortStrs (l : List String) : List String := l.foldr insertStr []

def insertKV (p : String × String) : LabelSet → LabelSet
  | [] => [p]
  | x :: xs => if p.1 < x.1 then p :: x :: xs else x :: insertKV p xs
/-- canonical (name-sorted) form; the first occurrence of a name wins -/
def canon (l : LabelSet) : LabelSet :=
  (l.foldl (fun (acc : LabelSet) p => if (lookup acc p.1).isSome then acc else acc ++ [p]) []).foldr insertKV []

/-- `k=hexv,k=hexv` -/
def parseKVs (s : String) : LabelSet :=
  (splitList "," s).filterMap fun p =>
    match p.splitOn "=" with
    | [k, v] => some (k, unhexStr v)
    | _ => none
def showKVs (l : LabelSet) : String := joinList "," (l.map fun p => p.1 ++ "=" ++ hexStr p.2)

def parseOp (s : String) : MatchOp :=
  if s = "eq" then .eq else if s = "ne" then .ne else if s = "re" then .re else .nre
def showOp : MatchOp → String
  | .eq => "eq" | .ne => "ne" | .re => "re" | .nre => "nre"

def parseMatchers (s : String) : List Matcher :=
  (splitList "," s).filterMap fun p =>
    match p.splitOn ":" with
    | [o, n, v] => some { op := parseOp o, name := n, value := unhexStr v }
    | _ => none
def showMatchers (l : List Matcher) : String :=
  joinList "," (l.map fun m => showOp m.op ++ ":" ++ m.name ++ ":" ++ hexStr m.value)

def optInt (s : String) : Option Int := if s = "-" then none else s.toInt?

structure CfgNode where
  id : String
  parent : String
  n : CNode

/-- `node <id> <parent> <recv> <gb> <cont> <gw> <gi> <ri> <labels> <mti> <ati> <match> <match_re> <matchers>` -/
def parseNode (t : List String) : Option CfgNode :=
  match t with
  | ["node", id, par, recv, gb, cont, gw, gi, ri, labels, mti, ati, mt, mre, ms] =>
    let gbv : Option (List String) × Bool :=
      if gb = "n" then (none, false) else if gb = "all" then (none, true) else if gb = "e" then (some [], false)
      else (some ((gb.drop 2).toString.splitOn "."), false)
    let legacy : List Matcher := (parseKVs mt).map fun p => { op := .eq, name := p.1, value := p.2 }
    -- `lv.String()` of the compiled regexp: the anchored source
    let legacyRe : List Matcher := (parseKVs mre).map fun p => { op := .re, name := p.1, value := "^(?:" ++ p.2 ++ ")$" }
    some { id, parent := par,
           n := { receiver := unhexStr recv, groupBy := gbv.1, groupByAll := gbv.2, matchers := legacy ++ legacyRe ++ parseMatchers ms,
                  cont := cont = "1", groupWait := optInt gw, groupInterval := optInt gi, repeatInterval := optInt ri,
                  muteTI := splitList "." mti, activeTI := splitList "." ati, labels := parseKVs labels } }
  | _ => none

/-- tree of node ids, assembled like `rtx.Assemble` -/
inductive Shape where
  | mk (id : String) (kids : List Shape)
  deriving Inhabited

partial def shapeOf (cfg : List CfgNode) (id : String) : Shape :=
  .mk id ((cfg.filter (·.parent = id)).map fun c => shapeOf cfg c.id)

/-- drop later duplicates of an id, nodes whose parent was not seen before them, extra roots -/
def admit (cfg : List CfgNode) : List CfgNode :=
  cfg.foldl (fun acc c =>
    if acc.any (·.id = c.id) then acc
    else if c.parent = "-" then (if acc.isEmpty then acc ++ [c] else acc)
    else if acc.any (·.id = c.parent) then acc ++ [c] else acc) []

def rootShape (cfg : List CfgNode) : Option Shape :=
  match admit cfg with
  | [] => none
  | c :: rest => some (shapeOf (c :: rest) c.id)

partial def Shape.preorder : Shape → List String
  | .mk id kids => id :: kids.flatMap Shape.preorder

partial def Shape.toCRoute (cfg : List CfgNode) : Shape → CRoute
  | .mk id kids =>
    let n := match cfg.find? (·.id = id) with | some c => c.n | none => {}
    .mk n (kids.map (Shape.toCRoute cfg))

partial def Shape.parentOf (s : Shape) (id : String) : Option String :=
  match s with
  | .mk p kids => if kids.any (fun k => match k with | .mk i _ => i = id) then some p else kids.findSome? (·.parentOf id)

/-- the observation format of `rtx.Tree.Obs` -/
def showRoute (id : String) (r : Route) : String :=
  let o := r.opts
  "|".intercalate [id, toString r.idx, hexStr r.key, hexStr r.id, hexStr o.receiver, joinList "." (sortStrs o.groupBy),
    (if o.groupByAll then "1" else "0"), toString o.groupWait, toString o.groupInterval, toString o.repeatInterval,
    showKVs (canon o.labels), joinList "." o.muteTI, joinList "." o.activeTI, (if r.cont then "1" else "0"), showMatchers r.matchers]

/-- what the implementation reported for one node -/
structure ImplNode where
  id : String
  idx : Nat
  key : String
  rid : String
  opts : Opts
  cont : Bool
  matchers : List Matcher
  raw : String

def parseImplNode (tok : String) : Option ImplNode :=
  match tok.splitOn "|" with
  | [id, idx, key, rid, recv, gb, gba, gw, gi, ri, labels, mti, ati, cont, ms] =>
    some { id, idx := toNat! idx, key := unhexStr key, rid := unhexStr rid,
           opts := { receiver := unhexStr recv, groupBy := splitList "." gb, groupByAll := gba = "1",
                     groupWait := toInt! gw, groupInterval := toInt! gi, repeatInterval := toInt! ri,
                     muteTI := splitList "." mti, activeTI := splitList "." ati, labels := parseKVs labels },
           cont := cont = "1", matchers := parseMatchers ms, raw := tok }
  | _ => none

/-- the implementation's tree as a model `Route` (key and id fields carry the node id) -/
partial def Shape.toImplRoute (impl : List ImplNode) : Shape → Route
  | .mk id kids =>
    match impl.find? (·.id = id) with
    | some n => .mk n.opts n.matchers n.cont n.idx id id (kids.map (Shape.toImplRoute impl))
    | none => .mk default [] false 0 id id (kids.map (Shape.toImplRoute impl))

/-- field-by-field comparison of options as sets / canonical lists; returns the names of differing fields -/
def optsDiff (a b : Opts) : List String :=
  (if a.receiver = b.receiver then [] else ["receiver"]) ++
  (if sortStrs a.groupBy = sortStrs b.groupBy then [] else ["group_by"]) ++
  (if a.groupByAll = b.groupByAll then [] else ["group_by_all"]) ++
  (if a.groupWait = b.groupWait then [] else ["group_wait"]) ++
  (if a.groupInterval = b.groupInterval then [] else ["group_interval"]) ++
  (if a.repeatInterval = b.repeatInterval then [] else ["repeat_interval"]) ++
  (if canon a.labels = canon b.labels then [] else ["labels"]) ++
  (if a.muteTI = b.muteTI then [] else ["mute_time_intervals"]) ++
  (if a.activeTI = b.activeTI then [] else ["active_time_intervals"])

end Driver.RouteUtil
