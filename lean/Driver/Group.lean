/-
  Engine `group` (C06): replays the harness trace (a real Dispatcher under
  virtual time) on AM.Route's grouping model and evaluates the C06 spec
  predicates on the implementation's own notifications and `Groups()` output.

  Lines:
    case <id> recv=<…> maint=<ns>
    node …                                   (as in engine `route`)
    start                -> <node obs>…
    put <t> <labels> <starts> <ends>  -> S <starts> <ends> N <n> <notif>… G <m> <group>…
    adv <t>                           -> N <n> <notif>… G <m> <group>…
  notif = t|hexkey|hexrecv|grouplabels|alert~resolved;…     group = node|hexkey|hexrecv|grouplabels|alert;…
-/
import Driver.RouteUtil
import AM.Model.Grouping

namespace Driver.Group
open Driver Driver.RouteUtil AM AM.AList AM.Lbl AM.Route

structure St where
  names : List String := []
  cfg : List CfgNode := []
  model : Option Route := none
  ids : List String := []
  impl : List ImplNode := []
  gs : List TG := []
  known : List TAlert := []          -- the latest version of every alert the dispatcher has been given
  pending : List (String × String × String × Int × Int) := []   -- (group key, receiver, alert, instant of the first flush due, instant of the put)

def nodeOfIdx (σ : St) (i : Nat) : String :=
  match σ.model with
  | none => "?"
  | some m => (((nodes m).zip σ.ids).find? (fun p => p.1.idx = i)).map (·.2) |>.getD "?"

def lsTok (l : LabelSet) : String := showKVs (canon l)

def insertS (s : String) : List String → List String
  | [] => [s]
  | x :: xs => if s < x then s :: x :: xs else x :: insertS s xs
def sortS (l : List String) : List String := l.foldr insertS []

def showNotif (t : Int) (g : TG) (sent : List (TAlert × Bool)) : String :=
  "|".intercalate [toString t, hexStr (groupKeyOf g.route.key g.labels), hexStr g.route.opts.receiver, lsTok g.labels,
    joinList ";" (sortS (sent.map fun p => lsTok p.1.ls ++ "~" ++ (if p.2 then "1" else "0")))]

def showGroup (g : TG) : String :=
  "|".intercalate [g.node, hexStr (groupKeyOf g.route.key g.labels), hexStr g.route.opts.receiver, lsTok g.labels,
    joinList ";" (sortS (g.alerts.map fun a => lsTok a.ls))]

/-- fire all ticks up to and including `t`, earliest first -/
partial def advance (t : Int) (gs : List TG) (out : List (Int × String)) : List TG × List (Int × String) :=
  let due := gs.filter (·.next ≤ t)
  match due with
  | [] => (gs, out)
  | d :: ds =>
    let g := ds.foldl (fun m x => if x.next < m.next then x else m) d
    let (sent, g') := tFlush g
    let rest := gs.filter fun x => !(x.node = g.node ∧ x.labels = g.labels)
    let gs' := match g' with | some x => rest ++ [x] | none => rest
    advance t gs' (out ++ [(g.next, showNotif g.next g sent)])

def sortNotifs (l : List (Int × String)) : List String :=
  let ins (p : Int × String) : List (Int × String) → List (Int × String) := fun l =>
    let rec go : List (Int × String) → List (Int × String)
      | [] => [p]
      | x :: xs => if p.1 < x.1 ∨ (p.1 = x.1 ∧ p.2 < x.2) then p :: x :: xs else x :: go xs
    go l
  (l.foldr ins []).map (·.2)

/-- split `N n … G m …` -/
def splitObs (obs : List String) : List String × List String :=
  match obs with
  | "N" :: n :: rest =>
    let k := toNat! n
    let ns := rest.take k
    match rest.drop k with
    | "G" :: _ :: gsT => (ns, gsT)
    | _ => (ns, [])
  | _ => ([], [])

structure INotif where
  t : Int
  key : String
  recv : String
  labels : LabelSet
  alerts : List (LabelSet × Bool)

def parseNotif (s : String) : Option INotif :=
  match s.splitOn "|" with
  | [t, k, r, l, as] =>
    some { t := toInt! t, key := unhexStr k, recv := unhexStr r, labels := parseKVs l,
           alerts := (splitList ";" as).filterMap fun a => match a.splitOn "~" with
             | [ls, f] => some (parseKVs ls, f = "1") | _ => none }
  | _ => none

structure IGroup where
  node : String
  key : String
  recv : String
  labels : LabelSet
  alerts : List LabelSet

def parseGroup (s : String) : Option IGroup :=
  match s.splitOn "|" with
  | [n, k, r, l, as] => some { node := n, key := unhexStr k, recv := unhexStr r, labels := parseKVs l, alerts := (splitList ";" as).map parseKVs }
  | _ => none

/-- the regex oracle is not available in this engine: the generated trees are matched with the
    executable fragment below (patterns of harness/rtx: literals, alternation of literals, `.*`, `.+`,
    `x.*`, `[xy]+`, `x?`), after stripping the `^(?:…)$` that legacy match_re adds. -/
def stripAnchor (p : String) : String :=
  if p.startsWith "^(?:" ∧ p.endsWith ")$" then ((p.drop 4).dropEnd 2).toString else p

def reFrag (pat v : String) : Bool :=
  let p := stripAnchor pat
  if p = ".*" then true
  else if p = ".+" then !v.isEmpty
  else if p = "x.*" then v.startsWith "x"
  else if p = "[xy]+" then !v.isEmpty ∧ v.toList.all (fun c => c = 'x' ∨ c = 'y')
  else if p = "x?" then v = "" ∨ v = "x"
  else (p.splitOn "|").contains v

/-- spec predicates on one `Groups()` answer -/
def groupsChecks (σ : St) (m : Route) (now : Int) (igs : List IGroup) (lineTag : String) : List Msg :=
  let implOpts (node : String) : Option ImplNode := σ.impl.find? (·.id = node)
  -- group_labels_spec + group_key_pure on every reported group
  let perGroup : List Msg := igs.flatMap fun g =>
    match implOpts g.node with
    | none => [Msg.propfail "groups_api_is_partition" "unknown-route" s!"{lineTag} group of unknown route {g.node}"]
    | some n =>
      (g.alerts.flatMap fun a =>
        if canon (getGroupLabels (canon a) n.opts) = canon g.labels then [] else
          [Msg.propfail "group_labels_spec" "labels-mismatch" s!"{lineTag} route={g.node} group={lsTok g.labels} holds {lsTok a}"]) ++
      (if g.key = groupKeyOf n.key (canon g.labels) then [] else
        [Msg.propfail "group_key_pure" "key" s!"{lineTag} route={g.node} key={g.key} expected={groupKeyOf n.key (canon g.labels)}"]) ++
      (if g.recv = n.opts.receiver then [] else
        [Msg.propfail "groups_api_is_partition" "receiver" s!"{lineTag} route={g.node} receiver={g.recv}"])
  -- no two groups with the same (route, labels)
  let keys := igs.map fun g => g.node ++ "#" ++ lsTok g.labels
  let dups : List Msg := if keys.eraseDups.length = keys.length then [] else
    [Msg.propfail "no_orphan_live_group" "split-group" s!"{lineTag} two live groups share route and group labels: {keys}"]
  -- completeness: every alert the dispatcher holds is shown exactly once under each route it matches
  let compl : List Msg := σ.known.flatMap fun a =>
    («match» reFrag m a.ls).flatMap fun r =>
      let node := nodeOfIdx σ r.idx
      let cnt := (igs.filter fun g => g.node = node ∧ g.alerts.any (fun x => canon x = a.ls)).length
      -- a firing alert is never deleted: exactly once; a resolved one may already be gone: at most once
      if cnt = 1 ∨ (cnt = 0 ∧ a.ends ≤ now) then [] else
        [Msg.propfail "groups_api_is_partition" (if cnt = 0 then "missing" else "duplicate")
          s!"{lineTag} alert {lsTok a.ls} appears {cnt} times under route {node}"]
  perGroup ++ dups ++ compl

def notifChecks (_σ : St) (modelNotifs : List (Int × String)) (ins : List INotif) (lineTag : String) : List Msg :=
  -- a notification must list every alert the group held at that flush (never a delta).  Sibling routes
  -- with identical matchers share a group key (`Route.Key` "does not uniquely identify the route"), so a
  -- notification is compared with every model flush of the same instant, key and receiver.
  let ms := modelNotifs.filterMap fun p => parseNotif p.2
  ins.flatMap fun n =>
    let cands := ms.filter fun q => decide (q.t = n.t) && decide (q.key = n.key) && decide (q.recv = n.recv)
    let missingOf (q : INotif) := q.alerts.filter fun a => !(n.alerts.any fun b => canon b.1 = canon a.1)
    if cands.isEmpty ∨ cands.any (fun q => (missingOf q).isEmpty) then [] else
      [Msg.propfail "flush_lists_all_unsuppressed" "delta"
        s!"{lineTag} t={n.t} key={n.key} lacks {(cands.flatMap missingOf).map (fun a => lsTok a.1)}"]

def stepTimed (σ : St) (t : Int) (put : Option TAlert) (obs : List String) (lineTag : String) : St × List Msg :=
  match σ.model with
  | none => (σ, [.diff "op" "not-started" lineTag])
  | some m =>
    let (gs1, notifs) := advance t σ.gs []
    -- an alert the model saw deleted (resolved and flushed everywhere) is forgotten
    let known1 := σ.known
    let (gs2, known2, routed) : List TG × List TAlert × List String := match put with
      | none => (gs1, known1, [])
      | some a =>
        let rs : List Route := «match» reFrag m a.ls
        let gs : List TG := rs.foldl (fun (gs : List TG) (r : Route) => tIngestRoute t gs (nodeOfIdx σ r.idx) r a) gs1
        (gs, (known1.filter (fun (x : TAlert) => x.ls ≠ a.ls)) ++ [a], rs.map fun (r : Route) => nodeOfIdx σ r.idx)
    -- groups created by this put that flush at once
    let (gs3, notifs2) := advance t gs2 []
    let known3 := known2
    let allNotifs := notifs ++ notifs2
    let (implN, implG) := splitObs obs
    let modelN := sortNotifs allNotifs
    let modelG := sortS (gs3.map showGroup)
    let diffs := expectEq "notifications" (joinList " " modelN) (joinList " " implN) ++
                 expectEq "groups" (joinList " " modelG) (joinList " " (sortS implG))
    -- recreated_with_fresh_wait: an alert that opens a group (none live for its route and labels) must
    -- be notified first after that route's group_wait (at once when already older), read off the
    -- implementation's own notification times
    let newPend : List (String × String × String × Int × Int) := match put with
      | none => []
      | some a =>
        if a.ends ≤ t then [] else
        let rs : List Route := «match» reFrag m a.ls
        let ents := rs.filterMap fun (r : Route) =>
          let node := nodeOfIdx σ r.idx
          let gl := getGroupLabels a.ls r.opts
          if gs1.any (fun g => g.node = node ∧ g.labels = gl) then none else
          match σ.impl.find? (·.id = node) with
          | none => none
          | some n => some (groupKeyOf n.key (canon (getGroupLabels a.ls n.opts)), n.opts.receiver, lsTok a.ls,
                            if a.starts + n.opts.groupWait < t then t else t + n.opts.groupWait, t)
        -- sibling routes with identical matchers and receiver are indistinguishable in notifications: skip them
        let allKeys : List (String × String) := rs.filterMap fun (r : Route) =>
          match σ.impl.find? (·.id = nodeOfIdx σ r.idx) with
          | none => none
          | some n => some (groupKeyOf n.key (canon (getGroupLabels a.ls n.opts)), n.opts.receiver)
        ents.filter fun e => (allKeys.filter fun f => f.1 = e.1 ∧ f.2 = e.2.1).length = 1
    let pend0 := σ.pending.filter (fun e => !(newPend.any fun f => f.1 = e.1 ∧ f.2.1 = e.2.1 ∧ f.2.2.1 = e.2.2.1)) ++ newPend
    let implNotifs := implN.filterMap parseNotif
    let (pend1, pfWait) := pend0.foldl (fun (acc : List (String × String × String × Int × Int) × List Msg) e =>
        match implNotifs.find? (fun n => decide (n.t ≥ e.2.2.2.2) && decide (n.key = e.1) && decide (n.recv = e.2.1) && n.alerts.any (fun b => lsTok b.1 = e.2.2.1)) with
        | none => (acc.1 ++ [e], acc.2)
        | some n => if n.t = e.2.2.2.1 then (acc.1, acc.2) else
            (acc.1, acc.2 ++ [Msg.propfail "recreated_with_fresh_wait" "stale-wait"
              s!"{lineTag} key={e.1} alert={e.2.2.1} first notified at {n.t}, group_wait puts it at {e.2.2.2.1}"]))
      ([], [])
    let σ' := { σ with gs := gs3, known := known3, pending := pend1 }
    let pf := groupsChecks σ' m t (implG.filterMap parseGroup) lineTag ++
              notifChecks σ' allNotifs implNotifs lineTag ++ pfWait
    let tg (b : Bool) (s : String) : List Msg := if b then [.tag s] else []
    let tags := tg (routed.length > 1) "put:multi-route" ++
      tg (put.isSome ∧ gs2.length > gs1.length) "put:group-created" ++
      tg (put.isSome ∧ !notifs2.isEmpty) "put:immediate-flush" ++
      tg (gs1.length < σ.gs.length) "flush:group-destroyed" ++
      tg (match put with | some a => σ.gs.length > gs1.length ∧ gs2.length > gs1.length ∧ a.ends > t | none => false) "put:after-destroy" ++
      tg (allNotifs.any fun p => (p.2.splitOn "~1").length > 1) "flush:resolved-sent" ++
      tg (gs3.any fun g => g.alerts.length > 1) "group:several-alerts"
    (σ', diffs ++ pf ++ tags)

def step (σ : St) (op obs : List String) : St × List Msg :=
  match op, obs with
  | ["begin"], _ => (σ, [])
  | "node" :: _, _ =>
    match parseNode op with
    | some c => ({ σ with cfg := σ.cfg ++ [c] }, [])
    | none => (σ, [.diff "parse" "?" (" ".intercalate op)])
  | ["start"], "error" :: _ => (σ, [.diff "start" "ok" "error"])
  | ["start"], nodesObs =>
    match rootShape σ.cfg with
    | none => (σ, [.diff "start" "no-root" "ok"])
    | some sh =>
      let m := mkTree (sh.toCRoute (admit σ.cfg))
      let ids := sh.preorder
      let modelStrs := ((nodes m).zip ids).map fun p => showRoute p.2 p.1
      let diffs := if modelStrs.length ≠ nodesObs.length then [Msg.diff "start.count" (toString modelStrs.length) (toString nodesObs.length)]
        else (modelStrs.zip nodesObs).flatMap fun p => expectEq "start.node" p.1 p.2
      ({ σ with model := some m, ids, impl := nodesObs.filterMap parseImplNode }, diffs)
  | ["put", t, ls, _, _], "S" :: s :: e :: rest =>
    stepTimed σ (toInt! t) (some { ls := canon (parseKVs ls), starts := toInt! s, ends := toInt! e }) rest s!"put@{t}"
  | ["adv", t], rest => stepTimed σ (toInt! t) none rest s!"adv@{t}"
  | ["stress", t, toks], "G" :: _ :: groups =>
    -- concurrent burst: only the quiescent partition is checked (spec predicates on `Groups()`)
    match σ.model with
    | none => (σ, [.diff "op" "not-started" "stress"])
    | some m =>
      let now := toInt! t
      let burst : List TAlert := (splitList ";" toks).filterMap fun tok =>
        match tok.splitOn "~" with
        | [ls, r] => some { ls := canon (parseKVs ls), starts := now - 60000000000,
                            ends := if r = "1" then now - 1000000 else now + 3600000000000 }
        | _ => none
      let known := (σ.known.filter fun (x : TAlert) => !(burst.any fun b => b.ls = x.ls)) ++ burst
      let σ' := { σ with known, gs := [] }
      (σ', groupsChecks σ' m now (groups.filterMap parseGroup) s!"stress@{t}" ++ [.tag "stress:quiescent-partition-checked"])
  | _, "error" :: _ => (σ, [.diff "op" "ok" "error"])
  | _, _ => (σ, [.diff "parse" "?" (" ".intercalate op)])

def engine : Engine St where
  init hdr := { names := match kv hdr "recv" with | some s => splitList "." s | none => [] }
  step := step

end Driver.Group
