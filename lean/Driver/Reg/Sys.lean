import Driver.Util
-- engines of work area Sys: import your Driver.<Engine> modules above and list them here
namespace Driver.Reg.Sys
def engines : List (String × IO UInt32) := [
]
end Driver.Reg.Sys
