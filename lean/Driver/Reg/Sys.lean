import Driver.Util
import Driver.Pipe
namespace Driver.Reg.Sys
def engines : List (String × IO UInt32) := [
  ("pipe", Driver.runEngine Driver.Pipe.engine)
]
end Driver.Reg.Sys
