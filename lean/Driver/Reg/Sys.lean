import Driver.Util
import Driver.Pipe
import Driver.Sys
import Driver.Cluster
import Driver.PutOrder
namespace Driver.Reg.Sys
def engines : List (String × IO UInt32) := [
  ("pipe", Driver.runEngine Driver.Pipe.engine),
  ("sys", Driver.runEngine Driver.Sys.engine),
  ("cluster", Driver.runEngine Driver.Cluster.engine),
  ("putorder", Driver.runEngine Driver.PutOrder.engine)
]
end Driver.Reg.Sys
