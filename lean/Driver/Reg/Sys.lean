import Driver.Util
import Driver.Pipe
import Driver.Sys
namespace Driver.Reg.Sys
def engines : List (String × IO UInt32) := [
  ("pipe", Driver.runEngine Driver.Pipe.engine),
  ("sys", Driver.runEngine Driver.Sys.engine)
]
end Driver.Reg.Sys
