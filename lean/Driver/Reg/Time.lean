import Driver.Util
-- engines of work area Time: import your Driver.<Engine> modules above and list them here
namespace Driver.Reg.Time
def engines : List (String × IO UInt32) := [
]
end Driver.Reg.Time
