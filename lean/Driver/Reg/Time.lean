import Driver.Util
import Driver.Timeint
-- engines of work area Time: import your Driver.<Engine> modules above and list them here
namespace Driver.Reg.Time
def engines : List (String × IO UInt32) := [
  ("timeint", Driver.runEngine Driver.Timeint.engine)
]
end Driver.Reg.Time
