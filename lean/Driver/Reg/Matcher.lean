import Driver.Util
-- engines of work area Matcher: import your Driver.<Engine> modules above and list them here
namespace Driver.Reg.Matcher
def engines : List (String × IO UInt32) := [
]
end Driver.Reg.Matcher
