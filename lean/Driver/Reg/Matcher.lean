import Driver.Util
import Driver.Matcher
-- engines of work area Matcher: import your Driver.<Engine> modules above and list them here
namespace Driver.Reg.Matcher
def engines : List (String × IO UInt32) := [
  ("matcher", Driver.runEngine Driver.Matcher.engine)
]
end Driver.Reg.Matcher
