import Driver.Util
-- engines of work area Limits: import your Driver.<Engine> modules above and list them here
namespace Driver.Reg.Limits
def engines : List (String × IO UInt32) := [
]
end Driver.Reg.Limits
