import Driver.Util
import Driver.Limits
import Driver.SilLimits
import Driver.Sem
import Driver.Trunc
import Driver.TmplData
import Driver.Retry
import Driver.Webhook
import Driver.Email
import Driver.Gossip
import Driver.Mesh
import Driver.TlsFrame
-- engines of work area Limits: import your Driver.<Engine> modules above and list them here
namespace Driver.Reg.Limits
def engines : List (String × IO UInt32) := [
  ("limits", Driver.runEngine Driver.Limits.engine),
  ("sillimits", Driver.runEngine Driver.SilLimits.engine),
  ("sem", Driver.runEngine Driver.Sem.engine),
  ("trunc", Driver.runEngine Driver.Trunc.engine),
  ("tmpldata", Driver.runEngine Driver.TmplData.engine),
  ("retry", Driver.runEngine Driver.Retry.engine),
  ("webhook", Driver.runEngine Driver.Webhook.engine),
  ("email", Driver.runEngine Driver.Email.engine),
  ("gossip", Driver.runEngine Driver.Gossip.engine),
  ("mesh", Driver.runEngine Driver.Mesh.engine),
  ("tlsframe", Driver.runEngine Driver.TlsFrame.engine)
]
end Driver.Reg.Limits
