import Driver.Util
import Driver.Limits
-- engines of work area Limits: import your Driver.<Engine> modules above and list them here
namespace Driver.Reg.Limits
def engines : List (String × IO UInt32) := [
  ("limits", Driver.runEngine Driver.Limits.engine)
]
end Driver.Reg.Limits
