import Driver.Util
-- engines of work area Silence: import your Driver.<Engine> modules above and list them here
namespace Driver.Reg.Silence
def engines : List (String × IO UInt32) := [
]
end Driver.Reg.Silence
