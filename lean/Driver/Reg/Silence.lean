import Driver.Util
import Driver.Silmerge
import Driver.Sillife
import Driver.Silencer
import Driver.MutesRace
-- engines of work area Silence: import your Driver.<Engine> modules above and list them here
namespace Driver.Reg.Silence
def engines : List (String × IO UInt32) := [
  ("silmerge", Driver.runEngine Driver.Silmerge.engine),
  ("sillife", Driver.runEngine Driver.Sillife.engine),
  ("silencer", Driver.runEngine Driver.Silencer.engine),
  ("mutesrace", Driver.runEngine Driver.MutesRace.engine)
]
end Driver.Reg.Silence
