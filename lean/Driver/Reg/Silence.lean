import Driver.Util
import Driver.Silmerge
-- engines of work area Silence: import your Driver.<Engine> modules above and list them here
namespace Driver.Reg.Silence
def engines : List (String × IO UInt32) := [
  ("silmerge", Driver.runEngine Driver.Silmerge.engine)
]
end Driver.Reg.Silence
