import Driver.Util
-- engines of work area Alerts: import your Driver.<Engine> modules above and list them here
namespace Driver.Reg.Alerts
def engines : List (String × IO UInt32) := [
]
end Driver.Reg.Alerts
