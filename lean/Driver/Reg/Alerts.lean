import Driver.Util
import Driver.Inhibit
import Driver.Ingest
import Driver.Workers
-- engines of work area Alerts: import your Driver.<Engine> modules above and list them here
namespace Driver.Reg.Alerts
def engines : List (String × IO UInt32) := [
  ("inhibit", Driver.runEngine Driver.Inhibit.engine),
  ("ingest", Driver.runEngine Driver.Ingest.engine),
  ("workers", Driver.runEngine Driver.Workers.engine)
]
end Driver.Reg.Alerts
