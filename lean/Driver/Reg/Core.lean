import Driver.Util
import Driver.Nflog
import Driver.NflogRace
namespace Driver.Reg.Core
def engines : List (String × IO UInt32) := [
  ("nflog", Driver.runEngine Driver.Nflog.engine),
  ("nflograce", Driver.runEngine Driver.NflogRace.engine)
]
end Driver.Reg.Core
