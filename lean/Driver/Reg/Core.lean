import Driver.Util
import Driver.Nflog
namespace Driver.Reg.Core
def engines : List (String × IO UInt32) := [
  ("nflog", Driver.runEngine Driver.Nflog.engine)
]
end Driver.Reg.Core
