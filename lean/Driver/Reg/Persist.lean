import Driver.Util
-- engines of work area Persist: import your Driver.<Engine> modules above and list them here
namespace Driver.Reg.Persist
def engines : List (String × IO UInt32) := [
]
end Driver.Reg.Persist
