import Driver.Util
import Driver.Snapshot
import Driver.Config
import Driver.Reload
import Driver.NotifyLeak
-- engines of work area Persist: import your Driver.<Engine> modules above and list them here
namespace Driver.Reg.Persist
def engines : List (String × IO UInt32) := [
  ("snapshot", Driver.runEngine Driver.Snapshot.engine),
  ("config", Driver.runEngine Driver.Config.engine),
  ("reload", Driver.runEngine Driver.Reload.engine),
  ("notifyleak", Driver.runEngine Driver.NotifyLeak.engine)
]
end Driver.Reg.Persist
