import Driver.Util
import Driver.Snapshot
import Driver.Config
-- engines of work area Persist: import your Driver.<Engine> modules above and list them here
namespace Driver.Reg.Persist
def engines : List (String × IO UInt32) := [
  ("snapshot", Driver.runEngine Driver.Snapshot.engine),
  ("config", Driver.runEngine Driver.Config.engine)
]
end Driver.Reg.Persist
