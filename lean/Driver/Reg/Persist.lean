import Driver.Util
import Driver.Snapshot
-- engines of work area Persist: import your Driver.<Engine> modules above and list them here
namespace Driver.Reg.Persist
def engines : List (String × IO UInt32) := [
  ("snapshot", Driver.runEngine Driver.Snapshot.engine)
]
end Driver.Reg.Persist
