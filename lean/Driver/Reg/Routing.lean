import Driver.Util
import Driver.Route
import Driver.Group
import Driver.GroupSched
-- engines of work area Routing: import your Driver.<Engine> modules above and list them here
namespace Driver.Reg.Routing
def engines : List (String × IO UInt32) := [
  ("route", Driver.runEngine Driver.Route.engine),
  ("group", Driver.runEngine Driver.Group.engine),
  ("groupsched", Driver.runEngine Driver.GroupSched.engine)
]
end Driver.Reg.Routing
