import Driver.Util
-- engines of work area Routing: import your Driver.<Engine> modules above and list them here
namespace Driver.Reg.Routing
def engines : List (String × IO UInt32) := [
]
end Driver.Reg.Routing
