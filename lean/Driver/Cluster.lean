/-
  Engine `cluster` (C08): replays the events of 1-3 real pipelines + logs joined
  by a scripted gossip channel on `AM.Cluster`, and evaluates the C08 predicates
  on the implementation's own sends and log entries.

    case <id> retention= repeat= sr= pos=<p0,p1,…>
    round <t> <alerts> <skews> <accept bits> <delay matrix> -> begin
    gc <t> <i> | crash <t> <i> <keep> | redeliver <t> <src> <dst>  -> begin
    ev <wall> sent <i> <f>/<r>
    ev <wall> done <i> <tick> <ok|err> <entry>
    ev <wall> deliver <src> <dst> <entry>
    end -> <n>? <entry;entry;…>          entry = ts,exp,firing,resolved | none
-/
import Driver.Util
import AM.Model.Cluster

namespace Driver.Cluster
open Driver AM AM.AList AM.Nflog AM.Dedup AM.Cluster

structure St where
  cfg : Cfg := { key := "g:r/fake/0", repeatI := 0, retention := 0, sendResolved := true }
  n : Nat := 1
  cs : CState := AM.Cluster.init
  -- current op
  firing : List Nat := []
  resolved : List Nat := []
  acc : List Bool := []
  healthy : Bool := false
  roundSends : Nat := 0
  inRound : Bool := false
  pending : List (Nat × Int × String) := []     -- observed sends not yet matched to a `done`
  implSends : List (Nat × Int × List Nat) := [] -- every send the implementation made: inst, wall, firing
  implEntries : List String := []               -- implementation's entries after the previous op
  gcInst : Option (Nat × Int) := none

def insNat (x : Nat) : List Nat → List Nat
  | [] => [x]
  | y :: ys => if x ≤ y then x :: y :: ys else y :: insNat x ys
def sortNat (l : List Nat) : List Nat := l.foldl (fun acc x => insNat x acc) []

def showEntry (o : Option Entry) : String :=
  match o with
  | none => "none"
  | some e => s!"{e.ts},{e.exp},{showNatList (sortNat e.firing)},{showNatList (sortNat e.resolved)}"

def parseEntry (k : String) (s : String) : Option Entry :=
  match s.splitOn "," with
  | [ts, exp, f, r] => some { key := k, ts := toInt! ts, exp := toInt! exp, firing := natList f, resolved := natList r, data := "-" }
  | _ => none

def entries (σ : St) : String :=
  ";".intercalate ((List.range σ.n).map fun i => showEntry (query (σ.cs.logs i) σ.cfg.key))

def parseAlerts (s : String) : List Nat × List Nat :=
  (splitList "," s).foldl (fun (acc : List Nat × List Nat) a =>
    match a.splitOn ":" with
    | [id, "f"] => (acc.1 ++ [toNat! id], acc.2)
    | [id, "r"] => (acc.1, acc.2 ++ [toNat! id])
    | _ => acc) ([], [])

def peerTimeout : Int := 15000000000

def step (σ : St) (op obs : List String) : St × List Msg :=
  match op, obs with
  | ["round", _t, alerts, skews, acc, delays], _ =>
    let (f, r) := parseAlerts alerts
    let sk := (skews.splitOn ",")
    let present : Bool := sk.all (fun x => x != "x")
    let skv := sk.filterMap String.toInt?
    let spread := (skv.foldl max 0) - (skv.foldl min (skv.headD 0))
    let ds := (delays.splitOn ";").map fun row => (row.splitOn ",").map toInt!
    let offDiagOk : Bool := (List.range σ.n).all fun i => (List.range σ.n).all fun j =>
      i == j || (let d := (ds.getD i []).getD j (-1); decide (0 ≤ d) && decide (d + spread < peerTimeout))
    let accs : List Bool := acc.toList.map (fun ch => ch == '1')
    let converged := match σ.implEntries with
      | [] => true
      | e :: rest => rest.all (· = e)
    let healthy : Bool := present && offDiagOk && accs.all id && decide (spread ≤ σ.cfg.repeatI) && converged
    ({ σ with firing := f, resolved := r, acc := accs, healthy, roundSends := 0, inRound := true, pending := [], gcInst := none },
      [.tag (if healthy then "round:healthy" else "round:faulty")] ++ (if σ.n > 1 then [.tag "round:multi"] else []))
  | ["gc", t, i], _ => ({ σ with inRound := false, gcInst := some (toNat! i, toInt! t) }, [])
  | ["crash", _t, i, keep], _ =>
    ({ σ with cs := AM.Cluster.step σ.cfg σ.cs (.crash (toNat! i) (keep = "1")), inRound := false, gcInst := none },
      [.tag (if keep = "1" then "crash:snapshot" else "crash:empty")])
  | ["redeliver", _, _, _], _ => ({ σ with inRound := false, gcInst := none }, [.tag "redeliver"])
  | ["ev", wall, "sent", i, text], _ =>
    let i := toNat! i; let wall := toInt! wall
    let f := natList ((text.splitOn "/").getD 0 "-")
    ({ σ with pending := σ.pending ++ [(i, wall, text)], implSends := (i, wall, f) :: σ.implSends, roundSends := σ.roundSends + 1 }, [])
  | ["ev", wall, "done", i, tick, res, ent], _ =>
    let i := toNat! i; let wall := toInt! wall; let tick := toInt! tick
    let fl : Flush := { tick, wall, firing := σ.firing, resolved := σ.resolved, accept := σ.acc.getD i true }
    let o := flushStep σ.cfg (σ.cs.logs i) fl
    let cs' := AM.Cluster.step σ.cfg σ.cs (.flush i fl)
    let mSent := match o.sent with
      | none => "none"
      | some n => s!"{showNatList (sortNat n.firing)}/{showNatList (sortNat n.resolved)}"
    let obsSent := σ.pending.find? (·.1 = i)
    let iSent := match obsSent with | some (_, _, t) => t | none => "none"
    -- C08 at_least_once on the implementation's own sends
    let pfLost := if σ.acc.getD i true then
        σ.firing.foldl (fun acc x =>
          let here : Bool := match obsSent with | some (_, _, t) => (natList ((t.splitOn "/").getD 0 "-")).contains x | none => false
          let earlier : Bool := σ.implSends.any fun (_, w, f) => f.contains x && decide (tick ≤ w + σ.cfg.repeatI)
          if here || earlier then acc else
            acc ++ [Msg.propfail "at_least_once" "lost" s!"instance={i} alert={x} tick={tick} no instance has notified it within repeat_interval"]) []
      else []
    let σ' := { σ with cs := cs', pending := σ.pending.filter (·.1 ≠ i) }
    (σ', expectEq s!"done.sent[{i}]" mSent iSent ++ expectEq s!"done.res[{i}]" (if o.ok then "ok" else "err") res
        ++ expectEq s!"done.entry[{i}]" (showEntry (query (cs'.logs i) σ.cfg.key)) ent ++ pfLost
        ++ [.tag s!"path:{repr (path σ.cfg (σ.cs.logs i) fl)}"])
  | ["ev", wall, "deliver", _src, dst, ent], _ =>
    match parseEntry σ.cfg.key ent with
    | none => (σ, [.diff "deliver.entry" "entry" ent])
    | some e =>
      let known := σ.cs.bcast.contains e
      let before := query (σ.cs.logs (toNat! dst)) σ.cfg.key
      let cs' := AM.Cluster.step σ.cfg σ.cs (.deliver e (toNat! dst) (toInt! wall))
      let after := query (cs'.logs (toNat! dst)) σ.cfg.key
      ({ σ with cs := cs' }, (if known then [] else [Msg.diff "deliver.unknown-entry" "broadcast" ent])
        ++ [.tag (if after = before then "deliver:inert" else "deliver:merged")])
  | ["end"], _ =>
    let ents := obs.getLast?.getD ""
    let σ1 := match σ.gcInst with
      | some (i, t) => { σ with cs := AM.Cluster.step σ.cfg σ.cs (.gc i t) }
      | none => σ
    let mGc := match σ.gcInst, obs with
      | some (i, t), [n, _] => expectEq "gc.n" (toString (gc t (σ.cs.logs i)).2) n
      | _, _ => []
    let implL := ents.splitOn ";"
    -- entry_implies_sent on the implementation's entries and sends
    let pfPhantom := implL.foldl (fun acc s =>
      match parseEntry σ.cfg.key s with
      | some e => if e.firing.isEmpty || σ.implSends.any (fun (_, w, f) => w == e.ts && sortNat f == sortNat e.firing) then acc
                  else acc ++ [Msg.propfail "entry_implies_sent" "phantom-entry" s!"entry={s} has no matching send"]
      | none => acc) []
    let pfDup := if σ.inRound ∧ σ.healthy ∧ σ.roundSends > 1 then
      [Msg.propfail "healthy_no_duplicate" "duplicate" s!"sends={σ.roundSends} in one healthy round firing={showNatList σ.firing}"] else []
    let tags := (if σ.inRound ∧ σ.healthy ∧ σ.n > 1 ∧ σ.roundSends = 1 then [Msg.tag "healthy:single-send"] else [])
      ++ (if σ.inRound ∧ !σ.healthy ∧ σ.roundSends > 1 then [Msg.tag "faulty:duplicate-send"] else [])
    ({ σ1 with implEntries := implL, inRound := false, gcInst := none },
      mGc ++ expectEq "end.entries" (entries σ1) ents ++ pfPhantom ++ pfDup ++ tags)
  | _, _ => (σ, [.diff "parse" "?" (" ".intercalate op)])

def engine : Engine St where
  init hdr :=
    let pos := ((kv hdr "pos").getD "0").splitOn ","
    { cfg := { key := "g:r/fake/0", repeatI := kvInt hdr "repeat" 0, retention := kvInt hdr "retention" 0,
               sendResolved := kv hdr "sr" = some "1" },
      n := pos.length }
  step := step

end Driver.Cluster
