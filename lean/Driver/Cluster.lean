/-
  Engine `cluster` (C08): replays the events of 1-3 real pipelines + logs joined
  by a scripted gossip channel on `AM.Cluster`, and evaluates the C08 predicates
  on the implementation's own sends and log entries.

    case <id> retention= repeat= sr= pos=<p0,p1,…>
    round <t> <alerts> <skews> <accept bits> <delay matrix> [<lates> [<unsettled bits>]] -> begin
         unsettled bit 1 = gossip has not settled on that instance: its notify.Peer blocks in WaitReady until the flush
         context (10 s) is done; that flush must FAIL (the dispatcher then keeps the alerts), send nothing, log nothing
    gc <t> <i> | crash <t> <i> <keep> | redeliver <t> <src> <dst>  -> begin
    ev <wall> sent <i> <f>/<r>
    ev <wall> done <i> <tick> <ok|err> <entry>
    ev <wall> deliver <src> <dst> <entry>
    end -> <n>? <entry;entry;…>          entry = ts,exp,firing,resolved | none
-/
import Driver.Util
import AM.Model.Cluster

namespace Driver.Cluster
open Driver AM AM.AList AM.Nflog AM.Dedup AM.Cluster

structure St where
  cfg : Cfg := { key := "g:r/fake/0", repeatI := 0, retention := 0, sendResolved := true }
  n : Nat := 1
  k : Nat := 1                               -- integrations of the receiver
  css : List CState := [AM.Cluster.init]     -- one cluster model per integration (distinct log keys)
  -- current op
  firing : List Nat := []
  resolved : List Nat := []
  acc : List Bool := []
  healthy : Bool := false
  roundSends : Nat := 0
  roundSends1 : Nat := 0
  inRound : Bool := false
  pending : List (Nat × Nat × Int × String) := []     -- observed sends (inst, integration, wall, text) not yet matched to a `done`
  implSends : List (Nat × Nat × Int × List Nat) := [] -- every send the implementation made: inst, integration, wall, firing
  implEntries : List String := []               -- implementation's entries after the previous op
  gcInst : Option (Nat × Int) := none
  unsettled : List Bool := []                   -- per instance, current round

def insNat (x : Nat) : List Nat → List Nat
  | [] => [x]
  | y :: ys => if x ≤ y then x :: y :: ys else y :: insNat x ys
def sortNat (l : List Nat) : List Nat := l.foldl (fun acc x => insNat x acc) []

def showEntry (o : Option Entry) : String :=
  match o with
  | none => "none"
  | some e => s!"{e.ts},{e.exp},{showNatList (sortNat e.firing)},{showNatList (sortNat e.resolved)}"

def parseEntry (k : String) (s : String) : Option Entry :=
  match s.splitOn "," with
  | [ts, exp, f, r] => some { key := k, ts := toInt! ts, exp := toInt! exp, firing := natList f, resolved := natList r, data := "-" }
  | _ => none

def cfgK (σ : St) (k : Nat) : Cfg := { σ.cfg with key := s!"g:r/fake/{k}" }
def csK (σ : St) (k : Nat) : CState := σ.css.getD k AM.Cluster.init
def setCs (σ : St) (k : Nat) (c : CState) : St := { σ with css := σ.css.set k c }

def entryOfInst (σ : St) (i : Nat) : String :=
  "|".intercalate ((List.range σ.k).map fun k => showEntry (query ((csK σ k).logs i) (cfgK σ k).key))

def entries (σ : St) : String :=
  ";".intercalate ((List.range σ.n).map fun i => entryOfInst σ i)

def parseAlerts (s : String) : List Nat × List Nat :=
  (splitList "," s).foldl (fun (acc : List Nat × List Nat) a =>
    match a.splitOn ":" with
    | [id, "f"] => (acc.1 ++ [toNat! id], acc.2)
    | [id, "r"] => (acc.1, acc.2 ++ [toNat! id])
    | _ => acc) ([], [])

def peerTimeout : Int := 15000000000

def step (σ : St) (op obs : List String) : St × List Msg :=
  match op, obs with
  | "round" :: _t :: alerts :: skews :: acc :: delays :: lates, _ =>
    let (f, r) := parseAlerts alerts
    let sk := (skews.splitOn ",")
    let present : Bool := sk.all (fun x => x != "x")
    let skv := sk.filterMap String.toInt?
    let spread := (skv.foldl max 0) - (skv.foldl min (skv.headD 0))
    let ds := (delays.splitOn ";").map fun row => (row.splitOn ",").map toInt!
    let offDiagOk : Bool := (List.range σ.n).all fun i => (List.range σ.n).all fun j =>
      i == j || (let d := (ds.getD i []).getD j (-1); decide (0 ≤ d) && decide (d + spread < peerTimeout))
    let accs : List Bool := acc.toList.map (fun ch => ch == '1')
    let converged := match σ.implEntries with
      | [] => true
      | e :: rest => rest.all (· = e)
    -- the ticks of the round (flush instant − lateness) must lie within repeat_interval of each other (Round.ticks / hskew)
    let lv := ((lates.headD "").splitOn ",").filterMap String.toInt?
    let tks := (skv.zip (lv ++ List.replicate skv.length 0)).map fun (a, b) => a - b
    let tspread := (tks.foldl max (tks.headD 0)) - (tks.foldl min (tks.headD 0))
    let uns : List Bool := (lates.getD 1 "").toList.map (fun ch => ch == '1')
    let healthy : Bool := present && offDiagOk && accs.all id && decide (spread ≤ σ.cfg.repeatI) && decide (tspread ≤ σ.cfg.repeatI) && converged
                            && !uns.any id
    ({ σ with firing := f, resolved := r, acc := accs, healthy, roundSends := 0, roundSends1 := 0, inRound := true, pending := [], gcInst := none,
              unsettled := uns },
      [.tag (if healthy then "round:healthy" else "round:faulty")] ++ (if σ.n > 1 then [.tag "round:multi"] else [])
        ++ (if (lates.take 1).any (fun l => (l.splitOn ",").any (fun x => x ≠ "0")) then [.tag "round:late-tick"] else [])
        ++ (if uns.any id then [.tag "round:unsettled"] else []))
  | ["gc", t, i], _ => ({ σ with inRound := false, gcInst := some (toNat! i, toInt! t) }, [])
  | ["crash", _t, i, keep], _ =>
    ({ σ with css := (List.range σ.k).map (fun k => AM.Cluster.step (cfgK σ k) (csK σ k) (.crash (toNat! i) (keep = "1"))), inRound := false, gcInst := none },
      [.tag (if keep = "1" then "crash:snapshot" else "crash:empty")])
  | ["redeliver", _, _, _], _ => ({ σ with inRound := false, gcInst := none }, [.tag "redeliver"])
  | ["ev", wall, "sent", i, k, text], _ =>
    let i := toNat! i; let k := toNat! k; let wall := toInt! wall
    let f := natList ((text.splitOn "/").getD 0 "-")
    ({ σ with pending := σ.pending ++ [(i, k, wall, text)], implSends := (i, k, wall, f) :: σ.implSends,
              roundSends := if k = 0 then σ.roundSends + 1 else σ.roundSends,
              roundSends1 := if k = 1 then σ.roundSends1 + 1 else σ.roundSends1 }, [])
  | ["ev", wall, "done", i, tick, res, ent], _ =>
    let i := toNat! i; let wall := toInt! wall; let tick := toInt! tick
    if σ.inRound ∧ σ.unsettled.getD i false ∧ !(σ.firing.isEmpty ∧ σ.resolved.isEmpty) then   -- (an empty batch passes no stage at all)
      -- gossip never settled during this flush: ClusterGossipSettleStage returns the context's error, no later stage runs.
      -- A flush reported as successful discharges the group's obligations (the dispatcher deletes the resolved alerts),
      -- although no instance was notified by it: the model takes no step, the implementation must report the failure.
      let mine := σ.pending.filter (·.1 = i)
      (({ σ with pending := σ.pending.filter (·.1 ≠ i) } : St),
        expectEq s!"done.res[{i}]" "err" res ++ expectEq s!"done.sent[{i}]" "none" (if mine.isEmpty then "none" else "sent")
        ++ expectEq s!"done.entry[{i}]" (entryOfInst σ i) ent
        ++ (if res = "ok" then
              [Msg.propfail "at_least_once" "unsettled-flush-reported-ok"
                 s!"instance={i} tick={tick}: gossip had not settled when the flush context ended, nothing was sent, the flush returned no error (firing={showNatList σ.firing} resolved={showNatList σ.resolved})"]
            else [])
        ++ (if !mine.isEmpty then
              [Msg.propfail "healthy_no_duplicate" "sent-before-gossip-settled" s!"instance={i} tick={tick}: notified although gossip had not settled"]
            else [])
        ++ [.tag (if σ.resolved.isEmpty then "unsettled:firing-only" else "unsettled:with-resolved")])
    else
    let init : St × List Msg × Bool := (σ, [], true)
    let (σ', msgs, okAll) := (List.range σ.k).foldl (fun (acc3 : St × List Msg × Bool) k =>
      let (σa, msgs, okAll) := acc3
      let c := cfgK σ k
      let cs := csK σa k
      let fl : Flush := { tick, wall, firing := σ.firing, resolved := σ.resolved, accept := σ.acc.getD (i * σ.k + k) true }
      let o := flushStep c (cs.logs i) fl
      let cs' := AM.Cluster.step c cs (.flush i fl)
      let mSent := match o.sent with
        | none => "none"
        | some n => s!"{showNatList (sortNat n.firing)}/{showNatList (sortNat n.resolved)}"
      let obsSent := σ.pending.find? (fun p => p.1 = i ∧ p.2.1 = k)
      let iSent := match obsSent with | some (_, _, _, t) => t | none => "none"
      -- C08 at_least_once on the implementation's own sends
      let pfLost := if fl.accept then
          σ.firing.foldl (fun acc x =>
            let here : Bool := match obsSent with | some (_, _, _, t) => (natList ((t.splitOn "/").getD 0 "-")).contains x | none => false
            let earlier : Bool := σ.implSends.any fun (_, k', w, f) => k' == k && f.contains x && decide (tick ≤ w + σ.cfg.repeatI)
            if here || earlier then acc else
              acc ++ [Msg.propfail "at_least_once" "lost" s!"instance={i} integration={k} alert={x} tick={tick} no instance has notified it within repeat_interval"]) []
        else []
      (setCs σa k cs', msgs ++ expectEq s!"done.sent[{i}.{k}]" mSent iSent ++ pfLost
          ++ [.tag s!"path:{repr (path c (cs.logs i) fl)}"], okAll && o.ok)) init
    let σ'' := { σ' with pending := σ.pending.filter (·.1 ≠ i) }
    (σ'', msgs ++ expectEq s!"done.res[{i}]" (if okAll then "ok" else "err") res
        ++ expectEq s!"done.entry[{i}]" (entryOfInst σ'' i) ent
        ++ (if (σ.firing.length + σ.resolved.length) ≥ 60 then [.tag "round:oversized-entry"] else []))
  | ["ev", wall, "deliver", _src, dst, k, ent], _ =>
    let k := toNat! k
    let c := cfgK σ k
    match parseEntry c.key ent with
    | none => (σ, [.diff "deliver.entry" "entry" ent])
    | some e =>
      let cs := csK σ k
      let known := cs.bcast.contains e
      let before := query (cs.logs (toNat! dst)) c.key
      let cs' := AM.Cluster.step c cs (.deliver e (toNat! dst) (toInt! wall))
      let after := query (cs'.logs (toNat! dst)) c.key
      (setCs σ k cs', (if known then [] else [Msg.diff "deliver.unknown-entry" "broadcast" ent])
        ++ [.tag (if after = before then "deliver:inert" else "deliver:merged")])
  | ["end"], _ =>
    let ents := obs.getLast?.getD ""
    let σ1 := match σ.gcInst with
      | some (i, t) => { σ with css := (List.range σ.k).map (fun k => AM.Cluster.step (cfgK σ k) (csK σ k) (.gc i t)) }
      | none => σ
    let mGc := match σ.gcInst, obs with
      | some (i, t), [n, _] =>
        -- one log per instance holds the entries of all integrations
        expectEq "gc.n" (toString ((List.range σ.k).foldl (fun a k => a + (gc t ((csK σ k).logs i)).2) 0)) n
      | _, _ => []
    let implL := (ents.splitOn ";").foldl (fun acc x => acc ++ x.splitOn "|") []
    let implPerInst := ents.splitOn ";"
    -- entry_implies_sent on the implementation's entries and sends
    let pfPhantom := implL.foldl (fun acc s =>
      match parseEntry σ.cfg.key s with
      | some e => if e.firing.isEmpty || σ.implSends.any (fun (_, _, w, f) => w == e.ts && sortNat f == sortNat e.firing) then acc
                  else acc ++ [Msg.propfail "entry_implies_sent" "phantom-entry" s!"entry={s} has no matching send"]
      | none => acc) []
    let pfDup := if σ.inRound ∧ σ.healthy ∧ (σ.roundSends > 1 ∨ σ.roundSends1 > 1) then
      [Msg.propfail "healthy_no_duplicate" "duplicate" s!"sends={σ.roundSends}/{σ.roundSends1} of one integration in one healthy round firing={showNatList σ.firing}"] else []
    let tags := (if σ.inRound ∧ σ.healthy ∧ σ.n > 1 ∧ σ.roundSends = 1 then [Msg.tag "healthy:single-send"] else [])
      ++ (if σ.inRound ∧ !σ.healthy ∧ σ.roundSends > 1 then [Msg.tag "faulty:duplicate-send"] else [])
    ({ σ1 with implEntries := implPerInst, inRound := false, gcInst := none },
      mGc ++ expectEq "end.entries" (entries σ1) ents ++ pfPhantom ++ pfDup ++ tags)
  | _, _ => (σ, [.diff "parse" "?" (" ".intercalate op)])

def engine : Engine St where
  init hdr :=
    let pos := ((kv hdr "pos").getD "0").splitOn ","
    { cfg := { key := "g:r/fake/0", repeatI := kvInt hdr "repeat" 0, retention := kvInt hdr "retention" 0,
               sendResolved := kv hdr "sr" = some "1" },
      n := pos.length, k := kvNat hdr "k" 1, css := (List.range (kvNat hdr "k" 1)).map fun _ => AM.Cluster.init }
  step := step

end Driver.Cluster
