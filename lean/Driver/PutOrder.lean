/-
  Engine `putorder` (C01, C14): two concurrent submissions of versions of one alert; after quiescence every
  group must hold the version the provider holds.
    race <alert id> <tag a> <tag b> -> <provider version> <id=version,…>
-/
import Driver.Util
import AM.Model.PutOrder

namespace Driver.PutOrder
open Driver AM.PutOrder

structure St where
  puts : List (Nat × String) := []

def step (σ : St) (op obs : List String) : St × List Msg :=
  match op, obs with
  | [kind, aid, a, b], [pv, groups] =>
    if kind ≠ "race" ∧ kind ≠ "racei" ∧ kind ≠ "stale" then (σ, [.diff "parse" "?" kind]) else
    let id := toNat! aid
    -- the second submission starts once the first is stored; with the store-and-publish step atomic the
    -- first one has the lock until it has published
    -- `stale`: what the provider keeps of two sequential submissions with inverted stamps is decided by
    -- Alert.Merge / Put (C13); here the stored version is an input and only "group = provider" is checked
    let puts := if kind = "stale" then σ.puts ++ [(id, pv)] else σ.puts ++ [(id, a), (id, b)]
    let tr := atomicTrace puts
    let mStored := (stored id tr).getD "none"
    let gv := ((splitList "," groups).filterMap fun kv =>
      match kv.splitOn "=" with
      | [i, v] => if toNat! i = id then some v else none
      | _ => none).headD "none"
    let pf := if gv = pv then [] else
      [Msg.propfail "group_holds_stored_version" "publish-reorder" s!"alert={id} provider holds {pv}, its group holds {gv}"]
    ({ puts }, expectEq "race.stored" mStored pv ++ expectEq "race.group" ((applied id tr).getD "none") gv ++ pf ++ [.tag kind])
  | _, _ => (σ, [.diff "parse" "?" (" ".intercalate op)])

def engine : Engine St where
  init _ := {}
  step := step

end Driver.PutOrder
