/-
  Engine `sem` (C18): replays the trace of the real `api.limitHandler` (reached
  through `API.Register`'s mux) on `AM.Sem`.

    case <id> cap=<n>
    get <k> block   -> entered|503 <running> <gauge> <refused>     (handler blocks until released)
    get <k> quick   -> 200|503 <running> <gauge> <refused>         (handler returns at once)
    getv2 <k>       -> 200|503 <running> <gauge> <refused>         (GET /api/v2/silences: the API's own mount point, same limiter)
    post <k> block  -> entered|<code> <running> <gauge> <refused>
    release <k>     -> <code> <running> <gauge> <refused>
  running = GET handlers the harness sees inside the inner handler; gauge =
  alertmanager_http_requests_in_flight; refused = …_concurrency_limit_exceeded_total.
-/
import Driver.Util
import AM.Model.Sem

namespace Driver.Sem
open Driver AM.Sem

structure St where
  m : AM.Sem.St := { cap := 0 }
  gets : List Nat := []     -- blocked GETs (ordinals) the model admitted
  posts : List Nat := []
  answered : List Nat := []   -- requests the API timeout has answered; their handlers still run and hold their slots
  implRunning : Nat := 0
  implRefused : Nat := 0

def common (σ : St) (what : String) (running gauge refused : String) : List Msg :=
  expectEq s!"{what}.running" (toString σ.m.inflight) running
  ++ expectEq s!"{what}.gauge" (toString σ.m.inflight) gauge
  ++ expectEq s!"{what}.refused" (toString σ.m.refused) refused
  ++ (if toNat! running > σ.m.cap ∨ toNat! gauge > σ.m.cap then
        [Msg.propfail "inflight_le_cap" "over-cap" s!"running={running} gauge={gauge} cap={σ.m.cap}"] else [])

/-- a GET reaches the limiter; `kind` = block (the handler waits for `release`) or quick (it returns at once) -/
def getStep (σ : St) (k kind res running gauge refused : String) : St × List Msg :=
    let (m', out) := arrive σ.m
    let blocked := kind = "block"
    let mres := match out with
      | some c => toString c
      | none => if blocked then "entered" else "200"
    -- a quick GET releases its slot before we look
    let m'' := if out.isNone ∧ !blocked then AM.Sem.step m' .getDone else m'
    let σ' := { σ with m := m'', gets := if out.isNone ∧ blocked then toNat! k :: σ.gets else σ.gets }
    let wasFull := σ.implRunning ≥ σ.m.cap
    let pf : List Msg :=
      (if res = "503" ∧ !wasFull then [Msg.propfail "refused_gets_503_and_counter" "spurious-503" s!"running-before={σ.implRunning} cap={σ.m.cap}"] else [])
      ++ (if res ≠ "503" ∧ wasFull then [Msg.propfail "refused_gets_503_and_counter" "no-503" s!"answer={res} running-before={σ.implRunning} cap={σ.m.cap}"] else [])
      ++ (if res = "503" ∧ toNat! refused ≠ σ.implRefused + 1 then [Msg.propfail "refused_gets_503_and_counter" "uncounted" s!"counter {σ.implRefused}->{refused}"] else [])
      ++ (if res ≠ "503" ∧ toNat! refused ≠ σ.implRefused then [Msg.propfail "refused_gets_503_and_counter" "phantom-count" s!"counter {σ.implRefused}->{refused}"] else [])
    ({ σ' with implRunning := toNat! running, implRefused := toNat! refused },
      expectEq "get.res" mres res ++ common σ' "get" running gauge refused ++ pf
        ++ [if out.isSome then .tag "get:refused" else if blocked then .tag "get:admitted-blocking" else .tag "get:quick"])

def step (σ : St) (op obs : List String) : St × List Msg :=
  match op, obs with
  | ["get", k, kind], [res, running, gauge, refused] => getStep σ k kind res running gauge refused
  | ["getv2", k], [res, running, gauge, refused] =>
    -- a GET on the API's own mount point (<prefix>/api/v2/): the same limiter, the handler returns at once
    let (σ', msgs) := getStep σ k "quick" res running gauge refused
    (σ', msgs ++ [.tag (if res = "503" then "getv2:refused" else "getv2:admitted")])
  | ["post", k, _], [res, running, gauge, refused] =>
    let σ' := { σ with m := AM.Sem.step σ.m .postArrive, posts := toNat! k :: σ.posts }
    let pf : List Msg :=
      (if res ≠ "entered" then [Msg.propfail "posts_unlimited" "post-refused" s!"answer={res} running={σ.implRunning} cap={σ.m.cap}"] else [])
      ++ (if toNat! refused ≠ σ.implRefused then [Msg.propfail "posts_unlimited" "post-counted" s!"counter {σ.implRefused}->{refused}"] else [])
    ({ σ' with implRunning := toNat! running, implRefused := toNat! refused },
      expectEq "post.res" "entered" res ++ common σ' "post" running gauge refused ++ pf
        ++ (if σ.m.inflight = σ.m.cap then [.tag "post:while-full"] else [.tag "post"]))
  | ["release", k], [res, running, gauge, refused] =>
    let k := toNat! k
    let isGet := σ.gets.contains k
    let m' := if isGet then AM.Sem.step σ.m .getDone else AM.Sem.step σ.m .postDone
    let σ' := { σ with m := m', gets := σ.gets.erase k, posts := σ.posts.erase k }
    ({ σ' with implRunning := toNat! running, implRefused := toNat! refused, answered := σ.answered.erase k },
      expectEq "release.res" (if σ.answered.contains k then "503" else "200") res ++ common σ' "release" running gauge refused
        ++ [.tag (if σ.answered.contains k then "release:after-timeout" else "release")])
  | ["timeout"], [codes, running, gauge, refused] =>
    -- the API timeout answers every request still inside its handler with 503; the slots stay taken
    let pendingKs := (σ.gets ++ σ.posts).filter (fun k => !σ.answered.contains k)
    let insNat (x : Nat) (l : List Nat) : List Nat := (l.filter (· < x)) ++ [x] ++ (l.filter (· ≥ x))
    let sorted := pendingKs.foldl (fun acc x => insNat x acc) []
    let want := joinList "," (sorted.map fun k => s!"{k}:503")
    ({ σ with answered := σ.answered ++ pendingKs, implRunning := toNat! running, implRefused := toNat! refused },
      expectEq "timeout.answered" want codes ++ common σ "timeout" running gauge refused ++ [.tag "timeout"])
  | _, _ => (σ, [.diff "parse" "?" (" ".intercalate op)])

def engine : Engine St where
  init hdr := { m := { cap := kvNat hdr "cap" 0 } }
  step := step

end Driver.Sem
