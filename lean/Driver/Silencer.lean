/-
  Engine `silencer` (C02): one real `silence.Silences` + `silence.Silencer`;
  the trace is replayed on `AM.Silence` (store) and `AM.Silence.mutes` (cache),
  and every `Mutes` answer is compared with the brute-force evaluation of the
  implementation's own dump (`mutes_eq_bruteforce`, classes verdict /
  silencedBy / revival — see Driver/SilenceUtil.lean).

  Interleaved calls (`imutes`: store operations between the steps of one
  `Mutes`) are replayed on the micro-step model `mutesI`; their own answers are
  held against the bracket of `mutes_interleaved_bracket`, and what they leave
  in the cache is tested by every later `mutes` (class
  `interleaved-update-lost`).

    case <id> retention=<ns> fix=<0|1>
    <common op> 0 …
    imutes 0 <now> <ls> <pt>~<op>~0~… … -> <v> <by> <pt>~<obs…>|<pt>~- …
-/
import Driver.SilenceUtil

namespace Driver.Silencer
open Driver Driver.Sil AM AM.Silence

structure St where
  cfg : Cfg := {}
  inst : Inst := {}

def step (σ : St) (op obs : List String) : St × List Msg :=
  match op with
  | o :: _i :: rest =>
    match stepSil σ.cfg σ.inst (o :: rest) obs with
    | some (x, msgs) => ({ σ with inst := x }, msgs)
    | none => (σ, [.diff "parse" "?" (" ".intercalate op)])
  | _ => (σ, [.diff "parse" "?" (" ".intercalate op)])

def engine : Engine St where
  init hdr := { cfg := { retention := kvInt hdr "retention" 0, maxSil := kvNat hdr "maxsil" 0,
                         fix := kv hdr "fix" ≠ some "0", merges := true } }
  step := step

end Driver.Silencer
