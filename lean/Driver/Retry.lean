/-
  Engine `retry` (C20): the real receiver pipeline (PipelineBuilder.New →
  … Wait, Dedup, Retry, SetNotifies per integration, fanned out) with scripted
  notifiers and a fake notification log, under virtual time.

    case <id> D=<ns> wait=<ns> alerts=<f|r '.'-joined> prev=<0|1>
    integ <idx> <sr 0|1> <script: o:dur,…  (o = ok|rec|unrec|hang)>      -> ok
    exec                                                                   -> started
    att <idx> <k>   -> <start> <end> <ok|rec|unrec|ctx> <nalerts> <nresolved>     (observation)
    res <idx>       -> <noerror|waitctx|unrec:N|deadline:N:last|deadline:N:ctx> nlog=<n> logtime=<ns|-1>
    done            -> err=<0|1> ret=<ns>
    order <which>   -> <stage names ','-joined>        (go/ast fact check of the stage order)
  Attempts beyond the script are recoverable, 10 ms.  Times are relative to `exec`.
-/
import Driver.Util
import AM.Model.Retry
import AM.Model.Fanout

namespace Driver.Retry
open Driver AM.Retry AM.Fanout

structure ObsAtt where
  start : Int
  stop : Int
  ret : String
  nalerts : Nat
  nresolved : Nat

structure Integ where
  idx : String
  sr : Bool
  script : List (Outcome × Int)
  atts : List ObsAtt := []
  res : String := ""

structure St where
  D : Int := 0
  wait : Int := 0
  nFiring : Nat := 0
  nResolved : Nat := 0
  prev : Bool := false
  integs : List Integ := []
  failed : List Bool := []      -- per finished integration: the implementation reported an error for it

def parseOutcome (s : String) : Outcome :=
  if s = "ok" then .ok else if s = "unrec" then .unrecoverable else if s = "hang" then .hang else .recoverable

def parseScript (s : String) : List (Outcome × Int) :=
  (splitList "," s).filterMap fun e =>
    match e.splitOn ":" with
    | [o, d] => some (parseOutcome o, toInt! d)
    | _ => none

def scriptAt (sc : List (Outcome × Int)) (k : Nat) : Outcome × Int := sc.getD k (.recoverable, 10000000)

def showRet : Ret → String
  | .ok => "ok" | .recoverable => "rec" | .unrecoverable => "unrec" | .ctxErr => "ctx"

def showRes (r : Res) : String :=
  match r with
  | .success _ => "noerror"
  | .unrecoverable n => s!"unrec:{n}"
  | .deadline n true => s!"deadline:{n}:last"
  | .deadline n false => s!"deadline:{n}:ctx"

def upd (l : List Integ) (idx : String) (f : Integ → Integ) : List Integ :=
  l.map fun i => if i.idx = idx then f i else i

def finish (σ : St) (ig : Integ) (res : String) (nlog : Nat) (logtime : Int) : List Msg :=
  let n := ig.atts.length
  let atts : List Att := (List.range n).map fun k =>
    let o := ig.atts.getD k ⟨0, 0, "", 0, 0⟩
    let sc := scriptAt ig.script k
    { start := o.start, out := sc.1, dur := sc.2 }
  let dedupPass := σ.prev ∨ σ.nFiring > 0
  let nothing := !ig.sr ∧ σ.nFiring = 0
  let mres := stage ig.sr σ.nFiring σ.D atts
  let mchain := multi (chain (if σ.wait ≥ σ.D then .err else .pass) (if dedupPass then .pass else .empty) mres .pass)
  let mlogged := mchain.1.contains "setnotifies"
  let okAtt := ig.atts.find? (·.ret = "ok")
  let sentWant := if ig.sr then σ.nFiring + σ.nResolved else σ.nFiring
  -- model vs implementation
  let waitFails := σ.wait ≥ σ.D
  let diffs : List Msg :=
    (if waitFails then expectEq "res" "waitctx" res ++ expectEq "attempts" "0" (toString n)
     else if !dedupPass then expectEq "res" "noerror" res ++ expectEq "attempts" "0" (toString n)
     else expectEq "res" (showRes mres) res ++ expectEq "attempts" (toString mres.attempts) (toString n))
    ++ expectEq "logged" (if mlogged then "1" else "0") (toString nlog)
    ++ (List.range n).foldl (fun acc k =>
          let o := ig.atts.getD k ⟨0, 0, "", 0, 0⟩
          let a := atts.getD k default
          acc ++ expectEq s!"att{k}.ret" (showRet (ret σ.D a).1) o.ret ++ expectEq s!"att{k}.end" (toString (ret σ.D a).2) (toString o.stop)) []
  -- spec predicates on the implementation's own observations
  let lastIdx := n - 1
  let pf : List Msg :=
    ((List.range n).foldl (fun acc k =>
        let o := ig.atts.getD k ⟨0, 0, "", 0, 0⟩
        acc ++ (if (o.ret = "unrec" ∨ o.ret = "ok") ∧ k < lastIdx then
                  [Msg.propfail "unrecoverable_not_retried" (if o.ret = "unrec" then "retried-unrecoverable" else "retried-after-success")
                     s!"integration {ig.idx}: attempt {k} returned {o.ret}, {n} attempts made"] else [])
            ++ (if o.start ≥ σ.D then [Msg.propfail "recoverable_retried_until_deadline" "attempt-after-deadline" s!"integration {ig.idx}: attempt {k} at {o.start} ≥ D={σ.D}"] else [])
            ++ (if o.nalerts ≠ sentWant ∨ (!ig.sr ∧ o.nresolved ≠ 0) then
                  [Msg.propfail "sent_spec" "wrong-batch" s!"integration {ig.idx} sr={ig.sr}: got {o.nalerts} alerts ({o.nresolved} resolved), batch has {σ.nFiring} firing {σ.nResolved} resolved"] else [])) [])
    ++ (if res = "noerror" ∧ okAtt.isNone ∧ !nothing ∧ dedupPass then
          [Msg.propfail "failure_reported" "silent-failure" s!"integration {ig.idx}: no call returned success, stage reported success"] else [])
    ++ (if dedupPass ∧ !nothing ∧ n > 0 ∧ ig.atts.all (fun o => o.ret = "rec" ∨ o.ret = "ctx") then
          (if !(res.startsWith "deadline") then [Msg.propfail "recoverable_retried_until_deadline" "gave-up" s!"integration {ig.idx}: only recoverable errors, result {res}"] else [])
          ++ (if !noEarlyStop σ.D lastIdx (atts.getD lastIdx default) then
                [Msg.propfail "recoverable_retried_until_deadline" "gave-up-early" s!"integration {ig.idx}: last attempt {lastIdx} at {(atts.getD lastIdx default).start}, next tick was due before D={σ.D}"] else [])
        else [])
    ++ (if !okTimes σ.D 0 atts then [Msg.propfail "recoverable_retried_until_deadline" "backoff-window" s!"integration {ig.idx}: attempt instants {ig.atts.map (·.start)} outside the backoff windows"] else [])
    ++ (if nlog > 0 ∧ okAtt.isNone ∧ !nothing then
          [Msg.propfail "log_only_after_success" "logged-without-success" s!"integration {ig.idx}: result {res}, notification log written"] else [])
    ++ (match okAtt with
        | some o => (if nlog > 0 ∧ logtime < o.stop then [Msg.propfail "log_only_after_success" "logged-before-success" s!"integration {ig.idx}: logged at {logtime}, success at {o.stop}"] else [])
                    ++ (if nlog = 0 then [Msg.propfail "success_is_logged" "success-not-logged" s!"integration {ig.idx}: delivered at {o.stop}, never recorded"] else [])
        | none => [])
    ++ (if nlog > 1 then [Msg.propfail "log_only_after_success" "logged-twice" s!"integration {ig.idx}: {nlog} log writes"] else [])
    -- `sibling_isolated` / `recoverable_retried_until_deadline` on the implementation's own observations: an integration
    -- that has something to send and whose cluster wait ends before the flush deadline makes its first attempt (at the
    -- end of the wait), whatever its siblings do - hang, fail until the deadline - and however many they are
    ++ (if !waitFails ∧ dedupPass ∧ !nothing ∧ n = 0 then
          (if σ.integs.length > 1 then
             [Msg.propfail "sibling_isolated" "starved-by-siblings"
               s!"integration {ig.idx} of {σ.integs.length}: never attempted (result {res}, {nlog} log writes) although its wait ends at {σ.wait} < D={σ.D}"]
           else [Msg.propfail "recoverable_retried_until_deadline" "never-attempted" s!"integration {ig.idx}: no attempt, result {res}, wait={σ.wait} D={σ.D}"])
        else [])
    ++ (match ig.atts.head? with
        | some o => if o.start ≠ σ.wait then
            (if σ.integs.length > 1 then [Msg.propfail "sibling_isolated" "delayed-by-sibling" s!"integration {ig.idx}: first attempt at {o.start}, expected {σ.wait}"]
             else [Msg.diff "att0.start" (toString σ.wait) (toString o.start)]) else []
        | none => [])
  let tags : List Msg :=
    (match mres with
     | .success k => if nothing then [.tag "res:nothing-to-send"] else if k > 1 then [.tag "res:success-after-retry"] else [.tag "res:success-first"]
     | .unrecoverable k => if k > 1 then [.tag "res:unrecoverable-after-retry"] else [.tag "res:unrecoverable-first"]
     | .deadline _ true => [.tag "res:deadline-last-error"]
     | .deadline _ false => [.tag "res:deadline-ctx"])
    ++ (if !dedupPass then [.tag "dedup:nothing"] else [])
    ++ (if waitFails then [.tag "wait:deadline"] else [])
    ++ (if ig.atts.any (·.ret = "ctx") then [.tag "att:cut-by-deadline"] else [])
    ++ (if n ≥ 4 then [.tag "att:4+"] else [])
    ++ (if σ.integs.length > 4 then [.tag "fanout:5+"] else [])
    ++ (if σ.integs.length > 4 ∧ okAtt.isSome ∧
           ((σ.integs.takeWhile (·.idx ≠ ig.idx)).filter fun j => !j.atts.isEmpty ∧ j.atts.all (fun o => o.ret = "rec" ∨ o.ret = "ctx")).length ≥ 4
        then [.tag "fanout:healthy-behind-4-failing"] else [])
  diffs ++ pf ++ tags

def step (σ : St) (op obs : List String) : St × List Msg :=
  match op, obs with
  | ["integ", idx, sr, script], _ =>
    ({ σ with integs := σ.integs ++ [{ idx, sr := sr = "1", script := parseScript script }] }, [])
  | ["exec"], _ => (σ, [])
  | ["att", idx, _k], [s, e, r, na, nr] =>
    ({ σ with integs := upd σ.integs idx fun i => { i with atts := i.atts ++ [⟨toInt! s, toInt! e, r, toNat! na, toNat! nr⟩] } }, [])
  | ["res", idx], [res, nlog, logtime] =>
    match σ.integs.find? (·.idx = idx) with
    | none => (σ, [.diff "res" "known integration" idx])
    | some ig =>
      let msgs := finish σ ig res (kvNat [nlog] "nlog" 0) (kvInt [logtime] "logtime" (-1))
      ({ σ with failed := σ.failed ++ [decide (res ≠ "noerror")] }, msgs)
  | ["done"], [err, ret] =>
    let anyFailed := σ.failed.any id
    let e := kv [err] "err" = some "1"
    let r := kvInt [ret] "ret" 0
    let pf : List Msg :=
      (if anyFailed ∧ !e then [Msg.propfail "failure_reported" "silent-failure" s!"an integration failed, the flush returned no error"] else [])
      ++ (if !anyFailed ∧ e then [Msg.propfail "failure_reported" "phantom-failure" s!"no integration failed, the flush returned an error"] else [])
      ++ (if r > σ.D then [Msg.propfail "recoverable_retried_until_deadline" "returned-after-deadline" s!"ret={r} D={σ.D}"] else [])
    (σ, pf ++ (if σ.integs.length > 1 ∧ anyFailed ∧ σ.failed.any (!·) then [.tag "fanout:mixed"] else []))
  | ["order", which], [names] =>
    if which = "createReceiverStage" then
      (σ, expectEq "stage-order" (",".intercalate receiverOrder) names ++ [.tag "order:checked"])
    else
      (σ, expectEq "pipeline-order" "gossipsettle,inhibit,timeactive,timemute,silence,receiver" names)
  | _, _ => (σ, [.diff "parse" "?" (" ".intercalate op)])

def init (hdr : List String) : St :=
  let as := splitList "." ((kv hdr "alerts").getD "-")
  { D := kvInt hdr "D" 0, wait := kvInt hdr "wait" 0,
    nFiring := (as.filter (· = "f")).length, nResolved := (as.filter (· = "r")).length,
    prev := kv hdr "prev" = some "1" }

def engine : Engine St where
  init := init
  step := step

end Driver.Retry
