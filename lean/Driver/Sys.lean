/-
  Engine `sys` (C01, C04, C05): trace acceptor for the assembled single instance
  (real provider + dispatcher + pipeline + nflog).  The model is
  `AM.Group` (store / timer) + `AM.Dedup` over `AM.Nflog` (pipeline tail);
  delivery instants and accept/reject per attempt are trace inputs (back-off
  jitter is random), everything else is predicted and compared.

    case <id> gw= gi= repeat= retention= sr=<bits> inh=<s>t.s>t|-> mute=<a-b|-> active=<a-b|->
    post <now> <id> <start> <end>            -> <start> <end> <upd> | notstored
    adv <now> | sil <now> <id> <dur> | unsil <now> <id> | mode <now> <i> <m> <lat>
    nfgc <now> -> <n> | restart <now> | groups <now> -> <dump>
    ev flush <wall> <g> 0 <tick> <id:f|r:ends:upd,…>
    ev sent  <wall> <g> <i> <firing>/<id@ends.…>     ev try <wall> <g> <i> <kind>
    ev end   <wall> <g> 0 <ok|err> <entry;entry>     entry = ts,firing,resolved | none
-/
import Driver.Util
import AM.Model.Dedup
import AM.Model.Group
import AM.Model.Suppress

namespace Driver.Sys
open Driver AM AM.AList AM.Nflog AM.Dedup AM.Group

structure Sil where
  id : Nat
  from_ : Int
  until_ : Int

structure Inflight where
  tick : Int
  wall : Int
  snap : List GAlert
  firing : List Nat
  resolved : List Nat
  sents : List (Nat × Int × String) := []
  tries : Nat := 0
  paths : List Path := []          -- per integration, decided at flush start (accept assumed)
  supp : List (Nat × String) := [] -- alerts withheld by this flush and why (silenced | inhibited | time-muted)
  before : String := ""            -- model entries at flush start
  tm : Bool := false               -- the route is time-muted at the flush's tick
  allSil : Bool := false           -- every alert of the flush is silenced
  gateRun : Bool := false          -- some alert passes the inhibit stage: the time stages run and write the group marker

structure GSt where
  g : Group
  altTick : Option Int := none        -- after a dispatcher restart the creating alert is not determined
  created : Int := 0
  inflight : Option Inflight := none
  lastEnd : Int := 0
  lastEntries : String := ""
  prevSupp : List (Nat × String) := []   -- what the previous flush of this group withheld, and why

structure St where
  gw : Int := 0
  gi : Int := 0
  repeatI : Int := 0
  retention : Int := 0
  srs : List Bool := []
  groups : List (String × GSt) := []
  provider : AList Nat GAlert := []
  nf : State := []
  sils : List Sil := []
  modes : List (String × Int) := []
  lastModeChange : Int := 0
  lastRestart : Int := 0
  limit : Nat := 0                      -- MaxNumberOfAggregationGroups, 0 = none
  gm : GMap := {}                       -- AM.Group.GMap: mapped group keys (live / destroyed, not yet collected) and the counter
  maintBase : Int := 0                  -- start of the dispatcher's maintenance ticker
  lastT : Int := 0
  limitedAt : List (Nat × Int) := []    -- alerts refused a group by the limit (id, instant)
  inh : List (Nat × Nat) := []          -- inhibition rules (source id, target id), no equal labels
  mute : Option (Int × Int) := none     -- the route's mute interval: minutes of the day [a, b)
  active : Option (Int × Int) := none   -- the route's active interval

def groupOf (id : Nat) : String := if id ≤ 2 then "a" else "b"
def keyOf (g : String) (i : Nat) : String := "{}:{g=\"" ++ g ++ "\"}" ++ s!":r/fake/{i}"

def getG (σ : St) (g : String) : Option GSt := σ.groups.lookup g
def setG (σ : St) (g : String) (x : GSt) : St :=
  { σ with groups := (σ.groups.filter (·.1 ≠ g)) ++ [(g, x)] }
def delG (σ : St) (g : String) : St := { σ with groups := σ.groups.filter (·.1 ≠ g) }

def insSorted (x : String) : List String → List String
  | [] => [x]
  | y :: ys => if x ≤ y then x :: y :: ys else y :: insSorted x ys
def sortStr (l : List String) : List String := l.foldl (fun acc x => insSorted x acc) []

def insNat (x : Nat) : List Nat → List Nat
  | [] => [x]
  | y :: ys => if x ≤ y then x :: y :: ys else y :: insNat x ys
def sortNat (l : List Nat) : List Nat := l.foldl (fun acc x => insNat x acc) []

def silenced (σ : St) (id : Nat) (t : Int) : Bool :=
  σ.sils.any fun s => s.id = id ∧ s.from_ ≤ t ∧ t ≤ s.until_

def silencedDuring (σ : St) (id : Nat) (a b : Int) : Bool :=
  σ.sils.any fun s => s.id = id ∧ s.from_ ≤ b ∧ a ≤ s.until_

/-- Inhibitor.Mutes: some rule targets the alert and its source alert is held and not resolved (wall clock). -/
def inhibited (σ : St) (id : Nat) (t : Int) : Bool :=
  σ.inh.any fun r => r.2 == id && (match lookup σ.provider r.1 with | some a => !a.resolvedAt t | none => false)

/-- conservative: some source of a rule targeting the alert was held and unresolved somewhere in [a, b] -/
def inhibitedDuring (σ : St) (id : Nat) (a _b : Int) : Bool :=
  σ.inh.any fun r => r.2 == id && (match lookup σ.provider r.1 with | some x => !x.resolvedAt a | none => false)

def minuteOf (t : Int) : Int := (t / 60000000000) % 1440
def inRange (r : Int × Int) (t : Int) : Bool := r.1 ≤ minuteOf t ∧ minuteOf t < r.2

/-- TimeActiveStage / TimeMuteStage, both on the flush tick (`notify.Now`): the whole flush is dropped -/
def timeMuted (σ : St) (tick : Int) : Bool :=
  (match σ.active with | some r => !inRange r tick | none => false) ||
  (match σ.mute with | some r => inRange r tick | none => false)

def timeMutedDuring (σ : St) (a b : Int) : Bool :=
  (σ.mute.isSome ∨ σ.active.isSome) ∧
  (List.range 4).any fun k => timeMuted σ (a - 60000000000 + (k : Int) * 60000000000) ∧ a - 60000000000 + (k : Int) * 60000000000 ≤ b + 60000000000

def showContent (g : Group) (wall : Int) : String :=
  joinList "," (sortStr ((partition g wall).map fun (a, r) =>
    if r then s!"{a.id}:r:{a.ends}:{a.upd}" else s!"{a.id}:f:-1:{a.upd}"))

def showGroups (σ : St) : String :=
  joinList ";" (sortStr (σ.groups.filterMap fun (name, gs) =>
    if gs.g.alerts.isEmpty then none else
    some (name ++ "=" ++ joinList "," (sortStr (gs.g.alerts.map fun kv => s!"{kv.2.id}:{kv.2.ends}:{kv.2.upd}")))))

def showEntry3 (o : Option Entry) : String :=
  match o with
  | none => "none"
  | some e => s!"{e.ts},{showNatList (sortNat e.firing)},{showNatList (sortNat e.resolved)}"

def entriesOf (σ : St) (g : String) : String :=
  if σ.srs.isEmpty then "-" else
  ";".intercalate ((List.range σ.srs.length).map fun i => showEntry3 (query σ.nf (keyOf g i)))

def parseEntry3 (k : String) (s : String) : Option Entry :=
  match s.splitOn "," with
  | [ts, f, r] => some { key := k, ts := toInt! ts, exp := 0, firing := natList f, resolved := natList r, data := "-" }
  | _ => none

def timeoutOf (σ : St) : Int := if σ.gi < 10000000000 then 10000000000 else σ.gi

def maintPeriod : Int := 15007618033

def step0 (σ : St) (op obs : List String) : St × List Msg :=
  match op, obs with
  | ["post", now, id, _start, _end], [s, e, u] =>
    let now := toInt! now; let id := toNat! id
    let a : GAlert := { id, starts := toInt! s, ends := toInt! e, upd := toInt! u }
    -- mem.Alerts.Put (C13 refire_after_end_starts_anew, C06 "re-created with a fresh group_wait by the next alert"): a submission that
    -- starts at or after the instant the stored episode ended does not overlap it and keeps its own start
    let pStart := toInt! _start; let pEnd := toInt! _end
    let pfRefire : List Msg := match lookup σ.provider id with
      | some old =>
        if old.ends ≤ pStart ∧ pStart ≤ pEnd then
          (if a.starts = pStart then [Msg.tag (if old.ends = pStart then "post:refire-at-old-end" else "post:refire-after-old-end")]
           else [Msg.propfail "refire_after_end_starts_anew" "merged-without-overlap"
                   (s!"alert={id} now={now}: the stored episode [{old.starts}, {old.ends}] had ended when the submission [{pStart}, {pEnd}] starts, stored start={a.starts}" ++
                   (if a.starts + σ.gw < now ∧ ¬ (pStart + σ.gw < now) then " (a group re-created for it is flushed at once instead of after group_wait)" else ""))])
        else []
      | none => []
    let σ := { σ with provider := put σ.provider id a }
    let g := groupOf id
    match getG σ g with
    | some gs =>
      match insert gs.g a with
      | some g' => (setG σ g { gs with g := g' }, [.tag (if gs.inflight.isSome then "post:during-flush" else "post:existing")]
                      ++ (if a.resolvedAt now then [.tag "post:resolved"] else []) ++ pfRefire)
      | none => (setG σ g { g := create now σ.gw a, created := now }, [.tag "post:recreate"] ++ pfRefire)
    | none =>
      -- groupAlert: the counter follows the map (live groups + destroyed ones not yet collected); a destroyed
      -- group still mapped is replaced in place (CompareAndSwap) without touching the counter
      let (gm', admitted) := gstep σ.limit σ.gm (.ingest g)
      if !admitted then
        ({ σ with limitedAt := (id, now) :: σ.limitedAt }, [.tag "post:limited"] ++ pfRefire)
      else
        let σ' := { σ with gm := gm' }
        (setG σ' g { g := create now σ.gw a, created := now },
          [.tag (if σ.gm.dead.contains g then "post:recreate-cas" else if a.starts + σ.gw < now then "post:create-old" else "post:create")] ++ pfRefire)
  | ["post", _, _, _, _], ["notstored"] => (σ, [.diff "post" "stored" "notstored"])
  | ["adv", _], _ => (σ, [])
  | ["sil", now, id, dur], ["ok"] =>
    let now := toInt! now
    ({ σ with sils := { id := toNat! id, from_ := now, until_ := now + toInt! dur } :: σ.sils }, [.tag "sil"])
  | ["sil", _, _, _], _ => (σ, [.diff "sil" "ok" (" ".intercalate obs)])
  | ["unsil", now, id], ["ok"] =>
    let now := toInt! now; let id := toNat! id
    -- Expire ends the most recently created silence of this id (a no-op when it already ended)
    let rec upd : List Sil → List Sil
      | [] => []
      | s :: rest => if s.id = id then (if s.until_ < now then s else { s with until_ := now }) :: rest else s :: upd rest
    ({ σ with sils := upd σ.sils }, [.tag "unsil"])
  | ["unsil", _, _], _ => (σ, [])
  | ["mode", now, i, m, lat], _ =>
    let i := toNat! i
    let modes := (List.range σ.srs.length).map fun j => if j = i then (m, toInt! lat) else σ.modes.getD j ("ok", 0)
    ({ σ with modes := modes, lastModeChange := toInt! now }, [])
  | ["nfgc", now], [n] =>
    let (nf', k) := gc (toInt! now) σ.nf
    let dbg := joinList ";" (σ.nf.map fun kv => s!"{kv.1}@{kv.2.ts}/{kv.2.exp}")
    ({ σ with nf := nf' }, expectEq "nfgc.n" (toString k ++ (if toString k = n then "" else " state=" ++ dbg)) n ++ (if k > 0 then [.tag "nfgc:removed"] else []))
  | ["restart", now], _ =>
    let now := toInt! now
    -- SlurpAndSubscribe: every alert the provider still holds is routed again, in map order
    let groups := σ.provider.foldl (fun (acc : List (String × GSt)) kv =>
      let a := kv.2
      let g := groupOf a.id
      let old := a.starts + σ.gw < now
      match acc.lookup g with
      | some gs =>
        let grp : Group := { alerts := put gs.g.alerts a.id a, destroyed := false, nextTick := gs.g.nextTick }
        let gs' : GSt := { gs with g := grp, altTick := if old then some now else gs.altTick }
        (acc.filter (·.1 ≠ g)) ++ [(g, gs')]
      | none => acc ++ [(g, { g := { alerts := [(a.id, a)], destroyed := false, nextTick := now + σ.gw },
                              altTick := if old then some now else none, created := now })]) []
    -- a fresh dispatcher: empty map, every restored group is a LoadOrStore (the generator never restarts under limit 1)
    let gm := groups.foldl (fun m kv => (gstep 0 m (.ingest kv.1)).1) ({} : GMap)
    ({ σ with groups := groups, lastRestart := now, gm := gm, maintBase := now }, [.tag "restart"])
  | ["groups", now], [dmp] =>
    let now := toInt! now
    let w := (if σ.gw < σ.gi then σ.gi else σ.gw) + 11000000000
    -- C01 on the implementation's own dump and log entries: an alert firing and eligible for a
    -- whole window must be listed as firing by the last recorded delivery of every integration
    let pf : List Msg := (splitList ";" dmp).foldl (fun acc grp =>
      match grp.splitOn "=" with
      | [name, as] =>
        let ent := match getG σ name with | some gs => gs.lastEntries | none => ""
        (splitList "," as).foldl (fun acc a =>
          match a.splitOn ":" with
          | [id, ends, upd] =>
            let id := toNat! id
            let eligible := toInt! ends > now ∧ toInt! upd + w < now ∧ !silencedDuring σ id (now - w) now
              ∧ !inhibitedDuring σ id (now - w) now ∧ !timeMutedDuring σ (now - w) now
              ∧ σ.lastModeChange + w < now ∧ σ.lastRestart + w < now ∧ σ.modes.all (fun m => m.1 = "ok" ∧ m.2 = 0)
            if eligible then
              (List.range σ.srs.length).foldl (fun acc i =>
                let listed := match parseEntry3 "" ((ent.splitOn ";").getD i "none") with
                  | some e => e.firing.contains id
                  | none => false
                if listed then acc ++ [Msg.tag "eligible:listed"]
                else acc ++ [Msg.propfail "eligible_listed_within_bound" "not-notified"
                        s!"alert={id} group={name} integration={i} now={now} entries={ent}"]) acc
            else acc
          | _ => acc) acc
      | _ => acc) []
    (σ, expectEq "groups" (showGroups σ) dmp ++ pf)
  | ["ev", "flush", wall, g, _, tick, content], _ =>
    let wall := toInt! wall; let tick := toInt! tick
    match getG σ g with
    | none => (σ, [.propfail "no_orphan_live_group" "flush-unknown-group" s!"group={g} wall={wall}"])
    | some gs =>
      let tickOk := tick = gs.g.nextTick ∨ gs.altTick = some tick
      let m1 := if tickOk then [] else
        [Msg.diff "flush.tick" (toString gs.g.nextTick) (toString tick)] ++
        (if tick > gs.g.nextTick then [Msg.propfail "flush_gap_le" "late-tick" s!"group={g} expected={gs.g.nextTick} got={tick}"] else [])
      let expWall := if tick < gs.lastEnd then gs.lastEnd else tick
      let m2 := expectEq "flush.wall" (toString expWall) (toString wall)
      let want := showContent gs.g wall
      let m3 := expectEq "flush.content" want content
      -- C05/C06 predicates on what the implementation handed to the pipeline
      let implIds := (splitList "," content).filterMap fun a => (a.splitOn ":").head?.map toNat!
      let pfLost := gs.g.alerts.foldl (fun acc kv =>
        if implIds.contains kv.1 then acc else acc ++ [Msg.propfail "flush_lists_all" "lost-alert" s!"group={g} alert={kv.1} wall={wall}"]) []
      let pfEarly := (splitList "," content).foldl (fun acc a =>
        match a.splitOn ":" with
        | [id, "r", ends, _] => if toInt! ends > wall then acc ++ [Msg.propfail "never_resolved_early" "resolved-early" s!"alert={id} ends={ends} wall={wall}"] else acc
        | _ => acc) []
      let part := partition gs.g wall
      -- pipeline order: Inhibit → TimeActive → TimeMute → Silence; the time stages drop the whole flush
      let tm := timeMuted σ tick
      -- AM.Suppress: the verdicts of this flush, the reason an alert is withheld, what survives the mute stages
      let v : AM.Suppress.Verdicts := { inhibited := fun i => inhibited σ i wall, silenced := fun i => silenced σ i wall, timeMuted := tm }
      let supp : List (Nat × String) := part.filterMap fun (a, _) => (AM.Suppress.reason v a.id).map fun r => (a.id, r)
      let survivors := AM.Suppress.surviving v (part.map fun (a, r) => (a.id, r))
      let unm := part.filter fun (a, r) => survivors.contains (a.id, r)
      let fl : Inflight := { tick, wall, snap := resolvedSlice gs.g wall, supp, tm,
                             allSil := !part.isEmpty && part.all (fun (a, _) => silenced σ a.id wall),
                             gateRun := part.any fun (a, _) => !inhibited σ a.id wall,
                             firing := (unm.filter (!·.2)).map (·.1.id), resolved := (unm.filter (·.2)).map (·.1.id) }
      let tags := [Msg.tag "flush"] ++ (if tick < wall then [Msg.tag "flush:overrun"] else [])
        ++ (if supp.any (·.2 = "silenced") then [Msg.tag "flush:muted"] else [])
        ++ (if supp.any (·.2 = "inhibited") then [Msg.tag "flush:inhibited"] else [])
        ++ (if tm ∧ !part.isEmpty then [Msg.tag "flush:time-muted"] else [])
        ++ (if (σ.mute.isSome ∨ σ.active.isSome) ∧ !tm then [Msg.tag "flush:time-open"] else [])
        ++ (if part.any (·.2) then [Msg.tag "flush:has-resolved"] else [])
      -- DedupStage decides for every integration at the start of the flush (cluster wait is 0);
      -- RetryStage's short-cut records at once, a real send records when it succeeds
      let cfg (i : Nat) : Cfg := { key := keyOf g i, repeatI := σ.repeatI, retention := σ.retention, sendResolved := σ.srs.getD i true }
      let f0 : Flush := { tick, wall, firing := fl.firing, resolved := fl.resolved, accept := true }
      let paths := (List.range σ.srs.length).map fun i => path (cfg i) σ.nf f0
      let nf' := (List.range σ.srs.length).foldl (fun nf i =>
        if path (cfg i) σ.nf f0 = .shortcut then (flushStep (cfg i) nf f0).st else nf) σ.nf
      let fl := { fl with paths, before := entriesOf σ g }
      let ptags := paths.map fun p => Msg.tag s!"path:{repr p}"
      (setG { σ with nf := nf' } g { gs with g := rearm gs.g wall σ.gi, altTick := none, inflight := some fl },
        m1 ++ m2 ++ m3 ++ pfLost ++ pfEarly ++ tags ++ ptags)
  | ["ev", "sent", wall, g, i, text], _ =>
    let wall := toInt! wall; let i := toNat! i
    match getG σ g with
    | some gs =>
      match gs.inflight with
      | some fl =>
        let resPart := (text.splitOn "/").getD 1 "-"
        let pf1 := (splitList "." resPart).foldl (fun acc r =>
          match r.splitOn "@" with
          | [id, ends] => if toInt! ends > wall then acc ++ [Msg.propfail "never_resolved_early" "resolved-early" s!"alert={id} ends={ends} sent={wall}"] else acc
          | _ => acc) []
        let pf2 := if σ.srs.getD i true = false ∧ resPart ≠ "-" then
          [Msg.propfail "send_resolved_false_never_lists_resolved" "resolved-listed" s!"integration={i} sent={text}"] else []
        let c : Cfg := { key := keyOf g i, repeatI := σ.repeatI, retention := σ.retention, sendResolved := σ.srs.getD i true }
        let p := fl.paths.getD i .quiet
        let first := (fl.sents.find? (·.1 = i)).isNone
        let nf' := if p = .send ∧ first then Dedup.logged c σ.nf { tick := fl.tick, wall, firing := fl.firing, resolved := fl.resolved, accept := true } else σ.nf
        let mSent := s!"{showNatList (sortNat fl.firing)}/{showNatList (sortNat (if c.sendResolved then fl.resolved else []))}"
        let parts := text.splitOn "/"
        let rs := (splitList "." (parts.getD 1 "-")).map fun r => (r.splitOn "@").headD ""
        let iSent := s!"{parts.getD 0 "-"}/{joinList "." rs}"
        -- the suppression clauses of C02 / C03 / C15 on what the receiver was actually handed
        let sentIds := (splitList "." (parts.getD 0 "-")).map toNat! ++ rs.map toNat!
        let pfSupp := fl.supp.foldl (fun acc (x : Nat × String) =>
          if sentIds.contains x.1 then
            acc ++ [Msg.propfail (if x.2 = "silenced" then "takes_effect_next_flush" else if x.2 = "inhibited" then "mutes_iff_spec" else "route_gate")
                      (x.2 ++ "-notified") s!"group={g} integration={i} alert={x.1} was {x.2} at the flush (tick={fl.tick} wall={fl.wall}) and is listed in the notification {iSent}"]
          else acc) []
        -- the converse: an alert that nothing suppressed at the flush is missing from the notification
        let missing := (fl.firing ++ (if c.sendResolved then fl.resolved else [])).filter fun x => !sentIds.contains x
        let pfWith := if p ≠ .send then [] else missing.foldl (fun acc x =>
          acc ++ (if gs.prevSupp.contains (x, "inhibited") then [Msg.propfail "mutes_iff_spec" "not-inhibited-withheld"
                    s!"group={g} integration={i} alert={x}: no source of a rule targeting it was firing at the flush (wall={fl.wall}), yet the notification {iSent} omits it"] else [])
              ++ (if gs.prevSupp.contains (x, "silenced") then [Msg.propfail "takes_effect_next_flush" "not-silenced-withheld"
                    s!"group={g} integration={i} alert={x}: no silence for it was active at the flush (wall={fl.wall}), yet the notification {iSent} omits it"] else [])) []
        let pf3 := pfSupp ++ pfWith ++ (if p ≠ .send then
             [Msg.propfail "notify_only_if_changed_or_repeat" "unjustified" s!"group={g} integration={i} sent={iSent} tick={fl.tick} entry={(fl.before.splitOn ";").getD i "?"}"]
             ++ [Msg.diff s!"sent[{i}]" "none" iSent] else [])
          ++ (if !first then [Msg.propfail "notify_only_if_changed_or_repeat" "duplicate-in-flush" s!"group={g} integration={i} sent={iSent}"] else [])
          ++ (if p = .send ∧ iSent ≠ mSent then
             [Msg.propfail "flush_sent_content" "content" s!"group={g} integration={i} sent={iSent} expected={mSent}", Msg.diff s!"sent[{i}]" mSent iSent] else [])
        (setG { σ with nf := nf' } g { gs with inflight := some { fl with sents := fl.sents ++ [(i, wall, text)] } }, pf1 ++ pf2 ++ pf3)
      | none => (σ, [.propfail "log_only_after_success" "send-outside-flush" s!"group={g} wall={wall}"])
    | none => (σ, [.propfail "no_orphan_live_group" "send-unknown-group" s!"group={g} wall={wall}"])
  | ["ev", "try", _, g, _, _], _ =>
    match getG σ g with
    | some gs =>
      match gs.inflight with
      | some fl => (setG σ g { gs with inflight := some { fl with tries := fl.tries + 1 } }, [.tag "try:failed"])
      | none => (σ, [])
    | none => (σ, [])
  | "ev" :: "end" :: wall :: g :: _ :: res :: ents :: mk, _ =>
    let wall := toInt! wall
    match getG σ g with
    | none => (σ, [.diff "end" "group" "none"])
    | some gs =>
      match gs.inflight with
      | none => (σ, [.diff "end" "inflight" "none"])
      | some fl =>
        let init : List Msg × Bool := ([], true)
        let (msgs, okAll) := (List.range σ.srs.length).foldl (fun (acc : List Msg × Bool) i =>
          let (msgs, okAll) := acc
          let p := fl.paths.getD i .quiet
          let sent := (fl.sents.find? (·.1 = i)).isSome
          let (mode, lat) := σ.modes.getD i ("ok", 0)
          let pf : List Msg :=
            if p = .send ∧ !sent ∧ mode = "ok" ∧ lat < timeoutOf σ ∧ σ.lastModeChange < fl.wall then
              [Msg.propfail "repeat_on_time" "missed" s!"group={g} integration={i} tick={fl.tick} firing={showNatList fl.firing} resolved={showNatList fl.resolved} entry={(fl.before.splitOn ";").getD i "?"}"]
              ++ (if gs.prevSupp.any (·.2 == "time-muted") then [Msg.propfail "route_gate" "open-flush-withheld"
                    s!"group={g} integration={i}: the flush at tick={fl.tick} is outside the mute interval / inside the active interval and owes a notification, none was sent"] else [])
              ++ (if (fl.firing ++ fl.resolved).any (fun x => gs.prevSupp.contains (x, "inhibited")) then [Msg.propfail "mutes_iff_spec" "not-inhibited-withheld"
                    s!"group={g} integration={i}: the flush at wall={fl.wall} owes a notification for alerts no firing source inhibits, none was sent"] else [])
              ++ (if (fl.firing ++ fl.resolved).any (fun x => gs.prevSupp.contains (x, "silenced")) then [Msg.propfail "takes_effect_next_flush" "not-silenced-withheld"
                    s!"group={g} integration={i}: the flush at wall={fl.wall} owes a notification for alerts no active silence matches, none was sent"] else [])
            else []
          (msgs ++ pf, okAll && !(p = .send ∧ !sent))) init
        let nf' := σ.nf
        let σ1 := { σ with nf := nf' }
        let after := entriesOf σ1 g
        let mEnt := expectEq "end.entries" after ents
        let pfLog := (List.range σ.srs.length).foldl (fun acc i =>
          let b := (gs.lastEntries.splitOn ";").getD i "none"
          let a := (ents.splitOn ";").getD i "none"
          let sent := (fl.sents.find? (·.1 = i)).isSome
          let shortcut := fl.paths.getD i .quiet = .shortcut
          if a ≠ b ∧ !sent ∧ !shortcut ∧ gs.lastEntries ≠ "" ∧ (after.splitOn ";").getD i "none" = a ∧ false then
            acc ++ [Msg.propfail "log_only_after_success" "log-without-send" s!"group={g} integration={i} before={b} after={a}"] else acc) []
        let mRes := expectEq "end.result" (if okAll then "ok" else "err") res
        -- C07: the route's receiver has a pipeline even when it has no integrations (a blackhole receiver): the flush succeeds
        let pfRecv := if σ.srs.isEmpty then
            (if res = "ok" then [Msg.tag "end:no-integrations"] else
             [Msg.propfail "every_selected_route_has_receiver" "receiver-without-stage"
                s!"group={g}: the route's receiver has no integrations; its flush at wall={fl.wall} must succeed with nothing sent, result={res}"])
          else []
        -- C15: the group's muted marker (what the API reports) follows the calendar at every flush whose alerts reach the
        -- time stages (inhibition comes first in the chain) — also when silences then cover every alert of the flush
        let pfMark := match mk with
          | [m] =>
            if fl.gateRun then
              (if m = (if fl.tm then "1" else "0") then
                 (if fl.tm then [Msg.tag "marker:muted"] else []) ++
                 (if (σ.mute.isSome ∨ σ.active.isSome) ∧ fl.allSil
                  then [Msg.tag (if fl.tm then "marker:muted-all-silenced" else "marker:open-all-silenced")] else [])
               else [Msg.propfail "route_gate" "muted-marker-stale"
                 s!"group={g}: after the flush at tick={fl.tick} the group marker says muted={m}, the route's intervals say muted={fl.tm} at that instant"])
            else []
          | _ => []
        let pfDeadline := if wall > fl.wall + timeoutOf σ then
          [Msg.propfail "flush_gap_le" "deadline-overrun" s!"group={g} start={fl.wall} end={wall} timeout={timeoutOf σ}"] else []
        let g1 := if res = "ok" then deleteIfNotModified gs.g fl.snap else gs.g
        let tags := (if res = "ok" ∧ g1.alerts.length < gs.g.alerts.length then [Msg.tag "end:deleted-resolved"] else [])
          ++ (if res = "ok" ∧ fl.snap.any (fun a => match lookup gs.g.alerts a.id with | some c => c.upd ≠ a.upd | none => false)
              then [Msg.tag "end:refire-survived"] else [])
          ++ (if res ≠ "ok" then [Msg.tag "end:failed"] else [])
        let σ2 := if g1.destroyed then { delG σ1 g with gm := (gstep σ1.limit σ1.gm (.destroy g)).1 }
                  else setG σ1 g { gs with g := g1, inflight := none, lastEnd := wall, lastEntries := ents, prevSupp := fl.supp }
        (σ2, msgs ++ mEnt ++ pfLog ++ mRes ++ pfRecv ++ pfMark ++ pfDeadline ++ tags ++ (if g1.destroyed then [.tag "end:destroyed"] else []))
  | _, _ => (σ, [.diff "parse" "?" (" ".intercalate op)])

/-- every line carries its instant; the dispatcher's maintenance (every 15 s from its start) removes the
    destroyed groups that are still mapped -/
def lineTime (op : List String) : Option Int :=
  match op with
  | "ev" :: _ :: t :: _ => t.toInt?
  | _ :: t :: _ => t.toInt?
  | _ => none

def step (σ : St) (op obs : List String) : St × List Msg :=
  let σ1 := match lineTime op with
    | some t =>
      let crossed := (t - σ.maintBase) / maintPeriod > (σ.lastT - σ.maintBase) / maintPeriod
      { σ with gm := if crossed then (gstep σ.limit σ.gm .maintain).1 else σ.gm, lastT := if t > σ.lastT then t else σ.lastT }
    | none => σ
  step0 σ1 op obs

def parseRange (s : String) : Option (Int × Int) :=
  match s.splitOn "-" with
  | [a, b] => if a = "" then none else some (toInt! a, toInt! b)
  | _ => none

def engine : Engine St where
  init hdr :=
    let srs := ((kv hdr "sr").getD "").toList.map (fun ch => ch == '1')
    { gw := kvInt hdr "gw" 0, gi := kvInt hdr "gi" 0, repeatI := kvInt hdr "repeat" 0,
      retention := kvInt hdr "retention" 0, srs, modes := srs.map fun _ => ("ok", 0), limit := kvNat hdr "limit" 0,
      inh := (splitList "." ((kv hdr "inh").getD "-")).filterMap (fun r => match r.splitOn ">" with | [a, b] => some (toNat! a, toNat! b) | _ => none),
      mute := parseRange ((kv hdr "mute").getD "-"), active := parseRange ((kv hdr "active").getD "-") }
  step := step

end Driver.Sys
