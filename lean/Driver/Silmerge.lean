/-
  Engine `silmerge` (C09): replays the trace of 2–3 real `silence.Silences`
  connected by a scripted channel on `AM.Silence`, and evaluates the C09 spec
  predicates on the implementation's own dumps.

    case <id> n=<2|3> retention=<ns> conv=<0|1>
    <common op> <inst> …           (see Driver/SilenceUtil.lean, harness/silx)
    push <i> <j> <now>  -> <ov> <meshes of i> <nbcast> <version j> <dump j>
    converge            -> <dump 0> <dump 1> [<dump 2>]      (meshes only)
-/
import Driver.SilenceUtil

namespace Driver.Silmerge
open Driver Driver.Sil AM AM.AList AM.Silence

structure St where
  cfg : Cfg := {}
  insts : List Inst := []
  pool : List Mesh := []        -- every version the implementation broadcast after a local Set/Expire
  conv : Bool := false

def getI (σ : St) (i : Nat) : Inst := σ.insts.getD i default
def setI (σ : St) (i : Nat) (x : Inst) : St := { σ with insts := σ.insts.set i x }

def bcMeshes (tok : String) : List Mesh :=
  (splitList "/" tok).flatMap parseMeshes

/-- the newest pooled version of an id -/
def newest (pool : List Mesh) (id : String) : Option Mesh :=
  pool.foldl (fun acc m =>
    if m.sil.id ≠ id then acc else
    match acc with
    | none => some m
    | some a => if a.sil.updated < m.sil.updated then some m else acc) none

def step (σ : St) (op obs : List String) : St × List Msg :=
  match op, obs with
  | ["converge"], dumps =>
    let impls := dumps.map parseMeshes
    let models := σ.insts.map fun x => showMeshes (sortedMeshes x.store.st)
    let d0 := dumps.headD "-"
    let pfEq := if dumps.all (· = d0) then [] else [Msg.propfail "converges" "diverged" (" ".intercalate dumps)]
    let ids := (σ.pool.map (·.sil.id)).eraseDups
    let pfNew := ids.flatMap fun id =>
      match newest σ.pool id with
      | none => []
      | some w => impls.flatMap fun d =>
          if find d id = some w then [] else [Msg.propfail "converges" "not-newest" s!"id={id} want={showMesh w}"]
    let diffs := (models.zip dumps).flatMap fun (m, d) => expectEq "converge.dump" m d
    (σ, pfEq ++ pfNew.take 3 ++ diffs ++ [.tag "converge:checked"])
  | ["push", i, j, now], [ov, inm, nb, ver, dmp] =>
    let src := getI σ (toNat! i)
    let mIn := showMeshes (sortedMeshes src.store.st)
    let implIn := showMeshes src.impl
    let pre := expectEq "push.state" mIn inm ++
      (if implIn = inm then [] else [Msg.propfail "full_state_is_state" "push-mismatch" s!"marshal={inm} dump={implIn}"])
    -- C19 `full_state_superset` on the implementation's own dumps (independent of the decoded payload): after the
    -- receiver merged the sender's full state it holds, for every id of the sender that is not past its retention,
    -- a version at least as new — an expired (ended) silence that is still retained is part of the full state: it is
    -- how an instance that missed the expiry learns of it
    let nowI := toInt! now
    let cur := parseMeshes dmp
    let retained := src.impl.filter fun m => m.exp ≥ nowI
    let pfSup := retained.filterMap fun m =>
      let ended := getState m.sil nowI = .expired
      match find cur m.sil.id with
      | some q => if q.sil.updated < m.sil.updated then
          some (Msg.propfail "full_state_superset" (if ended then "full-state-omits-retained" else "full-state-omits-entry")
            s!"id={m.sil.id} sender has updated={m.sil.updated} end={m.sil.stop} exp={m.exp} now={now}; receiver after the push: updated={q.sil.updated} end={q.sil.stop}") else none
      | none => some (Msg.propfail "full_state_superset" (if ended then "full-state-omits-retained" else "full-state-omits-entry")
            s!"id={m.sil.id} sender has updated={m.sil.updated} end={m.sil.stop} exp={m.exp} now={now}; absent on the receiver after the push")
    let tagsP : List Msg := (if retained.any (fun m => getState m.sil nowI = .expired) then [.tag "push:sender-has-ended-retained"] else [])
      ++ (if retained.any (fun m => decide (getState m.sil nowI = .expired) &&
            (match find (getI σ (toNat! j)).impl m.sil.id with
             | some q => decide (q.sil.updated < m.sil.updated) && decide (getState q.sil nowI ≠ .expired)
             | none => false))
          then [.tag "push:expiry-learnt-by-full-state"] else [])
    match stepCommon σ.cfg (getI σ (toNat! j)) ["merge", now, ov, inm] [nb, ver, dmp] with
    | some (x, msgs) => (setI σ (toNat! j) x, pre ++ msgs ++ pfSup.take 3 ++ tagsP ++ [.tag "push"])
    | none => (σ, [.diff "parse" "?" "push"])
  | o :: i :: rest, _ =>
    match stepCommon σ.cfg (getI σ (toNat! i)) (o :: rest) obs with
    | some (x, msgs) =>
      let bc := if o = "set" ∨ o = "post" ∨ o = "setq" then bcMeshes (obs.getD 2 "-")
                else if o = "expire" ∨ o = "delete" then bcMeshes (obs.getD 1 "-") else []
      ({ setI σ (toNat! i) x with pool := σ.pool ++ bc }, msgs)
    | none => (σ, [.diff "parse" "?" (" ".intercalate op)])
  | _, _ => (σ, [.diff "parse" "?" (" ".intercalate op)])

def engine : Engine St where
  init hdr :=
    let n := kvNat hdr "n" 2
    { cfg := { retention := kvInt hdr "retention" 0, maxSil := kvNat hdr "maxsil" 0, fix := kv hdr "fix" ≠ some "0", merges := true },
      insts := List.replicate n {}, conv := kv hdr "conv" = some "1" }
  step := step

end Driver.Silmerge
