/-
  Shared by the engines of work area Silence (silmerge / sillife / silencer):
  token codec, the executable regex fragment, and the replay of the common op
  lines (see harness/silx/silx.go `Exec`) on `AM.Silence` together with the
  spec predicates evaluated on the implementation's own dumps.
-/
import Driver.Util
import AM.Model.Silence
import AM.Model.Silencer

namespace Driver.Sil
open Driver AM AM.AList AM.Silence

/-! ### regex fragment: alternatives of literal | `.*` | `.+` | `lit.*` | `.*lit` -/

def dropS (s : String) (n : Nat) : String := String.ofList (s.toList.drop n)
def dropEndS (s : String) (n : Nat) : String := String.ofList (s.toList.take (s.length - n))

/-- `.` is Go's default dot (no `(?s)` flag): any character but a line feed -/
def noLF (s : String) : Bool := !s.contains '\n'

def altMatches (alt v : String) : Bool :=
  if alt = ".*" then noLF v
  else if alt = ".+" then !v.isEmpty && noLF v
  else if alt.endsWith ".*" then v.startsWith (dropEndS alt 2) && noLF (dropS v (alt.length - 2))
  else if alt.startsWith ".*" then v.endsWith (dropS alt 2) && noLF (dropEndS v (alt.length - 2))
  else v = alt

def reFrag (pat v : String) : Bool := (pat.splitOn "|").any (altMatches · v)

def env : Env where
  re := reFrag
  reOk := fun p => !(p.contains '(' || p.contains '[' || p.contains ')' || p.contains '\\')
  nameOk := fun n => !n.isEmpty

/-! ### tokens -/

def parseOp (s : String) : MatchOp :=
  if s = "e" then .eq else if s = "n" then .neq else if s = "r" then .re else .nre
def showOp : MatchOp → String
  | .eq => "e" | .neq => "n" | .re => "r" | .nre => "x"

def parseSets (s : String) : MatcherSets :=
  if s = "-" then [] else
  (s.splitOn "|").map fun st =>
    if st = "_" then [] else
    (st.splitOn "+").filterMap fun m =>
      match m.splitOn ":" with
      | [o, n, p] => some { op := parseOp o, name := unhexStr n, pattern := unhexStr p }
      | _ => none

def showSets (sets : MatcherSets) : String :=
  if sets.isEmpty then "-" else
  "|".intercalate (sets.map fun st =>
    if st.isEmpty then "_" else
    "+".intercalate (st.map fun m => s!"{showOp m.op}:{hexStr m.name}:{hexStr m.pattern}"))

def parseMesh (s : String) : Option Mesh :=
  match s.splitOn "," with
  | [id, a, e, u, c, sets, x] =>
    some { sil := { id, start := toInt! a, stop := toInt! e, updated := toInt! u, comment := c, sets := parseSets sets }, exp := toInt! x }
  | _ => none

def showSil (x : Sil) : String := s!"{x.id},{x.start},{x.stop},{x.updated},{x.comment},{showSets x.sets}"
def showMesh (m : Mesh) : String := s!"{showSil m.sil},{m.exp}"

def parseMeshes (s : String) : List Mesh := (splitList ";" s).filterMap parseMesh
def showMeshes (l : List Mesh) : String := joinList ";" (l.map showMesh)

/-- broadcast list token: messages '/'-joined, each a ';'-joined mesh list -/
def showBcasts (l : List (List Mesh)) : String := joinList "/" (l.map showMeshes)

def insertSorted (e : Mesh) : List Mesh → List Mesh
  | [] => [e]
  | x :: xs => if e.sil.id < x.sil.id then e :: x :: xs else x :: insertSorted e xs

def sortedMeshes (st : AList String Mesh) : List Mesh :=
  st.foldl (fun acc kv => insertSorted kv.2 acc) []

def insertStr (e : String) : List String → List String
  | [] => [e]
  | x :: xs => if e < x then e :: x :: xs else x :: insertStr e xs
def sortStrs (l : List String) : List String := l.foldl (fun acc x => insertStr x acc) []

def parseLs (s : String) : LabelSet :=
  let s := if s.startsWith "L" then dropS s 1 else s
  (splitList "+" s).filterMap fun kv =>
    match kv.splitOn ":" with
    | [k, v] => some (unhexStr k, unhexStr v)
    | _ => none

def parseStates (s : String) : Option (List SState) :=
  if s = "-" then none else
  some (s.toList.map fun c => if c = 'p' then .pending else if c = 'a' then .active else .expired)

def showState : SState → String
  | .pending => "pending" | .active => "active" | .expired => "expired"

def optInt (s : String) : Option Int := if s = "-" then none else some (toInt! s)

def parseIn (id a e c sets : String) : SilIn :=
  { id := if id = "-" then "" else id, sets := parseSets sets, start := optInt a, stop := optInt e, comment := c }

/-! ### instance state -/

structure Cfg where
  retention : Int := 0
  maxSil : Nat := 0
  fix : Bool := true
  merges : Bool := true          -- the engine has replicated merges (revivals are legitimate)

structure Inst where
  store : Store := {}
  cache : Cache := []
  impl : List Mesh := []         -- implementation's previous dump
  implVer : Nat := 0
  dead : List String := []       -- ids seen expired since the last merge (C12 expired_never_active_again)
  revived : List String := []    -- ids a merge turned from expired to unexpired (on the implementation's dumps)
  msChanged : List String := []  -- ids whose stored matcher sets changed between two dumps (since the last reload)
  lateAdded : List String := []  -- ids that appeared in the dump while a `Mutes` call was in flight (since the last reload)
  deriving Inhabited

def find (l : List Mesh) (id : String) : Option Mesh := l.find? (·.sil.id = id)

def dumpStr (s : Store) : String := s!"{s.version} {showMeshes (sortedMeshes s.st)}"

/-- compare the model's store with the implementation's dump -/
def expectDump (what : String) (s : Store) (ver dmp : String) : List Msg :=
  expectEq (what ++ ".version") (toString s.version) ver ++ expectEq (what ++ ".dump") (showMeshes (sortedMeshes s.st)) dmp

/-! ### spec predicates on the implementation's own dumps -/

/-- C09 `merge_monotone`: no id goes back in update time or vanishes (ops other than GC). -/
def checkMonotone (prev cur : List Mesh) : List Msg :=
  prev.filterMap fun p =>
    match find cur p.sil.id with
    | some q => if q.sil.updated < p.sil.updated then
        some (.propfail "merge_monotone" "backwards" s!"id={p.sil.id} {p.sil.updated}->{q.sil.updated}") else none
    | none => some (.propfail "merge_monotone" "lost" s!"id={p.sil.id} vanished without GC")

/-- C12 `expired_never_active_again` (histories without merges). -/
def checkDead (dead : List String) (cur : List Mesh) (now : Int) : List Msg :=
  dead.filterMap fun id =>
    match find cur id with
    | some q => if getState q.sil now ≠ .expired then
        some (.propfail "expired_never_active_again" "revived" s!"id={id} start={q.sil.start} end={q.sil.stop} now={now}") else none
    | none => none

def newDead (dead : List String) (cur : List Mesh) (now : Int) : List String :=
  cur.foldl (fun acc m => if getState m.sil now = .expired ∧ !acc.contains m.sil.id then m.sil.id :: acc else acc) dead

/-- the brute-force mute verdict over a dump (matchers as stored: versions of one id share them) -/
def bruteMutedBy (cur : List Mesh) (now : Int) (ls : LabelSet) : List String :=
  sortStrs ((cur.filter fun m => getState m.sil now = .active && matchesSets reFrag m.sil.sets ls).map (·.sil.id))

/-- ids whose matcher sets differ between two dumps of the implementation -/
def setsChanged (prev cur : List Mesh) : List String :=
  cur.filterMap fun q =>
    match find prev q.sil.id with
    | some p => if p.sil.sets ≠ q.sil.sets then some q.sil.id else none
    | none => none

def after (cfg : Cfg) (σ : Inst) (s : Store) (cur : List Mesh) (ver : String) (now : Int) (clearDead : Bool) : Inst :=
  let dead := if clearDead ∨ cfg.merges then [] else newDead σ.dead cur now
  { σ with store := s, impl := cur, implVer := toNat! ver, dead := dead,
           msChanged := setsChanged σ.impl cur ++ σ.msChanged }

def errStr : Err → String
  | .notFound => "notfound" | .invalid => "invalid" | .limit => "limit" | .tooBig => "toobig"

/-- spec checks shared by `set` and `post` once the outcome class is known -/
def checkSetSpec (σ : Inst) (now : Int) (inp : SilIn) (okId : Option String) (cur : List Mesh) : List Msg :=
  let prevO := find σ.impl inp.id
  let b : Sil := { id := inp.id, sets := inp.sets, start := inp.start.getD now, stop := inp.stop.getD 0, updated := now, comment := inp.comment }
  match okId with
  | none =>
    if cur = σ.impl then [] else [.propfail "rejected_op_changes_nothing" "rejected-op-changed-state" s!"id={inp.id}"]
  | some x =>
    -- C12 `invalid_input_rejected`: validity is a function of the request alone (every matcher set on its own:
    -- non-empty, well-formed matchers, at least one of them not matching the empty string; end not before start)
    (if !validate env inp.sets (inp.start.getD now) inp.stop then
       [Msg.propfail "invalid_input_rejected" "invalid-input-accepted"
         s!"id={inp.id} got={x} sets={showSets inp.sets} bad-sets={joinList "." (((List.range inp.sets.length).zip inp.sets).filterMap fun (k, ms) => if setValid env ms then none else some (toString k))}"]
     else []) ++
    (if inp.id ≠ "" ∧ prevO.isNone then [Msg.propfail "unknown_id_rejected" "unknown-id-accepted" s!"id={inp.id}"] else []) ++
    (match prevO with
     | some p =>
       if canUpdate p.sil b now then
         (if x ≠ inp.id then [Msg.propfail "edit_compatible_keeps_id" "id-changed" s!"id={inp.id} got={x}"] else [])
       else
         (if x = inp.id then [Msg.propfail "edit_incompatible_expires_old_creates_new" "history-rewritten" s!"id={inp.id}"] else []) ++
         (match find cur inp.id with
          | some q =>
            if p.sil.updated < now ∧ getState p.sil now ≠ .expired ∧ q.sil.stop > now then
              [Msg.propfail "edit_incompatible_expires_old_creates_new" "old-not-expired" s!"id={inp.id} end={q.sil.stop} now={now}"]
            else if getState p.sil now = .expired ∧ q ≠ p then
              [Msg.propfail "edit_incompatible_expires_old_creates_new" "expired-history-changed" s!"id={inp.id}"]
            else []
          | none => [Msg.propfail "edit_incompatible_expires_old_creates_new" "old-lost" s!"id={inp.id}"])
     | none => []) ++
    (if x ≠ inp.id then
       (if (find σ.impl x).isSome then [Msg.propfail "create_fresh_id" "reused-id" s!"id={x}"] else []) ++
       (match find cur x with
        | some q => if q.sil.start < now then [Msg.propfail "create_start_not_past" "start-in-past" s!"id={x} start={q.sil.start} now={now}"] else []
        | none => [])      -- a version already past retention is not stored (documented corner, no claim)
     else [])

/-- C02 `mutes_eq_bruteforce` on the implementation's own answer and dump: the verdict and the
    `silencedBy` list must be the brute-force evaluation of the dumped silences, with the matchers
    as dumped (evaluated here, independently of the implementation's compiled-matcher index).
    The class names the hypothesis the failing history falls outside of. -/
def mutesSpec (σ : Inst) (now : Int) (lsTok : String) (l : LabelSet) (v by_ : String) : List Msg :=
  let spec := bruteMutedBy σ.impl now l
  let specV := if spec.isEmpty then "0" else "1"
  let implBy := splitList "." by_
  let missing := spec.filter fun id => !implBy.contains id
  let extra := implBy.filter fun id => !spec.contains id
  let cls (dflt : String) : String :=
    if (missing ++ extra).any σ.msChanged.contains then "stale-matcher-index"
    else if missing.any σ.lateAdded.contains then "interleaved-update-lost"
    else if missing.any σ.revived.contains then "revival"
    else dflt
  if specV ≠ v then
    [Msg.propfail "mutes_eq_bruteforce" (cls "verdict") s!"ls={lsTok} now={now} mutes={v} brute={joinList "." spec}"]
  else if joinList "." spec ≠ by_ then
    [Msg.propfail "mutes_eq_bruteforce" (cls "silencedBy") s!"ls={lsTok} now={now} by={by_} brute={joinList "." spec}"]
  else []

/-- Replay one common op.  `none` = not a common op. -/
def stepCommon (cfg : Cfg) (σ : Inst) (op obs : List String) : Option (Inst × List Msg) :=
  match op, obs with
  | [kind, now, id, a, e, c, sets, big], [res, rid, bcs, ver, dmp] =>
    -- `setq` = `set` whose argument is the object a lookup by id returned, edited by the caller (harness/silx `setq`)
    if kind ≠ "set" ∧ kind ≠ "post" ∧ kind ≠ "setq" then none else
    let now := toInt! now
    let inp := parseIn id a e c sets
    let cur := parseMeshes dmp
    let api := kind = "post"
    -- the model
    let (s', mres, mid, mbc, tags) : Store × String × String × String × List Msg :=
      if api then
        match apiPost env cfg.retention cfg.maxSil now σ.store inp rid (big = "1") with
        | .ok r => (r.store, "200", r.id, showBcasts (r.bcasts.map ([·])), [.tag (if r.inPlace then "set:in-place" else if inp.id = "" then "set:create" else "set:replace")])
        | .badRequest => (σ.store, "400", "-", "-", [.tag "post:400"])
        | .notFound => (σ.store, "404", "-", "-", [.tag "post:404"])
      else
        match set env cfg.retention cfg.maxSil now σ.store inp rid (big = "1") with
        | .ok r => (r.store, "ok", r.id, showBcasts (r.bcasts.map ([·])),
                    [.tag (if r.inPlace then "set:in-place" else if inp.id = "" then "set:create" else "set:replace")]
                    ++ (if r.bcasts.isEmpty then [.tag "set:silently-dropped"] else []))
        | .error er => (σ.store, errStr er, "-", "-", [.tag ("set:" ++ errStr er)])
    let okImpl := res = "ok" ∨ res = "200"
    -- spec predicates on the implementation's answer
    let pf := checkSetSpec σ now inp (if okImpl then some rid else none) cur
      ++ (if api ∧ okImpl then
            (match inp.start, inp.stop with
             | some a, some e =>
               (if e < now then [Msg.propfail "api_rejects_past_end" "past-end-accepted" s!"end={e} now={now}"] else []) ++
               (if a ≥ e then [Msg.propfail "api_rejects_past_end" "empty-interval-accepted" s!"start={a} end={e}"] else [])
             | _, _ => [])
          else [])
      ++ (if okImpl then checkMonotone σ.impl cur else [])
      ++ checkDead σ.dead cur now
    some (after cfg σ s' cur ver now false,
      expectEq (kind ++ ".result") mres res ++ expectEq (kind ++ ".id") mid rid ++ expectEq (kind ++ ".bcast") mbc bcs
      ++ expectDump kind s' ver dmp ++ pf ++ tags)
  | [kind, now, id], [res, bcs, ver, dmp] =>
    if kind ≠ "expire" ∧ kind ≠ "delete" then none else
    let now := toInt! now
    let cur := parseMeshes dmp
    let api := kind = "delete"
    let (s', mres, mbc) : Store × String × String :=
      match expire cfg.retention now σ.store id with
      | .ok r => (r.1, if api then "200" else "ok", showBcasts (r.2.map ([·])))
      | .error _ => (σ.store, if api then "404" else "notfound", "-")
    let okImpl := res = "ok" ∨ res = "200"
    let prevO := find σ.impl id
    let tags : List Msg := match prevO with
      | none => [.tag "expire:unknown"]
      | some p => [.tag ("expire:" ++ showState (getState p.sil now))] ++ (if p.sil.updated ≥ now ∧ getState p.sil now ≠ .expired then [.tag "expire:tie-dropped"] else [])
    let pf : List Msg :=
      (match prevO with
       | none =>
         (if okImpl then [Msg.propfail "unknown_id_rejected" "unknown-id-accepted" s!"expire id={id}"] else []) ++
         (if cur ≠ σ.impl then [Msg.propfail "rejected_op_changes_nothing" "rejected-op-changed-state" s!"expire id={id}"] else [])
       | some p =>
         (if !okImpl then [Msg.propfail "expire_effective" "expire-refused" s!"id={id} res={res}"] else []) ++
         (if getState p.sil now = .expired then
            (if cur ≠ σ.impl ∨ bcs ≠ "-" then [Msg.propfail "expire_idempotent" "expire-again-changed" s!"id={id}"] else [])
          else if p.sil.updated < now then
            (match find cur id with
             | some q => if q.sil.stop > now ∨ q.sil.start > now then
                 [Msg.propfail "expire_effective" "still-running" s!"id={id} start={q.sil.start} end={q.sil.stop} now={now}"] else []
             | none => [Msg.propfail "expire_effective" "lost" s!"id={id}"])
          else []))
      ++ checkMonotone σ.impl cur ++ checkDead σ.dead cur now
    some (after cfg σ s' cur ver now false,
      expectEq (kind ++ ".result") mres res ++ expectEq (kind ++ ".bcast") mbc bcs ++ expectDump kind s' ver dmp ++ pf ++ tags)
  | ["get", now, id], res :: rest =>
    let now := toInt! now
    -- the v2 API renders only silences with at most one matcher set (500 otherwise)
    let render (x : Mesh) : String :=
      if x.sil.sets.length > 1 then "500" else
      s!"200 {x.sil.id},{x.sil.start},{x.sil.stop},{x.sil.updated},{showState (currentState x.sil now)}"
    let m : String := match lookup σ.store.st id with
      | some x => render x
      | none => "404"
    let impl := " ".intercalate (res :: rest)
    let spec : String := match find σ.impl id with
      | some x => render x
      | none => "404"
    let pf := if spec = impl then [] else [Msg.propfail "queryable_until_retention" "get-mismatch" s!"id={id} get={impl} dump={spec}"]
    let tg : List Msg := match find σ.impl id with
      | some x => if now = x.sil.stop then [.tag "get:at-end-boundary"] else [.tag "get:found"]
      | none => [.tag "get:404"]
    some (σ, expectEq "get" m impl ++ pf ++ tg)
  | ["list", now], [code, l] =>
    let now := toInt! now
    -- GET /api/v2/silences renders only silences with at most one matcher set (error 500 otherwise)
    let multi := σ.impl.any (fun m => m.sil.sets.length > 1)
    let spec := if multi then "500" else joinList "," (sortStrs (σ.impl.map fun m => s!"{m.sil.id}:{showState (currentState m.sil now)}"))
    let impl := if code = "200" then l else code
    let pf := if spec = impl then [] else [Msg.propfail "queryable_until_retention" "list-mismatch" s!"list={impl} dump={spec}"]
    some (σ, pf ++ [.tag "list"])
  | ["list", _now], [code] =>
    let multi := σ.impl.any (fun m => m.sil.sets.length > 1)
    some (σ, if multi ∧ code = "500" then [.tag "list:multi-set-500"] else [.propfail "queryable_until_retention" "list-failed" s!"code={code}"])
  | ["merge", now, ov, batch], [nb, ver, dmp] =>
    let now := toInt! now
    let b := parseMeshes batch
    let (s', n) := mergeBatch cfg.fix now (ov = "1") σ.store b
    let cur := parseMeshes dmp
    let dec := (decodeBatch b).map (·.2)
    let tags : List Msg := dec.map fun e =>
      if e.exp < now then Msg.tag "merge:past-retention"
      else match lookup σ.store.st e.sil.id with
        | none => Msg.tag "merge:new"
        | some p =>
          if p.sil.updated < e.sil.updated then
            (if getState p.sil now = .expired ∧ getState e.sil now ≠ .expired then Msg.tag "merge:revival" else Msg.tag "merge:newer")
          else if p.sil.updated = e.sil.updated then (if p = e then Msg.tag "merge:duplicate" else Msg.tag "merge:tie") else Msg.tag "merge:older"
    let fresh := dec.filter fun e => find σ.impl e.sil.id ≠ some e
    let pf := checkMonotone σ.impl cur
      ++ dec.foldl (fun acc e =>
          let before := find σ.impl e.sil.id
          let aft := find cur e.sil.id
          (if e.exp < now ∧ aft = some e ∧ before ≠ some e then
             [Msg.propfail "merge_refuses_past_retention" "accepted-past-retention" s!"id={e.sil.id} exp={e.exp} now={now}"] else [])
          ++ (if e.exp ≥ now then
               match aft with
               | some q => if q.sil.updated < e.sil.updated then
                   [Msg.propfail "newest_wins" "newer-rejected" s!"id={e.sil.id} stored={q.sil.updated} offered={e.sil.updated}"] else []
               | none => [Msg.propfail "newest_wins" "newer-rejected" s!"id={e.sil.id} absent after merge"]
              else [])
          ++ acc) []
      ++ (if fresh.isEmpty ∧ nb ≠ "0" then [Msg.propfail "merge_idem_no_gossip" "regossiped-known" s!"nb={nb}"] else [])
      ++ (if toNat! nb > fresh.length then [Msg.propfail "merge_idem_no_gossip" "too-many-broadcasts" s!"nb={nb} fresh={fresh.length}"] else [])
      -- C09/C19 `merge_relays_accepted` on the implementation's own dumps: every record that changed the state
      -- (the id now holds exactly that version and did not before: `accepted_iff_changed`) is handed back to the
      -- gossip layer, a newer version of a known id as well as a new id; oversized messages are not relayed
      ++ (let accepted := dec.filter fun e => find cur e.sil.id = some e ∧ find σ.impl e.sil.id ≠ some e
          if ov ≠ "1" ∧ toNat! nb < accepted.length then
            [Msg.propfail "merge_relays_accepted" "accepted-update-not-relayed"
              s!"nb={nb} accepted={joinList "." (accepted.map (·.sil.id))} known-before={joinList "." ((accepted.filter fun e => (find σ.impl e.sil.id).isSome).map (·.sil.id))}"]
          else [])
    let rev := dec.filterMap fun e =>
      match find σ.impl e.sil.id, find cur e.sil.id with
      | some p, some q => if getState p.sil now = .expired ∧ getState q.sil now ≠ .expired then some e.sil.id else none
      | _, _ => none
    some ({ after cfg σ s' cur ver now true with revived := rev ++ σ.revived },
      expectEq "merge.nbcast" (toString n) nb ++ expectDump "merge" s' ver dmp ++ pf ++ tags ++ (if ov = "1" then [.tag "merge:oversized"] else []))
  | ["gc", now], [n, ver, dmp] =>
    let now := toInt! now
    let (s', k) := gc now σ.store
    let cur := parseMeshes dmp
    let pf := σ.impl.foldl (fun acc p =>
        (match find cur p.sil.id with
         | some q => if p.exp ≤ now then [Msg.propfail "gc_removes_after_retention" "gc-kept-expired" s!"id={p.sil.id} exp={p.exp} now={now}"]
                     else if q ≠ p then [Msg.propfail "queryable_until_retention" "gc-changed" s!"id={p.sil.id}"] else []
         | none =>
           (if p.exp > now then [Msg.propfail "queryable_until_retention" "gc-dropped-early" s!"id={p.sil.id} exp={p.exp} now={now}"] else []) ++
           (if cfg.retention ≥ 0 ∧ p.exp = p.sil.stop + cfg.retention ∧ p.sil.start ≤ p.sil.stop ∧
               (p.sil.stop > now ∨ (cfg.retention > 0 ∧ getState p.sil now ≠ .expired)) then
              [Msg.propfail "gc_never_removes_pending_or_active" "gc-dropped-live" s!"id={p.sil.id}"] else [])) ++ acc) []
      ++ cur.filterMap (fun q => if (find σ.impl q.sil.id).isNone then some (Msg.propfail "gc_removes_after_retention" "gc-invented" s!"id={q.sil.id}") else none)
    let tags : List Msg := (if k > 0 then [.tag "gc:removed"] else []) ++
      (if σ.impl.any (fun p => p.exp = now) then [.tag "gc:at-retention-boundary"] else [])
    some (after cfg σ s' cur ver now false, expectEq "gc.n" (toString k) n ++ expectDump "gc" s' ver dmp ++ pf ++ tags)
  | ["query", now, scan, sts, ls], [ver, ids] =>
    let now := toInt! now
    let sc : Scan := if scan = "all" then .all else if scan.startsWith "since:" then .since (toNat! (dropS scan 6)) else .ids (splitList "." scan)
    let q : Query := { scan := sc, states := parseStates sts, ls := if ls = "-" then none else some (parseLs ls) }
    let m := joinList "." (sortStrs ((query env σ.store now q).map (·.id)))
    -- brute force over the implementation's own dump (QSince needs the version index: model only)
    let brute := σ.impl.filter fun x =>
      (match sc with | .ids l => l.contains x.sil.id | _ => true) &&
      (match q.states with | none => true | some l => l.contains (getState x.sil now)) &&
      (match q.ls with | none => true | some l => matchesSets reFrag x.sil.sets l)
    let spec := joinList "." (sortStrs (brute.map (·.sil.id)))
    let pf := match sc with
      | .since _ => []
      | .ids l => if l.eraseDups.length = l.length ∧ spec ≠ ids then [Msg.propfail "query_eq_filter" "query-mismatch" s!"query={ids} brute={spec}"] else []
      | .all => if spec ≠ ids then [Msg.propfail "query_eq_filter" "query-mismatch" s!"query={ids} brute={spec}"] else []
    some (σ, expectEq "query.version" (toString σ.store.version) ver ++ expectEq "query.ids" m ids ++ pf ++
      [.tag (match sc with | .all => "query:all" | .ids _ => "query:ids" | .since _ => "query:since")])
  | ["reload"], [ver, dmp] =>
    let s' := reload σ.store
    let cur := parseMeshes dmp
    let pf := if cur = σ.impl then [] else [Msg.propfail "reload_lossless" "reload-changed" s!"before={showMeshes σ.impl} after={dmp}"]
    some ({ σ with store := s', cache := [], impl := cur, implVer := toNat! ver, msChanged := [], lateAdded := [] },
      expectDump "reload" s' ver dmp ++ pf ++ [.tag "reload"])
  | ["mutes", now, ls], [v, by_] =>
    let now := toInt! now
    let l := parseLs ls
    let r := mutes env σ.store σ.cache now l
    let mby := joinList "." (sortStrs r.silencedBy)
    let ce := cacheGet σ.cache l
    let pf := mutesSpec σ now ls l v by_
    let tags : List Msg :=
      (if ce.version = σ.store.version ∧ ce.ids.isEmpty then [.tag "mutes:fast-path"]
       else if ce.version = σ.store.version then [.tag "mutes:recheck-cached"]
       else if ce.ids.isEmpty then [.tag "mutes:scan-since"] else [.tag "mutes:cached+since"]) ++
      (if r.muted then [.tag "mutes:muted"] else [])
    some ({ σ with cache := r.cache }, expectEq "mutes.verdict" (if r.muted then "1" else "0") v ++ expectEq "mutes.by" mby by_ ++ pf ++ tags)
  | ["postgc", lss], [_] =>
    let fps := (splitList ";" lss).map parseLs
    some ({ σ with cache := postGC σ.cache fps }, [.tag "postgc"])
  | _, _ => none

/-! ### interleaved `Mutes` -/

structure Inj where
  pt : String
  op : List String          -- inner op without the instance index
  obs : Option (List String)  -- `none`: the implementation did not reach the point

def parseInj (opTok obsTok : String) : Option Inj :=
  match opTok.splitOn "~", obsTok.splitOn "~" with
  | pt :: o :: _i :: rest, pt' :: obs =>
    if pt ≠ pt' then none else some { pt, op := o :: rest, obs := if obs = ["-"] then none else some obs }
  | _, _ => none

/-- run the operations injected at point `pt` (when the model says the point is reached),
    or check that none of them ran (when it says it is not) -/
def firePoint (cfg : Cfg) (reached : Bool) (pt : String) (injs : List Inj) (σ : Inst) (dumps : List (List Mesh)) :
    Inst × List (List Mesh) × List Msg :=
  injs.foldl (fun (acc : Inst × List (List Mesh) × List Msg) j =>
    if j.pt ≠ pt then acc else
    let (σ, dumps, msgs) := acc
    match reached, j.obs with
    | false, none => (σ, dumps, msgs ++ [.tag s!"imutes:{pt}-not-reached"])
    | false, some _ => (σ, dumps, msgs ++ [.diff s!"imutes.{pt}" "not-reached" "fired"])
    | true, none => (σ, dumps, msgs ++ [.diff s!"imutes.{pt}" "fired" "not-reached"])
    | true, some obs =>
      match stepCommon cfg σ j.op obs with
      | some (σ', m) =>
        let added := (σ'.impl.filter fun q => (find σ.impl q.sil.id).isNone).map (·.sil.id)
        ({ σ' with lateAdded := added ++ σ'.lateAdded }, dumps ++ [σ'.impl], msgs ++ m ++ [.tag s!"imutes:{pt}:{j.op.headD "?"}"])
      | none => (σ, dumps, msgs ++ [.diff "parse" "?" (" ".intercalate j.op)])) (σ, dumps, [])

/-- `imutes now ls <pt>~<op>… -> v by <pt>~<obs>…`: one `Mutes` call with store operations
    between its steps, replayed on `mutesI`'s micro-steps.  Spec on the implementation's own
    answers (C02 `mutes_interleaved_bracket`): every id reported is active and matching in one of
    the dumps seen during the call, every id active and matching in all of them is reported, the
    verdict is "some id reported". -/
def stepImutes (cfg : Cfg) (σ : Inst) (op obs : List String) : Option (Inst × List Msg) :=
  match op, obs with
  | "imutes" :: now :: ls :: injToks, v :: by_ :: obsToks =>
    let now := toInt! now
    let l := parseLs ls
    let injs := (injToks.zip obsToks).filterMap fun (a, b) => parseInj a b
    if injs.length ≠ injToks.length ∨ injToks.length ≠ obsToks.length then some (σ, [.diff "parse" "?" "imutes"]) else
    let k := mBegin σ.store σ.cache l
    let dumps0 := [σ.impl]
    let (σ3, dumps, msgs, out, tag) : Inst × List (List Mesh) × List Msg × MutesOut × String :=
      if k.fast then
        let (σc, d, m) := ["q1", "e1", "q2", "e2", "w"].foldl (fun (acc : Inst × List (List Mesh) × List Msg) pt =>
          let (σx, d, m) := firePoint cfg false pt injs acc.1 acc.2.1
          (σx, d, acc.2.2 ++ m)) (σ, dumps0, [])
        (σc, d, m, ⟨σc.cache, false, []⟩, "fast-path")
      else
        let hasOld := !k.ce.ids.isEmpty
        let hasNew := !k.upToDate
        let two := hasOld && hasNew
        -- first query: the cached ids if there are any, else the since-scan
        let (σ1, d, m1) := firePoint cfg true "q1" injs σ dumps0
        let k1 := if hasOld then mOld false env σ1.store now k else mNew env σ1.store now l k
        let (σ1e, d, m1e) := firePoint cfg true "e1" injs σ1 d
        let (σ2, d, m2) := firePoint cfg two "q2" injs σ1e d
        let k2 := if two then mNew env σ2.store now l k1 else k1
        let (σ2e, d, m2e) := firePoint cfg two "e2" injs σ2 d
        let (σ3, d, m3) := firePoint cfg (!(k2.old ++ k2.new).isEmpty) "w" injs σ2e d
        (σ3, d, m1 ++ m1e ++ m2 ++ m2e ++ m3, mEnd σ3.cache now l k2,
          if two then "cached+since" else if hasOld then "recheck-cached" else "scan-since")
    let mby := joinList "." (sortStrs out.silencedBy)
    let implBy := splitList "." by_
    let brutes := dumps.map fun d => bruteMutedBy d now l
    let unsound := implBy.filter fun id => !(brutes.any (·.contains id))
    let incomplete := (brutes.headD []).filter fun id => brutes.all (·.contains id) ∧ !implBy.contains id
    let pf : List Msg :=
      (if unsound.isEmpty then [] else
        [Msg.propfail "mutes_interleaved_bracket" "interleaved-unsound" s!"ls={ls} now={now} by={by_} never-active-matching={joinList "." unsound}"]) ++
      (if incomplete.isEmpty then [] else
        [Msg.propfail "mutes_interleaved_bracket" "interleaved-incomplete" s!"ls={ls} now={now} by={by_} always-active-matching={joinList "." incomplete}"]) ++
      (if (v = "1") ≠ !implBy.isEmpty then
        [Msg.propfail "mutes_interleaved_bracket" "interleaved-verdict" s!"ls={ls} now={now} mutes={v} by={by_}"] else [])
    some ({ σ3 with cache := out.cache },
      msgs ++ expectEq "imutes.verdict" (if out.muted then "1" else "0") v ++ expectEq "imutes.by" mby by_ ++ pf ++
      [.tag s!"imutes:{tag}"] ++ (if dumps.length > 1 then [.tag "imutes:interleaved"] else []))
  | _, _ => none

/-- common ops + interleaved Mutes -/
def stepSil (cfg : Cfg) (σ : Inst) (op obs : List String) : Option (Inst × List Msg) :=
  match op with
  | "imutes" :: _ => stepImutes cfg σ op obs
  -- a Mutes call whose context is already cancelled (client gone, flush deadline passed): Silences.Query does not
  -- consult the context, the call is an ordinary one
  -- the real Maintenance loop: a tick / the shutdown run is a GC (plus a snapshot file); the next start loads that file
  | ["bulkgc", n] =>
    -- AM.Silence.gc_removes_after_retention / gc_never_removes_pending_or_active / query_eq_filter at scale: n expired
    -- silences go, the 3 active ones stay listed (by state, by id, and muting), and are collected after their own retention
    match obs with
    | [removed, listed, byId, muted, removed2, left] =>
      some (σ,
        (if removed = n then [] else [Msg.propfail "gc_removes_after_retention" "bulk-gc-count" s!"{n} silences past end+retention, GC removed {removed}"])
        ++ (if listed = "3" ∧ byId = "3" ∧ muted = "3" then [] else
              [Msg.propfail "gc_never_removes_pending_or_active" "bulk-gc-lost-survivors"
                s!"after GC removed {removed} of {n}+3 silences the 3 active ones are: listed by state {listed}, found by id {byId}, muting {muted}"])
        ++ (if removed2 = "3" ∧ left = "0" then [] else
              [Msg.propfail "gc_removes_after_retention" "bulk-gc-survivors-never-collected" s!"11 h later GC removed {removed2}, {left} silences left"])
        ++ [.tag "bulkgc"])
    | _ => some (σ, [.diff "bulkgc" "6 tokens" (" ".intercalate obs)])
  | ["mtick", now] => (stepCommon cfg σ ["gc", now] obs).map fun (σ', m) => (σ', m ++ [.tag "maintenance:tick"])
  | ["mstop", now] => (stepCommon cfg σ ["gc", now] obs).map fun (σ', m) => (σ', m ++ [.tag "maintenance:shutdown"])
  | ["mload"] => (stepCommon cfg σ ["reload"] obs).map fun (σ', m) => (σ', m ++ [.tag "maintenance:start-from-file"])
  | "cmutes" :: rest => (stepCommon cfg σ ("mutes" :: rest) obs).map fun (σ', m) => (σ', m ++ [.tag "mutes:cancelled-context"])
  -- the client edit through the API (GET the silence, POST it back with its id and the matchers exactly as the GET
  -- returned them, other comment / times): an ordinary `post` whose matcher sets are the stored ones (taken from the
  -- implementation's own previous dump; the line's sets stand in when the GET cannot answer: unknown id, several sets)
  | ["postg", now, id, a, e, c, sets, big] =>
    let (sets', rt) := match find σ.impl id with
      | some p => if p.sil.sets.length = 1 then (showSets p.sil.sets, true) else (sets, false)
      | none => (sets, false)
    (stepCommon cfg σ ["post", now, id, a, e, c, sets', big] obs).map fun (σ', m) =>
      (σ', m ++ (if rt then [.tag "post:matchers-from-get"] else []) ++
        (match find σ.impl id with
         | some p => if rt && (match p.sil.sets with | [ms] => decide (sortStrs (ms.map (·.name)) ≠ ms.map (·.name)) | _ => false)
                     then [.tag "post:matchers-from-get-unsorted"] else []
         | none => []))
  | _ => stepCommon cfg σ op obs

end Driver.Sil
