/-
  Engine `route` (C07): replays the harness trace on `AM.Route` and evaluates
  the C07 spec predicates on the implementation's own answers.

  Lines (formats in harness/rtx/rtx.go):
    case <id> recv=<r0.r1…>
    node <id> <parent> <recv> <gb> <cont> <gw> <gi> <ri> <labels> <mti> <ati> <match> <match_re> <matchers>
    build                 -> <node obs>…            | error <hexmsg>
    match <labelset>      -> <matched ids> <id:verdict,…> <hexpat:hexval:0/1,…>
    fact <consumer>       -> ok | changed
-/
import Driver.RouteUtil

namespace Driver.Route
open Driver Driver.RouteUtil AM AM.AList AM.Lbl AM.Route

structure St where
  names : List String := []
  cfg : List CfgNode := []
  shape : Option Shape := none
  model : Option Route := none
  ids : List String := []             -- pre-order ids, aligned with `nodes model`
  impl : List ImplNode := []
  implTree : Option Route := none

def St.buildModel (σ : St) : St :=
  match rootShape σ.cfg with
  | none => { σ with shape := none, model := none, ids := [] }
  | some sh =>
    let cfg := admit σ.cfg
    { σ with shape := some sh, model := some (mkTree (sh.toCRoute cfg)), ids := sh.preorder }

def idOfIdx (σ : St) (i : Nat) : String :=
  match σ.model with
  | none => "?"
  | some m => (((nodes m).zip σ.ids).find? (fun p => p.1.idx = i)).map (·.2) |>.getD "?"

def cfgOf (σ : St) (id : String) : CNode :=
  match σ.cfg.find? (·.id = id) with | some c => c.n | none => {}

def buildTags (σ : St) : List Msg :=
  let ns := (admit σ.cfg)
  let t (b : Bool) (s : String) : List Msg := if b then [.tag s] else []
  t (ns.any fun c => c.parent ≠ "-" ∧ c.n.groupBy = some []) "build:group_by-empty-override" ++
  t (ns.any fun c => c.parent ≠ "-" ∧ c.n.groupByAll) "build:group_by-all" ++
  t (ns.any fun c => c.parent ≠ "-" ∧ !c.n.labels.isEmpty) "build:labels-merged" ++
  t (ns.any fun c => c.n.matchers.any fun m => m.op = .re ∧ m.value.startsWith "^(?:") "build:legacy-match_re" ++
  t (ns.any fun c => c.parent ≠ "-" ∧ c.n.receiver = "") "build:receiver-inherited"

/-- `inherit_spec` evaluated on the implementation's own options: every node's options are the
    field-by-field override of its *parent's reported options* by its configuration. -/
def inheritCheck (σ : St) (sh : Shape) : List Msg :=
  σ.impl.flatMap fun n =>
    let base : Opts := match sh.parentOf n.id with
      | none => defaultOpts
      | some pid => match σ.impl.find? (·.id = pid) with | some p => p.opts | none => defaultOpts
    (optsDiff (applyOpts base (cfgOf σ n.id)) n.opts).map fun f =>
      Msg.propfail "inherit_spec" f s!"node={n.id} reported={n.raw}"

/-- ancestors-or-self of `id` in the shape -/
partial def pathTo (sh : Shape) (id : String) : List String :=
  match sh with
  | .mk i kids =>
    if i = id then [i] else
    match kids.findSome? (fun k => let p := pathTo k id; if p.isEmpty then none else some p) with
    | some p => i :: p
    | none => []

def step (σ : St) (op obs : List String) : St × List Msg :=
  match op, obs with
  | "node" :: _, _ =>
    match parseNode op with
    | some c => ({ σ with cfg := σ.cfg ++ [c], model := none, impl := [], implTree := none }, [])
    | none => (σ, [.diff "parse" "?" (" ".intercalate op)])
  | ["build"], "error" :: msg =>
    (σ.buildModel, [.diff "build" "ok" ("error " ++ unhexStr (msg.headD "-"))])
  | ["build"], nodesObs =>
    let σ := σ.buildModel
    match σ.model, σ.shape with
    | some m, some sh =>
      let impl := nodesObs.filterMap parseImplNode
      let σ := { σ with impl, implTree := some (sh.toImplRoute impl) }
      let modelStrs := ((nodes m).zip σ.ids).map fun p => showRoute p.2 p.1
      let diffs := if modelStrs.length ≠ nodesObs.length then [Msg.diff "build.count" (toString modelStrs.length) (toString nodesObs.length)]
        else (modelStrs.zip nodesObs).flatMap fun p => expectEq "build.node" p.1 p.2
      -- route_key_spec: a route's key is its parent's key + "/" + the SORTED matchers, so that every process (cluster
      -- member, restart, reload) derives the same group keys — they are the keys of the replicated notification log
      let keyOf (x : String) : String := (x.splitOn "|").getD 2 ""
      let pfKey : List Msg := if modelStrs.length ≠ nodesObs.length then [] else
        (modelStrs.zip nodesObs).flatMap fun p =>
          if keyOf p.1 = keyOf p.2 then [] else
            [Msg.propfail "route_key_spec" "key-not-canonical"
              s!"route {(p.2.splitOn "|").headD "?"}: key {unhexStr (keyOf p.2)}, canonical (sorted matchers along the path) {unhexStr (keyOf p.1)}"]
      (σ, diffs ++ pfKey ++ inheritCheck σ sh ++ buildTags σ)
    | _, _ => (σ, [.diff "build" "no-root" "ok"])
  | ["match", lsTok], [idsTok, verdictTok, oracleTok] =>
    let σ := if σ.model.isNone then σ.buildModel else σ
    match σ.model, σ.shape with
    | some m, some sh =>
      let ls := canon (parseKVs lsTok)
      let orc : List (String × String) := (splitList "," oracleTok).filterMap fun t =>
        match t.splitOn ":" with | [p, v, b] => some (p ++ ":" ++ v, b) | _ => none
      let re : String → String → Bool := fun pat v => orc.lookup (hexStr pat ++ ":" ++ hexStr v) = some "1"
      let implIds := splitList "," idsTok
      let implVerdicts : List (String × String) := (splitList "," verdictTok).filterMap fun t =>
        match t.splitOn ":" with | [i, b] => some (i, b) | _ => none
      -- model replay
      let res := («match» re m ls).map fun r => idOfIdx σ r.idx
      let mv := joinList "," (((nodes m).zip σ.ids).map fun p => p.2 ++ ":" ++ (if accepts re ls p.1 then "1" else "0"))
      let diffs := expectEq "match.routes" (joinList "," res) idsTok ++ expectEq "match.verdicts" mv verdictTok
      -- spec predicates on the implementation's own output
      let verdict (id : String) : Bool := implVerdicts.lookup id = some "1"
      let implTree := match σ.implTree with | some t => t | none => sh.toImplRoute []
      let expected := (matchP (fun r => verdict r.key) implTree).map (·.key)
      let pf1 : List Msg := if implIds.isEmpty then [.propfail "match_nonempty" "empty" s!"labels={lsTok} selected nothing"] else []
      let unmatched := implIds.filter fun id => (pathTo sh id).any (fun a => !verdict a)
      let pf2 : List Msg :=
        if !unmatched.isEmpty then
          [.propfail "child_selects_iff_child_matches" "selected-unmatched" s!"labels={lsTok} selected={idsTok} but rejected on the path of {unmatched}"]
        else if expected ≠ implIds ∧ !implIds.isEmpty then
          [.propfail "match_iff_selects" "first-match-continue" s!"labels={lsTok} selected={idsTok} documented={joinList "," expected} verdicts={verdictTok}"]
        else []
      let pf3 : List Msg := implIds.flatMap fun id =>
        match σ.impl.find? (·.id = id) with
        | some n => if σ.names.contains n.opts.receiver then [] else
            [Msg.propfail "every_selected_route_has_receiver" "no-receiver" s!"node={id} receiver={n.opts.receiver}"]
        | none => []
      -- the node verdicts themselves follow the four operators on the node's reported matchers
      let pf4 : List Msg := σ.impl.flatMap fun n =>
        if matchesAll re n.matchers ls = verdict n.id then [] else
          [Msg.propfail "accepts_newRoute" "matcher-semantics" s!"node={n.id} labels={lsTok} verdict={verdict n.id}"]
      -- coverage
      let t (b : Bool) (s : String) : List Msg := if b then [.tag s] else []
      let all := (nodes m).zip σ.ids
      let rootId := σ.ids.headD "?"
      let negAbsent := all.any fun p => p.1.matchers.any fun mm => (mm.op = .ne ∨ mm.op = .nre) ∧ (lookup ls mm.name).isNone
      let inner := res.any fun id => id ≠ rootId ∧ (all.any fun p => p.2 = id ∧ !p.1.routes.isEmpty)
      let tags := t (res = [rootId] ∧ all.length > 1) "match:root-fallback" ++ t (res.length > 1) "match:continue-multi" ++
        t inner "match:inner-node-self" ++ t negAbsent "match:negative-on-absent" ++
        t (res.length = 1 ∧ res ≠ [rootId]) "match:single-child"
      (σ, diffs ++ pf1 ++ pf2 ++ pf3 ++ pf4 ++ tags)
    | _, _ => (σ, [.diff "match" "no-tree" idsTok])
  | ["match", _], "error" :: _ => (σ, [.diff "match" "ok" "error"])
  | ["begin"], _ => (σ, [])
  | ["amtool", lsTok], [got, want] =>
    -- the real `amtool config routes test` binary against Route.Match on the same tree (both are the implementation:
    -- C07's "the receivers shown by the API, amtool and the dispatcher's actual groups agree")
    if got.startsWith "E" then (σ, [.diff "amtool.run" "receivers" got]) else
    (σ, (if got = want then [] else [Msg.propfail "three_consumers_agree" "amtool-vs-match"
          s!"labels={lsTok}: amtool config routes test prints [{got}], Route.Match selects [{want}] (one receiver per matched route, in order)"])
        ++ [.tag "amtool:binary"])
  | ["fact", which], [v] =>
    if v = "ok" then (σ, [.tag "fact:call-sites-pinned"])
    else (σ, [.propfail "three_consumers_agree" s!"callsite-{which}" s!"the {which} consumer no longer calls Match ∘ NewRoute as pinned"])
  | _, _ => (σ, [.diff "parse" "?" (" ".intercalate op)])

def engine : Engine St where
  init hdr := { names := match kv hdr "recv" with | some s => splitList "." s | none => [] }
  step := step

end Driver.Route
