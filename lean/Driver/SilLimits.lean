/-
  Engine `sillimits` (C18): replays the trace of a real `silence.Silences`
  configured with `Limits` on `AM.SilLimits` and evaluates the limit predicates
  on the implementation's own answers and listings.

  Silences are named by creation ordinal (`s0`, `s1`, …; the harness maps uuids).
    case <id> maxcount=<n> maxsize=<n> retention=<ns>
    set <now> <ref|-> <starts|-1> <ends> <m> <clen>
         -> ok <ref> <size> <storedsize> <dump> | limit-count <dump> | limit-size <size> <dump>
          | notfound <dump> | invalid <dump>
    expire <now> <ref> -> ok|notfound <dump>
    gc <now>           -> <n> <dump>
  dump = `ref,starts,ends,updated,m` sorted by ordinal, ';'-joined.
-/
import Driver.Util
import AM.Model.SilLimits

namespace Driver.SilLimits
open Driver AM AM.AList AM.SilLimits

structure St where
  cfg : Cfg := { maxCount := 0, maxSize := 0, retention := 0 }
  st : State := []
  next : Nat := 0
  prevDump : String := "-"

def ord (ref : String) : Nat := toNat! (String.ofList (ref.toList.drop 1))

def insertSorted (e : String × Sil) : List (String × Sil) → List (String × Sil)
  | [] => [e]
  | x :: xs => if ord e.1 < ord x.1 then e :: x :: xs else x :: insertSorted e xs

def dump (s : State) : String :=
  joinList ";" ((s.foldl (fun acc kv => insertSorted kv acc) []).map fun kv =>
    s!"{kv.1},{kv.2.starts},{kv.2.ends},{kv.2.updated},{kv.2.m}")

def count (d : String) : Nat := (splitList ";" d).length

def hasRef (d : String) (ref : String) : Bool := (splitList ";" d).any fun e => (e.splitOn ",").head? = some ref

def step (σ : St) (op obs : List String) : St × List Msg :=
  match op, obs with
  | ["set", now, ref, starts, ends, m, _clen], res :: rest =>
    let now := toInt! now
    let dmp := rest.getLastD "-"
    let size := match res, rest with
      | "ok", [_, sz, _, _] => toNat! sz
      | "limit-size", [sz, _] => toNat! sz
      | _, _ => 0
    let r : Req := { id := if ref = "-" then "" else ref, starts := toInt! starts, ends := toInt! ends, m := toNat! m }
    let newId := s!"s{σ.next}"
    let (st', out) := set σ.cfg σ.st now r newId size
    let (mres, next') := match out with
      | .ok id => (s!"ok {id}", if id = newId then σ.next + 1 else σ.next)
      | .notFound => ("notfound", σ.next)
      | .invalid => ("invalid", σ.next)
      | .limitCount => ("limit-count", σ.next)
      | .limitSize => ("limit-size", σ.next)
    let ires := match res, rest with
      | "ok", id :: _ => s!"ok {id}"
      | _, _ => res
    -- the implementation may have drawn a fresh id even when the model disagrees
    let next'' := match res, rest with
      | "ok", id :: _ => if id = newId then σ.next + 1 else next'
      | _, _ => next'
    let c0 := count σ.prevDump
    let c1 := count dmp
    let pf : List Msg :=
      (if σ.cfg.maxCount > 0 ∧ c1 > max c0 σ.cfg.maxCount then
         [Msg.propfail "count_le_max" "over-count" s!"stored={c1} before={c0} limit={σ.cfg.maxCount} at={now}"] else [])
      ++ (match res, rest with
          | "ok", [id, _, stsz, _] =>
            (if σ.cfg.maxSize > 0 ∧ toNat! stsz > σ.cfg.maxSize then
               [Msg.propfail "size_le_max" "oversize-stored" s!"id={id} stored-size={stsz} limit={σ.cfg.maxSize}"] else [])
            ++ (if !hasRef dmp id ∧ ¬ (toInt! ends + σ.cfg.retention < now) then
               [Msg.propfail "accepted_is_stored" "silent-drop" s!"id={id} accepted at={now} but not listed"] else [])
          | "limit-size", [sz, _] =>
            if ¬ (σ.cfg.maxSize > 0 ∧ toNat! sz > σ.cfg.maxSize) then
              [Msg.propfail "refusals_justified" "spurious-size" s!"size={sz} limit={σ.cfg.maxSize}"] else []
          | "limit-count", _ =>
            if ¬ (σ.cfg.maxCount > 0 ∧ c0 + 1 > σ.cfg.maxCount) then
              [Msg.propfail "refusals_justified" "spurious-count" s!"stored={c0} limit={σ.cfg.maxCount}"] else []
          | _, _ => [])
      ++ (if res ≠ "ok" ∧ dmp ≠ σ.prevDump then
            [Msg.propfail "rejected_op_changes_nothing" "reject-mutated" s!"answer={res} before={σ.prevDump} after={dmp}"] else [])
    let tags : List Msg :=
      (match out with
       | .ok id => if id = newId then (if ref = "-" then [.tag "set:create"] else [.tag "set:replace"]) else [.tag "set:update"]
       | .notFound => [.tag "set:notfound"]
       | .invalid => []
       | .limitCount => if ref = "-" then [.tag "set:limit-count"] else [.tag "set:limit-count-on-replace"]
       | .limitSize => if ref = "-" then [.tag "set:limit-size"] else [.tag "set:limit-size-on-edit"])
      ++ (if σ.cfg.maxCount > 0 ∧ σ.st.length = σ.cfg.maxCount ∧ ref ≠ "-" then [.tag "set:edit-at-limit"] else [])
    ({ σ with st := st', next := next'', prevDump := dmp },
      expectEq "set.res" mres ires ++ expectEq "set.dump" (dump st') dmp ++ pf ++ tags)
  | ["expire", now, ref], [res, dmp] =>
    let (st', ok) := expire σ.cfg σ.st (toInt! now) ref
    let pf := if count dmp > count σ.prevDump then
      [Msg.propfail "count_le_max" "expire-grew" s!"before={σ.prevDump} after={dmp}"] else []
    ({ σ with st := st', prevDump := dmp },
      expectEq "expire.res" (if ok then "ok" else "notfound") res ++ expectEq "expire.dump" (dump st') dmp ++ pf)
  | ["gc", now], [n, dmp] =>
    let st' := gc σ.cfg σ.st (toInt! now)
    let k := σ.st.length - st'.length
    ({ σ with st := st', prevDump := dmp },
      expectEq "gc.n" (toString k) n ++ expectEq "gc.dump" (dump st') dmp ++ (if k > 0 then [.tag "gc:removed"] else []))
  | _, _ => (σ, [.diff "parse" "?" (" ".intercalate op)])

def engine : Engine St where
  init hdr := { cfg := { maxCount := kvNat hdr "maxcount" 0, maxSize := kvNat hdr "maxsize" 0, retention := kvInt hdr "retention" 0 } }
  step := step

end Driver.SilLimits
