/-
  Engine `workers` (C14): replays the gated ingestion schedules of the harness
  on `AM.Workers` (repaired discipline: per-fingerprint worker queues, the owner
  of each alert comes with the case header) and evaluates
  `final_is_last_submitted` on the dispatcher's own group dump.

    case <id> workers=<N> owner=<alert>:<worker>,…
    put <now> <alert> <ver> <end>   -> <parked alert:ver,…>
    release <alert>:<ver>           -> <parked…> <groups alert:ver,…> | notparked
    groups                          -> <groups…>
    stress <pairs>                  -> <stale> <total>

  Header `load=1`: no dispatcher until `start` (dispatcher (re)start on a provider that already holds alerts):
    put … (before start)            -> -
    start                           -> <parked>                 the initial load parks at its first snapshot alert: ^alert:ver
    release ^                       -> <parked…> <groups>|loading
    lstress <n>                     -> <stale> <total>
  replayed on `AM.Workers.Load` with `concurrent = false` (the snapshot is routed before the workers start).
-/
import Driver.Util
import AM.Model.Workers

namespace Driver.Workers
open Driver AM.Workers

/-- alerts are named by strings in the trace; the model wants numbers. -/
def alertId (s : String) : Nat := s.toList.foldl (fun acc c => acc * 131 + c.toNat) 7

structure St where
  n : Nat := 2
  names : List (Nat × String) := []       -- model alert number ↦ trace name
  owner : List (Nat × Nat) := []          -- model alert number ↦ owning worker (from the header)
  m : State := init [] (fun _ => none)    -- the model state (AM.Workers, repaired discipline)
  parked : List Upd := []                 -- arrival order at the yield point (= heads of the worker queues)
  last : List (String × Nat) := []        -- last submitted version per alert (spec)
  implGroup : List (String × Nat) := []   -- previous group dump of the implementation
  load : Bool := false                    -- header `load=1`
  started : Bool := true                  -- a dispatcher exists
  snap : List Upd := []                   -- snapshot items the initial load has still to route (head = the parked one, once seen)
  snapVers : List (String × Nat) := []    -- the snapshot the current dispatcher started from

def St.ownerFn (σ : St) : Nat → Nat := fun f => (σ.owner.lookup f).getD 0
def St.nameOf (σ : St) (f : Nat) : String := (σ.names.lookup f).getD "?"
def St.key (σ : St) (u : Upd) : String := s!"{σ.nameOf u.fp}:{u.ver}"

def setKV (l : List (String × Nat)) (k : String) (v : Nat) : List (String × Nat) := (k, v) :: l.filter (·.1 ≠ k)

def parsePairs (s : String) : List (String × Nat) :=
  (splitList "," s).filterMap fun p =>
    match p.splitOn ":" with
    | [a, v] => some (a, toNat! v)
    | _ => none

def insStr (e : String) : List String → List String
  | [] => [e]
  | x :: xs => if e < x then e :: x :: xs else x :: insStr e xs

def showPairs (l : List (String × Nat)) : String :=
  joinList "," ((l.map fun (a, v) => s!"{a}:{v}").foldl (fun acc e => insStr e acc) [])

/-- the model's group content for the alerts of the case. -/
def St.groupPairs (σ : St) : List (String × Nat) :=
  σ.names.filterMap fun (f, nm) => (σ.m.group f).map fun u => (nm, u.ver)

/-- a worker whose queue head is not yet parked has just received it: it parks (arrival order). -/
def St.repark (σ : St) : St :=
  let heads := (List.range σ.n).filterMap fun w => (σ.m.q w).head?
  let kept := σ.parked.filter fun u => heads.contains u
  { σ with parked := kept ++ heads.filter fun u => !kept.contains u }

/-- publish on the channel; `run` hands it to the owner's queue (`dist`) — unless the dispatcher is still routing
    its snapshot: then the distributor does not exist yet and the update waits in the subscription channel. -/
def submit (σ : St) (u : Upd) : St :=
  let m0 : State := { σ.m with chan := σ.m.chan ++ [u] }
  match Load.step false σ.ownerFn { snap := σ.snap, w := m0 } (.work .dist) with
  | some L => ({ σ with m := L.w }).repark
  | none => { σ with m := m0 }

/-- the snapshot has been routed: `run(it)` starts, the distributor empties the subscription channel. -/
partial def distAll (σ : St) : St :=
  match Load.step false σ.ownerFn { snap := σ.snap, w := σ.m } (.work .dist) with
  | some L => distAll { σ with m := L.w }
  | none => σ.repark

/-- the initial load routes the snapshot alert it is parked at. -/
def loadOne (σ : St) : St :=
  match Load.step false σ.ownerFn { snap := σ.snap, w := σ.m } .load with
  | some L => let σ' := { σ with m := L.w, snap := L.snap }; if L.snap.isEmpty then distAll σ' else σ'
  | none => σ

/-- the worker holding `u` (the owner of its alert) applies it, then receives the next of its queue. -/
def apply (σ : St) (u : Upd) : St :=
  match AM.Workers.step σ.ownerFn σ.m (.apply (σ.ownerFn u.fp)) with
  | some m1 => ({ σ with m := m1 }).repark
  | none => σ

partial def drain (σ : St) : St :=
  match σ.parked with
  | u :: _ =>
    let σ' := apply σ u
    if σ'.parked.length < σ.parked.length ∨ σ'.parked.head? ≠ some u then drain σ' else σ'
  | [] => σ

def sortStrs (l : List String) : List String := l.foldl (fun acc e => insStr e acc) []

/-- parked goroutines: the initial load (at the head of the remaining snapshot) and the workers. In `load` cases
    several workers can reach the yield point in one instant: the list is compared as a set. -/
def showParked (σ : St) : String :=
  let ws := σ.parked.map σ.key
  if σ.load then joinList "," (sortStrs ((match σ.snap.head? with | some u => ["^" ++ σ.key u] | none => []) ++ ws))
  else joinList "," ws

def normParked (σ : St) (pk : String) : String :=
  if σ.load then joinList "," (sortStrs (splitList "," pk)) else pk

/-- the snapshot is a map listing: its order is only known when an item shows up parked. -/
def learnHead (σ : St) (pk : String) : St :=
  match (splitList "," pk).find? (·.startsWith "^") with
  | none => σ
  | some k =>
    match σ.snap.find? (fun u => "^" ++ σ.key u = k) with
    | some u => { σ with snap := u :: σ.snap.filter (· ≠ u) }
    | none => σ

def St.cls (σ : St) (a : String) (stale : Nat) : String :=
  if σ.load ∧ σ.snapVers.any (fun p => p.1 = a ∧ p.2 = stale) then "initial-load-reorder" else "reorder"

/-- `final_is_last_submitted` / "an older version never overwrites a newer one" on two consecutive group dumps. -/
def checkMonotone (σ : St) (prev cur : List (String × Nat)) : List Msg :=
  cur.filterMap fun (a, v) =>
    match prev.lookup a with
    | some p => if v < p then some (.propfail "final_is_last_submitted" (σ.cls a v) s!"alert={a}: version {p} overwritten by older version {v}") else none
    | none => none

def step (σ : St) (op obs : List String) : St × List Msg :=
  match op, obs with
  | ["put", _now, a, ver, _end], [pk] =>
    let u : Upd := { fp := alertId a, ver := toNat! ver }
    if !σ.started then
      -- no dispatcher: the provider stores it, nothing can park
      ({ σ with last := setKV σ.last a u.ver }, expectEq "put.parked" "-" pk ++ [.tag "load:provider-filled-before-start"])
    else
    let loading := !σ.snap.isEmpty
    let σ := submit { σ with last := setKV σ.last a u.ver } u
    (σ, expectEq "put.parked" (showParked σ) (normParked σ pk) ++ (if σ.parked.length ≥ 2 then [.tag "two-updates-in-flight"] else [])
        ++ (if loading then [.tag (if σ.snapVers.any (·.1 = a) then "load:update-of-snapshot-alert-while-loading" else "load:new-alert-while-loading")] else []))
  | ["start"], [pk] =>
    -- a running dispatcher is drained and stopped; the new one starts from what the provider holds
    let restart := σ.started
    let snap : List Upd := σ.last.reverse.map fun (a, v) => { fp := alertId a, ver := v }
    let σ := learnHead { σ with started := true, m := init [] (fun _ => none), parked := [], implGroup := [], snap, snapVers := σ.last } pk
    let σ := if σ.snap.isEmpty then distAll σ else σ
    (σ, expectEq "start.parked" (showParked σ) (normParked σ pk) ++ [.tag (if restart then "load:restart" else "load:start")]
        ++ (if snap.length ≥ 2 then [.tag "load:several-snapshot-alerts"] else []))
  | ["release", "^"], ["notparked"] =>
    (σ, expectEq "release" (if σ.snap.isEmpty then "notparked" else "parked") "notparked")
  | ["release", "^"], [pk, grp] =>
    if σ.snap.isEmpty then (σ, [.diff "release" "notparked" pk]) else
    let waiting := σ.m.chan.length
    let σ' := learnHead (loadOne σ) pk
    let cur := if grp = "loading" then σ.implGroup else parsePairs grp
    let mg := if σ'.snap.isEmpty then showPairs σ'.groupPairs else "loading"
    ({ σ' with implGroup := cur },
      expectEq "release.parked" (showParked σ') (normParked σ' pk) ++ expectEq "release.groups" mg grp
      -- C06: the groups API never shows a half-built partition: while the dispatcher is still routing the alerts it
      -- found in the provider, Groups() waits (AM.Workers.Load.no_worker_step_while_loading: nothing else moves either)
      ++ (if mg = "loading" ∧ grp ≠ "loading" then
            [Msg.propfail "groups_api_is_partition" "partial-during-load"
              s!"the dispatcher has routed {σ'.groupPairs.length} of the alerts it found in the provider ({σ'.snap.length} to go) and Groups() already answers: {grp}"]
          else [])
      ++ checkMonotone σ σ.implGroup cur ++ [.tag "load:snapshot-alert-routed"]
      ++ (if σ'.snap.isEmpty ∧ waiting > 0 then [.tag "load:done-with-updates-waiting"] else []))
  | ["release", key], ["notparked"] =>
    let m := if σ.parked.any (fun u => σ.key u = key) then "parked" else "notparked"
    (σ, expectEq "release" m "notparked")
  | ["release", key], [pk, grp] =>
    match σ.parked.find? (fun u => σ.key u = key) with
    | none =>
      -- the implementation released something the model does not have parked: keep watching its group dumps
      let cur := if grp = "loading" then σ.implGroup else parsePairs grp
      ({ σ with implGroup := cur }, [.diff "release" "notparked" pk] ++ checkMonotone σ σ.implGroup cur)
    | some it =>
      let older := σ.parked.any fun o => o.fp = it.fp && o.ver < it.ver
      let σ' := apply σ it
      let cur := if grp = "loading" then σ.implGroup else parsePairs grp
      ({ σ' with implGroup := cur },
        expectEq "release.parked" (showParked σ') (normParked σ' pk) ++ expectEq "release.groups" (showPairs σ'.groupPairs) grp
        ++ checkMonotone σ σ.implGroup cur ++ (if older then [.tag "released-newer-first"] else [.tag "release"]))
  | ["procs", _], [pk] =>
    -- a change of GOMAXPROCS at run time is no event of the model: the owner of an alert is fixed when the dispatcher starts
    (σ, expectEq "procs.parked" (showParked σ) (normParked σ pk) ++ [.tag "procs:changed-at-runtime"])
  | ["groups"], [grp] =>
    if !σ.started then (σ, expectEq "groups" "loading" grp) else
    let rec loadRest (σ : St) (n : Nat) : St := match n with
      | 0 => σ
      | n + 1 => if σ.snap.isEmpty then σ else loadRest (loadOne σ) n
    let σ' := drain (loadRest σ σ.snap.length)
    let cur := parsePairs grp
    let pf := σ.last.filterMap fun (a, v) =>
      match cur.lookup a with
      | some g => if g = v then none else some (Msg.propfail "final_is_last_submitted" (σ.cls a g) s!"alert={a}: group holds version {g}, last submitted is {v}")
      | none => some (Msg.propfail "final_is_last_submitted" "lost" s!"alert={a}: no group holds it, last submitted is {v}")
    ({ σ' with implGroup := cur }, expectEq "groups" (showPairs σ'.groupPairs) grp ++ pf ++ [.tag "final:checked"])
  | ["lstress", _n], [stale, total] =>
    (σ, (if stale = "0" then [] else [.propfail "final_is_last_submitted" "initial-load-reorder" s!"{stale} of {total} alerts that resolved while the dispatcher was loading them are left firing in their group"])
        ++ [.tag "lstress:checked"])
  | ["stress", _n], [stale, total] =>
    (σ, (if stale = "0" then [] else [.propfail "final_is_last_submitted" "reorder-stress" s!"{stale} of {total} fire→resolve pairs left the older (firing) version in the group"])
        ++ [.tag "stress:checked"])
  | _, _ => (σ, [.diff "parse" "?" (" ".intercalate op)])

def engine : Engine St where
  init hdr :=
    let ow := parsePairs ((kv hdr "owner").getD "-")
    { load := kv hdr "load" = some "1", started := kv hdr "load" ≠ some "1", n := kvNat hdr "workers" 2, names := ow.map fun (a, _) => (alertId a, a), owner := ow.map fun (a, w) => (alertId a, w) }
  step := step

end Driver.Workers
