/-
  Engine `workers` (C14): replays the gated ingestion schedules of the harness
  on `AM.Workers` (repaired discipline: per-fingerprint worker queues, the owner
  of each alert comes with the case header) and evaluates
  `final_is_last_submitted` on the dispatcher's own group dump.

    case <id> workers=<N> owner=<alert>:<worker>,…
    put <now> <alert> <ver> <end>   -> <parked alert:ver,…>
    release <alert>:<ver>           -> <parked…> <groups alert:ver,…> | notparked
    groups                          -> <groups…>
    stress <pairs>                  -> <stale> <total>
-/
import Driver.Util
import AM.Model.Workers

namespace Driver.Workers
open Driver AM.Workers

/-- alerts are named by strings in the trace; the model wants numbers. -/
def alertId (s : String) : Nat := s.toList.foldl (fun acc c => acc * 131 + c.toNat) 7

structure St where
  n : Nat := 2
  names : List (Nat × String) := []       -- model alert number ↦ trace name
  owner : List (Nat × Nat) := []          -- model alert number ↦ owning worker (from the header)
  m : State := init [] (fun _ => none)    -- the model state (AM.Workers, repaired discipline)
  parked : List Upd := []                 -- arrival order at the yield point (= heads of the worker queues)
  last : List (String × Nat) := []        -- last submitted version per alert (spec)
  implGroup : List (String × Nat) := []   -- previous group dump of the implementation

def St.ownerFn (σ : St) : Nat → Nat := fun f => (σ.owner.lookup f).getD 0
def St.nameOf (σ : St) (f : Nat) : String := (σ.names.lookup f).getD "?"
def St.key (σ : St) (u : Upd) : String := s!"{σ.nameOf u.fp}:{u.ver}"

def setKV (l : List (String × Nat)) (k : String) (v : Nat) : List (String × Nat) := (k, v) :: l.filter (·.1 ≠ k)

def parsePairs (s : String) : List (String × Nat) :=
  (splitList "," s).filterMap fun p =>
    match p.splitOn ":" with
    | [a, v] => some (a, toNat! v)
    | _ => none

def insStr (e : String) : List String → List String
  | [] => [e]
  | x :: xs => if e < x then e :: x :: xs else x :: insStr e xs

def showPairs (l : List (String × Nat)) : String :=
  joinList "," ((l.map fun (a, v) => s!"{a}:{v}").foldl (fun acc e => insStr e acc) [])

/-- the model's group content for the alerts of the case. -/
def St.groupPairs (σ : St) : List (String × Nat) :=
  σ.names.filterMap fun (f, nm) => (σ.m.group f).map fun u => (nm, u.ver)

/-- a worker whose queue head is not yet parked has just received it: it parks (arrival order). -/
def St.repark (σ : St) : St :=
  let heads := (List.range σ.n).filterMap fun w => (σ.m.q w).head?
  let kept := σ.parked.filter fun u => heads.contains u
  { σ with parked := kept ++ heads.filter fun u => !kept.contains u }

/-- publish on the channel; `run` hands it to the owner's queue (`dist`). -/
def submit (σ : St) (u : Upd) : St :=
  let m0 : State := { σ.m with chan := σ.m.chan ++ [u] }
  match AM.Workers.step σ.ownerFn m0 .dist with
  | some m1 => ({ σ with m := m1 }).repark
  | none => σ

/-- the worker holding `u` (the owner of its alert) applies it, then receives the next of its queue. -/
def apply (σ : St) (u : Upd) : St :=
  match AM.Workers.step σ.ownerFn σ.m (.apply (σ.ownerFn u.fp)) with
  | some m1 => ({ σ with m := m1 }).repark
  | none => σ

partial def drain (σ : St) : St :=
  match σ.parked with
  | u :: _ =>
    let σ' := apply σ u
    if σ'.parked.length < σ.parked.length ∨ σ'.parked.head? ≠ some u then drain σ' else σ'
  | [] => σ

def showParked (σ : St) : String := joinList "," (σ.parked.map σ.key)

/-- `final_is_last_submitted` / "an older version never overwrites a newer one" on two consecutive group dumps. -/
def checkMonotone (prev cur : List (String × Nat)) : List Msg :=
  cur.filterMap fun (a, v) =>
    match prev.lookup a with
    | some p => if v < p then some (.propfail "final_is_last_submitted" "reorder" s!"alert={a}: version {p} overwritten by older version {v}") else none
    | none => none

def step (σ : St) (op obs : List String) : St × List Msg :=
  match op, obs with
  | ["put", _now, a, ver, _end], [pk] =>
    let u : Upd := { fp := alertId a, ver := toNat! ver }
    let σ := submit { σ with last := setKV σ.last a u.ver } u
    (σ, expectEq "put.parked" (showParked σ) pk ++ (if σ.parked.length ≥ 2 then [.tag "two-updates-in-flight"] else []))
  | ["release", key], ["notparked"] =>
    let m := if σ.parked.any (fun u => σ.key u = key) then "parked" else "notparked"
    (σ, expectEq "release" m "notparked")
  | ["release", key], [pk, grp] =>
    match σ.parked.find? (fun u => σ.key u = key) with
    | none => (σ, [.diff "release" "notparked" pk])
    | some it =>
      let older := σ.parked.any fun o => o.fp = it.fp && o.ver < it.ver
      let σ' := apply σ it
      let cur := parsePairs grp
      ({ σ' with implGroup := cur },
        expectEq "release.parked" (showParked σ') pk ++ expectEq "release.groups" (showPairs σ'.groupPairs) grp
        ++ checkMonotone σ.implGroup cur ++ (if older then [.tag "released-newer-first"] else [.tag "release"]))
  | ["groups"], [grp] =>
    let σ' := drain σ
    let cur := parsePairs grp
    let pf := σ.last.filterMap fun (a, v) =>
      match cur.lookup a with
      | some g => if g = v then none else some (Msg.propfail "final_is_last_submitted" "reorder" s!"alert={a}: group holds version {g}, last submitted is {v}")
      | none => some (Msg.propfail "final_is_last_submitted" "lost" s!"alert={a}: no group holds it, last submitted is {v}")
    ({ σ' with implGroup := cur }, expectEq "groups" (showPairs σ'.groupPairs) grp ++ pf ++ [.tag "final:checked"])
  | ["stress", _n], [stale, total] =>
    (σ, (if stale = "0" then [] else [.propfail "final_is_last_submitted" "reorder-stress" s!"{stale} of {total} fire→resolve pairs left the older (firing) version in the group"])
        ++ [.tag "stress:checked"])
  | _, _ => (σ, [.diff "parse" "?" (" ".intercalate op)])

def engine : Engine St where
  init hdr :=
    let ow := parsePairs ((kv hdr "owner").getD "-")
    { n := kvNat hdr "workers" 2, names := ow.map fun (a, _) => (alertId a, a), owner := ow.map fun (a, w) => (alertId a, w) }
  step := step

end Driver.Workers
